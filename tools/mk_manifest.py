#!/usr/bin/env python3
"""Writes MANIFEST.json from the table below (run by hand after editing; never at check time)."""
import json, os
V = os.path.dirname(os.path.dirname(os.path.abspath(__file__)))

NOTE = ("Trusted: Lean 4.33 kernel; axioms propext/Classical.choice/Quot.sound only (audited by #print axioms each run); "
        "the specification files lean/PySMT/Core + lean/PySMT/Spec; tools/extract.py; the correspondence harness. "
        "lean/PySMT/Impl is a hand-written model whose agreement with /repo is tested on every run, not proved. ")

# id -> dict(text=, note=, technique=, design=)   (claimed properties)
CLAIMED = {
 "C03": dict(
  text="Spec/HasType.lean states the SMT-LIB sorting discipline independently of pySMT (inductive HasType/HasTypes with a computable characterisation sortOf); Lean theorems: typeOf_unique, hasType_iff_sortOf (full); typeOf_sound_partial (the model of SimpleTypeChecker accepts only well-sorted terms, under the decidable exclusion noF06 — arity/payload shapes the checker does not look at, Pow on equal non-numeric sorts, bound-variable lists; one decide-d witness per exclusion shows the unrestricted statement false), typeOf_complete_partial (under rotInRange: pySMT deliberately rejects rotate k > width), typeOf_eq_sortOf_partial, created_all_wt (invariant over EVERY history of create_node calls: whatever is returned is well-typed), created_all_hasType_partial, createNode_rejects_illsorted_partial, createNode_accepts_partial. Tied to the code EXHAUSTIVELY over grids: create_node on all 66 node types x every argument-sort tuple over a 14-sort universe up to arity 3 (4-5 for n-ary) x payload corners, and every FormulaManager constructor x sort tuples x value corners, each outcome compared with the Lean typeOf/wt; searched with an independent Python implementation of the sorting rules (cross-checked against Lean sortOf on every term) and on the outputs of eight transformations.",
  note="Model boundary (counted, listed): raw create_node calls with wrong arity/payload shape that no constructor produces. Known findings F05a-c, F06e, F41-F44 are matched on operator + argument sorts.",
  technique="Lean 4 soundness/completeness of the type-checker model against an independent sorting relation + exhaustive operator x sort-tuple grid"),
 "C06": dict(
  text="Impl/Mk.lean models every FormulaManager constructor (primitive and derived) exactly as formula.py rewrites it; the infix/method dispatch of fnode.py is REGENERATED into Gen/Infix.lean by tools/gen_infix.py (ast translation of all 70 methods) on every run. 82 Lean theorems, one _denotes theorem per derived form, for ALL arities, widths and argument values (list induction; core BitVec lemmas at arbitrary width, no bv_decide): ge/gt/ne/xor/equalsOrIff, atMostOne/exactlyOne/allDifferent, min/max (+BV signed/unsigned; the halving recursion proved once for an abstract total preorder), plus/times/div/toReal/abs, sbv_denotes + sbv_refused_iff, bvNary/bvConcat, ugt/uge/sgt/sge, nand/nor/xnor, bvsmod_std/bvsmod_core/bvsmod_arith (toInt = fmod), repeat, rotate/extend/extract/comp/toNatural, shiftInt_denotes_partial (0 <= k < 2^w; outside that BV() refuses: shiftInt_refused), infix_table_conforms (decide over the regenerated table), manager_denotes, infix_table_denotes and per-dunder theorems. Tied to the code by literal comparison of the built formula (91 constructors, 67 infix methods, arities 0-6, ill-sorted operands, literals in/out of range) and searched by evaluating the implementation-built formula with the Lean reference semantics against hand-written Python oracles: exhaustive for Boolean arguments up to arity 6 and bit-vectors up to width 3 (quick) / 4 (thorough).",
  note="Infix notation assumed enabled; Symbol/FreshSymbol/normalize belong to C04.",
  technique="Lean 4 denotation proofs per derived constructor + regenerated infix dispatch table + exhaustive small-domain evaluation"),
 "C07": dict(
  text="Spec/Sexp.lean (standard-conformant SMT-LIB 2.6 lexer/reader/renderer) and Spec/SmtlibText.lean (the standard's elaboration readStd of text to terms: parallel let, binders, indexed identifiers, chainable/assoc/pairwise operators, numeral typing by logic, strictly sorted; command-level runStd rejecting use-before-declaration and re-declaration) are written from the standard, not from pySMT. Impl/Printer.lean models SmtPrinter / SmtDagPrinter / quote / as_smtlib / smtlibscript_from_formula; the operator spelling table is REGENERATED from printers.py by tools/gen_printerops.py. Theorems: printerOps_std (every spelling in the regenerated table is the standard's name, minus the listed known findings), sexp_tokens_rt, render_read (character level, whole lexicon), quote_std, read_toSexp (readStd (toSexp t) = t up to array-value/store-chain unfolding — the strong form used by C09), print_sound_partial (needs avOrdered; parametric sorts excluded), decls_before_use_partial (runStd accepts scriptOfFormula; every sort and free symbol declared exactly once before the assert), printDag_sound_partial (let chain over fresh .def_k names; the memo invariant is checked by K/S, not proved). Tied to the code by reading the implementation's text (tree, DAG, script serialisation, write_smtlib) with the Lean standard reader and comparing S-expressions with the model; searched by evaluating the implementation's text with readStd + eval under sampled interpretations and by running serialised scripts through runStd.",
  note="Known findings F10 (integer division printed '/'), F11 (str.to.int / int.to.str), F44 (pow), F45 (names containing | or backslash), F46 (non-ASCII string literals) are matched on the offending token.",
  technique="Lean 4 read-after-print proofs against an independent standard reader + regenerated spelling table + differential S-expression comparison"),
 "C01": dict(
  text="Lean model of the simplifier as a rule table (Impl/Simp/*: one rule per Simplifier.walk_*, same case order and guards) with a generic assembly theorem simpWith_correct: if every table entry is locally correct (RuleOK: type, value under every well-formed interpretation that evaluates no division by zero, free symbols) then simp preserves type, well-formedness, value and introduces no symbol — simp_type_partial, simp_wf_partial, simp_sound_partial, simp_div0_partial, simp_fv_subset_partial, for every term in the modelled fragment (inFrag; the operator families whose RuleOK proofs are complete — listed by fragment_ops and recorded in the evidence on every run; hence _partial), simp_any_order_partial (holds for every re-ordering of and/or/times results, which covers the implementation's set-iteration / node-id orders), eval_sort (eval is type-sound on all 66 operators). Tied to the code three ways on every run: K1 replays every walk_x(formula, args) call of the real simplifier on the Lean rule with the implementation's own arguments; K2 compares whole-formula results; S checks the property itself on the real simplifier's output with the Lean reference semantics (type, fv, value under sampled interpretations) over a rule-directed stream (every operator x guard-derived shape classes x widths) and a random stream with quantifiers and UF.",
  note="pow and algebraic constants are outside the semantics (known findings F05a/b). Operators outside inFrag are covered by K1/K2/S only. Arrays: finitely supported interpretations; reals are rationals; Int/Real quantifiers executed over small finite domains (proved for every non-empty domain).",
  technique="Lean 4 per-rule soundness proofs + generic assembly by structural induction; per-call differential replay; semantic search with Lean evaluator"),
 "C02": dict(
  text="Lean theorems about Impl/Model.getValue (= simp after substitution of the assignment, with the documented completion defaults): getValue_sound_partial / noCompletion_sound_partial (a returned constant has the formula's type and is its value under every well-formed interpretation extending the assignment with no division by zero), completion_defaults, fold_complete_partial / rule_folds (every modelled rule maps constant arguments to a constant), for quantifier-free formulas in the modelled simplifier fragment (hence _partial). Tied to the code by comparing EagerModel.get_value / satisfies on the real library with the Lean reference evaluator eval on type-directed random formulas of every sort with total and partial assignments and both completion modes, and EXHAUSTIVELY for every bit-vector operator on every operand value at widths 1-3 (quick) / 1-4 (thorough), plus an end-to-end comparison with Model.getValue (K3, run inside the C01 check).",
  note="Equality between arrays over a finite index sort is compared in canonical form (Val.normArr). Without completion a partial assignment either raises or is compared against one sampled completion.",
  technique="Lean 4 proofs on the evaluator model + exhaustive/sampled differential evaluation against the Lean reference semantics"),
 "C04": dict(
  text="Lean theorems over EVERY reachable manager state (induction over arbitrary histories of constructor programs, incl. failing ones): table_inj, table_fun, id_eq_iff_struct_eq, create_same_iff_struct (build t1, run any program, build t2: same id iff t1 = t2), recreate_existing, const_spelling / const_spelling_bv / const_spelling_sbv (every numeric spelling with the same denotation yields the same node; Python's cross-type key equality 1 == 1.0 == True == Fraction(1) is modelled explicitly), const_validation_history_independent, accessors_faithful, structure_stable, array_sorted + array_get_correct (binary search = lookup with default under the invariant mkArray establishes), rebuild_id (IdentityDagWalker rebuild creates nothing), dag_owned, normalize_copy_partial (copy into a second manager has the source tree and consists of target nodes; array values excluded: known finding F60). Tied to the code by random two-environment construction histories (all 66 node types, every spelling, replays through alternative routes, normalize in both directions) compared node table by node table with the model, and searched with an independent blueprint term algebra (structure <-> object bijection per environment, accessor faithfulness, copies share nothing).",
  note="CPython id() is an explicit address parameter of the model; dict lookup on FNodeContent realising content equality relies on FNode.__eq__ = identity / __hash__ = node id (trusted, exercised by K).",
  technique="Lean 4 invariant proofs over operation histories (hash-consing table) + differential histories"),
 "C05": dict(
  text="Lean theorems for all terms, all term-keyed maps and all interpretations: substMG_eq_spec / substMS_eq_spec (the model of MGSubstituter / MSSubstituter equals the independent top-down / bottom-up specification functions), bound_untouched, keys_not_free_untouched, subst_empty; subst_lemma_mg_partial / subst_lemma_ms_partial (eval I (subst s t) = eval (I updated with the replacement values) t under the decidable NoCapture proviso), subst_type_partial, interp_lemma_partial (function interpretations). _partial because array values with assigned pairs are excluded (ArrOK) and the MS lemma needs MSSafe (without it the statement is false of the documented most-specific strategy: known finding F50, witnessed in Lean and on the code). Tied to the code by literal comparison of wire encodings of the real substituters' results with the model (both strategies, both entry points, function interpretations), and searched semantically (value under updated interpretations via the Lean evaluator) and against Python transcriptions of the docstring specifications.",
  note="The model is the recursive function; that the memoised DAG walk computes it is covered by C14/C20's walker theorems and by K on shared sub-DAGs.",
  technique="Lean 4 substitution lemma by structural induction + specification equality + differential run"),
 "C11": dict(
  text="Lean theorems for every quantifier-free term on which convert answers: cnf_shape, cnf_complete (a satisfying interpretation extended on the definition symbols by k_g := value of g satisfies the CNF and agrees with I on the input's symbols), cnf_sound (any interpretation satisfying the CNF satisfies the input), the same triple for the polarity encoding (polCnf_*), and ack_shape / ack_complete / ack_sound for Ackermannization (functions recovered from the fresh constants) — i.e. exactly the property's model-by-model equisatisfiability, both directions; keys_fresh / consts_fresh discharge freshness for the model of new_fresh_symbol. The simplifier used for negating literals enters as hypotheses SimpSound/SimpSym/SimpShape (what C01 proves). Tied to the code by comparing clause sets as sets of sets after renaming definition variables along the sub-formula map, and searched by ENUMERATING all values of up to 16 auxiliary symbols per sampled interpretation in both directions with the Lean evaluator.",
  note="Known finding F51 (shape only): the negative literal of a Boolean array read that folds to a non-atom. Formulas with more than 16 auxiliary symbols are counted and skipped by S.",
  technique="Lean 4 Tseitin/polarity/Ackermann equisatisfiability proofs + exhaustive auxiliary-variable enumeration"),
 "C12": dict(
  text="Lean theorems for every well-typed term (none partial): fv_eq_def, coincidence / value_depends_on_reported_fv (the value depends only on the symbols reported free), atoms_eq_def, atoms_theory_term, atoms_determine / atoms_truth_function (for a QF formula the value is a function skelEval of the reported atoms' truth values), qf_iff, types_eq_def / types_nodup / types_order / expand_types_spec, size_*_eq_def for all six measures, operators_order (operator classes regenerated from pysmt/operators.py by tools/gen_operators.py; renumbering breaks the build). Tied to the code by comparing the real oracles with the model as canonical lists, and searched with direct structural definitions plus semantic dependence tests through the Lean evaluator (flip a symbol not reported free; perturb an interpretation while keeping all reported atoms' truth values).",
  note="get_types is compared as a set (iteration order of an intermediate frozenset is not modelled).",
  technique="Lean 4 structural-induction proofs (coincidence lemma, atom skeleton) + regenerated operator classes + differential run"),
 "C13": dict(
  text="The ordering/selection code of pysmt/logics.py is TRANSLATED to Lean on every run (tools/gen_logics.py: ast translation of Theory.__le__/combine/set_*/copy, Logic.__le__/__lt__/__eq__, most_generic_logic, get_closer_logic into Gen/TheoryOrder.lean; the 79-logic table into Gen/Logics.lean) and the theorems are re-checked against what the code says now: theory_le_refl/trans/antisymm over all 2^12 theories, combine_ub / combine_ub_iff / combine_wf, logic_le_preorder, logic_le_antisymm_mod_name, table_wf / table_no_twins / table_antisymm_mod_name / table_names_unique / detected_logics_are_listed (decide +kernel over the regenerated table), closer_spec / closer_covers / closer_none_iff / closer_total / closer_pysmt_* / closer_smtlib_spec / most_generic_spec for arbitrary supported lists, oracle_wf; detect_covers_partial / detect_logic_covers_partial for the intrinsic features (hand model of TheoryOracle). A differential run validates the translator (all table pairs x six relations, rows of the 4096^2 raw-theory matrix, selection cases, detection on generated formulas); a pure-Python search (works with a broken Lean build) brute-forces the order axioms over all triples, the combine bound, the selection specs and detection against an independent feature extractor.",
  note="Known finding F45: combine is not an upper bound for constructible but ill-formed theories (difference flag without arithmetic flag); proved exactly by combine_ub_iff. detect_covers for operand-implied features is checked by S, not proved.",
  technique="Python->Lean translator (regenerated model) + Lean 4 proofs incl. decide +kernel over the regenerated table + differential validation"),
 "C16": dict(
  text="Lean theorems over ALL legal command sequences (induction / simulation, no bound): script_refines_stack and goals_refine (get_last_formula's replay loop with its five parallel structures returns exactly the assertions and goals live under the SMT-LIB assertion-stack spec), strict_ok/strict_live (get_strict_formula), track_refines_stack (IncrementalTrackingSolver's assertion list after every step = live assertions), placement_sufficient + oneshot_restores (is_sat/is_valid/is_unsat/solve-with-assumptions leave the list as found whenever every state-changing entry point clears the pending pop) and placement_table, decided over a table of @clear_pending_pop placements REGENERATED from /repo's solver classes by tools/gen_pendingpop.py on every run (removing a decorator breaks the proof). Tied to the code by a differential run of the Lean models against SmtLibScript / a concrete IncrementalTrackingSolver subclass on all legal sequences up to a length bound plus sampled longer ones, and searched against the spec directly.",
  note="Formulas and goals are opaque ids in the model. Native solver wrappers are covered only through the regenerated decorator-placement table, not executed.",
  technique="Lean 4 refinement proof (assertion-stack spec) + regenerated decorator table + differential run"),
 "C17": dict(
  text="Lean theorems by induction over ALL API call sequences and all solver oracles: replies_in_sync, verdict_faithful, shortcuts_negate (unconditional, any solver process); stream_legal_partial, decl_mirror_partial, assertions_mirror_partial, solve_truth_partial, is_sat_truth_partial, model_total_partial (the command stream emitted by the model of the repaired SmtLibSolver is accepted by the strict SMT-LIB front-end spec, bookkeeping mirrors the solver's scopes level by level, get_model covers every live symbol) under LegalRun = API preconditions + the exclusion of known finding F36 (hence _partial; the unrestricted statement is refuted in Lean by the F36 witness). Tied to the code by driving the real SmtLibSolver (registered through the factory) against harness/refsolver.py, a strict reference solver process that rejects illegal streams, comparing the byte stream token-wise with the model, and by comparing refsolver with the Lean StrictSolver on random streams.",
  note="Function-typed symbols, print_model, named assertions, solve(assumptions) and non-incremental mode are not modelled. refsolver.py decides by exhaustive search over small finite domains.",
  technique="Lean 4 invariant proofs over call sequences + strict reference solver process + differential stream comparison"),
 "C18": dict(
  text="Lean theorems for an ARBITRARY satisfiability oracle satisfying OracleSpec (returns a model iff one exists; may answer differently on every call), arbitrary possibly infinite feasible sets with attained optimum, both strategies (linear, binary) and both mix-ins (assumption-based, incremental): search_optimal/search_none_iff/search_restores/casts_in_range/search_terminates (min/max x Int/unsigned/signed BV), maxsmt_opt, minmax_opt, maxmin_opt, boxed_opt, lexi_opt, pareto_front (yielded vectors are exactly the Pareto front, each once, solver restored) and their termination theorems; all carry the hypothesis `supported` (known finding F24b: KeyError for an Int objective mentioning bit-vectors) and are therefore named _partial; the unrestricted restore statement is refuted in Lean. Tied to the code by running the real SUAOptimizerMixin / IncrementalOptimizerMixin over an enumerating solver (harness/brute.py) and replaying the same oracle answers through the Lean model event by event (push/pop/assert/solve with full constraint lists, pivots, blocking clauses), plus OptSearchInterval method by method on a bound grid; searched against plain enumeration of the optimum / lexicographic optimum / Pareto front.",
  note="Real-valued objectives are not modelled (the property excludes bisection over reals); real MaxSMT weights only with the linear strategy. Pareto termination assumes finitely many feasible cost vectors.",
  technique="Lean 4 proofs of the search loops against an abstract oracle + step-by-step differential replay"),
 "C19": dict(
  text="Lean theorems as inductive invariants over EVERY reachable state of a transition system modelling portfolio.py (any number of members, any per-member behaviour answer/raise/unknown/silent exit, every interleaving, repeated solve/get_model/push/pop cycles): verdict_in_answers, verdict_is_common, failures_ignored, no_deadlock, solve_terminates, all_fail_error, outcome_allowed/allowed_reachable (the closed-form outcome set is exact), isuccs_iff; serve_from_winner_partial, query_answered_partial, losers_dead_partial, model_satisfies_partial need the explicit OS-level hypothesis killAtomic (a terminated member cannot consume a later control message), which killAtomic_needed proves necessary. Tied to the code set-valued: the real Portfolio with 2-4 harness-defined member solver processes (delays incl. near-ties, failure modes, schedule perturbation patched into is_alive/terminate) must produce an outcome inside the model's allowed set, and the model/values obtained afterwards must satisfy the assertions.",
  note="PARTIAL by nature: the theorem covers all schedules of the MODEL; schedules of the real system are sampled, and the atomicity assumptions A1-A4 about terminate()/pipes/queues (listed in the evidence) are OS facts that cannot be proved in Lean.",
  technique="Lean 4 invariant proofs over a labelled transition system (all interleavings) + set-valued correspondence with controlled member processes"),
}

# id -> reason (not claimed)
NOT_YET = "check under construction in this round (DESIGN.md section 10); not claimed until its model, theorems and correspondence run are committed"
ALL = ["C%02d" % i for i in range(1, 21)]


def lean_targets(claimed):
    """modules the claimed checks need built: their Props modules and everything their drivers import"""
    import re
    mods = ["PySMT.Core.DriverLib"]
    for pid in claimed:
        src = open(os.path.join(V, "harness", "props", pid.lower() + ".py")).read()
        m = re.search(r"LEAN_MODULES\s*=\s*\[([^\]]*)\]", src)
        if m:
            mods += re.findall(r'"([^"]+)"', m.group(1))
        for d in re.findall(r'lean_run(?:_sharded)?\(\s*"(\w+)"', src) + [pid]:
            dp = os.path.join(V, "lean", "Drivers", d + ".lean")
            if os.path.exists(dp):
                mods += re.findall(r"^import\s+(PySMT\.[\w.]+)", open(dp).read(), flags=re.M)
    return list(dict.fromkeys(mods))


def main():
    checks = []
    for pid in ALL:
        c = CLAIMED.get(pid)
        if not c:
            continue
        checks.append({
            "property_id": pid,
            "quick_cmd": "./check %s --tier quick" % pid,
            "thorough_cmd": "./check %s --tier thorough" % pid,
            "evidence_file": "evidence/%s.json" % pid,
            "replay_cmd_template": "./check %s --replay {path}" % pid,
            "engine": "lean4-proof+correspondence",
            "level_claimed": {"category": "proof", "text": c["text"], "design_ref": c.get("design", "DESIGN.md section 5 " + pid)},
            "level_note": NOTE + c.get("note", ""),
            "technique": c["technique"],
        })
    man = {
        "version": 1,
        "setup_cmd": "cd lean && lake build " + " ".join(lean_targets([p for p in ALL if p in CLAIMED])),
        "hooks": {
            "guard": "PYSMT_VERIF",
            "enable": "no source hooks are needed: every observation is made from outside (wrapping walker callbacks, registering harness-defined solver classes, logging the SMT-LIB byte stream); PYSMT_VERIF=1 is set by ./check but nothing in /repo reads it",
            "baseline_off_cmd": "cd /repo && /venv/bin/python -m pytest -ra -q -p no:cacheprovider --timeout=900 --continue-on-collection-errors",
            "source_commits": [],
            "add_only": True,
        },
        "engines": [{
            "name": "lean4-proof+correspondence",
            "path": "check",
            "serves_properties": [c["property_id"] for c in checks],
            "kind_free_text": "Lean 4 theorems about a model (lean/PySMT), tied to /repo on every run by a translator (tools/extract.py -> lean/PySMT/Gen) and/or a differential run of the model's executable definitions against the implementation (harness/), with a failing-input search that uses the Lean reference semantics as oracle",
        }],
        "checks": checks,
        "not_applicable": [{"property_id": p, "reason": NOT_YET} for p in ALL if p not in CLAIMED],
        "notes": "See DESIGN.md. ./check CXX [--tier quick|thorough] [--replay file]; VERIF_SEED seeds every random choice; exit 0 = held, 1 = VIOLATION line printed, 2 = infrastructure error.",
    }
    json.dump(man, open(os.path.join(V, "MANIFEST.json"), "w"), indent=1)
    print(len(checks), "checks,", len(man["not_applicable"]), "not claimed")


if __name__ == "__main__":
    main()
