"""Translator: /repo source -> lean/PySMT/Gen/*.lean (DESIGN 2.3 step 1).

`regenerate(ctx, prop)` rewrites the generated Lean files the property depends
on, only when their content changed (so that lake does nothing otherwise).
Per-table generators live in tools/gen_*.py and register themselves in GENERATORS.
"""
import importlib
import os

VERIF = os.path.dirname(os.path.dirname(os.path.abspath(__file__)))
GEN_DIR = os.path.join(VERIF, "lean", "PySMT", "Gen")

# property id -> list of generator module names (tools/gen_<name>.py, each with
# `generate(repo) -> {filename: lean_source}`)
GENERATORS = {
    "C12": ["operators"],
    "C06": ["infix"],
    "C13": ["logics"],
    "C07": ["printerops"],
    "C08": ["parserops"],
    "C09": ["parserops", "hrops"],
    "C16": ["pendingpop"],
}


def write_if_changed(path, content):
    try:
        if open(path).read() == content:
            return False
    except OSError:
        pass
    os.makedirs(os.path.dirname(path), exist_ok=True)
    with open(path, "w") as f:
        f.write(content)
    return True


def regenerate(ctx, prop):
    repo = os.environ.get("VERIF_REPO", "/repo")
    for name in GENERATORS.get(prop, []):
        mod = importlib.import_module("gen_" + name)
        for fname, src in mod.generate(repo).items():
            if write_if_changed(os.path.join(GEN_DIR, fname), src):
                ctx.count("gen_files_rewritten")
