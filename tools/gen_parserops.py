"""Translator for C08/C09: the operator table of the SMT-LIB parser.

Reads `<repo>/pysmt/smtlib/parser/parser.py` with `ast` only and emits
lean/PySMT/Gen/ParserOps.lean:

  table     every entry of the dict literal assigned to `self.interpreted` in `SmtLibParser.__init__`:
            token  |->  how the parser treats it
              mgr  "X"       self._operator_adapter(mgr.X)                      (the manager method, as is)
              fixReal "X"    self._operator_adapter(self.X) where self.X = functools.partial(fix_real, mgr.X)
              special "f"    self._operator_adapter(self.f) for a method f of the parser (_minus_or_uminus, ...)
              handler "f"    self.f  (let, !, quantifiers, _, as: they consume tokens themselves)
  commands  the keys of `self.commands` (resolved through pysmt/smtlib/commands.py)
  logics    for every logic get_logic_by_name knows: (name, theory.integer_arithmetic)
            -- what `atom` consults to type a numeral (imported from <repo>/pysmt/logics.py)
  hashes    sha1 of the `ast.dump` of the hand-modelled parser methods, so that an edit of their
            bodies changes the generated file (and `Impl.Parser.alignedHashes` no longer matches).

Anything the translator cannot express raises Unsupported (reported by the runner as a broken obligation).
"""
import ast
import hashlib
import os
import sys


class Unsupported(Exception):
    pass


MODELLED_METHODS = [
    "SmtLibExecutionCache.bind", "SmtLibExecutionCache.unbind", "SmtLibExecutionCache.define",
    "SmtLibExecutionCache._define_adapter", "SmtLibExecutionCache.get",
    "SmtLibParser._minus_or_uminus", "SmtLibParser._enter_smtlib_as", "SmtLibParser._smtlib_underscore",
    "SmtLibParser._equals_or_iff", "SmtLibParser._division", "SmtLibParser._get_var",
    "SmtLibParser._get_quantified_var", "SmtLibParser.atom", "SmtLibParser._exit_let",
    "SmtLibParser._exit_quantifier", "SmtLibParser._enter_let", "SmtLibParser._enter_quantifier",
    "SmtLibParser._enter_annotation", "SmtLibParser.get_expression", "SmtLibParser.parse_type",
    "SmtLibParser._cmd_assert", "SmtLibParser._cmd_declare_const", "SmtLibParser._cmd_declare_fun",
    "SmtLibParser._cmd_define_fun", "SmtLibParser._cmd_declare_sort", "SmtLibParser._cmd_define_sort",
    "SmtLibParser._cmd_set_logic", "SmtLibParser._cmd_push", "SmtLibParser._cmd_pop",
    "SmtLibParser._cmd_get_value", "SmtLibParser._cmd_check_sat_assuming", "SmtLibParser.parse_expr_list",
]


def lean_str(s):
    out = []
    for ch in s:
        if ch == "\\":
            out.append("\\\\")
        elif ch == '"':
            out.append('\\"')
        elif ch == "\n":
            out.append("\\n")
        elif ch == "\t":
            out.append("\\t")
        elif 32 <= ord(ch) < 127:
            out.append(ch)
        else:
            out.append("\\u{%x}" % ord(ch))
    return '"' + "".join(out) + '"'


def _attr_chain(node):
    """x.y.z -> ['x','y','z'] or None"""
    out = []
    while isinstance(node, ast.Attribute):
        out.append(node.attr)
        node = node.value
    if isinstance(node, ast.Name):
        out.append(node.id)
        return list(reversed(out))
    return None


def translate(repo):
    path = os.path.join(repo, "pysmt", "smtlib", "parser", "parser.py")
    src = open(path).read()
    tree = ast.parse(src)
    cls = {c.name: c for c in tree.body if isinstance(c, ast.ClassDef)}
    if "SmtLibParser" not in cls:
        raise Unsupported("class SmtLibParser not found")
    methods = {}
    for cname, c in cls.items():
        for f in c.body:
            if isinstance(f, ast.FunctionDef):
                methods["%s.%s" % (cname, f.name)] = f
    init = methods.get("SmtLibParser.__init__")
    if init is None:
        raise Unsupported("SmtLibParser.__init__ not found")
    # 1. self.X = functools.partial(fix_real, mgr.Y)
    fix = {}
    inter = None
    commands = None
    for st in ast.walk(init):
        targets, value = None, None
        if isinstance(st, ast.Assign) and len(st.targets) == 1:
            targets, value = st.targets[0], st.value
        elif isinstance(st, ast.AnnAssign) and st.value is not None:
            targets, value = st.target, st.value
        if targets is None:
            continue
        ch = _attr_chain(targets)
        if not ch or ch[0] != "self" or len(ch) != 2:
            continue
        name = ch[1]
        if isinstance(value, ast.Call) and _attr_chain(value.func) == ["functools", "partial"]:
            if len(value.args) == 2 and isinstance(value.args[0], ast.Name) and value.args[0].id == "fix_real":
                m = _attr_chain(value.args[1])
                if m and m[0] == "mgr" and len(m) == 2:
                    fix[name] = m[1]
                    continue
            raise Unsupported("self.%s: unexpected functools.partial" % name)
        if name == "interpreted":
            inter = value
        if name == "commands":
            commands = value
    if not isinstance(inter, ast.Dict):
        raise Unsupported("self.interpreted is not a dict literal")
    table = []
    for k, v in zip(inter.keys, inter.values):
        if not (isinstance(k, ast.Constant) and isinstance(k.value, str)):
            raise Unsupported("non-literal key in self.interpreted")
        key = k.value
        if isinstance(v, ast.Call) and _attr_chain(v.func) == ["self", "_operator_adapter"] and len(v.args) == 1:
            a = _attr_chain(v.args[0])
            if a and a[0] == "mgr" and len(a) == 2:
                table.append((key, "mgr", a[1]))
            elif a and a[0] == "self" and len(a) == 2 and a[1] in fix:
                table.append((key, "fixReal", fix[a[1]]))
            elif a and a[0] == "self" and len(a) == 2 and ("SmtLibParser." + a[1]) in methods:
                table.append((key, "special", a[1]))
            else:
                raise Unsupported("self.interpreted[%r]: unexpected adapter argument" % key)
        else:
            a = _attr_chain(v)
            if a and a[0] == "self" and len(a) == 2 and ("SmtLibParser." + a[1]) in methods:
                table.append((key, "handler", a[1]))
            else:
                raise Unsupported("self.interpreted[%r]: unexpected value" % key)
    if len(set(k for k, _, _ in table)) != len(table):
        raise Unsupported("duplicate key in self.interpreted")
    # 2. commands
    if not isinstance(commands, ast.Dict):
        raise Unsupported("self.commands is not a dict literal")
    cpath = os.path.join(repo, "pysmt", "smtlib", "commands.py")
    cconst = {}
    for st in ast.parse(open(cpath).read()).body:
        if isinstance(st, ast.Assign) and len(st.targets) == 1 and isinstance(st.targets[0], ast.Name) \
                and isinstance(st.value, ast.Constant) and isinstance(st.value.value, str):
            cconst[st.targets[0].id] = st.value.value
    cmds = []
    for k, v in zip(commands.keys, commands.values):
        a = _attr_chain(k)
        if not (a and a[0] == "smtcmd" and len(a) == 2 and a[1] in cconst):
            raise Unsupported("unexpected key in self.commands")
        h = _attr_chain(v)
        if not (h and h[0] == "self" and len(h) == 2):
            raise Unsupported("unexpected handler in self.commands")
        cmds.append((cconst[a[1]], h[1]))
    # 3. hashes of the hand-modelled methods
    hashes = []
    for q in MODELLED_METHODS:
        f = methods.get(q)
        if f is None:
            raise Unsupported("modelled method %s not found" % q)
        hashes.append((q, hashlib.sha1(ast.dump(f, include_attributes=False).encode()).hexdigest()[:16]))
    return table, cmds, hashes


def logics(repo):
    repo = os.path.realpath(repo)
    if "pysmt" not in sys.modules and repo not in [os.path.realpath(p) for p in sys.path if p]:
        sys.path.insert(0, repo)
    import warnings
    with warnings.catch_warnings():
        warnings.simplefilter("ignore")
        import pysmt.logics as L
    got = os.path.realpath(L.__file__)
    if not got.startswith(repo + os.sep):
        raise Unsupported("pysmt.logics was imported from %s, not from %s" % (got, repo))
    out = []
    seen = set()
    for lg in L.LOGICS:
        n = lg.name.lower()
        if n in seen:
            continue            # get_logic_by_name returns the first match
        seen.add(n)
        ia = lg.theory.integer_arithmetic
        if ia not in (True, False):
            raise Unsupported("integer_arithmetic of %s is not a bool" % lg.name)
        out.append((lg.name, ia))
    return sorted(out)


def generate(repo):
    table, cmds, hashes = translate(repo)
    lg = logics(repo)
    L = []
    L.append("/- GENERATED by tools/gen_parserops.py from pysmt/smtlib/parser/parser.py (+ commands.py, logics.py)\n"
             "   -- do not edit. Regenerated on every `./check C08` / `./check C09`; a committed copy is the baseline. -/\n")
    L.append("namespace PySMT.Gen.ParserOps\n")
    L.append("/-- how `SmtLibParser.interpreted` treats a token -/")
    L.append("inductive Entry")
    L.append("  | mgr (method : String)      -- self._operator_adapter(mgr.<method>)")
    L.append("  | fixReal (method : String)  -- self._operator_adapter(functools.partial(fix_real, mgr.<method>))")
    L.append("  | special (fn : String)      -- self._operator_adapter(self.<fn>)")
    L.append("  | handler (fn : String)      -- self.<fn> (consumes tokens itself)")
    L.append("  deriving DecidableEq, Repr, Inhabited\n")
    L.append("def table : List (String × Entry) := [")
    L.append(",\n".join("  (%s, .%s %s)" % (lean_str(k), kind, lean_str(v)) for k, kind, v in table))
    L.append("]\n")
    L.append("/-- `self.commands`: command name ↦ handler method -/")
    L.append("def commands : List (String × String) := [")
    L.append(",\n".join("  (%s, %s)" % (lean_str(k), lean_str(v)) for k, v in cmds))
    L.append("]\n")
    L.append("/-- logic name (as spelled in `LOGICS`; `get_logic_by_name` compares case-insensitively) ↦ `theory.integer_arithmetic` -/")
    L.append("def logics : List (String × Bool) := [")
    L.append(",\n".join("  (%s, %s)" % (lean_str(k), "true" if v else "false") for k, v in lg))
    L.append("]\n")
    L.append("/-- sha1 (first 16 hex digits) of the AST of every hand-modelled method -/")
    L.append("def hashes : List (String × String) := [")
    L.append(",\n".join("  (%s, %s)" % (lean_str(k), lean_str(v)) for k, v in hashes))
    L.append("]\n")
    L.append("end PySMT.Gen.ParserOps\n")
    return {"ParserOps.lean": "\n".join(L)}


if __name__ == "__main__":
    repo = os.environ.get("VERIF_REPO", "/repo")
    for fn, src in generate(repo).items():
        sys.stdout.write(src)
