"""Translator for C07: which SMT-LIB operator spelling does every `walk_<op>` of the two SMT-LIB printers emit?

Reads `<repo>/pysmt/smtlib/printers.py` with `ast` only and emits lean/PySMT/Gen/PrinterOps.lean:

    tree   : List (String × String)     -- SmtPrinter:    (key, spelling)
    dag    : List (String × String)     -- SmtDagPrinter: (key, spelling)
    dagLet : List String                -- SmtDagPrinter methods that introduce a `let` (call `_new_symbol`, directly or
                                        --  through `walk_nary`); the others print their result inline

Keys.  `walk_x` when the method emits one operator; `walk_x:is_p` for the branches of a method that selects the
spelling by `if formula.is_p(): v = "…" else: assert formula.is_q(); v = "…"` (rotate / extend); `walk_x:<i>` (i = 0, 1, …
in source order) when a hand-written method emits several operator tokens (`walk_real_constant`: `-`, `/`;
`walk_array_value`: `store`, `as`, `const`).

What counts as an operator token of a hand-written method: string constants are taken in source order (`%`-formatting
with a tuple is applied, constant operands substituted, the others replaced by a placeholder); in each resulting piece
of text the token that follows an opening parenthesis is an operator token, except `let`, placeholders and format
directives; `(_ name` yields `name`; `(as name` yields `as` and `name`.
"""
import ast
import os
import re

PLACEHOLDER = "\x00"


def _const_str(node):
    if isinstance(node, ast.Constant) and isinstance(node.value, str):
        return node.value
    return None


def _format(node):
    """text of a string expression with unknown parts replaced by PLACEHOLDER; None if not a string expression"""
    s = _const_str(node)
    if s is not None:
        return s
    if isinstance(node, ast.BinOp) and isinstance(node.op, ast.Mod):
        left = _const_str(node.left)
        if left is None:
            return None
        ops = node.right.elts if isinstance(node.right, ast.Tuple) else [node.right]
        vals = []
        for o in ops:
            c = _const_str(o)
            vals.append(c if c is not None else PLACEHOLDER)
        out, i, k = [], 0, 0
        while i < len(left):
            if left[i] == "%" and i + 1 < len(left) and left[i + 1] in "sd":
                out.append(vals[k] if k < len(vals) else PLACEHOLDER)
                k += 1
                i += 2
            else:
                out.append(left[i])
                i += 1
        return "".join(out)
    if isinstance(node, ast.BinOp) and isinstance(node.op, ast.Add):
        a, b = _format(node.left), _format(node.right)
        if a is None and b is None:
            return None
        return (a if a is not None else PLACEHOLDER) + (b if b is not None else PLACEHOLDER)
    if isinstance(node, ast.JoinedStr):
        out = []
        for v in node.values:
            c = _const_str(v)
            out.append(c if c is not None else PLACEHOLDER)
        return "".join(out)
    return None


def _tokens(text):
    text = re.sub(r"%[sd]", PLACEHOLDER, text)
    return re.findall(r"[()]|[^\s()]+", text)


def _heads(text):
    toks = _tokens(text)
    out = []
    for i, t in enumerate(toks):
        if t != "(" or i + 1 >= len(toks):
            continue
        h = toks[i + 1]
        if h in ("(", ")"):
            continue
        if h == "_" and i + 2 < len(toks):
            h = toks[i + 2]
            if PLACEHOLDER in h or h in ("(", ")"):
                continue
            out.append(h)
            continue
        if PLACEHOLDER in h or h == "let":
            continue
        out.append(h)
        if h == "as" and i + 2 < len(toks) and PLACEHOLDER not in toks[i + 2] and toks[i + 2] not in ("(", ")"):
            out.append(toks[i + 2])
    return out


def _string_exprs(fn):
    """maximal string-valued expressions of a function body, in source order"""
    found = []

    def visit(node):
        if isinstance(node, (ast.Constant, ast.BinOp, ast.JoinedStr)):
            t = _format(node)
            if t is not None:
                found.append((node.lineno, node.col_offset, t))
                return
        for c in ast.iter_child_nodes(node):
            visit(c)
    for stmt in fn.body:
        # skip the doc string
        if isinstance(stmt, ast.Expr) and _const_str(stmt.value) is not None:
            continue
        visit(stmt)
    found.sort(key=lambda x: (x[0], x[1]))
    return [t for _, _, t in found]


def _is_pred_call(node):
    """formula.is_xxx() -> 'is_xxx'"""
    if isinstance(node, ast.Call) and isinstance(node.func, ast.Attribute) and not node.args \
            and isinstance(node.func.value, ast.Name) and node.func.attr.startswith("is_"):
        return node.func.attr
    return None


def _branch_spellings(fn):
    """if formula.is_p(): v = "a"  else: [assert formula.is_q()]  v = "b" """
    out = []
    for stmt in fn.body:
        if not isinstance(stmt, ast.If):
            continue
        p = _is_pred_call(stmt.test)
        if p is None:
            continue

        def assigned(body):
            for s in body:
                if isinstance(s, ast.Assign) and len(s.targets) == 1 and _const_str(s.value) is not None:
                    return s.value.value
            return None

        def asserted(body):
            for s in body:
                if isinstance(s, ast.Assert):
                    q = _is_pred_call(s.test)
                    if q:
                        return q
            return None
        a, b = assigned(stmt.body), assigned(stmt.orelse)
        if a is None or b is None:
            continue
        out.append((p, a))
        out.append((asserted(stmt.orelse) or "else", b))
    return out


def _delegation(fn):
    """return self.walk_nary(formula, [args,] X) / return self._walk_quantifier(X, formula[, args]) -> (kind, X or None)"""
    if len(fn.body) != 1 or not isinstance(fn.body[0], ast.Return):
        return None
    call = fn.body[0].value
    if not (isinstance(call, ast.Call) and isinstance(call.func, ast.Attribute)
            and isinstance(call.func.value, ast.Name) and call.func.value.id == "self"):
        return None
    if call.func.attr == "walk_nary" and call.args:
        return ("nary", _const_str(call.args[-1]))
    if call.func.attr == "_walk_quantifier" and call.args:
        return ("quant", _const_str(call.args[0]))
    return None


def _calls_new_symbol(fn):
    for n in ast.walk(fn):
        if isinstance(n, ast.Call) and isinstance(n.func, ast.Attribute) and n.func.attr == "_new_symbol":
            return True
    return False


def scan_class(cls):
    entries, lets = [], []
    methods = {n.name: n for n in cls.body if isinstance(n, ast.FunctionDef)}
    helpers_let = {name for name in ("walk_nary", "_walk_quantifier") if name in methods and _calls_new_symbol(methods[name])}
    for name, fn in methods.items():
        if not name.startswith("walk_") or name in ("walk_nary", "walk_threshold"):
            continue
        d = _delegation(fn)
        if d is not None:
            kind, sp = d
            if sp is not None:
                entries.append((name, sp))
            if ("walk_nary" if kind == "nary" else "_walk_quantifier") in helpers_let:
                lets.append(name)
            continue
        if _calls_new_symbol(fn):
            lets.append(name)
        br = _branch_spellings(fn)
        if br:
            for p, s in br:
                entries.append(("%s:%s" % (name, p), s))
            continue
        heads = []
        for t in _string_exprs(fn):
            for h in _heads(t):
                heads.append(h)
        # consecutive duplicates are one emission site written twice (if/else with the same operator)
        ded = []
        for h in heads:
            if not ded or ded[-1] != h:
                ded.append(h)
        if len(ded) == 1:
            entries.append((name, ded[0]))
        else:
            for i, h in enumerate(ded):
                entries.append(("%s:%d" % (name, i), h))
    return entries, lets


def lean_str(s):
    out = ['"']
    for ch in s:
        if ch == '"':
            out.append('\\"')
        elif ch == "\\":
            out.append("\\\\")
        elif ch == "\n":
            out.append("\\n")
        elif ord(ch) < 32 or ord(ch) == 127:
            out.append("\\x%02x" % ord(ch))
        else:
            out.append(ch)
    out.append('"')
    return "".join(out)


def _table(name, entries):
    lines = ["def %s : List (String × String) := [" % name]
    lines.append(",\n".join("  (%s, %s)" % (lean_str(k), lean_str(v)) for k, v in entries))
    lines.append("]")
    return "\n".join(lines)


def tables(repo):
    path = os.path.join(repo, "pysmt", "smtlib", "printers.py")
    tree = ast.parse(open(path).read(), path)
    res = {}
    for node in tree.body:
        if isinstance(node, ast.ClassDef) and node.name in ("SmtPrinter", "SmtDagPrinter"):
            res[node.name] = scan_class(node)
    if set(res) != {"SmtPrinter", "SmtDagPrinter"}:
        raise RuntimeError("printers.py: class SmtPrinter or SmtDagPrinter not found")
    return res


def generate(repo):
    res = tables(repo)
    t_entries, _ = res["SmtPrinter"]
    d_entries, d_lets = res["SmtDagPrinter"]
    src = ["/-! GENERATED by tools/gen_printerops.py from pysmt/smtlib/printers.py — do not edit. -/",
           "namespace PySMT.Gen.PrinterOps", "",
           "/-- SmtPrinter: (walk method[:branch], operator spelling it writes) -/",
           _table("tree", t_entries), "",
           "/-- SmtDagPrinter -/",
           _table("dag", d_entries), "",
           "/-- SmtDagPrinter methods that introduce a `let` binding (the others print inline) -/",
           "def dagLet : List String := [" + ", ".join(lean_str(x) for x in d_lets) + "]", "",
           "end PySMT.Gen.PrinterOps", ""]
    return {"PrinterOps.lean": "\n".join(src)}


if __name__ == "__main__":
    import sys
    repo = os.environ.get("VERIF_REPO", "/repo")
    out = generate(repo)["PrinterOps.lean"]
    if len(sys.argv) > 1 and sys.argv[1] == "--write":
        here = os.path.dirname(os.path.dirname(os.path.abspath(__file__)))
        open(os.path.join(here, "lean", "PySMT", "Gen", "PrinterOps.lean"), "w").write(out)
    else:
        print(out)
