#!/usr/bin/env python3
"""Copies every anchored source file of /repo (properties.jsonl anchors.files) into aligned/ — the
snapshot the models were last aligned with. Run by hand after re-aligning models; never at check time."""
import json, os, shutil
V = os.path.dirname(os.path.dirname(os.path.abspath(__file__)))
files = set()
for l in open(os.path.join(V, "properties.jsonl")):
    files.update(json.loads(l)["anchors"]["files"])
for f in sorted(files):
    src = os.path.join("/repo", f)
    if os.path.isfile(src):
        dst = os.path.join(V, "aligned", f)
        os.makedirs(os.path.dirname(dst), exist_ok=True)
        shutil.copy(src, dst)
print(len(files), "anchored files copied to aligned/")
