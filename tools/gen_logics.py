"""Translator for property C13:  /repo/pysmt/logics.py  ->  lean/PySMT/Gen/{TheoryOrder,Logics}.lean

* `TheoryOrder.lean` -- Python `ast` translation of the *code* of logics.py:
  `Theory.copy/set_*/combine/__eq__/__ne__/__le__`, `Logic.__str__/__eq__/__ne__/__lt__/__le__/__ge__/__gt__/
  is_quantified`, `most_generic_logic`, `get_closer_logic` into Lean defs over `structure Theory` (one Bool per
  constructor argument of `Theory.__init__`) and `structure Logic`.  Every named local that is assigned once
  from the parameters (`le_integer_difference`, ...) and every conjunct of a returned conjunction is emitted as
  its own def, so that the proofs get one small `decide` lemma per piece.
* `Logics.lean` -- the *data*: every module-level `Logic` constant and every module-level set of logics
  (`LOGICS`, `PYSMT_LOGICS`, `SMTLIB2_LOGICS`, `QF_LOGICS`, ...), obtained by importing pysmt.logics from the
  repository under test, plus the translated functions that mention those tables (`get_logic_by_name`,
  `get_logic`, `get_closer_pysmt_logic`, `get_closer_smtlib_logic`).

The translatable subset is deliberately small (straight-line Boolean code, `if/elif/else`, `and/or/not`,
comparisons, attribute reads/writes on a local copy, constructor calls, list comprehensions with `all`/`any`,
`len`, `sorted(key=str)[0]`, `for ... if ...: return` search loops, `raise`).  Anything else raises
`Unsupported`: the runner records that as a broken proof obligation and the failing-input search decides.

Run standalone:  /venv/bin/python tools/gen_logics.py [--check]   (honours $VERIF_REPO)
"""
import ast
import os
import sys


class Unsupported(Exception):
    """The source left the subset this translator understands."""


# ------------------------------------------------------------------ fixed Lean prelude
PRELUDE = '''/-! Small model of the Python run-time notions the translated code uses. -/

/-- Exceptions the translated functions can raise. -/
inductive PyErr where
  | NoLogicAvailableError | UndefinedLogicError | IndexError
deriving DecidableEq, Repr

deriving instance DecidableEq for Except

/-- `xs[0]` -/
def pyIndex0 {α : Type} : List α → Except PyErr α
  | [] => .error .IndexError
  | x :: _ => .ok x

/-- insertion step of a stable sort: `x` stood *before* every element of the (sorted) list -/
def pyInsertBy {α : Type} (key : α → String) (x : α) : List α → List α
  | [] => [x]
  | y :: ys => if key x ≤ key y then x :: y :: ys else y :: pyInsertBy key x ys

/-- `sorted(xs, key=key)` for string keys (Python's sort is stable; strings compare by code point) -/
def pySortedBy {α : Type} (key : α → String) : List α → List α
  | [] => []
  | x :: xs => pyInsertBy key x (pySortedBy key xs)
'''

DUNDER = {"__le__": "le", "__lt__": "lt", "__ge__": "ge", "__gt__": "gt", "__eq__": "eq", "__ne__": "ne",
          "__str__": "str"}
CMP_METHOD = {ast.LtE: "le", ast.Lt: "lt", ast.GtE: "ge", ast.Gt: "gt", ast.Eq: "eq", ast.NotEq: "ne"}
SKIP_THEORY = {"__init__", "__str__", "__repr__"}
SKIP_LOGIC = {"__init__", "__repr__", "__hash__", "get_quantified_version"}
MODULE_FUNS = ["get_logic_by_name", "get_logic", "most_generic_logic", "get_closer_logic",
               "get_closer_pysmt_logic", "get_closer_smtlib_logic"]
ERRORS = {"NoLogicAvailableError", "UndefinedLogicError", "IndexError"}


def lean_ident(name):
    ok = name.replace("_", "a").isalnum() and not name[0].isdigit()
    return name if ok else "«%s»" % name


def lean_str(s):
    if not all(32 <= ord(c) < 127 and c not in '"\\' for c in s):
        raise Unsupported("string literal %r" % s)
    return '"%s"' % s


class Translator:
    def __init__(self, src):
        self.tree = ast.parse(src)
        self.classes = {n.name: n for n in self.tree.body if isinstance(n, ast.ClassDef)}
        self.funs = {n.name: n for n in self.tree.body if isinstance(n, ast.FunctionDef)}
        for c in ("Theory", "Logic"):
            if c not in self.classes:
                raise Unsupported("class %s not found" % c)
        self.methods = {c: {f.name: f for f in self.classes[c].body if isinstance(f, ast.FunctionDef)}
                        for c in ("Theory", "Logic")}
        self.parse_theory_init()
        self.check_logic_init()
        self.table_names = {}      # python module-level name -> type ('Logic' | 'List Logic'); set by caller
        self.uses_tables = False
        self.sigs = {}             # lean name -> (param list [(name, type, default)], return type, raises)
        self.out_order = []        # [(lean name, text, uses_tables)]

    # ---------------------------------------------------------------- Theory.__init__
    def parse_theory_init(self):
        f = self.methods["Theory"].get("__init__")
        if f is None:
            raise Unsupported("Theory.__init__ missing")
        a = f.args
        if a.vararg or a.kwarg or a.kwonlyargs or a.posonlyargs:
            raise Unsupported("Theory.__init__ signature")
        self.fields = [x.arg for x in a.args[1:]]
        if len(a.defaults) != len(self.fields) or not all(
                isinstance(d, ast.Constant) and d.value is None for d in a.defaults):
            raise Unsupported("Theory.__init__ defaults are not all None")
        self.field_default = {}
        self.init_asserts = []
        for st in f.body:
            if isinstance(st, ast.Expr) and isinstance(st.value, ast.Constant):
                continue
            if isinstance(st, ast.Assert):
                self.init_asserts.append(st.test)
                continue
            ok = (isinstance(st, ast.Assign) and len(st.targets) == 1
                  and isinstance(st.targets[0], ast.Attribute)
                  and isinstance(st.targets[0].value, ast.Name) and st.targets[0].value.id == "self")
            if not ok:
                raise Unsupported("Theory.__init__: " + ast.unparse(st))
            fld = st.targets[0].attr
            v = st.value
            # `x or False`  -> default False ;  `x if x is not None else True` -> default True
            if (isinstance(v, ast.BoolOp) and isinstance(v.op, ast.Or) and len(v.values) == 2
                    and isinstance(v.values[0], ast.Name) and v.values[0].id == fld
                    and isinstance(v.values[1], ast.Constant) and v.values[1].value is False):
                self.field_default[fld] = False
            elif (isinstance(v, ast.IfExp) and isinstance(v.body, ast.Name) and v.body.id == fld
                  and isinstance(v.test, ast.Compare) and len(v.test.ops) == 1
                  and isinstance(v.test.ops[0], ast.IsNot)
                  and isinstance(v.test.left, ast.Name) and v.test.left.id == fld
                  and isinstance(v.test.comparators[0], ast.Constant) and v.test.comparators[0].value is None
                  and isinstance(v.orelse, ast.Constant) and isinstance(v.orelse.value, bool)):
                self.field_default[fld] = v.orelse.value
            else:
                raise Unsupported("Theory.__init__ field initialiser: " + ast.unparse(st))
        if set(self.field_default) != set(self.fields):
            raise Unsupported("Theory.__init__ does not initialise exactly its arguments")

    def check_logic_init(self):
        f = self.methods["Logic"].get("__init__")
        want = ["self.name = name", "self.description = description",
                "self.quantifier_free = quantifier_free"]
        got = [ast.unparse(s) for s in f.body if isinstance(s, ast.Assign)]
        if got != want:
            raise Unsupported("Logic.__init__ assignments changed: %r" % (got,))
        rest = [s for s in f.body if not isinstance(s, ast.Assign)]
        if len(rest) != 1 or ast.unparse(rest[0]).replace("\n", " ").split() != \
                "if theory is None: self.theory = Theory(**theory_kwargs) else: self.theory = theory".split():
            raise Unsupported("Logic.__init__ theory handling changed")

    # ---------------------------------------------------------------- expressions
    def attr_type(self, ty, attr):
        if ty == "Theory" and attr in self.fields:
            return "Bool"
        if ty == "Logic":
            t = {"name": "Str", "quantifier_free": "Bool", "theory": "Theory"}.get(attr)
            if t:
                return t
        raise Unsupported("attribute .%s of a %s" % (attr, ty))

    def ann_type(self, ann, default, cls):
        if ann is None:
            if isinstance(default, ast.Constant) and isinstance(default.value, bool):
                return "Bool"
            return cls       # un-annotated `other` of a binary dunder method
        s = ast.unparse(ann).replace('"', "").replace("'", "")
        m = {"bool": "Bool", "str": "Str", "Theory": "Theory", "Logic": "Logic",
             "Iterable[Logic]": "List Logic"}
        if s not in m:
            raise Unsupported("annotation %s" % s)
        return m[s]

    def ex(self, e, env):
        """-> (lean text, type)"""
        if isinstance(e, ast.Constant):
            if isinstance(e.value, bool):
                return ("true" if e.value else "false"), "Bool"
            if isinstance(e.value, int):
                return str(e.value), "Nat"
            if isinstance(e.value, str):
                return lean_str(e.value), "Str"
            raise Unsupported("constant %r" % (e.value,))
        if isinstance(e, ast.Name):
            if e.id in env:
                v = env[e.id]
                return (v[1] if isinstance(v, tuple) else e.id), (v[0] if isinstance(v, tuple) else v)
            if e.id in self.table_names:
                self.uses_tables = True
                return lean_ident(e.id), self.table_names[e.id]
            raise Unsupported("unknown name %s" % e.id)
        if isinstance(e, ast.Attribute):
            v, t = self.ex(e.value, env)
            return "%s.%s" % (v, e.attr), self.attr_type(t, e.attr)
        if isinstance(e, ast.BoolOp):
            parts = [self.ex(v, env) for v in e.values]
            if any(t != "Bool" for _, t in parts):
                raise Unsupported("and/or over non-Booleans: " + ast.unparse(e))
            op = " && " if isinstance(e.op, ast.And) else " || "
            return "(" + op.join(p for p, _ in parts) + ")", "Bool"
        if isinstance(e, ast.UnaryOp) and isinstance(e.op, ast.Not):
            v, t = self.ex(e.operand, env)
            if t != "Bool":
                raise Unsupported("not over non-Boolean")
            return "(!%s)" % v, "Bool"
        if isinstance(e, ast.Compare):
            if len(e.ops) != 1:
                raise Unsupported("chained comparison")
            return self.compare(e.ops[0], e.left, e.comparators[0], env)
        if isinstance(e, ast.Call):
            return self.call(e, env)
        if isinstance(e, ast.ListComp):
            return self.comprehension(e, env)
        raise Unsupported("expression " + ast.unparse(e))

    def compare(self, op, l, r, env):
        lv, lt = self.ex(l, env)
        rv, rt = self.ex(r, env)
        if lt != rt:
            raise Unsupported("comparison between %s and %s" % (lt, rt))
        k = type(op)
        if lt == "Bool":
            m = {ast.Eq: "(%s == %s)", ast.NotEq: "(%s != %s)", ast.LtE: "(!%s || %s)",
                 ast.GtE: "(%s || !%s)", ast.Lt: "(!%s && %s)", ast.Gt: "(%s && !%s)"}
            if k not in m:
                raise Unsupported("Boolean comparison " + ast.dump(op))
            return m[k] % (lv, rv), "Bool"
        if lt in ("Str", "Nat"):
            m = {ast.Eq: "(%s == %s)", ast.NotEq: "(%s != %s)"}
            if k not in m:
                raise Unsupported("%s comparison %s" % (lt, ast.dump(op)))
            return m[k] % (lv, rv), "Bool"
        if lt in ("Theory", "Logic"):
            if k not in CMP_METHOD:
                raise Unsupported("comparison " + ast.dump(op))
            meth = CMP_METHOD[k]
            dunder = "__%s__" % meth
            if dunder in self.methods[lt]:
                return "(%s.%s %s %s)" % (lt, meth, lv, rv), "Bool"
            # Python falls back to the reflected method of the right operand
            refl = {"ge": "le", "gt": "lt", "le": "ge", "lt": "gt"}.get(meth)
            if refl and "__%s__" % refl in self.methods[lt]:
                return "(%s.%s %s %s)" % (lt, refl, rv, lv), "Bool"
            raise Unsupported("%s has no %s" % (lt, dunder))
        raise Unsupported("comparison of %s" % lt)

    def lam(self, var, body, env, vtype):
        v, t = self.ex(body, dict(env, **{var: vtype}))
        return "(fun %s => %s)" % (var, v), t

    def gen_parts(self, g, env):
        if len(g.generators) != 1:
            raise Unsupported("nested comprehension")
        c = g.generators[0]
        if c.is_async or not isinstance(c.target, ast.Name):
            raise Unsupported("comprehension target")
        it, itt = self.ex(c.iter, env)
        if not itt.startswith("List "):
            raise Unsupported("iteration over %s" % itt)
        et = itt[5:]
        for cond in c.ifs:
            f, t = self.lam(c.target.id, cond, env, et)
            if t != "Bool":
                raise Unsupported("comprehension filter")
            it = "(%s.filter %s)" % (it, f)
        return it, c.target.id, et

    def comprehension(self, e, env):
        it, var, et = self.gen_parts(e, env)
        if isinstance(e.elt, ast.Name) and e.elt.id == var:
            return it, "List " + et
        f, t = self.lam(var, e.elt, env, et)
        return "(%s.map %s)" % (it, f), "List " + t

    def call(self, e, env):
        fn = e.func
        if isinstance(fn, ast.Name):
            n = fn.id
            if n == "len" and len(e.args) == 1 and not e.keywords:
                v, t = self.ex(e.args[0], env)
                if not t.startswith("List "):
                    raise Unsupported("len of %s" % t)
                return "%s.length" % v, "Nat"
            if n in ("all", "any") and len(e.args) == 1 and isinstance(e.args[0], ast.GeneratorExp):
                it, var, et = self.gen_parts(e.args[0], env)
                f, t = self.lam(var, e.args[0].elt, env, et)
                if t != "Bool":
                    raise Unsupported("all/any over non-Booleans")
                return "(%s.%s %s)" % (it, n, f), "Bool"
            if n == "str" and len(e.args) == 1:
                v, t = self.ex(e.args[0], env)
                if t == "Logic":
                    return "(Logic.str %s)" % v, "Str"
                raise Unsupported("str() of %s" % t)
            if n == "sorted":
                if len(e.args) != 1 or len(e.keywords) != 1 or e.keywords[0].arg != "key":
                    raise Unsupported("sorted() form")
                v, t = self.ex(e.args[0], env)
                k = e.keywords[0].value
                if not (isinstance(k, ast.Lambda) and len(k.args.args) == 1 and t.startswith("List ")):
                    raise Unsupported("sorted() key")
                f, kt = self.lam(k.args.args[0].arg, k.body, env, t[5:])
                if kt != "Str":
                    raise Unsupported("sorted() key is not a string")
                return "(pySortedBy %s %s)" % (f, v), t
            if n == "Theory":
                if e.args:
                    raise Unsupported("positional Theory(...) arguments")
                kws = {}
                for k in e.keywords:
                    if k.arg not in self.fields:
                        raise Unsupported("Theory(%s=...)" % k.arg)
                    v, t = self.ex(k.value, env)
                    if t != "Bool":
                        raise Unsupported("Theory(%s=<%s>)" % (k.arg, t))
                    kws[k.arg] = v
                return "({ " + ", ".join(
                    "%s := %s" % (f, kws.get(f, "true" if self.field_default[f] else "false"))
                    for f in self.fields) + " } : Theory)", "Theory"
            if n == "Logic":
                kws = {k.arg: k.value for k in e.keywords}
                if e.args or set(kws) - {"name", "description", "quantifier_free", "theory"} or \
                        "name" not in kws or "theory" not in kws:
                    raise Unsupported("Logic(...) form")
                nm, t1 = self.ex(kws["name"], env)
                th, t2 = self.ex(kws["theory"], env)
                qf, t3 = self.ex(kws["quantifier_free"], env) if "quantifier_free" in kws else ("false", "Bool")
                if (t1, t2, t3) != ("Str", "Theory", "Bool"):
                    raise Unsupported("Logic(...) argument types")
                return "({ name := %s, quantifier_free := %s, theory := %s } : Logic)" % (nm, qf, th), "Logic"
            raise Unsupported("call of %s in expression position" % n)
        if isinstance(fn, ast.Attribute):
            recv, rt = self.ex(fn.value, env)
            if rt not in ("Theory", "Logic"):
                raise Unsupported("method call on %s" % rt)
            meth = DUNDER.get(fn.attr, fn.attr)
            lname = "%s.%s" % (rt, meth)
            if fn.attr not in self.methods[rt]:
                raise Unsupported("unknown method %s.%s" % (rt, fn.attr))
            params, ret, raises = self.signature(rt, fn.attr)
            if raises:
                raise Unsupported("raising method in expression position")
            args = [recv] + self.bind_args(e, params[1:], env)
            return "(%s %s)" % (lname, " ".join(args)), ret
        raise Unsupported("call " + ast.unparse(e))

    def bind_args(self, e, params, env):
        out = []
        kws = {k.arg: k.value for k in e.keywords}
        for i, (pn, pt, pd) in enumerate(params):
            if i < len(e.args):
                v, t = self.ex(e.args[i], env)
            elif pn in kws:
                v, t = self.ex(kws.pop(pn), env)
            elif pd is not None:
                v, t = pd, pt
            else:
                raise Unsupported("missing argument %s" % pn)
            if t != pt:
                raise Unsupported("argument %s: %s given, %s expected" % (pn, t, pt))
            out.append(v)
        if len(e.args) > len(params) or kws:
            raise Unsupported("extra arguments in " + ast.unparse(e))
        return out

    # ---------------------------------------------------------------- signatures
    def signature(self, cls, name):
        """params [(name, type, default lean or None)], return type, raises?"""
        f = self.methods[cls][name] if cls else self.funs[name]
        a = f.args
        if a.vararg or a.kwarg or a.kwonlyargs or a.posonlyargs:
            raise Unsupported("signature of %s" % name)
        defaults = [None] * (len(a.args) - len(a.defaults)) + list(a.defaults)
        params = []
        for i, (p, d) in enumerate(zip(a.args, defaults)):
            if cls and i == 0:
                params.append((p.arg, cls, None))
                continue
            t = self.ann_type(p.annotation, d, cls)
            dv = None
            if d is not None:
                dv, dt = self.ex(d, {})
                if dt != t:
                    raise Unsupported("default of %s" % p.arg)
            params.append((p.arg, t, dv))
        if cls:
            ret = self.method_ret(cls, name, f)
            return params, ret, False
        return params, "Logic", True

    def method_ret(self, cls, name, f):
        if name in ("__eq__", "__ne__", "__le__", "__lt__", "__ge__", "__gt__", "is_quantified"):
            return "Bool"
        if name == "__str__":
            return "Str"
        if cls == "Theory":
            return "Theory"
        raise Unsupported("return type of %s.%s" % (cls, name))

    # ---------------------------------------------------------------- pure method bodies
    @staticmethod
    def is_type_guard(st, other, cls):
        """`if other is None or (not isinstance(other, C)): return False`"""
        if not (isinstance(st, ast.If) and not st.orelse and len(st.body) == 1
                and isinstance(st.body[0], ast.Return)
                and isinstance(st.body[0].value, ast.Constant) and st.body[0].value.value is False):
            return False
        want = "%s is None or not isinstance(%s, %s)" % (other, other, cls)
        return ast.unparse(st.test) == want

    def assigned(self, stmts):
        """names (re)bound by a statement list (assignments, attribute writes), no returns allowed"""
        out = []
        for s in stmts:
            if isinstance(s, ast.Assert):
                continue
            if isinstance(s, ast.Assign) and len(s.targets) == 1:
                t = s.targets[0]
                if isinstance(t, ast.Name):
                    out.append(t.id)
                    continue
                if isinstance(t, ast.Attribute) and isinstance(t.value, ast.Name):
                    out.append(t.value.id)
                    continue
            if isinstance(s, ast.If):
                out += self.assigned(s.body) + self.assigned(s.orelse)
                continue
            raise Unsupported("statement " + ast.unparse(s))
        return out

    def value_block(self, stmts, env, var):
        """statements that only update `var`; returns the Lean expression of its final value"""
        env = dict(env)
        lines = []
        for s in stmts:
            if isinstance(s, ast.Assert):
                continue
            if isinstance(s, ast.Assign):
                lines.append(self.assign(s, env))
            elif isinstance(s, ast.If):
                lines.append(self.if_update(s, env))
            else:
                raise Unsupported("statement " + ast.unparse(s))
        if var not in env:
            raise Unsupported("%s not bound on every path" % var)
        if len(lines) == 1 and lines[0].startswith("let %s := " % var):
            return lines[0][len("let %s := " % var):], env[var]
        return "(" + "; ".join(lines + [var]) + ")", env[var]

    def assign(self, s, env):
        if len(s.targets) != 1:
            raise Unsupported("multiple assignment")
        t = s.targets[0]
        if isinstance(t, ast.Name):
            v, ty = self.ex(s.value, env)
            if t.id in env and env[t.id] != ty:
                raise Unsupported("%s changes type" % t.id)
            env[t.id] = ty
            return "let %s := %s" % (t.id, v)
        if isinstance(t, ast.Attribute) and isinstance(t.value, ast.Name) and t.value.id in env \
                and t.value.id not in ("self", "other"):
            ft = self.attr_type(env[t.value.id], t.attr)
            v, ty = self.ex(s.value, env)
            if ty != ft:
                raise Unsupported("attribute write of a %s to a %s field" % (ty, ft))
            return "let %s := { %s with %s := %s }" % (t.value.id, t.value.id, t.attr, v)
        raise Unsupported("assignment " + ast.unparse(s))

    def if_update(self, s, env):
        vs = sorted(set(self.assigned(s.body) + self.assigned(s.orelse)))
        if len(vs) != 1:
            raise Unsupported("if-statement updates %s" % vs)
        var = vs[0]
        c, ct = self.ex(s.test, env)
        if ct != "Bool":
            raise Unsupported("non-Boolean test")
        a, ta = self.value_block(s.body, env, var)
        if s.orelse:
            b, tb = self.value_block(s.orelse, env, var)
        elif var in env:
            b, tb = var, env[var]
        else:
            raise Unsupported("%s not bound on the else path" % var)
        if ta != tb:
            raise Unsupported("branches of different type")
        env[var] = ta
        nl = "\n    " if s.orelse and len(s.orelse) == 1 and isinstance(s.orelse[0], ast.If) else " "
        return "let %s := bif %s then %s%selse %s" % (var, c, a, nl, b)

    def collect_asserts(self, stmts, env, path, out):
        """asserts with their path condition (only for the hoistable prefix: tests over the parameters)"""
        for s in stmts:
            if isinstance(s, ast.Assert):
                try:
                    v, t = self.ex(s.test, env)
                except Unsupported:
                    continue          # mentions a local; not exported
                if t == "Bool":
                    out.append("(!(%s) || %s)" % (" && ".join(path), v) if path else v)
            elif isinstance(s, ast.If):
                try:
                    c, _ = self.ex(s.test, env)
                except Unsupported:
                    continue
                self.collect_asserts(s.body, env, path + [c], out)
                self.collect_asserts(s.orelse, env, path + ["(!%s)" % c], out)

    def emit(self, name, text):
        self.out_order.append((name, text, self.uses_tables))

    def method(self, cls, name):
        f = self.methods[cls][name]
        params, ret, _ = self.signature(cls, name)
        lname = "%s.%s" % (cls, DUNDER.get(name, name))
        env = {p: t for p, t, _ in params}
        binder = " ".join("(%s : %s%s)" % (p, self.lean_type(t), " := " + d if d is not None else "")
                          for p, t, d in params)
        pnames = " ".join(p for p, _, _ in params)
        body = [s for s in f.body if not (isinstance(s, ast.Expr) and isinstance(s.value, ast.Constant))]
        if body and len(params) == 2 and self.is_type_guard(body[0], params[1][0], cls):
            body = body[1:]
        # count top-level bindings to decide which locals are hoisted into their own def
        counts = {}
        for s in body[:-1]:
            for v in set(self.assigned([s])):
                counts[v] = counts.get(v, 0) + 1
        self.uses_tables = False
        asserts = []
        self.collect_asserts(body, env, [], asserts)
        lines = []
        lenv = dict(env)
        for s in body[:-1]:
            if isinstance(s, ast.Assert):
                continue
            vs = sorted(set(self.assigned([s])))
            if len(vs) != 1:
                raise Unsupported("statement binds %s" % vs)
            var = vs[0]
            if isinstance(s, ast.If) and not s.orelse and len(s.body) == 1 and isinstance(s.body[0], ast.Return):
                raise Unsupported("early return in a method")
            hoist = counts[var] == 1 and var not in env and self.only_params(s, env)
            if hoist:
                val, ty = self.value_block([s], env, var)
                hname = "%s.%s" % (lname, var)
                self.emit(hname, "def %s %s : %s :=\n  %s\n" % (hname, binder, self.lean_type(ty), val))
                lenv[var] = (ty, "(%s %s)" % (hname, pnames))
            elif isinstance(s, ast.Assign):
                lines.append(self.assign(s, lenv))
            elif isinstance(s, ast.If):
                lines.append(self.if_update(s, lenv))
            else:
                raise Unsupported("statement " + ast.unparse(s))
        last = body[-1] if body else None
        if not isinstance(last, ast.Return) or last.value is None:
            raise Unsupported("%s does not end in `return <expr>`" % lname)
        rv = last.value
        if isinstance(rv, ast.BoolOp) and isinstance(rv.op, ast.And) and not lines and len(rv.values) > 2:
            conj = []
            for i, c in enumerate(rv.values, 1):
                v, t = self.ex(c, lenv)
                if t != "Bool":
                    raise Unsupported("non-Boolean conjunct")
                cname = "%s.conj%d" % (lname, i)
                self.emit(cname, "/-- `%s` -/\ndef %s %s : Bool :=\n  %s\n" % (
                    ast.unparse(c), cname, binder, v))
                conj.append("%s %s" % (cname, pnames))
            val, ty = " &&\n  ".join(conj), "Bool"
        else:
            val, ty = self.ex(rv, lenv)
        if ty != ret:
            raise Unsupported("%s returns a %s, %s expected" % (lname, ty, ret))
        text = "def %s %s : %s :=\n" % (lname, binder, self.lean_type(ret))
        for l in lines:
            text += "  " + l + "\n"
        text += "  " + val + "\n"
        self.emit(lname, text)
        self.sigs[lname] = (params, ret, False)
        for i, a in enumerate(asserts, 1):
            aname = "%s.assert%d" % (lname, i)
            self.emit(aname, "/-- an `assert` of the Python body, guarded by its path condition -/\n"
                             "def %s %s : Bool :=\n  %s\n" % (aname, binder, a))

    def only_params(self, s, env):
        names = {n.id for n in ast.walk(s) if isinstance(n, ast.Name) and isinstance(n.ctx, ast.Load)}
        return names <= set(env)

    @staticmethod
    def lean_type(t):
        return {"Str": "String"}.get(t, t)

    # ---------------------------------------------------------------- module-level functions (Except PyErr)
    def raise_of(self, s):
        exc = s.exc
        if isinstance(exc, ast.Call):
            exc = exc.func
        if not (isinstance(exc, ast.Name) and exc.id in ERRORS):
            raise Unsupported("raise " + ast.unparse(s))
        return ".error .%s" % exc.id

    def ret_of(self, e, env):
        if isinstance(e, ast.Subscript):
            if not (isinstance(e.slice, ast.Constant) and e.slice.value == 0):
                raise Unsupported("subscript " + ast.unparse(e))
            v, t = self.ex(e.value, env)
            if t != "List Logic":
                raise Unsupported("subscript of %s" % t)
            return "pyIndex0 %s" % v
        if isinstance(e, ast.Call) and isinstance(e.func, ast.Name) and e.func.id in self.funs:
            if e.func.id not in MODULE_FUNS:
                raise Unsupported("call of untranslated %s" % e.func.id)
            params, _, _ = self.signature(None, e.func.id)
            return "%s %s" % (e.func.id, " ".join(self.bind_args(e, params, env)))
        v, t = self.ex(e, env)
        if t != "Logic":
            raise Unsupported("function returns a %s" % t)
        return ".ok %s" % v

    def mblock(self, stmts, env, ind):
        pad = "  " * ind
        if not stmts:
            raise Unsupported("function may fall off its end")
        s, rest = stmts[0], stmts[1:]
        if isinstance(s, ast.Expr) and isinstance(s.value, ast.Constant):
            return self.mblock(rest, env, ind)
        if isinstance(s, ast.Return):
            return pad + self.ret_of(s.value, env) + "\n"
        if isinstance(s, ast.Raise):
            return pad + self.raise_of(s) + "\n"
        if isinstance(s, ast.Assign):
            env = dict(env)
            return pad + self.assign(s, env) + "\n" + self.mblock(rest, env, ind)
        if isinstance(s, ast.If):
            c, t = self.ex(s.test, env)
            if t != "Bool":
                raise Unsupported("non-Boolean test")
            if not self.terminates(s.body):
                raise Unsupported("if-branch without return/raise in a function body")
            els = list(s.orelse) + (list(rest) if not self.terminates(s.orelse) else [])
            return (pad + "bif %s then\n" % c + self.mblock(s.body, env, ind + 1)
                    + pad + "else\n" + self.mblock(els, env, ind + 1))
        if isinstance(s, ast.For):
            # for v in ITER: if COND: return v     (then the rest is the not-found path)
            if s.orelse or not isinstance(s.target, ast.Name) or len(s.body) != 1:
                raise Unsupported("for loop form")
            b = s.body[0]
            if not (isinstance(b, ast.If) and not b.orelse and len(b.body) == 1
                    and isinstance(b.body[0], ast.Return) and isinstance(b.body[0].value, ast.Name)
                    and b.body[0].value.id == s.target.id):
                raise Unsupported("for loop body is not `if c: return v`")
            it, itt = self.ex(s.iter, env)
            if itt != "List Logic":
                raise Unsupported("loop over %s" % itt)
            f, t = self.lam(s.target.id, b.test, env, "Logic")
            return (pad + "match %s.find? %s with\n" % (it, f)
                    + pad + "| some %s => .ok %s\n" % (s.target.id, s.target.id)
                    + pad + "| none =>\n" + self.mblock(rest, env, ind + 1))
        raise Unsupported("statement " + ast.unparse(s))

    def terminates(self, stmts):
        if not stmts:
            return False
        s = stmts[-1]
        if isinstance(s, (ast.Return, ast.Raise)):
            return True
        if isinstance(s, ast.If):
            return self.terminates(s.body) and self.terminates(s.orelse)
        return False

    def function(self, name):
        if name not in self.funs:
            raise Unsupported("function %s not found" % name)
        f = self.funs[name]
        params, ret, _ = self.signature(None, name)
        env = {p: t for p, t, _ in params}
        binder = " ".join("(%s : %s%s)" % (p, self.lean_type(t), " := " + d if d is not None else "")
                          for p, t, d in params)
        self.uses_tables = False
        # Python's `.lower()` on names: only in the `get_logic_by_name` idiom
        body = self.mblock(self.lowered(f.body), env, 1)
        self.emit(name, "def %s %s : Except PyErr Logic :=\n%s" % (name, binder, body))

    def lowered(self, stmts):
        """rewrite `<e>.lower()` into a pseudo-call the expression translator understands"""
        tr = self

        class R(ast.NodeTransformer):
            def visit_Call(self, node):
                self.generic_visit(node)
                if isinstance(node.func, ast.Attribute) and node.func.attr == "lower" and not node.args:
                    return ast.Call(func=ast.Name(id="__lower__", ctx=ast.Load()), args=[node.func.value],
                                    keywords=[])
                return node
        return [ast.fix_missing_locations(R().visit(s)) for s in stmts]

    # ---------------------------------------------------------------- driver
    def run(self):
        for m in self.classes["Theory"].body:
            if isinstance(m, ast.FunctionDef) and m.name not in SKIP_THEORY:
                self.method("Theory", m.name)
        for m in self.classes["Logic"].body:
            if isinstance(m, ast.FunctionDef) and m.name not in SKIP_LOGIC:
                self.method("Logic", m.name)
        for n in MODULE_FUNS:
            self.function(n)


# `__lower__` pseudo call
_orig_call = Translator.call


def _call(self, e, env):
    if isinstance(e.func, ast.Name) and e.func.id == "__lower__":
        v, t = self.ex(e.args[0], env)
        if t != "Str":
            raise Unsupported(".lower() of %s" % t)
        return "%s.toLower" % v, "Str"
    return _orig_call(self, e, env)


Translator.call = _call


def topo(items):
    """order defs so that every def comes after the defs its text mentions (methods may be written in any
    order in the Python class)"""
    names = [n for n, _, _ in items]
    text = {n: t for n, t, _ in items}
    import re
    deps = {}
    for n in names:
        body = text[n].split(":=", 1)[1] if ":=" in text[n] else text[n]
        toks = set(re.findall(r"[A-Za-z_][A-Za-z_0-9.]*", body))
        deps[n] = [m for m in names if m != n and m in toks]
    out, seen, stack = [], set(), set()

    def visit(n):
        if n in seen:
            return
        if n in stack:
            raise Unsupported("recursive definitions around %s" % n)
        stack.add(n)
        for d in deps[n]:
            visit(d)
        stack.discard(n)
        seen.add(n)
        out.append(n)
    for n in names:
        visit(n)
    return out


# ------------------------------------------------------------------ tables
def load_logics_module(repo):
    repo = os.path.realpath(repo)
    if "pysmt" not in sys.modules and repo not in [os.path.realpath(p) for p in sys.path if p]:
        sys.path.insert(0, repo)
    import warnings
    with warnings.catch_warnings():
        warnings.simplefilter("ignore")
        import pysmt.logics as L
    got = os.path.realpath(L.__file__)
    if not got.startswith(repo + os.sep):
        raise Unsupported("pysmt.logics was imported from %s, not from %s" % (got, repo))
    return L


def b(x):
    if x is True:
        return "true"
    if x is False:
        return "false"
    raise Unsupported("theory flag %r is not a bool" % (x,))


def tables(L, fields):
    consts = {}                     # python var -> Logic object
    sets = {}
    for k, v in vars(L).items():
        if isinstance(v, L.Logic) and k[0].isupper():
            consts[k] = v
        elif isinstance(v, (set, frozenset)) and v and all(isinstance(x, L.Logic) for x in v) \
                and (k[0].isupper() or k == "ext_logics"):
            sets[k] = v

    def value(l):
        return (l.name, l.quantifier_free) + tuple(getattr(l.theory, f) for f in fields)
    ident_of = {}                  # value -> lean identifier
    defs = []                      # (identifier, value or alias)
    # primary identifier of a module constant: the variable named like the logic, else the first variable
    by_obj = {}
    for k in sorted(consts):
        by_obj.setdefault(id(consts[k]), []).append(k)
    for oid, ks in sorted(by_obj.items(), key=lambda kv: kv[1]):
        obj = consts[ks[0]]
        prim = obj.name if obj.name in ks else ks[0]
        val = value(obj)
        if val in ident_of:
            defs.append((prim, ident_of[val]))          # equal content under another variable
        else:
            ident_of[val] = lean_ident(prim)
            defs.append((prim, val))
        for k in ks:
            if k != prim:
                defs.append((k, lean_ident(prim)))
    used = {lean_ident(d[0]) for d in defs}
    for sname in sorted(sets):
        for l in sorted(sets[sname], key=lambda x: (x.name, not x.quantifier_free)):
            val = value(l)
            if val in ident_of:
                continue
            ident = lean_ident(l.name)
            if ident in used:
                raise Unsupported("two different logics want the identifier %s" % ident)
            used.add(ident)
            ident_of[val] = ident
            defs.append((l.name, val))
    table_sets = {}
    for sname, s in sets.items():
        vals = sorted({value(l) for l in s})
        if len(vals) != len(s):
            raise Unsupported("set %s holds two equal logics" % sname)
        table_sets[sname] = [ident_of[v] for v in vals]
    return consts, defs, table_sets, ident_of


def generate(repo):
    path = os.path.join(repo, "pysmt", "logics.py")
    src = open(path).read()
    tr = Translator(src)
    L = load_logics_module(repo)
    if [a for a in tr.fields] != [f for f in tr.fields if hasattr(L.Theory(), f)]:
        raise Unsupported("Theory fields do not match the imported class")
    consts, defs, table_sets, ident_of = tables(L, tr.fields)
    tr.table_names = {k: "Logic" for k in consts}
    tr.table_names.update({k: "List Logic" for k in table_sets})
    tr.run()
    order = topo(tr.out_order)
    text = {n: t for n, t, _ in tr.out_order}
    # a def goes to Logics.lean when it (transitively) mentions a table
    needs = {n: u for n, _, u in tr.out_order}
    import re
    changed = True
    while changed:
        changed = False
        for n in order:
            if not needs[n]:
                toks = set(re.findall(r"[A-Za-z_][A-Za-z_0-9.]*", text[n].split(":=", 1)[1]))
                if any(needs.get(m) for m in toks if m != n):
                    needs[n] = True
                    changed = True

    hdr = ("/- GENERATED by tools/gen_logics.py from pysmt/logics.py -- do not edit.\n"
           "   Regenerated on every `./check C13`; a committed copy is the baseline. -/\n")
    t1 = [hdr, "namespace PySMT.Logics\n", PRELUDE,
          "/-- `pysmt.logics.Theory`: one Boolean per constructor argument -/\nstructure Theory where"]
    t1 += ["  %s : Bool" % f for f in tr.fields]
    t1.append("deriving DecidableEq, Repr\n")
    t1.append("/-- `pysmt.logics.Logic` (the description string is not modelled) -/\nstructure Logic where\n"
              "  name : String\n  quantifier_free : Bool\n  theory : Theory\nderiving DecidableEq, Repr\n")
    t1.append("/-- `Theory(...)` with no arguments (constructor defaults) -/\ndef Theory.default : Theory :=\n  { "
              + ", ".join("%s := %s" % (f, b(tr.field_default[f])) for f in tr.fields) + " }\n")
    ienv = {f: ("Bool", "t.%s" % f) for f in tr.fields}
    ias = []
    for a in tr.init_asserts:
        v, t = tr.ex(a, ienv)
        ias.append(v)
    t1.append("/-- the `assert`s of `Theory.__init__` (the constructor raises AssertionError when false) -/\n"
              "def Theory.init_ok (t : Theory) : Bool :=\n  " + (" && ".join(ias) if ias else "true") + "\n")
    t1.append("def Theory.fieldNames : List String := [" + ", ".join('"%s"' % f for f in tr.fields) + "]\n")
    t1.append("def Theory.toBits (t : Theory) : List Bool := [" + ", ".join("t.%s" % f for f in tr.fields) + "]\n")
    t1.append("def Theory.ofBits : List Bool → Option Theory\n  | [" + ", ".join("b%d" % i for i in range(len(tr.fields)))
              + "] => some ⟨" + ", ".join("b%d" % i for i in range(len(tr.fields))) + "⟩\n  | _ => none\n")
    for n in order:
        if not needs[n]:
            t1.append(text[n])
    t1.append("end PySMT.Logics\n")

    t2 = [hdr, "import PySMT.Gen.TheoryOrder\nnamespace PySMT.Logics\n"]
    for name, val in defs:
        if isinstance(val, str):
            t2.append("def %s : Logic := %s" % (lean_ident(name), val))
        else:
            t2.append("def %s : Logic := ⟨%s, %s, ⟨%s⟩⟩" % (
                lean_ident(name), lean_str(val[0]), b(val[1]), ", ".join(b(x) for x in val[2:])))
    t2.append("")
    for sname in sorted(table_sets):
        t2.append("def %s : List Logic := [%s]\n" % (lean_ident(sname), ", ".join(table_sets[sname])))
    allv = sorted(ident_of)
    t2.append("/-- every distinct named logic of the module (including the `Auto` marker and constants that "
              "are in no set) -/\ndef ALL_NAMED : List Logic := [%s]\n" % ", ".join(ident_of[v] for v in allv))
    t2.append("/-- the module-level sets by their Python name -/\ndef SETS : List (String × List Logic) := [%s]\n"
              % ", ".join('("%s", %s)' % (k, lean_ident(k)) for k in sorted(table_sets)))
    for n in order:
        if needs[n]:
            t2.append(text[n])
    t2.append("end PySMT.Logics\n")
    return {"TheoryOrder.lean": "\n".join(t1), "Logics.lean": "\n".join(t2)}


if __name__ == "__main__":
    repo = os.environ.get("VERIF_REPO", "/repo")
    out = generate(repo)
    here = os.path.dirname(os.path.dirname(os.path.abspath(__file__)))
    for k, v in out.items():
        p = os.path.join(here, "lean", "PySMT", "Gen", k)
        if "--check" in sys.argv:
            same = os.path.exists(p) and open(p).read() == v
            print(k, "up to date" if same else "DIFFERS")
        elif "--stdout" in sys.argv:
            print(v)
        else:
            old = open(p).read() if os.path.exists(p) else None
            if old != v:
                os.makedirs(os.path.dirname(p), exist_ok=True)
                open(p, "w").write(v)
            print(k, "written" if old != v else "unchanged", len(v.splitlines()), "lines")
