"""Translator for C09 (human-readable format): the token table of `HRLexer` and the printing forms of `HRPrinter`.

Reads `<repo>/pysmt/parsing.py` and `<repo>/pysmt/printers.py` with `ast` only and emits lean/PySMT/Gen/HROps.lean:

  rules       every non-functional `Rule(regex, symbol, False)` of `HRLexer.hr_rules` (the regex un-escaped to the spelling it
              matches; a trailing `\\s+` dropped);
  idents      every entry of `HRLexer._identifier_map`;      tokens = rules ++ idents
                spelling |-> Kind
                  infix c lbp              InfixOpAdapter(c, lbp)
                  unary c lbp              UnaryOpAdapter(c, lbp)
                  infixUnary b u blbp ulbp InfixOrUnaryOpAdapter(b, u, blbp, ulbp)
                  fnCall c lbp             FunctionCallAdapter(c, lbp)
                  quant c lbp              Quantifier(c, lbp)
                  const c                  Constant(mgr.c())
                  tyTok cls                IntTypeTok() / RealTypeTok() / BoolTypeTok()
                  punct cls lbp            OpenPar() ... : a GrammarSymbol subclass without arguments; lbp is the
                                           `self.lbp = N` of its `__init__` (0 when it has none)
              constructor names: `mgr.X` for `self.mgr.X`, `self.X` for a method of the lexer, `BVHack(mgr.X)`.
  functional  the functional rules `Rule(regex, self.handler, True)` and the whitespace rule, in order (regex, handler)
  printer     for every node type: what `HRPrinter.walk_<node type>` is:
                nary raw spelling   `return self.walk_nary(formula, raw)`  (spelling = raw.strip())
                custom hash         any other body (hand-modelled in Impl/HR.lean); hash of its AST
              (class-level aliases `walk_bv_and = walk_and` are followed)
  simpleSymbolRegex, quoteKeywords   `_simple_symbol_prog` and `_keywords` of pysmt/utils.py (which names `quote` leaves bare)
  hashes      sha1 (16 hex digits) of the AST of every method of parsing.py (all classes; `HRLexer.__init__` without its two
              tables) and of the helper methods of `HRPrinter`, of `utils.quote`, so that an edit of a hand-modelled body changes the table.

Anything the translator cannot express raises Unsupported (reported by the runner as a broken obligation).
"""
import ast
import hashlib
import os
import sys

sys.path.insert(0, os.path.dirname(os.path.abspath(__file__)))
from gen_operators import LEAN_NAME  # noqa: E402


class Unsupported(Exception):
    pass


TYPE_TOKS = {"IntTypeTok", "RealTypeTok", "BoolTypeTok"}
ADAPTERS = {"InfixOpAdapter": "infix", "UnaryOpAdapter": "unary", "FunctionCallAdapter": "fnCall", "Quantifier": "quant"}
META = set(".^$*+?{}[]|()")


def lean_str(s):
    out = []
    for ch in s:
        if ch == "\\":
            out.append("\\\\")
        elif ch == '"':
            out.append('\\"')
        elif ch == "\n":
            out.append("\\n")
        elif ch == "\t":
            out.append("\\t")
        elif 32 <= ord(ch) < 127:
            out.append(ch)
        else:
            out.append("\\u{%x}" % ord(ch))
    return '"' + "".join(out) + '"'


def ast_hash(node):
    return hashlib.sha1(ast.dump(node, include_attributes=False).encode()).hexdigest()[:16]


def _attr_chain(node):
    out = []
    while isinstance(node, ast.Attribute):
        out.append(node.attr)
        node = node.value
    if isinstance(node, ast.Name):
        out.append(node.id)
        return list(reversed(out))
    return None


def spelling_of(regex):
    """the literal text a rule's regex matches: `(<escaped literal>)` with an optional trailing `\\s+`"""
    if not (regex.startswith("(") and regex.endswith(")")):
        raise Unsupported("rule regex %r is not a single group" % regex)
    body = regex[1:-1]
    if body.endswith("\\s+"):
        body = body[:-3]
    out, i = [], 0
    while i < len(body):
        c = body[i]
        if c == "\\":
            if i + 1 >= len(body) or body[i + 1].isalnum():
                raise Unsupported("rule regex %r: unsupported escape" % regex)
            out.append(body[i + 1])
            i += 2
        elif c in META:
            raise Unsupported("rule regex %r: unescaped metacharacter" % regex)
        else:
            out.append(c)
            i += 1
    if not out:
        raise Unsupported("rule regex %r matches the empty string" % regex)
    return "".join(out)


def ctor_name(e):
    """self.mgr.X -> mgr.X ; self.X -> self.X ; self.BVHack(self.mgr.X) -> BVHack(mgr.X)"""
    ch = _attr_chain(e)
    if ch and ch[0] == "self" and len(ch) == 3 and ch[1] == "mgr":
        return "mgr." + ch[2]
    if ch and ch[0] == "self" and len(ch) == 2:
        return "self." + ch[1]
    if isinstance(e, ast.Call) and _attr_chain(e.func) == ["self", "BVHack"] and len(e.args) == 1 and not e.keywords:
        return "BVHack(%s)" % ctor_name(e.args[0])
    raise Unsupported("unexpected operator expression: %s" % ast.dump(e))


def _int(e):
    if isinstance(e, ast.Constant) and isinstance(e.value, int) and not isinstance(e.value, bool) and e.value >= 0:
        return e.value
    raise Unsupported("binding power is not a literal natural number")


def class_lbp(cls):
    """the `self.lbp = N` of a class's __init__ (0 when there is none)"""
    lbp = 0
    for f in cls.body:
        if isinstance(f, ast.FunctionDef) and f.name == "__init__":
            for st in ast.walk(f):
                if isinstance(st, ast.Assign) and len(st.targets) == 1 and _attr_chain(st.targets[0]) == ["self", "lbp"]:
                    lbp = _int(st.value)
    return lbp


def symbol_kind(e, classes):
    """the token object of a rule / identifier-map entry -> Lean `Kind` source"""
    if not isinstance(e, ast.Call) or e.keywords or not isinstance(e.func, ast.Name):
        raise Unsupported("unexpected token expression: %s" % ast.dump(e))
    cname = e.func.id
    if cname in ADAPTERS:
        if len(e.args) != 2:
            raise Unsupported("%s: two arguments expected" % cname)
        return ".%s %s %d" % (ADAPTERS[cname], lean_str(ctor_name(e.args[0])), _int(e.args[1]))
    if cname == "InfixOrUnaryOpAdapter":
        if len(e.args) != 4:
            raise Unsupported("InfixOrUnaryOpAdapter: four arguments expected")
        return ".infixUnary %s %s %d %d" % (lean_str(ctor_name(e.args[0])), lean_str(ctor_name(e.args[1])),
                                             _int(e.args[2]), _int(e.args[3]))
    if cname == "Constant":
        if len(e.args) == 1 and isinstance(e.args[0], ast.Call) and not e.args[0].args:
            ch = _attr_chain(e.args[0].func)
            if ch and ch[:2] == ["self", "mgr"] and len(ch) == 3:
                return ".const %s" % lean_str(ch[2])
        raise Unsupported("Constant(...): unexpected argument")
    if e.args:
        raise Unsupported("token class %s with arguments" % cname)
    if cname not in classes:
        raise Unsupported("unknown token class %s" % cname)
    if cname in TYPE_TOKS:
        return ".tyTok %s" % lean_str(cname)
    return ".punct %s %d" % (lean_str(cname), class_lbp(classes[cname]))


def translate_parser(repo):
    path = os.path.join(repo, "pysmt", "parsing.py")
    tree = ast.parse(open(path).read())
    classes = {c.name: c for c in tree.body if isinstance(c, ast.ClassDef)}
    if "HRLexer" not in classes:
        raise Unsupported("class HRLexer not found")
    init = [f for f in classes["HRLexer"].body if isinstance(f, ast.FunctionDef) and f.name == "__init__"]
    if len(init) != 1:
        raise Unsupported("HRLexer.__init__ not found")
    init = init[0]
    rules_node, map_node, other = None, None, []
    for st in init.body:
        tgt = None
        if isinstance(st, ast.Assign) and len(st.targets) == 1:
            tgt, val = st.targets[0], st.value
        elif isinstance(st, ast.AnnAssign) and st.value is not None:
            tgt, val = st.target, st.value
        if tgt is not None and isinstance(tgt, ast.Name) and tgt.id == "hr_rules":
            rules_node = val
        elif tgt is not None and _attr_chain(tgt) == ["self", "_identifier_map"]:
            map_node = val
        else:
            other.append(st)
    if not isinstance(rules_node, ast.List):
        raise Unsupported("hr_rules is not a list literal")
    if not isinstance(map_node, ast.Dict):
        raise Unsupported("self._identifier_map is not a dict literal")
    tokens, idents, functional = [], [], []
    for r in rules_node.elts:
        if not (isinstance(r, ast.Call) and isinstance(r.func, ast.Name) and r.func.id == "Rule" and len(r.args) == 3
                and not r.keywords):
            raise Unsupported("hr_rules: an element is not Rule(regex, symbol, functional)")
        rx, sym, fn = r.args
        if not (isinstance(rx, ast.Constant) and isinstance(rx.value, str)):
            raise Unsupported("Rule: regex is not a string literal")
        if not (isinstance(fn, ast.Constant) and isinstance(fn.value, bool)):
            raise Unsupported("Rule: is_functional is not a literal")
        if isinstance(sym, ast.Constant) and sym.value is None:
            functional.append((rx.value, "skip"))
        elif fn.value:
            ch = _attr_chain(sym)
            if not (ch and ch[0] == "self" and len(ch) == 2):
                raise Unsupported("functional rule %r: handler is not a method of the lexer" % rx.value)
            functional.append((rx.value, ch[1]))
        else:
            tokens.append((spelling_of(rx.value), symbol_kind(sym, classes)))
    for k, v in zip(map_node.keys, map_node.values):
        if not (isinstance(k, ast.Constant) and isinstance(k.value, str)):
            raise Unsupported("_identifier_map: non-literal key")
        idents.append((k.value, symbol_kind(v, classes)))
    if len(set(k for k, _ in tokens + idents)) != len(tokens + idents):
        raise Unsupported("two tokens with the same spelling")
    hashes = []
    for st in tree.body:
        if isinstance(st, ast.FunctionDef):
            hashes.append(("parsing." + st.name, ast_hash(st)))
    for cname, c in classes.items():
        for f in c.body:
            if isinstance(f, ast.FunctionDef):
                if cname == "HRLexer" and f.name == "__init__":
                    hashes.append(("HRLexer.__init__", ast_hash(ast.Module(body=other, type_ignores=[]))))
                else:
                    hashes.append(("%s.%s" % (cname, f.name), ast_hash(f)))
    return tokens, idents, functional, hashes


def translate_printer(repo):
    path = os.path.join(repo, "pysmt", "printers.py")
    tree = ast.parse(open(path).read())
    classes = {c.name: c for c in tree.body if isinstance(c, ast.ClassDef)}
    if "HRPrinter" not in classes:
        raise Unsupported("class HRPrinter not found")
    forms, hashes = {}, []
    for st in classes["HRPrinter"].body:
        if isinstance(st, ast.FunctionDef):
            body = [s for s in st.body if not (isinstance(s, ast.Expr) and isinstance(s.value, ast.Constant))]
            form = None
            if len(body) == 1 and isinstance(body[0], ast.Return) and isinstance(body[0].value, ast.Call):
                call = body[0].value
                if _attr_chain(call.func) == ["self", "walk_nary"] and len(call.args) == 2 and not call.keywords \
                        and isinstance(call.args[0], ast.Name) and call.args[0].id == st.args.args[1].arg \
                        and isinstance(call.args[1], ast.Constant) and isinstance(call.args[1].value, str):
                    raw = call.args[1].value
                    if raw.strip() == "":
                        raise Unsupported("%s: empty operator" % st.name)
                    form = ".nary %s %s" % (lean_str(raw), lean_str(raw.strip()))
            if form is None:
                form = ".custom %s" % lean_str(ast_hash(st))
            forms[st.name] = form
            if not st.name.startswith("walk_") or st.name in ("walk_nary", "walk_quantifier", "walk_threshold"):
                hashes.append(("HRPrinter." + st.name, ast_hash(st)))
        elif isinstance(st, ast.Assign) and len(st.targets) == 1 and isinstance(st.targets[0], ast.Name) \
                and isinstance(st.value, ast.Name):
            if st.value.id not in forms:
                raise Unsupported("alias %s = %s before its definition" % (st.targets[0].id, st.value.id))
            forms[st.targets[0].id] = forms[st.value.id]
        elif isinstance(st, ast.Expr) and isinstance(st.value, ast.Constant):
            pass
        else:
            raise Unsupported("HRPrinter: unexpected class-level statement")
    printer = []
    for py, lean in LEAN_NAME.items():
        m = "walk_" + py.lower()
        if m not in forms:
            raise Unsupported("HRPrinter has no %s" % m)
        printer.append((lean, forms[m]))
    return printer, hashes


def translate_quote(repo):
    """pysmt/utils.py: the regex of `_simple_symbol_prog`, the set `_keywords`, the hash of `quote` (the HR printer quotes
    a symbol name with `quote(name, style="'")`)"""
    path = os.path.join(repo, "pysmt", "utils.py")
    tree = ast.parse(open(path).read())
    regex, keywords, qhash = None, None, None
    for st in tree.body:
        if isinstance(st, ast.Assign) and len(st.targets) == 1 and isinstance(st.targets[0], ast.Name):
            nm, v = st.targets[0].id, st.value
            if nm == "_simple_symbol_prog":
                if not (isinstance(v, ast.Call) and _attr_chain(v.func) == ["re", "compile"] and len(v.args) == 1
                        and isinstance(v.args[0], ast.Constant) and isinstance(v.args[0].value, str)):
                    raise Unsupported("_simple_symbol_prog is not re.compile(<literal>)")
                regex = v.args[0].value
            elif nm == "_keywords":
                if not (isinstance(v, ast.Call) and isinstance(v.func, ast.Name) and v.func.id == "set" and len(v.args) == 1
                        and isinstance(v.args[0], ast.List)
                        and all(isinstance(e, ast.Constant) and isinstance(e.value, str) for e in v.args[0].elts)):
                    raise Unsupported("_keywords is not set([<string literals>])")
                keywords = [e.value for e in v.args[0].elts]
        elif isinstance(st, ast.FunctionDef) and st.name == "quote":
            qhash = ast_hash(st)
    if regex is None or keywords is None or qhash is None:
        raise Unsupported("utils.py: _simple_symbol_prog / _keywords / quote not found")
    return regex, keywords, qhash


def generate(repo):
    tokens, idents, functional, h1 = translate_parser(repo)
    printer, h2 = translate_printer(repo)
    regex, keywords, qhash = translate_quote(repo)
    h2 = h2 + [("utils.quote", qhash)]
    L = []
    L.append("/- GENERATED by tools/gen_hrops.py from pysmt/parsing.py and pysmt/printers.py -- do not edit.\n"
             "   Regenerated on every `./check C09`; a committed copy is the baseline. -/\n"
             "import PySMT.Core.Term\n")
    L.append("namespace PySMT.Gen.HROps\n")
    L.append("/-- the token object `HRLexer` makes for a spelling -/")
    L.append("inductive Kind")
    L.append("  | infix (ctor : String) (lbp : Nat)                        -- InfixOpAdapter(ctor, lbp)")
    L.append("  | unary (ctor : String) (lbp : Nat)                        -- UnaryOpAdapter(ctor, lbp)")
    L.append("  | infixUnary (bctor uctor : String) (blbp ulbp : Nat)      -- InfixOrUnaryOpAdapter(b, u, blbp, ulbp)")
    L.append("  | fnCall (ctor : String) (lbp : Nat)                       -- FunctionCallAdapter(ctor, lbp)")
    L.append("  | quant (ctor : String) (lbp : Nat)                        -- Quantifier(ctor, lbp)")
    L.append("  | const (ctor : String)                                    -- Constant(mgr.<ctor>())")
    L.append("  | tyTok (cls : String)                                     -- IntTypeTok() ...")
    L.append("  | punct (cls : String) (lbp : Nat)                         -- OpenPar() ... (class, its `self.lbp`)")
    L.append("  deriving DecidableEq, Repr, Inhabited\n")
    L.append("/-- spelling ↦ token: the non-functional rules of `hr_rules`, in order -/")
    L.append("def rules : List (String × Kind) := [")
    L.append(",\n".join("  (%s, %s)" % (lean_str(k), v) for k, v in tokens))
    L.append("]\n")
    L.append("/-- `_identifier_map`: what the lexer makes of an identifier (plain or quoted) with this name -/")
    L.append("def idents : List (String × Kind) := [")
    L.append(",\n".join("  (%s, %s)" % (lean_str(k), v) for k, v in idents))
    L.append("]\n")
    L.append("def tokens : List (String × Kind) := rules ++ idents\n")
    L.append("/-- the functional rules (regex, handler method of the lexer; `skip` = whitespace), in order -/")
    L.append("def functional : List (String × String) := [")
    L.append(",\n".join("  (%s, %s)" % (lean_str(k), lean_str(v)) for k, v in functional))
    L.append("]\n")
    L.append("/-- what `HRPrinter.walk_<node type>` is -/")
    L.append("inductive Form")
    L.append("  | nary (raw spelling : String)   -- return self.walk_nary(formula, raw); spelling = raw.strip()")
    L.append("  | custom (hash : String)         -- any other body: hand-modelled, hash of its AST")
    L.append("  deriving DecidableEq, Repr, Inhabited\n")
    L.append("def printer : List (Op × Form) := [")
    L.append(",\n".join("  (.%s, %s)" % (k, v) for k, v in printer))
    L.append("]\n")
    L.append("/-- `pysmt/utils.py`: the names `quote` prints bare are the ones matching `_simple_symbol_prog` that are not `_keywords` -/")
    L.append("def simpleSymbolRegex : String := %s" % lean_str(regex))
    L.append("def quoteKeywords : List String := [%s]\n" % ", ".join(lean_str(k) for k in keywords))
    L.append("/-- sha1 (first 16 hex digits) of the AST of every method of parsing.py and of the helpers of `HRPrinter` -/")
    L.append("def hashes : List (String × String) := [")
    L.append(",\n".join("  (%s, %s)" % (lean_str(k), lean_str(v)) for k, v in h1 + h2))
    L.append("]\n")
    L.append("end PySMT.Gen.HROps\n")
    return {"HROps.lean": "\n".join(L)}


if __name__ == "__main__":
    repo = os.environ.get("VERIF_REPO", "/repo")
    for fn, src in generate(repo).items():
        sys.stdout.write(src)
