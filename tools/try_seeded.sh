#!/bin/sh
# tools/try_seeded.sh CXX <patch.diff> [tier] [seed]
# Applies the patch to a scratch worktree of /repo's HEAD (never to /repo itself), runs the
# check against it through VERIF_REPO, prints the outcome, removes the worktree.
P=$1; PATCH=$(realpath "$2"); TIER=${3:-quick}; SEED=${4:-0}
cd "$(dirname "$0")/.."
W=/tmp/seedtest_$$
git -C /repo worktree add -q --detach $W HEAD || exit 2
if ! git -C $W apply "$PATCH"; then echo "PATCH DOES NOT APPLY"; git -C /repo worktree remove --force $W; exit 2; fi
t0=$(date +%s)
VERIF_REPO=$W VERIF_SEED=$SEED ./check $P --tier $TIER > /tmp/seedtest_$$.log 2>&1; rc=$?
t1=$(date +%s)
grep '^KNOWN-FINDING' /tmp/seedtest_$$.log | cut -c1-60 | head -12
grep '^VIOLATION\|INFRA' /tmp/seedtest_$$.log | cut -c1-300 | head -6
echo "rc=$rc $((t1-t0))s"
git -C /repo worktree remove --force $W
rm -f /tmp/seedtest_$$.log
# the run above regenerated lean/PySMT/Gen from the patched worktree: restore it from /repo
./check $P --regen-only > /dev/null 2>&1
exit $rc
