#!/bin/sh
# tools/confirm_seeded.sh <dir with patch.diff + demo.py>  -- confirms, in a scratch worktree of /repo HEAD:
# demo passes on pristine, patch applies, demo fails with patch, 376 tests still pass with patch.
D=$(realpath "$1"); W=/tmp/confirm_$$
git -C /repo worktree add -q --detach $W HEAD || exit 2
cd $W
run_demo() { (cd $W && PYTHONPATH=$W timeout 300 /venv/bin/python "$D/demo.py" > /tmp/confirm_$$.out 2>&1); echo $?; }
r0=$(run_demo)
if ! git -C $W apply "$D/patch.diff"; then echo "RESULT $D patch-does-not-apply"; cd /; git -C /repo worktree remove --force $W; exit 1; fi
r1=$(run_demo)
tail -2 /tmp/confirm_$$.out | cut -c1-200
suite=$(cd $W && PYTHONPATH=$W /venv/bin/python -m pytest -q -p no:cacheprovider 2>&1 | tail -1)
cd /; git -C /repo worktree remove --force $W; rm -f /tmp/confirm_$$.out
echo "RESULT $D demo_pristine_rc=$r0 demo_patched_rc=$r1 suite='$suite' head=$(git -C /repo rev-parse --short HEAD)"
