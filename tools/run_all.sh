#!/bin/sh
# tools/run_all.sh [tier] [seeds...]  -- run every claimed check, print one line per (property, seed)
cd "$(dirname "$0")/.."
TIER=${1:-quick}; shift
SEEDS=${*:-0}
for p in $(python3 -c "import json;print(' '.join(c['property_id'] for c in json.load(open('MANIFEST.json'))['checks']))"); do
  for s in $SEEDS; do
    t0=$(date +%s)
    out=$(VERIF_SEED=$s ./check $p --tier $TIER 2>&1); rc=$?
    t1=$(date +%s)
    echo "$p seed=$s rc=$rc $((t1-t0))s $(echo "$out" | grep -c '^VIOLATION') violations $(echo "$out" | grep -c '^KNOWN-FINDING') known"
    echo "$out" | grep '^VIOLATION\|^INFRA' | head -3
  done
done
