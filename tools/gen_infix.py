"""Translator for C06: the infix layer of `pysmt/fnode.py` -> lean/PySMT/Gen/Infix.lean.

By Python `ast` over `<repo>/pysmt/fnode.py` (class FNode, every method from `_apply_infix`
to the end of the class) and `<repo>/pysmt/formula.py` (only for the parameter names of the
FormulaManager methods, to put keyword arguments in position).

Every method body is translated, statement by statement, into the small language of
`lean/PySMT/Impl/Mk.lean: Infix.{E, C, S}`:

    return e | v = e | if c: … else: … | assert isinstance(e, FNode) | raise Cls(…)
    e ::= self | v | <int> | None | _mgr().F(e…) | e._apply_infix(e, _mgr().F [, _mgr().G])
        | -e | e.bv_width() | e.start | e.stop | e.<other method of the region>(e…) | cast(T, e)
    c ::= e.get_type().is_bv_type() | is_python_integer(e) | isinstance(e, FNode|slice)
        | e is None | c and c

A body that uses anything else is emitted as `[.opaque "<ast hash>"]` (today: `__call__`);
`_apply_infix` and `_infix_prepare_arg`, which the Lean model implements by hand, are
always emitted as hash entries.  Nothing is guessed: an untranslatable construct never
becomes a default.

    generate(repo) -> {"Infix.lean": source}
"""
import ast
import hashlib
import os

HAND_MODELLED = ("_apply_infix", "_infix_prepare_arg")
# exception classes of pysmt/exceptions.py -> Mk.Err
RAISES = {"PysmtModeError": ".mode", "UnsupportedOperatorError": ".unsupported",
          "PysmtValueError": ".value", "PysmtTypeError": ".type"}


class Untranslatable(Exception):
    pass


def ast_hash(node):
    """hash of the AST of a function definition: decorators, arguments and body without
    the docstring, positions and type annotations ignored"""
    node = ast.parse(ast.unparse(node)).body[0]          # drop position info, normalise
    body = list(node.body)
    if body and isinstance(body[0], ast.Expr) and isinstance(body[0].value, ast.Constant) \
            and isinstance(body[0].value.value, str):
        body = body[1:]
    for a in node.args.args + node.args.kwonlyargs:
        a.annotation = None
    if node.args.vararg is not None:
        node.args.vararg.annotation = None
    node.returns = None
    parts = [ast.dump(d) for d in node.decorator_list] + [ast.dump(node.args)] + [ast.dump(s) for s in body]
    return hashlib.sha256("\n".join(parts).encode()).hexdigest()[:16]


def lean_str(s):
    assert all(32 <= ord(c) < 127 and c not in '"\\' for c in s), s
    return '"%s"' % s


def lean_opt(s):
    return "none" if s is None else "(some %s)" % lean_str(s)


def lean_list(items):
    return "[" + ", ".join(items) + "]"


class Translator:
    def __init__(self, methods, mgr_params):
        self.methods = methods            # names of the methods of the region
        self.mgr_params = mgr_params      # FormulaManager method -> parameter names (after self)

    # -------------------------------------------------------------- helpers
    @staticmethod
    def is_mgr_call(n):
        return (isinstance(n, ast.Call) and isinstance(n.func, ast.Name) and n.func.id == "_mgr"
                and not n.args and not n.keywords)

    def mgr_fn(self, n):
        """`_mgr().F` -> "F";  `None` -> None"""
        if isinstance(n, ast.Constant) and n.value is None:
            return None
        if isinstance(n, ast.Attribute) and self.is_mgr_call(n.value):
            return n.attr
        raise Untranslatable("manager function expected: " + ast.dump(n))

    # ---------------------------------------------------------- expressions
    def expr(self, n):
        if isinstance(n, ast.Name):
            return ".self" if n.id == "self" else "(.var %s)" % lean_str(n.id)
        if isinstance(n, ast.Constant):
            if n.value is None:
                return ".none"
            if type(n.value) is int:
                return "(.int %d)" % n.value
            raise Untranslatable("constant " + repr(n.value))
        if isinstance(n, ast.UnaryOp) and isinstance(n.op, ast.USub):
            if isinstance(n.operand, ast.Constant) and type(n.operand.value) is int:
                return "(.int (%d))" % (-n.operand.value)
            return "(.neg %s)" % self.expr(n.operand)
        if isinstance(n, ast.Attribute) and n.attr in ("start", "stop") and isinstance(n.value, ast.Name):
            return "(.attr %s %s)" % (self.expr(n.value), lean_str(n.attr))
        if isinstance(n, ast.Call):
            f = n.func
            if isinstance(f, ast.Name) and f.id == "cast" and len(n.args) == 2 and not n.keywords:
                return self.expr(n.args[1])
            if isinstance(f, ast.Attribute) and self.is_mgr_call(f.value):
                return "(.mgr %s %s)" % (lean_str(f.attr), lean_list(self.call_args(f.attr, n)))
            if isinstance(f, ast.Attribute) and f.attr == "_apply_infix":
                args = list(n.args)
                kws = {k.arg: k.value for k in n.keywords}
                if len(args) < 2 or len(args) > 3 or set(kws) - {"bv_function"} or (len(args) == 3 and kws):
                    raise Untranslatable("_apply_infix call shape")
                fn = self.mgr_fn(args[1])
                if len(args) == 3:
                    bv = self.mgr_fn(args[2])
                elif "bv_function" in kws:
                    bv = self.mgr_fn(kws["bv_function"])
                else:
                    bv = None
                if bv is None:          # `if bv_function is None: bv_function = function`
                    bv = fn
                return "(.infix %s %s %s %s)" % (self.expr(f.value), self.expr(args[0]), lean_opt(fn), lean_opt(bv))
            if isinstance(f, ast.Attribute) and f.attr == "bv_width" and not n.args and not n.keywords:
                return "(.bvWidth %s)" % self.expr(f.value)
            if isinstance(f, ast.Attribute) and f.attr in self.methods and not n.keywords:
                return "(.meth %s %s %s)" % (self.expr(f.value), lean_str(f.attr),
                                             lean_list([self.expr(a) for a in n.args]))
        raise Untranslatable("expression " + ast.dump(n))

    def call_args(self, fname, call):
        """positional argument list of `_mgr().fname(...)`, keywords put in position"""
        args = [self.expr(a) for a in call.args]
        if call.keywords:
            params = self.mgr_params.get(fname)
            if params is None:
                raise Untranslatable("keyword call of unknown manager method " + fname)
            for kw in call.keywords:
                if kw.arg is None or kw.arg not in params:
                    raise Untranslatable("keyword %r of %s" % (kw.arg, fname))
            slots = {params.index(kw.arg): kw.value for kw in call.keywords}
            pos = len(args)
            while slots:
                if pos not in slots:
                    raise Untranslatable("keyword arguments of %s leave a gap" % fname)
                args.append(self.expr(slots.pop(pos)))
                pos += 1
        return args

    # ------------------------------------------------------------ conditions
    def cond(self, n):
        if isinstance(n, ast.BoolOp) and isinstance(n.op, ast.And):
            cs = [self.cond(v) for v in n.values]
            out = cs[-1]
            for c in reversed(cs[:-1]):
                out = "(.and %s %s)" % (c, out)
            return out
        if isinstance(n, ast.Compare) and len(n.ops) == 1 and isinstance(n.ops[0], ast.Is) \
                and isinstance(n.comparators[0], ast.Constant) and n.comparators[0].value is None:
            return "(.isNone %s)" % self.expr(n.left)
        if isinstance(n, ast.Call) and not n.keywords:
            f = n.func
            if isinstance(f, ast.Name) and f.id == "is_python_integer" and len(n.args) == 1:
                return "(.isPyInt %s)" % self.expr(n.args[0])
            if isinstance(f, ast.Name) and f.id == "isinstance" and len(n.args) == 2 \
                    and isinstance(n.args[1], ast.Name) and n.args[1].id in ("FNode", "slice"):
                return "(.%s %s)" % ("isFNode" if n.args[1].id == "FNode" else "isSlice", self.expr(n.args[0]))
            if isinstance(f, ast.Attribute) and f.attr == "is_bv_type" and not n.args \
                    and isinstance(f.value, ast.Call) and isinstance(f.value.func, ast.Attribute) \
                    and f.value.func.attr == "get_type" and not f.value.args and not f.value.keywords:
                return "(.isBV %s)" % self.expr(f.value.func.value)
        raise Untranslatable("condition " + ast.dump(n))

    # ------------------------------------------------------------ statements
    def stmts(self, body):
        out = []
        for s in body:
            if isinstance(s, ast.Expr) and isinstance(s.value, ast.Constant) and isinstance(s.value.value, str):
                continue                                    # docstring
            if isinstance(s, ast.Return) and s.value is not None:
                out.append("(.ret %s)" % self.expr(s.value))
            elif isinstance(s, ast.Assign) and len(s.targets) == 1 and isinstance(s.targets[0], ast.Name):
                out.append("(.assign %s %s)" % (lean_str(s.targets[0].id), self.expr(s.value)))
            elif isinstance(s, ast.If):
                out.append("(.ite %s %s %s)" % (self.cond(s.test), lean_list(self.stmts(s.body)),
                                                lean_list(self.stmts(s.orelse))))
            elif isinstance(s, ast.Assert):
                t = s.test
                if isinstance(t, ast.Call) and isinstance(t.func, ast.Name) and t.func.id == "isinstance" \
                        and len(t.args) == 2 and isinstance(t.args[1], ast.Name) and t.args[1].id == "FNode":
                    out.append("(.assertFNode %s)" % self.expr(t.args[0]))
                else:
                    raise Untranslatable("assert " + ast.dump(t))
            elif isinstance(s, ast.Raise) and isinstance(s.exc, ast.Call) and isinstance(s.exc.func, ast.Name):
                out.append("(.raise %s)" % RAISES.get(s.exc.func.id, ".other"))
            else:
                raise Untranslatable("statement " + ast.dump(s))
        return out


def manager_params(repo):
    src = open(os.path.join(repo, "pysmt", "formula.py")).read()
    tree = ast.parse(src)
    out = {}
    for node in tree.body:
        if isinstance(node, ast.ClassDef) and node.name == "FormulaManager":
            for f in node.body:
                if isinstance(f, ast.FunctionDef):
                    out[f.name] = [a.arg for a in f.args.args[1:]]
    return out


def infix_methods(repo):
    """[(name, FunctionDef)] of class FNode from `_apply_infix` to the end of the class"""
    src = open(os.path.join(repo, "pysmt", "fnode.py")).read()
    tree = ast.parse(src)
    for node in tree.body:
        if isinstance(node, ast.ClassDef) and node.name == "FNode":
            fns = [f for f in node.body if isinstance(f, ast.FunctionDef)]
            names = [f.name for f in fns]
            if "_apply_infix" not in names:
                raise Untranslatable("FNode._apply_infix not found")
            return fns[names.index("_apply_infix"):]
    raise Untranslatable("class FNode not found")


def table(repo):
    """[(name, params, varargs, [lean statement], lineno)]"""
    fns = infix_methods(repo)
    tr = Translator({f.name for f in fns}, manager_params(repo))
    rows = []
    for f in fns:
        params = [a.arg for a in f.args.args[1:]]
        varargs = f.args.vararg is not None
        if varargs and params:
            raise Untranslatable("positional parameters before *args in " + f.name)
        if f.args.kwonlyargs or f.args.kwarg or f.args.defaults or f.args.kw_defaults:
            body = ['(.opaque %s)' % lean_str(ast_hash(f))]
        elif f.name in HAND_MODELLED:
            body = ['(.opaque %s)' % lean_str(ast_hash(f))]
        else:
            try:
                body = tr.stmts(f.body)
            except Untranslatable:
                body = ['(.opaque %s)' % lean_str(ast_hash(f))]
        rows.append((f.name, params, varargs, body, f.lineno))
    return rows


def generate(repo):
    rows = table(repo)
    out = ["import PySMT.Impl.Mk",
           "/-! GENERATED by tools/gen_infix.py from pysmt/fnode.py (class FNode, `_apply_infix` … end of class)",
           "and pysmt/formula.py (parameter names). Do not edit: rewritten on every run of `./check C06`. -/",
           "namespace PySMT.Gen.Infix",
           "open PySMT.Mk.Infix",
           "",
           "def table : Table := ["]
    lines = []
    for (name, params, varargs, body, lineno) in rows:
        lines.append("  -- fnode.py:%d\n  (%s, ⟨%s, %s, %s⟩)" % (
            lineno, lean_str(name), lean_list([lean_str(p) for p in params]),
            "true" if varargs else "false", lean_list(body)))
    out.append(",\n".join(lines))
    out.append("]")
    out.append("")
    out.append("end PySMT.Gen.Infix")
    return {"Infix.lean": "\n".join(out) + "\n"}


if __name__ == "__main__":
    import sys
    repo = os.environ.get("VERIF_REPO", "/repo")
    src = generate(repo)["Infix.lean"]
    if len(sys.argv) > 1 and sys.argv[1] == "--write":
        here = os.path.dirname(os.path.dirname(os.path.abspath(__file__)))
        open(os.path.join(here, "lean", "PySMT", "Gen", "Infix.lean"), "w").write(src)
    else:
        sys.stdout.write(src)
