import PySMT.Core.DriverLib
import PySMT.Spec.SmtlibText
import PySMT.Impl.Printer
import PySMT.Impl.PrinterHyp
/-!
Driver for C07 (texts travel as hex of their UTF-8 bytes, `_` = empty).

    print tree|dag <term>                          → ok <hex text>            the model's output (rendered S-expression)
    cmp_print tree|dag <term> <hex text>           → same | diff <hex model text> | unreadable <hex msg>
                                                     the implementation's text, read by the standard reader, vs the model's S-expression
    script <0|1> <hex logic> <term>                → ok <hex text>            the model's script (one command per line)
    cmp_script <0|1> <hex logic> <term> <hex text> → same | diff <hex model text> | unreadable <hex msg>
                                                     (declare-sort / declare-fun groups compared as multisets: their order is a hash order)
    readstd <env> <hex text>                       → ok <encTerm> : <ty> | err <hex msg>
          <env> := E <hex logic> <nsorts> (<hex name> <arity>)* <nfuns> (<hex name> <symty>)*
    chk_print <k> <interp>*k <term> <hex text>     → ok <compared> <skipped> <exact|unfolded|other> | fail lex|read|type|value …   (exact: the term itself; unfolded: Printer.unfoldAV term)
          S oracle, independent of the printer model: the text is read with `readStd` in `envOf term`, its sort must be
          the term's, its value the term's under every interpretation given (those evaluating a division by zero skipped)
    runstd <hex script>                            → accepted <ncommands> | rejected <hex msg> | unreadable <hex msg>
    cmp_cmds <0|1> <cmds> <hex text>               → same | diff <hex model text> | unreadable <hex msg>      (multi-command scripts, exact sequence)
    chk_cmds <k> <interp>*k <n> <term>*n <hex text> → ok <compared> <skipped> | fail …   accepted by runStd; the n live assertions
                                                     are, in order, the given formulas (value under every interpretation)
    printable <term>                               → yes|no guard|noguard dag|nodag   (Printable / avGuard / DagOK in envOf term:
                                                     the hypotheses of read_toSexp, print_sound, printDag_sound)
    chk_script <k> <interp>*k <term> <hex script>  → ok <compared> <skipped> | fail …
          accepted by `runStd`; the live assertions are exactly one term, with the term's value; every free symbol of the
          term is declared
-/
open PySMT PySMT.DriverLib PySMT.Wire PySMT.Std

def hx (s : String) : String := hex s

def modelSexp (mode : String) (t : Term) : Option Sexp :=
  if mode == "tree" then some (Printer.toSexp t) else if mode == "dag" then some (Printer.toSexpDag t) else none

def pPrint : P String := do
  let mode ← next
  let t ← term
  match modelSexp mode t with
  | some s => return "ok " ++ hx s.render
  | none => throw "mode"

def pCmpPrint : P String := do
  let mode ← next
  let t ← term
  let txt ← str
  match modelSexp mode t with
  | none => throw "mode"
  | some m =>
    match Sexp.read txt with
    | .error e => return "unreadable " ++ hx e
    | .ok [s] => if s == m then return "same" else return "diff " ++ hx m.render
    | .ok l => return "diff " ++ hx m.render ++ " " ++ toString l.length

def flag : P Bool := do return (← nat) != 0

def pScript : P String := do
  let dag ← flag
  let logic ← str
  let t ← term
  return "ok " ++ hx (Sexp.renderAll (Printer.scriptOfFormula logic dag t))

def isDecl (s : Sexp) : Bool :=
  match s with
  | .list (.atom c :: _) => c == "declare-sort" || c == "declare-fun"
  | _ => false

/-- canonical form of a script for comparison: the declarations sorted by their rendering -/
def canonScript (l : List Sexp) : List String :=
  let decls := (l.filter isDecl).map Sexp.render
  let other := (l.filter (fun s => !isDecl s)).map Sexp.render
  (decls.toArray.qsort (· < ·)).toList ++ "--" :: other

def pCmpScript : P String := do
  let dag ← flag
  let logic ← str
  let t ← term
  let txt ← str
  let m := Printer.scriptOfFormula logic dag t
  match Sexp.read txt with
  | .error e => return "unreadable " ++ hx e
  | .ok l => if canonScript l == canonScript m then return "same" else return "diff " ++ hx (Sexp.renderAll m)

def pEnv : P SEnv := do
  let t ← next
  if t != "E" then throw "E expected"
  let logic ← str
  let ns ← nat
  let sorts ← rep ns (do let n ← str; let k ← nat; return (n, k))
  let nf ← nat
  let funs ← rep nf (do let n ← str; symTy n)
  return { logic := logic, sorts := sorts, funs := funs }

def pReadStd : P String := do
  let env ← pEnv
  let txt ← str
  match Sexp.readOne txt with
  | .error e => return "err " ++ hx e
  | .ok s =>
    match readStdTy env [] s with
    | .error e => return "err " ++ hx e
    | .ok (t, ty) => return "ok " ++ encTerm t ++ " : " ++ encTy ty

def compareUnder (Is : List Interp) (t t' : Term) : String := Id.run do
  let mut compared := 0
  let mut skipped := 0
  let mut idx := 0
  for I in Is do
    if div0 I t || div0 I t' then skipped := skipped + 1
    else
      let a := eval I t
      let b := eval I t'
      if a != b then return s!"fail value {idx} {encVal a} | {encVal b}"
      compared := compared + 1
    idx := idx + 1
  return s!"ok {compared} {skipped}"

def pChkPrint : P String := do
  let k ← nat
  let Is ← rep k interp
  let t ← term
  let txt ← str
  match Sexp.readOne txt with
  | .error e => return "fail lex " ++ hx e
  | .ok s =>
    match readStdTy (envOf "ALL" t) [] s with
    | .error e => return "fail read " ++ hx e
    | .ok (t', ty) =>
      if some ty != t.typeOf then return s!"fail type {encOptTy t.typeOf} {encTy ty}"
      let r := compareUnder Is t t'
      if r.startsWith "ok" then
        return r ++ (if t' == t then " exact" else if t' == Printer.unfoldAV t then " unfolded" else " other")
      else return r

def pRunStd : P String := do
  let txt ← str
  match Sexp.read txt with
  | .error e => return "unreadable " ++ hx e
  | .ok cmds =>
    match runStd cmds with
    | .ok _ => return s!"accepted {cmds.length}"
    | .error e => return "rejected " ++ hx e

def pChkScript : P String := do
  let k ← nat
  let Is ← rep k interp
  let t ← term
  let txt ← str
  match Sexp.read txt with
  | .error e => return "fail lex " ++ hx e
  | .ok cmds =>
    match runStd cmds with
    | .error e => return "fail rejected " ++ hx e
    | .ok st =>
      match t.fv.find? (fun s => !st.env.funs.contains s) with
      | some s => return "fail undeclared " ++ hx s.name
      | none =>
        match st.live with
        | [t'] => return compareUnder Is t t'
        | l => return s!"fail assertions {l.length}"

/-- `<n> (L <hex> | S <hex> <arity> | F <hex> <symty> | C <hex> <ty> | A <term> | P <n> | O <n> | K)*n` -/
def pCmds : P (List Printer.Cmd) := do
  let n ← nat
  rep n (do
    let t ← next
    match t with
    | "L" => return .setLogic (← str)
    | "S" => do let nm ← str; let k ← nat; return .declareSort nm k
    | "F" => do let nm ← str; return .declareFun (← symTy nm)
    | "C" => do let nm ← str; return .declareConst ⟨nm, [], ← ty⟩
    | "A" => return .assert (← term)
    | "P" => return .push (← nat)
    | "O" => return .pop (← nat)
    | "K" => return .checkSat
    | _ => throw "command expected")

/-- K for multi-command scripts: exact command sequence -/
def pCmpCmds : P String := do
  let dag ← flag
  let cmds ← pCmds
  let txt ← str
  let m := Printer.scriptOfCmds dag cmds
  match Sexp.read txt with
  | .error e => return "unreadable " ++ hx e
  | .ok l => if l == m then return "same" else return "diff " ++ hx (Sexp.renderAll m)

/-- S for multi-command scripts: accepted by `runStd`, and the live assertions are, one by one, the given formulas
(same sort Bool, same value under every interpretation given) -/
def pChkCmds : P String := do
  let k ← nat
  let Is ← rep k interp
  let n ← nat
  let ts ← rep n term
  let txt ← str
  match Sexp.read txt with
  | .error e => return "fail lex " ++ hx e
  | .ok cmds =>
    match runStd cmds with
    | .error e => return "fail rejected " ++ hx e
    | .ok st =>
      let live := st.live
      if live.length != ts.length then return s!"fail assertions {live.length} {ts.length}"
      let mut compared := 0
      let mut skipped := 0
      let mut i := 0
      for (t, t') in ts.zip live do
        let r := compareUnder Is t t'
        if !r.startsWith "ok" then return r ++ s!" assertion {i}"
        match (r.splitOn " ") with
        | [_, c, s] => compared := compared + c.toNat!; skipped := skipped + s.toNat!
        | _ => pure ()
        i := i + 1
      return s!"ok {compared} {skipped}"

/-- does the term satisfy the hypotheses of `read_toSexp` in its own environment? -/
def pPrintable : P String := do
  let t ← term
  let env := envOf "ALL" t
  return (if Printer.Printable env [] t then "yes" else "no") ++ (if Printer.avGuard t then " guard" else " noguard")
    ++ (if Printer.DagOK (Printer.dagNames t) env t then " dag" else " nodag")

def main : IO Unit := loop fun line =>
  let toks := Wire.tokens line
  match toks[0]? with
  | some "print" => handle pPrint toks
  | some "cmp_print" => handle pCmpPrint toks
  | some "script" => handle pScript toks
  | some "cmp_script" => handle pCmpScript toks
  | some "readstd" => handle pReadStd toks
  | some "chk_print" => handle pChkPrint toks
  | some "runstd" => handle pRunStd toks
  | some "chk_script" => handle pChkScript toks
  | some "printable" => handle pPrintable toks
  | some "cmp_cmds" => handle pCmpCmds toks
  | some "chk_cmds" => handle pChkCmds toks
  | _ => match coreAnswer toks with
    | some a => a
    | none => "bad-op"
