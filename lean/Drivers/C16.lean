import PySMT.Spec.AssertStack
import PySMT.Impl.Script
import PySMT.Impl.SolverTrack
import PySMT.Gen.PendingPop
/-!
Line-protocol driver for C16.  One request per line, one answer per line.

    script  <cmd>*          model of get_last_formula(return_optimizations=True):  ok <ids> | <goals>   / err <e>
    strict  <cmd>*          model of get_strict_formula:                           ok <ids>             / err <e>
    spec    <cmd>*          SMT-LIB assertion stack (Spec):                        ok <ids> | <goals>   / illegal
    track   <cfg> <op>*     model of the solver classes, state after every step:   <state>;<state>;…  (err <e> ends it)
    specops <op>*           Spec: live assertions after every step:                <ids>;<ids>;…      (illegal ends it)
    placement <class>       Config read off Gen/PendingPop for the class:          <cfg> <concrete> <usesBaseIsSat> <extras>
    evaltrack <cfg> <cmd>*  the script executed on the solver model through `interp` (state after every CALL)
    classes                 names in Gen/PendingPop

  cmd:  a<f> assert | o<g> objective | s<id>.<f>.<w> assert-soft | u<n> push | p<n> pop | r reset-assertions
        | c check-sat | x other
  op:   a<f> | u<n> | p<n> | r | s solve | qs<f> is_sat | qv<f> is_valid | qu<f> is_unsat | qa<f> solve([f]) | g read
        | w<f> solve([f]) through a temporary level | W<f> the same, asserting f raises
        | S solve() whose check raises | x{s,v,u,a}<f> the query, its check raises | y{s,v,u,a}<f> the query, asserting
        its formula raises      (a state is followed by `!` when the call ended with that exception)
  cfg:  11 characters 0/1: dAdd dPush dPop dReset dSolve dRead tracking native pushSupported assumePush assumeGuarded
  ids:  comma separated numbers (`-` for the empty list); goals: `;`-separated, `o<g>` or `m<f>.<w>,<f>.<w>…`
  state: <native levels, innermost first, `|`-separated>/<tracked>/<points, most recent first>/<pending 0|1>/<last check or ->
-/
open PySMT PySMT.AssertStack

def ids (l : List Nat) : String :=
  if l.isEmpty then "-" else ",".intercalate (l.map toString)

def parseCmd (t : String) : Option Cmd :=
  let rest := (t.drop 1).toString
  match t.front with
  | 'a' => rest.toNat?.map Cmd.assert
  | 'o' => rest.toNat?.map Cmd.objective
  | 's' => match rest.splitOn "." with
    | [i, f, w] => do
      let i ← i.toNat?; let f ← f.toNat?; let w ← w.toNat?
      pure (Cmd.soft i f w)
    | _ => none
  | 'u' => rest.toNat?.map Cmd.push
  | 'p' => rest.toNat?.map Cmd.pop
  | 'r' => if rest.isEmpty then some .reset else none
  | 'c' => if rest.isEmpty then some .check else none
  | 'x' => if rest.isEmpty then some .other else none
  | _ => none

def parseFails (fail : Fail) (rest : String) : Option Op :=
  let r2 := (rest.drop 1).toString
  match rest.front with
  | 's' => r2.toNat?.map (Op.oneshotFails .isSat fail)
  | 'v' => r2.toNat?.map (Op.oneshotFails .isValid fail)
  | 'u' => r2.toNat?.map (Op.oneshotFails .isUnsat fail)
  | 'a' => r2.toNat?.map (Op.oneshotFails .assuming fail)
  | _ => none

def parseOp (t : String) : Option Op :=
  let rest := (t.drop 1).toString
  match t.front with
  | 'a' => rest.toNat?.map Op.assert
  | 'u' => rest.toNat?.map Op.push
  | 'p' => rest.toNat?.map Op.pop
  | 'r' => if rest.isEmpty then some .reset else none
  | 's' => if rest.isEmpty then some .solve else none
  | 'g' => if rest.isEmpty then some .read else none
  | 'q' =>
    let r2 := (rest.drop 1).toString
    match rest.front with
    | 's' => r2.toNat?.map (Op.oneshot .isSat)
    | 'v' => r2.toNat?.map (Op.oneshot .isValid)
    | 'u' => r2.toNat?.map (Op.oneshot .isUnsat)
    | 'a' => r2.toNat?.map (Op.oneshot .assuming)
    | _ => none
  | 'w' => rest.toNat?.map Op.assumingPush
  | 'W' => rest.toNat?.map Op.assumingPushFails
  | 'S' => if rest.isEmpty then some .solveFails else none
  | 'x' => parseFails .solve rest
  | 'y' => parseFails .add rest
  | _ => none

def parseAll {α : Type} (p : String → Option α) (ts : List String) : Option (List α) :=
  ts.mapM fun t => if t.isEmpty then none else p t

def goalStr : Goal → String
  | .obj g => s!"o{g}"
  | .maxsmt soft => "m" ++ ",".intercalate (soft.map fun (f, w) => s!"{f}.{w}")

def goalsStr (gs : List Goal) : String :=
  if gs.isEmpty then "-" else ";".intercalate (gs.map goalStr)

def scriptErr : Script.Err → String
  | .indexError => "err index-error"
  | .valueError => "err value-error"

def trackErr : SolverTrack.Err → String
  | .indexError => "err index-error"
  | .nativeError => "err native-error"

def parseCfg (s : String) : Option SolverTrack.Config :=
  match s.toList.map (fun ch => if ch == '1' then some true else if ch == '0' then some false else none) with
  | [some a, some b, some c, some d, some e, some f, some g, some h, some i, some j, some k] =>
    some ⟨a, b, c, d, e, f, g, h, i, j, k⟩
  | _ => none

def bit (b : Bool) : String := if b then "1" else "0"

def cfgStr (c : SolverTrack.Config) : String :=
  bit c.dAdd ++ bit c.dPush ++ bit c.dPop ++ bit c.dReset ++ bit c.dSolve ++ bit c.dRead ++
  bit c.tracking ++ bit c.native ++ bit c.pushSupported ++ bit c.assumePush ++ bit c.assumeGuarded

def stateStr (st : SolverTrack.St) : String :=
  "|".intercalate (st.native.map ids) ++ "/" ++ ids st.tracked ++ "/" ++ ids st.points ++ "/" ++
  bit st.pending ++ "/" ++ (match st.checks with | [] => "-" | c :: _ => ids c)

def trackRun (cfg : SolverTrack.Config) : SolverTrack.St → List Op → List String
  | _, [] => []
  | st, o :: os => match SolverTrack.step cfg st o with
    | .error e => [trackErr e]
    | .ok st' => (stateStr st' ++ (if SolverTrack.raises cfg o then "!" else "")) :: trackRun cfg st' os

def specRun : Stack → List Op → List String
  | _, [] => []
  | s, o :: os =>
    if legal s o.cmd then
      let s' := step s o.cmd
      ids (live s') :: specRun s' os
    else ["illegal"]

def answer (line : String) : String :=
  match line.splitOn " " with
  | "script" :: ts => match parseAll parseCmd ts with
    | none => "bad-op"
    | some cs => match Script.lastFormula cs with
      | .error e => scriptErr e
      | .ok (fs, gs) => s!"ok {ids fs} | {goalsStr gs}"
  | "strict" :: ts => match parseAll parseCmd ts with
    | none => "bad-op"
    | some cs => match Script.strictFormula cs with
      | .error e => scriptErr e
      | .ok fs => s!"ok {ids fs}"
  | "spec" :: ts => match parseAll parseCmd ts with
    | none => "bad-op"
    | some cs => match run cs with
      | none => "illegal"
      | some s => s!"ok {ids (live s)} | {goalsStr (liveGoals s)}"
  | "track" :: c :: ts => match parseCfg c, parseAll parseOp ts with
    | some cfg, some ops => ";".intercalate (trackRun cfg SolverTrack.St.init ops)
    | _, _ => "bad-op"
  | "specops" :: ts => match parseAll parseOp ts with
    | none => "bad-op"
    | some ops => ";".intercalate (specRun init ops)
  | ["placement", n] => match SolverTrack.findClass Gen.PendingPop.classes n with
    | none => "unknown"
    | some c =>
      let t := Gen.PendingPop.classes
      s!"{cfgStr (SolverTrack.configOf t c)} {bit (SolverTrack.isConcrete t c)} {bit (SolverTrack.usesBaseIsSat t c)} {bit (SolverTrack.extrasCovered t c)}"
  | "interp" :: ts => match parseAll parseCmd ts with
    | none => "bad-op"
    | some cs => if cs.all SolverTrack.Plain then s!"ok {(SolverTrack.interp cs).length}" else "not-plain"
  | "evaltrack" :: c :: ts => match parseCfg c, parseAll parseCmd ts with
    | some cfg, some cs =>
      if cs.all SolverTrack.Plain then ";".intercalate (trackRun cfg SolverTrack.St.init (SolverTrack.interp cs))
      else "not-plain"
    | _, _ => "bad-op"
  | ["classes"] => " ".intercalate (Gen.PendingPop.classes.map (·.name))
  | _ => "bad-op"

partial def loop (h : IO.FS.Stream) : IO Unit := do
  let line ← h.getLine
  if line.isEmpty then return ()
  IO.println (answer ((line.dropEndWhile (· == '\n')).toString))
  loop h

def main : IO Unit := do loop (← IO.getStdin)
