import PySMT.Impl.Portfolio
import PySMT.Spec.AssertStack
/-!
Driver for C19.  Request:

    portfolio eoe=<0|1> atomic=<0|1> <m0>,<m1>,...     m = T | F (answers sat / unsat) | R (raises) |
                                                            U (answers unknown) | N (returns a non-bool) | C (dies silently)

Answer: `ok <solve-set> | <query-set> | <closed-form-set> | states=<n> transitions=<m>`: the outcomes of one `solve()` call over *all* schedules
of the transition system (exhaustive exploration of `isuccs`), the outcomes of a following `get_model`, and the
closed form `allowed` (equal to the first set, `Proofs/C19Outcome.lean`), then the size of the explored state space.  Tokens: `v:T`, `v:F`,
`err:<ExceptionClass>`, `blocked`; `winner` (reply from the winner to the query asked), `foreign`, `blocked`.
The empty set is `-`.
-/
open PySMT.Portfolio

def parseBeh : String → Option Beh
  | "T" => some (.answer true)
  | "F" => some (.answer false)
  | "R" => some (.raise .solverError)
  | "U" => some (.raise .unknown)
  | "N" => some (.raise .invalid)
  | "C" => some .crash
  | _ => none

def parseFlag (key s : String) : Option Bool :=
  if s == key ++ "=0" then some false else if s == key ++ "=1" then some true else none

def exnName : Exn → String
  | .solverError => "InternalSolverError"
  | .unknown => "SolverReturnedUnknownResultError"
  | .invalid => "UnknownSolverAnswerError"

def outcomeName : Outcome → String
  | .verdict true => "v:T"
  | .verdict false => "v:F"
  | .error (.member _ e) => "err:" ++ exnName e
  | .error .allFailed => "err:SolverReturnedUnknownResultError"
  | .blocked => "blocked"

def qoutcomeName : QOutcome → String
  | .servedBy j w q q' => if j == w && q == q' then "winner" else "foreign"
  | .qblocked => "blocked"
  | .qeof => "eof"

def showSet (l : List String) : String :=
  let l := (l.eraseDups.toArray.qsort (· < ·)).toList
  if l.isEmpty then "-" else ",".intercalate l

def fuel : Nat := 4000000

/-- `stack a<f> u<k> o<n> c ...`: the live assertions (SMT-LIB assertion stack, `Spec/AssertStack.lean`) after every
    command: `a` assert formula number f, `u` push k levels, `o` pop n levels, `c` any command that leaves the stack
    alone (solve, is_sat, get_model, ...).  Answer `ok l1|l2|...` (one comma-separated list per command, `-` = empty)
    or `illegal <index>` when a pop would remove the base level. -/
def parseStackCmd (t : String) : Option PySMT.AssertStack.Cmd :=
  if t == "c" then some .check
  else match (t.drop 1).toNat? with
    | none => none
    | some n =>
      if t.startsWith "a" then some (.assert n)
      else if t.startsWith "u" then some (.push n)
      else if t.startsWith "o" then some (.pop n)
      else none

def showLive (l : List Nat) : String := if l.isEmpty then "-" else ",".intercalate (l.map toString)

def stackAnswer (cmds : List PySMT.AssertStack.Cmd) : String := Id.run do
  let mut s := PySMT.AssertStack.init
  let mut out : List String := []
  let mut k := 0
  for c in cmds do
    if !(PySMT.AssertStack.legal s c) then return "illegal " ++ toString k
    s := PySMT.AssertStack.step s c
    out := out ++ [showLive (PySMT.AssertStack.live s)]
    k := k + 1
  return "ok " ++ "|".intercalate out

def answer (line : String) : String :=
  match line.splitOn " " with
  | "stack" :: toks =>
    match toks.mapM parseStackCmd with
    | some cmds => if cmds.isEmpty then "bad-op" else stackAnswer cmds
    | none => "bad-op"
  | "portfolio" :: e :: a :: rest =>
    -- optional 4th token `crash=1`: the winner may die after its answer (fault model `OS.serveCrash`)
    let (crashTok, msTok) := match rest with
      | [c, ms] => (some c, some ms)
      | [ms] => (none, some ms)
      | _ => (none, none)
    let crash := match crashTok with | none => some false | some c => parseFlag "crash" c
    match parseFlag "eoe" e, parseFlag "atomic" a, crash, msTok.bind (fun ms => (ms.splitOn ",").mapM parseBeh) with
    | some eoe, some atomic, some crash, some bs =>
      if bs.length > 5 then "out-of-fragment" else
      let cfg : Cfg := { n := bs.length, eoe := eoe, beh := fun _ i => bs.getD i .crash,
                         os := { killAtomic := atomic, serveCrash := crash } }
      let so := (solveOutcomes cfg fuel init).map outcomeName
      let qo := (queryOutcomes cfg fuel init 0).map qoutcomeName
      let cl := (allowed cfg 1).map outcomeName
      let states := (closure cfg fuel [fresh cfg init] {}).toList
      let ntrans := (states.map fun t => (isuccs cfg t).length).sum
      "ok " ++ showSet so ++ " | " ++ showSet qo ++ " | " ++ showSet cl ++ " | states=" ++ toString states.length ++
        " transitions=" ++ toString ntrans
    | _, _, _, _ => "bad-op"
  | _ => "bad-op"

partial def loop (h : IO.FS.Stream) : IO Unit := do
  let line ← h.getLine
  if line.isEmpty then return ()
  IO.println (answer ((line.splitOn "\n").headD ""))
  loop h

def main : IO Unit := do loop (← IO.getStdin)
