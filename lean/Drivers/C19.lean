import PySMT.Impl.Portfolio
/-!
Driver for C19.  Request:

    portfolio eoe=<0|1> atomic=<0|1> <m0>,<m1>,...     m = T | F (answers sat / unsat) | R (raises) |
                                                            U (answers unknown) | C (dies silently)

Answer: `ok <solve-set> | <query-set> | <closed-form-set> | states=<n> transitions=<m>`: the outcomes of one `solve()` call over *all* schedules
of the transition system (exhaustive exploration of `isuccs`), the outcomes of a following `get_model`, and the
closed form `allowed` (equal to the first set, `Proofs/C19Outcome.lean`), then the size of the explored state space.  Tokens: `v:T`, `v:F`,
`err:<ExceptionClass>`, `blocked`; `winner` (reply from the winner to the query asked), `foreign`, `blocked`.
The empty set is `-`.
-/
open PySMT.Portfolio

def parseBeh : String → Option Beh
  | "T" => some (.answer true)
  | "F" => some (.answer false)
  | "R" => some (.raise .solverError)
  | "U" => some (.raise .unknown)
  | "C" => some .crash
  | _ => none

def parseFlag (key s : String) : Option Bool :=
  if s == key ++ "=0" then some false else if s == key ++ "=1" then some true else none

def exnName : Exn → String
  | .solverError => "InternalSolverError"
  | .unknown => "SolverReturnedUnknownResultError"

def outcomeName : Outcome → String
  | .verdict true => "v:T"
  | .verdict false => "v:F"
  | .error (.member _ e) => "err:" ++ exnName e
  | .error .allFailed => "err:SolverReturnedUnknownResultError"
  | .blocked => "blocked"

def qoutcomeName : QOutcome → String
  | .servedBy j w q q' => if j == w && q == q' then "winner" else "foreign"
  | .qblocked => "blocked"

def showSet (l : List String) : String :=
  let l := (l.eraseDups.toArray.qsort (· < ·)).toList
  if l.isEmpty then "-" else ",".intercalate l

def fuel : Nat := 4000000

def answer (line : String) : String :=
  match line.splitOn " " with
  | ["portfolio", e, a, ms] =>
    match parseFlag "eoe" e, parseFlag "atomic" a, (ms.splitOn ",").mapM parseBeh with
    | some eoe, some atomic, some bs =>
      if bs.length > 5 then "out-of-fragment" else
      let cfg : Cfg := { n := bs.length, eoe := eoe, beh := fun _ i => bs.getD i .crash, os := ⟨atomic⟩ }
      let so := (solveOutcomes cfg fuel init).map outcomeName
      let qo := (queryOutcomes cfg fuel init 0).map qoutcomeName
      let cl := (allowed cfg 1).map outcomeName
      let states := (closure cfg fuel [fresh cfg init] {}).toList
      let ntrans := (states.map fun t => (isuccs cfg t).length).sum
      "ok " ++ showSet so ++ " | " ++ showSet qo ++ " | " ++ showSet cl ++ " | states=" ++ toString states.length ++
        " transitions=" ++ toString ntrans
    | _, _, _ => "bad-op"
  | _ => "bad-op"

partial def loop (h : IO.FS.Stream) : IO Unit := do
  let line ← h.getLine
  if line.isEmpty then return ()
  IO.println (answer ((line.splitOn "\n").headD ""))
  loop h

def main : IO Unit := do loop (← IO.getStdin)
