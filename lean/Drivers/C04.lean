import PySMT.Impl.Manager
/-!
# C04 driver — `mgr <addr0> <addr1> <addr2> | <op> | <op> …`

One request = one construction history over three environments (0, 1, 2); `normalize r<k>`
re-creates the object of op `k` (of any environment, also the target's own) in the op's
environment, whose normalizer memo persists over the history.
`<addrK>` = `A:` followed by the node ids of environment K in increasing CPython address
order (what `sorted(..., key=id)` sees).  Every op starts with its environment.
Answer: one token per op (`<id>` or `E:<class>`), then ` # ` table of env 0 ` # ` table of
env 1 ` # ` … of env 2 ` # ` the three type managers.
-/
open PySMT.Manager

namespace C04Driver

def hexVal (c : Char) : Option Nat :=
  if '0' ≤ c ∧ c ≤ '9' then some (c.toNat - '0'.toNat)
  else if 'a' ≤ c ∧ c ≤ 'f' then some (c.toNat - 'a'.toNat + 10)
  else none

/-- hex of the UTF-32 code points, 6 hex digits per character -/
def unhexAux : List Char → Option (List Char)
  | [] => some []
  | a :: b :: c :: d :: e :: f :: t => do
    let va ← hexVal a; let vb ← hexVal b; let vc ← hexVal c
    let vd ← hexVal d; let ve ← hexVal e; let vf ← hexVal f
    let rest ← unhexAux t
    pure (Char.ofNat (((((va * 16 + vb) * 16 + vc) * 16 + vd) * 16 + ve) * 16 + vf) :: rest)
  | _ => none

def unhex (cs : List Char) : Option String := (unhexAux cs).map String.ofList

/-- `h<hex>` token (the marker keeps the empty string a token) -/
def unhexH (tok : String) : Option String :=
  match tok.toList with
  | 'h' :: r => unhex r
  | _ => none

def hexDigit (n : Nat) : Char :=
  if n < 10 then Char.ofNat ('0'.toNat + n) else Char.ofNat ('a'.toNat + n - 10)

def hexChar (c : Char) : List Char :=
  let n := c.toNat
  [hexDigit (n / 1048576 % 16), hexDigit (n / 65536 % 16), hexDigit (n / 4096 % 16),
   hexDigit (n / 256 % 16), hexDigit (n / 16 % 16), hexDigit (n % 16)]

def hex (s : String) : String := String.ofList (s.toList.flatMap hexChar)

/-! ### types -/

mutual
  partial def parseTy : List Char → Option (Ty × List Char)
    | 'B' :: r => some (.bool, r)
    | 'I' :: r => some (.int, r)
    | 'R' :: r => some (.real, r)
    | 'S' :: r => some (.string, r)
    | 'V' :: r =>
      let ds := r.takeWhile Char.isDigit
      match (String.ofList ds).toNat? with
      | some w => some (.bv w, r.dropWhile Char.isDigit)
      | none => none
    | 'A' :: '(' :: r => do
      let (i, r1) ← parseTy r
      match r1 with
      | ',' :: r2 => do
        let (e, r3) ← parseTy r2
        match r3 with
        | ')' :: r4 => some (.array i e, r4)
        | _ => none
      | _ => none
    | 'F' :: '(' :: r => do
      let (ret, r1) ← parseTy r
      match r1 with
      | ':' :: r2 => do
        let (ps, r3) ← parseTyList r2
        some (.func ret (TyL.ofList ps), r3)
      | _ => none
    | 'C' :: r => do
      let hs := r.takeWhile (· != '(')
      let name ← unhex hs
      match r.dropWhile (· != '(') with
      | '(' :: r2 => do
        let (as, r3) ← parseTyList r2
        some (.custom name (TyL.ofList as), r3)
      | _ => none
    | _ => none
  /-- comma separated types up to the closing parenthesis -/
  partial def parseTyList : List Char → Option (List Ty × List Char)
    | ')' :: r => some ([], r)
    | cs => do
      let (t, r1) ← parseTy cs
      match r1 with
      | ',' :: r2 => do
        let (ts, r3) ← parseTyList r2
        some (t :: ts, r3)
      | ')' :: r2 => some ([t], r2)
      | _ => none
end

def readTy (tok : String) : Option Ty :=
  match parseTy tok.toList with
  | some (t, []) => some t
  | _ => none

mutual
  partial def showTy : Ty → String
    | .bool => "B" | .int => "I" | .real => "R" | .string => "S"
    | .bv w => "V" ++ toString w
    | .array i e => "A(" ++ showTy i ++ "," ++ showTy e ++ ")"
    | .func r ps => "F(" ++ showTy r ++ ":" ++ showTyL ps ++ ")"
    | .custom n as => "C" ++ hex n ++ "(" ++ showTyL as ++ ")"
  partial def showTyL : TyL → String
    | .nil => ""
    | .cons h .nil => showTy h
    | .cons h t => showTy h ++ "," ++ showTyL t
end

/-! ### values -/

def showRat (q : Rat) : String := toString q.num ++ "/" ++ toString q.den

def readRat (s : String) : Option Rat :=
  match s.splitOn "/" with
  | [n, d] => do
    let n ← n.toInt?
    let d ← d.toNat?
    if d = 0 then none else some (mkRat n d)
  | _ => none

def readPyNum (tok : String) : Option PyNum :=
  match tok.splitOn ":" with
  | ["int", n] => n.toInt?.map .int
  | ["bool", "1"] => some (.bool true)
  | ["bool", "0"] => some (.bool false)
  | ["float", q] => (readRat q).map .float
  | ["frac", q] => (readRat q).map .frac
  | ["pair", ab] =>
    (match ab.splitOn "," with
     | [a, b] => do some (.pair (← a.toInt?) (← b.toInt?))
     | _ => none)
  | ["other"] => some .other
  | _ => none

def readBvVal (tok : String) : Option BvVal :=
  match tok.toList with
  | 's' :: r => (unhex r).map .str
  | 'i' :: r => (String.ofList r).toInt?.map .int
  | ['o'] => some .other
  | _ => none

/-- `N` (None), an int, or `a<int>` (a bool / float of that numeric value) -/
def readWidth (tok : String) : Option PyWidth :=
  if tok = "N" then some .none else
  match tok.toList with
  | 'a' :: r => (String.ofList r).toInt?.map .alt
  | _ => tok.toInt?.map .int

/-- an int, or `o` for a Python value that is not an int -/
def readPyInt (tok : String) : Option (Option Int) :=
  if tok = "o" then some none else tok.toInt?.map some

def readOptNat (tok : String) : Option (Option Nat) :=
  if tok = "N" then some none else tok.toNat?.map some

def readOptInt (tok : String) : Option (Option Int) :=
  if tok = "N" then some none else tok.toInt?.map some

def showErr : Err → String
  | .typeError => "E:type" | .valueError => "E:value" | .assertion => "E:assert"
  | .zeroDivision => "E:zerodiv" | .indexError => "E:index" | .badId => "E:badid"
  | .outOfFragment => "E:oof"

def showPayload : Payload → String
  | .none => "N"
  | .bool b => if b then "b1" else "b0"
  | .int n => "i" ++ toString n
  | .rat q => "q" ++ showRat q
  | .str s => "s" ++ hex s
  | .bv v w => "v" ++ toString v ++ "/" ++ toString w
  | .nums l => "n" ++ ",".intercalate (l.map toString)
  | .sym n t => "y" ++ hex n ++ "@" ++ showTy t
  | .vars l => "V" ++ ",".intercalate (l.map toString)
  | .fn f => "f" ++ toString f
  | .ty t => "t" ++ showTy t
  | .alg s => "a" ++ hex s

def showEntry (s : Mgr) (ci : Content × Nid) : String :=
  let (c, i) := ci
  toString i ++ ";" ++ toString c.nodeType ++ ";" ++ ",".intercalate (c.args.map toString) ++ ";" ++
    showPayload c.payload ++ ";" ++ (match s.bvWidth i with | some w => toString w | none => "-") ++
    (match c.payload with
     | .bv v w => if c.nodeType = NT.BV_CONSTANT then
         ";" ++ toString (bvSignedValue v w) ++ ";" ++ String.ofList (bvBinStr v w) else ""
     | _ => "")

def showTable (s : Mgr) : String :=
  " ".intercalate (s.formulae.reverse.map (showEntry s)) ++
    " ; next=" ++ toString s.nextId ++ " fresh=" ++ toString s.fresh ++
    " syms=" ++ ",".intercalate (s.symbols.map fun (n, i) => hex n ++ ":" ++ toString i)

def showTm (tm : TypeMgr) : String :=
  "bv=" ++ ",".intercalate (tm.bvTypes.map toString) ++
  " arr=" ++ "|".intercalate (tm.arrayTypes.map fun (i, e) => showTy (.array i e)) ++
  " fun=" ++ "|".intercalate (tm.funTypes.map fun (r, ps) => showTy (.func r ps)) ++
  " decl=" ++ "|".intercalate (tm.customDecls.map fun (n, a) => hex n ++ "/" ++ toString a) ++
  " cus=" ++ "|".intercalate (tm.customTypes.map fun (n, as) => showTy (.custom n as))

/-! ### history state -/

/-- three environments: managers, the memo of each manager's normalizer, address orders -/
structure St where
  mgrs : Array Mgr := #[Mgr.init, Mgr.init, Mgr.init]
  memos : Array Memo := #[[], [], []]
  addrs : Array (List Nid) := #[[], [], []]
  results : Array (Nat × Except Err Nid) := #[]

def nEnv : Nat := 3

def St.mgr (st : St) (e : Nat) : Mgr := st.mgrs.getD e Mgr.init
def St.setMgr (st : St) (e : Nat) (m : Mgr) : St := { st with mgrs := st.mgrs.setIfInBounds e m }

def addrOf (l : List Nid) (i : Nid) : Nat :=
  match l.idxOf? i with
  | some k => k
  | none => l.length + i

def St.addr (st : St) (e : Nat) : Nid → Nat := addrOf (st.addrs.getD e [])

/-- `r<k>` of any environment: (environment, id) -/
def St.anyRef (st : St) (tok : String) : Option (Nat × Nid) :=
  match tok.toList with
  | 'r' :: ds =>
    match (String.ofList ds).toNat? with
    | some k =>
      match st.results[k]? with
      | some (e', .ok i) => some (e', i)
      | _ => none
    | none => none
  | _ => none

/-- `r<k>`: the id returned by op `k`, which must belong to environment `e` -/
def St.ref (st : St) (e : Nat) (tok : String) : Option Nid :=
  match tok.toList with
  | 'r' :: ds =>
    match (String.ofList ds).toNat? with
    | some k =>
      match st.results[k]? with
      | some (e', .ok i) => if e = e' then some i else none
      | _ => none
    | none => none
  | _ => none

def St.refs (st : St) (e : Nat) (tok : String) : Option (List Nid) :=
  match tok.toList with
  | ['[', ']'] => some []
  | '[' :: r =>
    match r.reverse with
    | ']' :: body => ((String.ofList body.reverse).splitOn ",").mapM (st.ref e)
    | _ => none
  | _ => none

def St.pairs (st : St) (e : Nat) (tok : String) : Option (List (Nid × Nid)) :=
  match tok.toList with
  | ['[', ']'] => some []
  | '[' :: r =>
    match r.reverse with
    | ']' :: body =>
      ((String.ofList body.reverse).splitOn ",").mapM fun kv =>
        match kv.splitOn ":" with
        | [k, v] => do some ((← st.ref e k), (← st.ref e v))
        | _ => none
    | _ => none
  | _ => none

def binPlain : String → Option (Nid → Nid → Prog Nid)
  | "Implies" => some fun a b => mkPlain NT.IMPLIES [a, b] | "Iff" => some mkIff
  | "Minus" => some fun a b => mkPlain NT.MINUS [a, b] | "Equals" => some mkEquals
  | "LE" => some mkLE | "LT" => some mkLT | "GE" => some mkGE | "GT" => some mkGT
  | "BVULT" => some mkBVULT | "BVULE" => some mkBVULE | "BVUGT" => some mkBVUGT | "BVUGE" => some mkBVUGE
  | "BVSLT" => some mkBVSLT | "BVSLE" => some mkBVSLE | "BVSGT" => some mkBVSGT | "BVSGE" => some mkBVSGE
  | "StrContains" => some fun a b => mkPlain NT.STR_CONTAINS [a, b]
  | "StrPrefixOf" => some fun a b => mkPlain NT.STR_PREFIXOF [a, b]
  | "StrSuffixOf" => some fun a b => mkPlain NT.STR_SUFFIXOF [a, b]
  | "StrCharAt" => some fun a b => mkPlain NT.STR_CHARAT [a, b]
  | "Select" => some fun a b => mkPlain NT.ARRAY_SELECT [a, b]
  | _ => none

def unPlain : String → Option Nat
  | "StrLength" => some NT.STR_LENGTH | "StrToInt" => some NT.STR_TO_INT
  | "IntToStr" => some NT.INT_TO_STR | "BVToNatural" => some NT.BV_TONATURAL
  | _ => none

def terPlain : String → Option Nat
  | "Ite" => some NT.ITE | "StrIndexOf" => some NT.STR_INDEXOF | "StrReplace" => some NT.STR_REPLACE
  | "StrSubstr" => some NT.STR_SUBSTR | "Store" => some NT.ARRAY_STORE
  | _ => none

def bvBin : String → Option Nat
  | "BVXor" => some NT.BV_XOR | "BVSub" => some NT.BV_SUB | "BVUDiv" => some NT.BV_UDIV
  | "BVURem" => some NT.BV_UREM | "BVSDiv" => some NT.BV_SDIV | "BVSRem" => some NT.BV_SREM
  | _ => none

def bvNary : String → Option Nat
  | "BVAnd" => some NT.BV_AND | "BVOr" => some NT.BV_OR | "BVAdd" => some NT.BV_ADD
  | "BVMul" => some NT.BV_MUL
  | _ => none

def readBvArg (st : St) (e : Nat) (tok : String) : Option BvArg :=
  match tok.toList with
  | 'i' :: r => (String.ofList r).toInt?.map .int
  | ['o'] => some .other
  | _ => (st.ref e tok).map .node

/-- the program of one op (environment `e`), or `none` when ill-formed -/
def opProg (st : St) (e : Nat) (toks : List String) : Option (Prog Nid) :=
  let ref := st.ref e
  let refs := st.refs e
  let addr := st.addr e
  match toks with
  | ["Symbol", n, t] => do some (mkSymbol (← unhexH n) (← readTy t))
  | ["Fresh", t, pre, post] => do some (mkFreshSymbol (← readTy t) (← unhexH pre) (← unhexH post))
  | ["ForAll", vs, b] => do some (mkQuant NT.FORALL (← refs vs) (← ref b))
  | ["Exists", vs, b] => do some (mkQuant NT.EXISTS (← refs vs) (← ref b))
  | ["Function", f, ps] => do some (mkFunction (← ref f) (← refs ps))
  | ["Not", a] => do some (mkNot (← ref a))
  | ["And", l] => do some (mkAnd (← refs l))
  | ["Or", l] => do some (mkOr (← refs l))
  | ["Plus", l] => do some (mkPlus (← refs l))
  | ["Times", l] => do some (mkTimes (← refs l))
  | ["StrConcat", l] => do some (mkStrConcat (← refs l))
  | ["Pow", a, b] => do some (mkPow (← ref a) (← ref b))
  | ["Div", a, b] => do some (mkDiv (← ref a) (← ref b))
  | ["ToReal", a] => do some (mkToReal (← ref a))
  | ["EqualsOrIff", a, b] => do some (mkEqualsOrIff (← ref a) (← ref b))
  | ["Xor", a, b] => do some (mkXor (← ref a) (← ref b))
  | ["NotEquals", a, b] => do some (mkNotEquals (← ref a) (← ref b))
  | ["AtMostOne", l] => do some (mkAtMostOne (← refs l))
  | ["ExactlyOne", l] => do some (mkExactlyOne (← refs l))
  | ["AllDifferent", l] => do some (mkAllDifferent (← refs l))
  | ["Min", l] => do some (mkMinMax true NT.LE (← refs l))
  | ["Max", l] => do some (mkMinMax false NT.LE (← refs l))
  | ["MinBV", sg, l] => do some (mkMinMax true (if sg = "1" then NT.BV_SLE else NT.BV_ULE) (← refs l))
  | ["MaxBV", sg, l] => do some (mkMinMax false (if sg = "1" then NT.BV_SLE else NT.BV_ULE) (← refs l))
  | ["Real", v] => do some (mkReal (← readPyNum v))
  | ["Int", v] => do some (mkInt (← readPyNum v))
  | ["Bool", v] => do some (mkBool (← readPyNum v))
  | ["String", v] =>
    (match v.toList with
     | 's' :: r => do some (mkString (.str (← unhex r)))
     | ['o'] => some (mkString .other)
     | _ => none)
  | ["TRUE"] => some (pure trueId)
  | ["FALSE"] => some (pure falseId)
  | ["BV", v, w] => do some (mkBVpy (← readBvVal v) (← readWidth w))
  | ["SBV", v, w] => do some (mkSBVpy (← readBvVal v) (← readWidth w))
  | ["BVOne", w] => do some (mkBVpy (.int 1) (← readWidth w))
  | ["BVZero", w] => do some (mkBVpy (.int 0) (← readWidth w))
  | ["BVNot", a] => do some (mkBVUn NT.BV_NOT (← ref a))
  | ["BVNeg", a] => do some (mkBVUn NT.BV_NEG (← ref a))
  | ["BVConcat", l] => do some (mkBVConcat (← refs l))
  | ["BVExtract", a, s, en] =>
    if s = "o" || en = "o" then do
      -- `assert is_python_integer(start) and is_python_integer(end)`
      let _ ← ref a
      some (failP .assertion)
    else do some (mkBVExtract (← ref a) (← s.toInt?) (← readOptInt en))
  | ["BVLShl", a, b] => do some (mkBVShift NT.BV_LSHL (← ref a) (← readBvArg st e b))
  | ["BVLShr", a, b] => do some (mkBVShift NT.BV_LSHR (← ref a) (← readBvArg st e b))
  | ["BVAShr", a, b] => do some (mkBVShift NT.BV_ASHR (← ref a) (← readBvArg st e b))
  | ["BVRol", a, n] => do some (mkBVRotPy NT.BV_ROL (← ref a) (← readPyInt n))
  | ["BVRor", a, n] => do some (mkBVRotPy NT.BV_ROR (← ref a) (← readPyInt n))
  | ["BVZExt", a, n] => do some (mkBVExtPy NT.BV_ZEXT (← ref a) (← readPyInt n))
  | ["BVSExt", a, n] => do some (mkBVExtPy NT.BV_SEXT (← ref a) (← readPyInt n))
  | ["BVComp", a, b] => do some (mkBVComp (← ref a) (← ref b))
  | ["BVNand", a, b] => do some (mkBVNotOf NT.BV_AND (← ref a) (← ref b))
  | ["BVNor", a, b] => do some (mkBVNotOf NT.BV_OR (← ref a) (← ref b))
  | ["BVXnor", a, b] => do some (mkBVNotOf NT.BV_XOR (← ref a) (← ref b))
  | ["BVSMod", a, b] => do some (mkBVSMod (← ref a) (← ref b))
  | ["BVRepeat", a, n] => do some (mkBVRepeat (← ref a) (← n.toInt?))
  | ["Array", t, d, kvs] => do some (mkArray addr (← readTy t) (← ref d) (← st.pairs e kvs))
  | ["Algebraic", h] => do some (mkAlgebraic (← unhexH h))
  | ["Type", t] => do some (.prim (.internTy (← readTy t)) .pure)
  | [name, a] => do some (mkPlain (← unPlain name) [← ref a])
  | [name, a, b] =>
    (match binPlain name with
     | some f => do
       let x ← ref a
       let y ← ref b
       some (f x y)
     | none =>
       match bvBin name with
       | some nt => do some (mkBVBin nt (← ref a) (← ref b))
       | none => none)
  | [name, a, b, c] => do some (mkPlain (← terPlain name) [← ref a, ← ref b, ← ref c])
  | _ => none

def distinctKeys : List (Nid × Nid) → Bool
  | [] => true
  | (k, _) :: t => !(t.any (·.1 == k)) && distinctKeys t

/-- one op.  `<env> ! <op>`: the environment's type checker rejects what this op asks it
    (an ill-sorted call): the manager runs the op with the verdict `false`. -/
def step (st : St) (toks : List String) : Option St :=
  match toks with
  | envTok :: rest0 =>
    match envTok.toNat? with
    | some e =>
      if e ≥ nEnv then none else
      let reject := rest0.head? == some "!"
      let rest := if reject then rest0.drop 1 else rest0
      match rest with
      | ["normalize", r] => do
        -- `World.normalize`: source = the environment the referenced object lives in
        let (k, i) ← st.anyRef r
        let (res, tgt', memo') := normStep (st.mgr k) (st.mgr e) k (st.addr e) i (st.memos.getD e [])
        some { (st.setMgr e tgt') with memos := st.memos.setIfInBounds e memo',
                                       results := st.results.push (e, res) }
      | ["get", a, i] => do
        -- read-only accessor `array_value_get`
        let r := arrayValueGet (st.addr e) (st.mgr e) (← st.ref e a) (← st.ref e i)
        some { st with results := st.results.push (e, r) }
      | "Array" :: _ :: _ :: [kvs] =>
        match st.pairs e kvs with
        | some ps => if distinctKeys ps then run e reject rest else none
        | none => none
      | name :: l :: [] =>
        match bvNary name with
        | some nt => do
          let ids ← st.refs e l
          exec e reject (mkBVNary nt ids)
        | none => run e reject rest
      | _ => run e reject rest
    | none => none
  | [] => none
where
  exec (e : Nat) (reject : Bool) (p : Prog Nid) : Option St :=
    let m := st.mgr e
    let (r, m') := p.run (if reject then { m with tc := fun _ => false } else m)
    some { (st.setMgr e { m' with tc := m.tc }) with results := st.results.push (e, r) }
  run (e : Nat) (reject : Bool) (rest : List String) : Option St :=
    match opProg st e rest with
    | some p => exec e reject p
    | none => none

def splitOps (toks : List String) : List (List String) :=
  let rec go (cur : List String) (acc : List (List String)) : List String → List (List String)
    | [] => (cur.reverse :: acc).reverse
    | "|" :: t => go [] (cur.reverse :: acc) t
    | x :: t => go (x :: cur) acc t
  go [] [] toks

def readAddr (tok : String) : Option (List Nid) :=
  match tok.toList with
  | 'A' :: ':' :: r =>
    if r.isEmpty then some [] else ((String.ofList r).splitOn ",").mapM String.toNat?
  | _ => none

def showRes : Except Err Nid → String
  | .ok i => toString i
  | .error e => showErr e

def answer (line : String) : String :=
  match (line.splitOn " ").filter (· ≠ "") with
  | "mgr" :: a0 :: a1 :: a2 :: rest =>
    match readAddr a0, readAddr a1, readAddr a2 with
    | some l0, some l1, some l2 =>
      let ops := (splitOps rest).filter (fun o => !o.isEmpty)
      let st0 : St := { addrs := #[l0, l1, l2] }
      match ops.foldlM step st0 with
      | some st =>
        " ".intercalate (st.results.toList.map (fun r => showRes r.2)) ++ " # " ++
          " # ".intercalate (st.mgrs.toList.map showTable) ++ " # " ++
          " # ".intercalate (st.mgrs.toList.map fun m => showTm m.tm)
      | none => "bad-op"
    | _, _, _ => "bad-op"
  | _ => "bad-op"

end C04Driver

partial def loop (h : IO.FS.Stream) : IO Unit := do
  let line ← h.getLine
  if line.isEmpty then return ()
  IO.println (C04Driver.answer (String.ofList (line.toList.filter (· != '\n'))))
  loop h

def main : IO Unit := do loop (← IO.getStdin)
