/-
Line-protocol driver for C13: runs the *generated* definitions (`Gen/TheoryOrder.lean`, `Gen/Logics.lean`)
so that the harness can compare them with the real `pysmt.logics` (differential validation of the
translator) and evaluate the specification predicates of `Spec/LogicOrder.lean`.

tokens   T  = 12 characters 0/1 (theory flags, in constructor order)
         L  = n:<table name>            (looked up in ALL_NAMED, exact name)
            | r:<name>:<qf 0/1>:<T>     (an arbitrary logic)
requests fields                                -> the theory flag names, in order
         le|lt|ge|gt|eq|ne|covers L L          -> true|false
         logic L                               -> <name> <qf> <T>
         set <python set name>                 -> names, space separated
         tle|teq|tne|tcovers T T               -> true|false
         tcombine T T                          -> <T> <assert1> <assert2>
         tset lira|linear|strings|dl|arrays|arrays_const T <0/1> ; tset copy T 0   -> <T>
         tinfo T                               -> <wf> <init_ok>
         tlerow T                              -> 4096 characters: `T <= U` for U = 0 … 4095 (flags as binary number, first flag = most significant bit)
         tcombrow T                            -> 4096 * 12 characters: `T.combine(U)`
         closer L L…   (target, supported…)    -> ok <name> <qf> <T> | err <class>
         closerpysmt L | closersmtlib L | mostgeneric L… | byname <string> | getlogic <qf> <T>   -> same
         caps                                  -> theory features detect   (the detection model is present)
         theory <wire term>                    -> <T>   (TheoryOracle.get_theory, modelled)
         features <wire term>                  -> <T> q|qf   (specification: features the term uses)
         detect <wire term>                    -> ok <name> <qf> <T> | err <class>   (oracles.get_logic, modelled)
         fragment <wire term>                  -> true|false   (hypothesis `inFragment` of detect_covers_partial)
         isdl <wire term>                      -> <bool> <bool>   (Spec: in integer / real difference logic)
         sorted <wire term>                    -> true|false   (hypotheses of detect_covers: well-sorted by Spec.HasType, no pow)
         scriptlogic <wire term>               -> ok … | err …   (set-logic of smtlibscript_from_formula, modelled)
         factory <default L> <name|-> <logic L|-> <np> <pref>* <ns> (<solver name> <nl> <L>*)*
                                               -> ok <solver name> <name> <qf> <T> | err <class>   (Factory._get_solver_class)
anything else -> bad-op
-/
import PySMT.Gen.Logics
import PySMT.Spec.LogicOrder
import PySMT.Spec.Features
import PySMT.Spec.HasType
import PySMT.Impl.TheoryOracle
import PySMT.Impl.FactorySelect
import PySMT.Core.DriverLib
open PySMT.Logics
open PySMT PySMT.Wire

def bit (b : Bool) : String := if b then "1" else "0"

def showT (t : Theory) : String := String.join (t.toBits.map bit)

def readBits (s : String) : Option (List Bool) :=
  s.toList.mapM (fun c => if c == '1' then some true else if c == '0' then some false else none)

def readT (s : String) : Option Theory := (readBits s).bind Theory.ofBits

def readB (s : String) : Option Bool :=
  if s == "1" then some true else if s == "0" then some false else none

def readL (s : String) : Option Logic :=
  match s.splitOn ":" with
  | ["n", name] => ALL_NAMED.find? (fun l => l.name == name)
  | ["r", name, qf, t] => do
      let q ← readB qf
      let th ← readT t
      pure { name := name, quantifier_free := q, theory := th }
  | _ => none

def showL (l : Logic) : String := s!"{l.name} {bit l.quantifier_free} {showT l.theory}"

def showR : Except PyErr Logic → String
  | .ok l => "ok " ++ showL l
  | .error .NoLogicAvailableError => "err NoLogicAvailableError"
  | .error .UndefinedLogicError => "err UndefinedLogicError"
  | .error .IndexError => "err IndexError"

def tf (b : Bool) : String := if b then "true" else "false"

/-- all theories in the order of their flag string read as a binary number -/
def allTheories : Array Theory := Id.run do
  let mut out : Array Theory := #[]
  for i in [0:4096] do
    let bits := (List.range 12).map (fun k => (i >>> (11 - k)) % 2 == 1)
    match Theory.ofBits bits with
    | some t => out := out.push t
    | none => pure ()
  return out

def rel2 (f : Logic → Logic → Bool) (a b : String) : String :=
  match readL a, readL b with
  | some x, some y => tf (f x y)
  | _, _ => "bad-op"

def trel2 (f : Theory → Theory → Bool) (a b : String) : String :=
  match readT a, readT b with
  | some x, some y => tf (f x y)
  | _, _ => "bad-op"

def termAnswer (line : String) : Option String :=
  let toks := Wire.tokens line
  match toks[0]? with
  | some "theory" => some <| DriverLib.handle (do let t ← term; return showT (TheoryOracle.theoryOf t)) toks
  | some "features" => some <| DriverLib.handle (do
      let t ← term
      return showT (Features.features t) ++ (if Features.hasQuant t then " q" else " qf")) toks
  | some "detect" => some <| DriverLib.handle (do let t ← term; return showR (TheoryOracle.getLogic t)) toks
  | some "scriptlogic" => some <| DriverLib.handle (do let t ← term; return showR (FactorySelect.scriptLogic t)) toks
  | some "isdl" => some <| DriverLib.handle (do
      let t ← term; return tf (Features.isDL .int t) ++ " " ++ tf (Features.isDL .real t)) toks
  | some "sorted" => some <| DriverLib.handle (do
      let t ← term; return tf (t.sortOf.isSome && Features.noPow t)) toks
  | some "fragment" => some <| DriverLib.handle (do let t ← term; return tf (Features.inFragment t)) toks
  | _ => none

/-- `<ns> (<name> <nl> <logic>*)*` -/
partial def readSolvers : Nat → List String → Option (List FactorySelect.SolverClass)
  | 0, [] => some []
  | 0, _ => none
  | k + 1, name :: nl :: rest =>
    match nl.toNat? with
    | some m =>
      if rest.length < m then none else
      match (rest.take m).mapM readL, readSolvers k (rest.drop m) with
      | some ls, some more => some (⟨name, ls⟩ :: more)
      | _, _ => none
    | none => none
  | _, _ => none

def factoryAnswer : List String → String
  | d :: n :: g :: np :: rest =>
    match readL d, np.toNat? with
    | some dl, some k =>
      if rest.length < k + 1 then "bad-op" else
      let prefs := rest.take k
      match (rest.drop k) with
      | ns :: srest =>
        (match ns.toNat?.bind (fun m => readSolvers m srest) with
         | some sl =>
           let name := if n == "-" then none else some n
           let logic := if g == "-" then some none else (readL g).map some
           (match logic with
            | some lg =>
              (match FactorySelect.getSolverClass sl prefs dl name lg with
               | .ok (s, l) => s!"ok {s.name} {showL l}"
               | .error .NoSolverAvailableError => "err NoSolverAvailableError"
               | .error .NoLogicAvailableError => "err NoLogicAvailableError"
               | .error .IndexError => "err IndexError"
               | .error .UndefinedLogicError => "err UndefinedLogicError")
            | none => "bad-op")
         | none => "bad-op")
      | [] => "bad-op"
    | _, _ => "bad-op"
  | _ => "bad-op"

def answer (all : Array Theory) (line : String) : String :=
  match termAnswer line with
  | some a => a
  | none =>
  match line.splitOn " " with
  | "factory" :: rest => factoryAnswer rest
  | ["caps"] => "theory features detect fragment sorted isdl scriptlogic factory"
  | ["le", a, b] => rel2 Logic.le a b
  | ["lt", a, b] => rel2 Logic.lt a b
  | ["ge", a, b] => rel2 Logic.ge a b
  | ["gt", a, b] => rel2 Logic.gt a b
  | ["eq", a, b] => rel2 Logic.eq a b
  | ["ne", a, b] => rel2 Logic.ne a b
  | ["covers", a, b] => rel2 Logic.covers a b
  | ["fields"] => " ".intercalate Theory.fieldNames
  | ["logic", a] => (match readL a with | some l => showL l | none => "bad-op")
  | ["set", n] =>
      (match SETS.find? (fun p => p.1 == n) with
       | some p => " ".intercalate (p.2.map (·.name))
       | none => "bad-op")
  | ["tle", a, b] => trel2 Theory.le a b
  | ["teq", a, b] => trel2 Theory.eq a b
  | ["tne", a, b] => trel2 Theory.ne a b
  | ["tcovers", a, b] => trel2 Theory.covers a b
  | ["tcombine", a, b] =>
      (match readT a, readT b with
       | some x, some y =>
           s!"{showT (x.combine y)} {bit (Theory.combine.assert1 x y)} {bit (Theory.combine.assert2 x y)}"
       | _, _ => "bad-op")
  | ["tset", m, a, v] =>
      (match readT a, readB v with
       | some x, some w =>
           (match m with
            | "lira" => showT (x.set_lira w)
            | "linear" => showT (x.set_linear w)
            | "strings" => showT (x.set_strings w)
            | "dl" => showT (x.set_difference_logic w)
            | "arrays" => showT (x.set_arrays w)
            | "arrays_const" => showT (x.set_arrays_const w)
            | "copy" => showT x.copy
            | _ => "bad-op")
       | _, _ => "bad-op")
  | ["tinfo", a] => (match readT a with | some x => s!"{bit x.wf} {bit x.init_ok}" | none => "bad-op")
  | ["tlerow", a] =>
      (match readT a with
       | some x => String.join (all.toList.map (fun u => bit (Theory.le x u)))
       | none => "bad-op")
  | ["tcombrow", a] =>
      (match readT a with
       | some x => String.join (all.toList.map (fun u => showT (x.combine u)))
       | none => "bad-op")
  | "closer" :: t :: sup =>
      (match readL t, sup.mapM readL with
       | some x, some s => showR (get_closer_logic s x)
       | _, _ => "bad-op")
  | ["closerpysmt", t] => (match readL t with | some x => showR (get_closer_pysmt_logic x) | none => "bad-op")
  | ["closersmtlib", t] => (match readL t with | some x => showR (get_closer_smtlib_logic x) | none => "bad-op")
  | "mostgeneric" :: ls =>
      (match ls.mapM readL with
       | some s => showR (most_generic_logic s)
       | none => "bad-op")
  | ["byname", n] => showR (get_logic_by_name n)
  | ["getlogic", q, a] =>
      (match readB q, readT a with
       | some qf, some t =>
           showR (get_logic qf t.arrays t.arrays_const t.bit_vectors t.floating_point t.integer_arithmetic
             t.real_arithmetic t.integer_difference t.real_difference t.linear t.uninterpreted t.custom_type
             t.strings)
       | _, _ => "bad-op")
  | _ => "bad-op"

partial def loop (all : Array Theory) (h : IO.FS.Stream) : IO Unit := do
  let line ← h.getLine
  if line.isEmpty then return ()
  IO.println (answer all ((line.dropEndWhile (· == '\n')).toString))
  loop all h

def main : IO Unit := do loop allTheories (← IO.getStdin)
