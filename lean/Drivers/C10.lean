import PySMT.Core.DriverLib
import PySMT.Impl.Rewritings.NNF
import PySMT.Impl.Rewritings.AIG
import PySMT.Impl.Rewritings.Partition
import PySMT.Impl.Rewritings.Shannon
import PySMT.Impl.Rewritings.SelfSub
import PySMT.Impl.Rewritings.Times
import PySMT.Impl.Rewritings.Prenex
import PySMT.Impl.Rewritings.Propagate
/-! Driver of C10: one request per procedure, answered with the wire encoding of the model's
result, plus the shape predicates evaluated on a given term.

```
nnf|aig|times|shannon|selfsub|prenex <term>   -> ok <term> | err | none
conj|disj <term>                              -> ok <k> (| <term>)*k
propagate <k> (<term> <int>)*k <term>         -> ok <term> | err
shape nnf|aig|prenex|qf|times|notand|notor <term> -> true | false
```
-/
open PySMT PySMT.DriverLib PySMT.Wire PySMT.Rewritings

def freshPrefix : String := "%FRESH%"
def freshName (n : Nat) : String := freshPrefix ++ toString n

/-- all symbol names occurring in a term (free, bound, applied) -/
partial def allNames : Term → List String
  | .node _ args p =>
    let own := match p with
      | .sym s => [s.name]
      | .qvars vs => vs.map (·.name)
      | _ => []
    own ++ (args.map allNames).flatten

def encList (ts : List Term) : String :=
  s!"ok {ts.length}" ++ String.join (ts.map (fun t => " | " ++ encTerm t))

def shapeOf (kind : String) (t : Term) : Option Bool :=
  match kind with
  | "nnf" => some (isNNF t)
  | "aig" => some (isAIG t)
  | "prenex" => some (isPrenex t)
  | "qf" => some t.isQF
  | "times" => some (timesNormal t)
  | "notand" => some (!isAnd t)
  | "notor" => some (!isOr t)
  | _ => none

def answer (toks : Array String) : String :=
  match toks[0]? with
  | some "nnf" => handle (do let t ← term; return "ok " ++ encTerm (nnf t)) toks
  | some "aig" => handle (do let t ← term; return "ok " ++ encTerm (aig t)) toks
  | some "times" => handle (do let t ← term; return "ok " ++ encTerm (timesDistr t)) toks
  | some "conj" => handle (do let t ← term; return encList (conjPartition t)) toks
  | some "disj" => handle (do let t ← term; return encList (disjPartition t)) toks
  | some "shannon" => handle (do
      let t ← term
      return if boolQuants t then "ok " ++ encTerm (shannon t) else "err") toks
  | some "selfsub" => handle (do
      let t ← term
      return if boolQuants t then "ok " ++ encTerm (selfSub t) else "err") toks
  | some "prenex" => handle (do
      let t ← term
      if (allNames t).any (fun n => freshPrefix.isPrefixOf n) then return "bad-fresh"
      return match prenex freshName t with
        | some r => "ok " ++ encTerm r
        | none => "none") toks
  | some "propagate" => handle (do
      let k ← nat
      let tab ← rep k (do let t ← term; let i ← int; return (t, i))
      let t ← term
      let rank : Term → Int := fun x => match tab.find? (fun e => e.1 == x) with
        | some e => e.2 | none => 0
      return match propagate rank t with
        | some r => "ok " ++ encTerm r
        | none => "err") toks
  | some "shape" =>
    match toks[1]? with
    | some kind => handle (do
        let t ← term
        return match shapeOf kind t with
          | some b => toString b
          | none => "bad-op") toks 2
    | none => "bad-op"
  | _ => match coreAnswer toks with
    | some a => a
    | none => "bad-op"

def main : IO Unit := loop fun line => answer (Wire.tokens line)
