import PySMT.Core.DriverLib
import PySMT.Impl.Mk
import PySMT.Gen.Infix
/-! Driver of C06 (line protocol, see harness/DEV.md).

```
mk <Ctor> <k> <arg>*k                -- getattr(mgr, Ctor)(*args)   (`Abs` = shortcuts.Abs)
infix <method> <self:term> <k> <arg>*k   -- getattr(self, method)(*args) through the regenerated table
names                                -- constructors `mk` knows
methods                              -- methods of the regenerated infix table
arg := <term> | i <int> | b 0/1 | q <num> <den> | s <hex> | N | S <int|-> <int|-> | t <ty> | y <hex> <symty>
```
answers: `ok <term>` | `err <class>` | `out-of-fragment` | `bad-op …`.
-/
open PySMT PySMT.DriverLib PySMT.Wire PySMT.Mk

def peek : P String := do
  let st ← get
  if h : st.pos < st.toks.size then return st.toks[st.pos] else throw "eof"

def optInt : P (Option Int) := do
  let t ← next
  if t == "-" then return none
  match t.toInt? with
  | some n => return some n
  | none => throw s!"int or - expected: {t}"

def arg : P Arg := do
  let t ← peek
  match t with
  | "T" => return .t (← term)
  | "i" => do let _ ← next; return .i (← int)
  | "b" => do let _ ← next; return .b ((← nat) != 0)
  | "q" => do let _ ← next; let n ← int; let d ← nat; return .q (mkRat n d)
  | "s" => do let _ ← next; return .s (← str)
  | "N" => do let _ ← next; return .none
  | "S" => do let _ ← next; let lo ← optInt; let hi ← optInt; return .slice lo hi
  | "t" => do let _ ← next; return .ty (← ty)
  | "y" => do let _ ← next; let n ← str; return .sym (← symTy n)
  | _ => throw s!"argument expected: {t}"

def answerR : R → String
  | .ok t => "ok " ++ encTerm t
  | .error .unmodelled => "out-of-fragment"
  | .error e => "err " ++ e.name

def mkReq : P String := do
  let name ← next
  let k ← nat
  let args ← rep k arg
  return answerR (call name args)

def infixReq : P String := do
  let name ← next
  let self ← term
  let k ← nat
  let args ← rep k arg
  return answerR (Infix.run Gen.Infix.table name self args)

def main : IO Unit := loop fun line =>
  let toks := Wire.tokens line
  match toks[0]? with
  | some "mk" => handle mkReq toks
  | some "infix" => handle infixReq toks
  | some "names" => " ".intercalate callNames
  | some "methods" => " ".intercalate (Gen.Infix.table.map (·.1))
  | _ => match coreAnswer toks with
    | some a => a
    | none => "bad-op"
