import PySMT.Impl.WalkerDriver
import PySMT.Impl.TheoryHeapDriver
/-! Driver for C14: the generic `DagWalker` model (`walker <graph> <ops…>`, see `PySMT/Impl/WalkerDriver.lean`)
    and the heap model of `TheoryOracle` (`theoryheap <history> <dag>`, see `PySMT/Impl/TheoryHeapDriver.lean`). -/
def answer (line : String) : String :=
  if line.startsWith "theoryheap " then PySMT.TheoryHeapDriver.answer line
  else PySMT.WalkerDriver.answer line

partial def loop (h : IO.FS.Stream) (out : IO.FS.Stream) : IO Unit := do
  let line ← h.getLine
  if line.isEmpty then return ()
  let line := if line.back == '\n' then (line.dropEnd 1).toString else line
  out.putStrLn (answer line)
  loop h out

def main : IO Unit := do
  let out ← IO.getStdout
  loop (← IO.getStdin) out
  out.flush
