import PySMT.Core.DriverLib
import PySMT.Spec.HasType
import PySMT.Impl.CreateNode
/-! Driver of C03.
* `type <term>` / `wt <term>` / `echo` / `fv` / `eval` — `DriverLib.coreAnswer`
* `hastype <term>`  — the sort by the SMT-LIB rules (`Term.sortOf`, the computable form of `Spec.HasType`) | `none`
* `chk <term>`      — `<typeOf> | <wt> | <sortOf> | <noF06> | <rotInRange> | <typeOfRaw> | <wtRaw> | <arityOkAll>` in one answer
  (`typeOfRaw`/`wtRaw`: the real checker's rule on raw nodes of any arity, `CreateNode.pyNode`)
* `hist <n> (<op> <payload> <k> <argcall>*k)*n` — a history of `create_node` calls through `CreateNode.run`;
  answer: one of `ok`/`err`/`skip` per call, then `+<growth of the table>`
-/
open PySMT PySMT.DriverLib PySMT.Wire

def chk : P String := do
  let t ← term
  return s!"{encOptTy t.typeOf} | {t.wt} | {encOptTy t.sortOf} | {t.noF06} | {t.rotInRange} | {encOptTy t.typeOfRaw} | {t.wtRaw} | {t.arityOkAll}"

def call : P CreateNode.Call := do
  let opn ← next
  let some op := Op.ofName? opn | throw s!"unknown op {opn}"
  let p ← payload
  let k ← nat
  let idxs ← rep k nat
  return ⟨op, idxs, p⟩

def hist : P String := do
  let n ← nat
  let calls ← rep n call
  -- replay step by step to tell "raised" from "could not be made"
  let mut h := CreateNode.Hist.init
  let mut out : Array String := #[]
  for c in calls do
    let possible := (CreateNode.lookupArgs h.results c.argIdx).isSome
    h := CreateNode.step h c
    match h.results.getLast? with
    | some (some _) => out := out.push "ok"
    | _ => out := out.push (if possible then "err" else "skip")
  return " ".intercalate (out.toList ++ [s!"+{h.mgr.formulae.length - CreateNode.Mgr.init.formulae.length}"])

def main : IO Unit := loop fun line =>
  let toks := Wire.tokens line
  match toks[0]? with
  | some "hastype" => handle (do let t ← term; return encOptTy t.sortOf) toks
  | some "chk" => handle chk toks
  | some "hist" => handle hist toks
  | _ => match coreAnswer toks with
    | some a => a
    | none => "bad-op"
