import PySMT.Core.DriverLib
/-! Semantic oracle shared by the term-based properties (layer S):
`chk_equiv <k> <interp>*k <f> <g>` — type equal, fv(g) ⊆ fv(f), and `eval I f = eval I g`
for every given interpretation under which no division by zero is evaluated. -/
open PySMT PySMT.DriverLib PySMT.Wire

def chkEquiv (checkFv : Bool) : P String := do
  let k ← nat
  let Is ← rep k interp
  let f ← term
  let g ← term
  if f.typeOf != g.typeOf then
    return s!"fail type {encOptTy f.typeOf} {encOptTy g.typeOf}"
  if checkFv then
    match g.fv.find? (fun s => !f.fv.contains s) with
    | some s => return s!"fail fv {hex s.name}"
    | none => pure ()
  let mut compared := 0
  let mut skipped := 0
  let mut idx := 0
  for I in Is do
    if div0 I f || div0 I g then skipped := skipped + 1
    else
      let a := eval I f
      let b := eval I g
      if a != b then return s!"fail value {idx} {encVal a} | {encVal b}"
      compared := compared + 1
    idx := idx + 1
  return s!"ok {compared} {skipped}"

def evalc : P String := do
  let I ← interp
  let t ← term
  if div0 I t then return "div0" else return encVal (eval I t)

def main : IO Unit := loop fun line =>
  let toks := Wire.tokens line
  match toks[0]? with
  | some "chk_equiv" => handle (chkEquiv true) toks
  | some "chk_equiv_nofv" => handle (chkEquiv false) toks
  | some "evalc" => handle evalc toks
  | _ => match coreAnswer toks with
    | some a => a
    | none => "bad-op"
