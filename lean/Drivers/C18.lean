import PySMT.Impl.Opt
import PySMT.Spec.Opt
/-!
Line-protocol driver for C18.

```
opt <single|boxed|lexi|pareto|ptake:<k>> <sua|incr> <linear|binary> <fuel> <goals> <log>
    goals = g,g,…      g = <min|max>:<i|u<w>|s<w>>:<0|1 supported>
    log   = e;e;… | .  e = - (unsat) | <id>:<c0>,<c1>,… (model id and the value of every goal term)
  ⇒ <result> # lv=<levels> st=<stack size> calls=<n> # <event> <event> …
iv init <goal>                      ⇒ <lower> <upper>          (N for None)
iv pivot <goal> <lower> <upper>     ⇒ <pivot>
iv step <goal> <strat> <lower> <upper> <sat v | unsat>  ⇒ <lower> <upper> <cut bound> <empty>
spec opt <min|max> <v,v,…>          ⇒ <optimum> | none
spec lex <d,d,…> <vec;vec;…>        ⇒ <v,v,…> | none
spec pareto <d,d,…> <vec;vec;…>     ⇒ <vec;vec;…> | empty        (sorted, no duplicates)
```
-/
open PySMT PySMT.Opt

structure Mdl where
  id : Nat
  costs : Array Int
  deriving Repr

def objOf (i : Nat) (m : Mdl) : Int := m.costs.getD i 0

def parseInt? (s : String) : Option Int := s.toInt?

def parseDom? (s : String) : Option Dom :=
  if s == "i" then some .int
  else if s.startsWith "u" then (s.drop 1).toNat?.map .ubv
  else if s.startsWith "s" then (s.drop 1).toNat?.map .sbv
  else none

def parseGoal? (s : String) : Option Goal :=
  match s.splitOn ":" with
  | [d, dom, sup] =>
    match (if d == "min" then some Dir.min else if d == "max" then some Dir.max else none), parseDom? dom,
          (if sup == "1" then some true else if sup == "0" then some false else none) with
    | some d, some dom, some sup => some ⟨d, dom, sup⟩
    | _, _, _ => none
  | _ => none

def parseList? {α : Type} (sep : String) (p : String → Option α) (s : String) : Option (List α) :=
  if s.isEmpty then some [] else (s.splitOn sep).mapM p

def parseEntry? (s : String) : Option (Option Mdl) :=
  if s == "-" then some none else
  match s.splitOn ":" with
  | [i, cs] =>
    match i.toNat?, parseList? "," parseInt? cs with
    | some i, some cs => some (some ⟨i, cs.toArray⟩)
    | _, _ => none
  | _ => none

def parseLog? (s : String) : Option (Array (Option Mdl)) :=
  if s == "." then some #[] else (parseList? ";" parseEntry? s).map List.toArray

def showDom : Dom → String
  | .int => "i" | .ubv w => s!"u{w}" | .sbv w => s!"s{w}"
def showCmp : Cmp → String
  | .lt => "<" | .le => "<=" | .gt => ">" | .ge => ">="
def showAtom (a : Atom) : String := s!"{a.g}:{showDom a.dom}:{showCmp a.cmp}:{a.bound}"
def showC : Constraint → String
  | .atom a => showAtom a
  | .eq g _ v => s!"{g}={v}"
  | .disj as => "(" ++ "|".intercalate (as.map showAtom) ++ ")"
def showEvent : Event → String
  | .push => "P" | .pop => "O"
  | .add c => "A:" ++ showC c
  | .solve cs sat => "S:" ++ "&".intercalate (cs.map showC) ++ (if sat then "=1" else "=0")
def showOptInt : Option Int → String
  | none => "N" | some v => toString v

def showOutcome {α : Type} (f : α → String) : Outcome α → String
  | .done r => f r
  | .castErr _ v => "err:cast:" ++ showOptInt v
  | .keyErr => "err:key"
  | .fuel => "err:fuel"
  | .emptyGoals => "err:empty"

def showInts (l : List Int) : String := ",".intercalate (l.map toString)

def finish {α : Type} (f : α → String) (nlog : Nat) (r : Outcome α × Solver Mdl) : String :=
  let s := r.2
  let res := if s.calls > nlog then "exhausted" else if s.bad then "err:pop" else showOutcome f r.1
  s!"{res} # lv={s.marks.length} st={s.stack.length} calls={s.calls} # " ++
    " ".intercalate (s.trace.reverse.map showEvent)

def parseSense? (s : String) : Option OptSpec.Sense :=
  if s == "min" then some .min else if s == "max" then some .max else none

def parseOptInt? (s : String) : Option (Option Int) :=
  if s == "N" then some none else s.toInt?.map some

def showIv (iv : Interval) : String := s!"{showOptInt iv.lower} {showOptInt iv.upper}"

def answer (line : String) : String :=
  match line.splitOn " " with
  | ["opt", routine, mx, strat, fuel, goals, log] =>
    match (if mx == "sua" then some Mixin.sua else if mx == "incr" then some Mixin.incr else none),
          (if strat == "linear" then some Strat.linear else if strat == "binary" then some Strat.binary else none),
          fuel.toNat?, parseList? "," parseGoal? goals, parseLog? log with
    | some mx, some strat, some fuel, some goals, some log =>
      let o : Oracle Mdl := fun n _ => (log.getD n none)
      let gs : List (Nat × Goal) := (List.range goals.length).zip goals
      let s0 : Solver Mdl := {}
      if routine == "single" then
        match gs with
        | [(gi, g)] =>
          finish (fun r => match r with | none => "none" | some (m, c) => s!"m{m.id}:{c}") log.size
            (optimize o objOf mx strat g gi [] fuel s0)
        | _ => "bad-op"
      else if routine == "boxed" then
        finish (fun r => match r with
            | none => "none"
            | some l => if l.isEmpty then "empty" else ",".intercalate (l.map (fun (_, m, c) => s!"m{m.id}:{c}")))
          log.size (boxed o objOf mx strat fuel gs s0)
      else if routine == "lexi" then
        finish (fun r => match r with | none => "none" | some (m, vs) => s!"m{m.id}:{showInts vs}") log.size
          (lexicographic o objOf mx strat fuel gs s0)
      else if routine == "pareto" then
        finish (fun l => if l.isEmpty then "empty" else
            ";".intercalate (l.map (fun (m, cs) => s!"m{m.id}:{showInts cs}"))) log.size
          (pareto o objOf mx gs fuel s0)
      else if routine.startsWith "ptake:" then
        match (routine.drop 6).toNat? with
        | some k =>
          finish (fun l => if l.isEmpty then "empty" else
              ";".intercalate (l.map (fun (m, cs) => s!"m{m.id}:{showInts cs}"))) log.size
            (paretoPrefix o objOf mx gs fuel k s0)
        | none => "bad-op"
      else "bad-op"
    | _, _, _, _, _ => "bad-op"
  | ["iv", "init", g] =>
    (match parseGoal? g with
     | some g => showIv (Interval.init g)
     | none => "bad-op")
  | ["iv", "pivot", g, l, u] =>
    (match parseGoal? g, parseOptInt? l, parseOptInt? u with
     | some g, some l, some u => toString (computePivot g ⟨l, u, none⟩)
     | _, _, _ => "bad-op")
  | ["iv", "step", g, strat, l, u, what, v] =>
    (match parseGoal? g, (if strat == "linear" then some Strat.linear else if strat == "binary" then some Strat.binary else none),
           parseOptInt? l, parseOptInt? u, v.toInt? with
     | some g, some strat, some l, some u, some v =>
       let (iv1, b) := cutBound strat g ⟨l, u, none⟩
       let iv2 := if what == "sat" then searchIsSat g iv1 v else searchIsUnsat g iv1
       if what == "sat" || what == "unsat" then
         s!"{showIv iv2} {showOptInt b} {iv2.empty} {match b with | some b => castOk g.dom b | none => false}"
       else "bad-op"
     | _, _, _, _, _ => "bad-op")
  | ["spec", "opt", d, vs] =>
    (match parseSense? d, parseList? "," parseInt? vs with
     | some d, some vs => (match OptSpec.listOpt d vs with | some v => toString v | none => "none")
     | _, _ => "bad-op")
  | ["spec", "lex", ds, vecs] =>
    (match parseList? "," parseSense? ds, parseList? ";" (parseList? "," parseInt?) vecs with
     | some ds, some vecs =>
       if vecs.all (fun v => v.length == ds.length) then
         (match OptSpec.lexOpt ds vecs with | some v => (if v.isEmpty then "()" else showInts v) | none => "none")
       else "bad-op"
     | _, _ => "bad-op")
  | ["spec", "pareto", ds, vecs] =>
    (match parseList? "," parseSense? ds, parseList? ";" (parseList? "," parseInt?) vecs with
     | some ds, some vecs =>
       if vecs.all (fun v => v.length == ds.length) then
         let f := OptSpec.paretoFront ds vecs
         if f.isEmpty then "empty" else ";".intercalate (f.map showInts)
       else "bad-op"
     | _, _ => "bad-op")
  | _ => "bad-op"

partial def loop (h : IO.FS.Stream) : IO Unit := do
  let line ← h.getLine
  if line.isEmpty then return ()
  IO.println (answer (line.dropEndWhile (· == '\n')).toString)
  loop h

def main : IO Unit := do loop (← IO.getStdin)
