import PySMT.Core.DriverLib
open PySMT PySMT.DriverLib PySMT.Wire
def main : IO Unit := loop fun line =>
  let toks := Wire.tokens line
  match toks[0]? with
  | some "simp" => handle (do let _ ← term; return "out-of-fragment") toks
  | _ => match coreAnswer toks with
    | some a => a
    | none => "bad-op"
