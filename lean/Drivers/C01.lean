import PySMT.Core.DriverLib
import PySMT.Impl.Simplifier
import PySMT.Impl.Model
/-! Driver of C01 (and of the `simp` part of C02).

* `simp <term>`  → `encTerm (simp t)` | `out-of-fragment` (some operator of `t` has no rule yet) | `bad-shape` (`t.wf = false`:
  the harness only sends formulas built by the FormulaManager, so this never happens)
* `rule <term>`  → for `t = node op args p`: `encTerm (rule_op p args)` — ONE rule application to the given (already
  simplified) arguments, whatever they are | `out-of-fragment`
* `frag <term>`  → `true`/`false` : `inFrag t` (rules and guards: the fragment the theorems cover)
* `getvalue <0|1> <n> (<hexname> <ty> <term>)*n <term>` → `Model.getValue completion asg f`: `encTerm c` | `none`
  (the method raises) | `out-of-fragment`
-/
open PySMT PySMT.DriverLib PySMT.Wire PySMT.Simplifier

def main : IO Unit := loop fun line =>
  let toks := Wire.tokens line
  match toks[0]? with
  | some "simp" => handle (do
      let t ← term
      if !hasRules t then return "out-of-fragment"
      if !t.wf then return "bad-shape"
      return encTerm (simp t)) toks
  | some "rule" => handle (do
      let t ← term
      match t with
      | .node op args p =>
        match ruleOf op with
        | some e => return encTerm (e.rule p args)
        | none => return "out-of-fragment") toks
  | some "getvalue" => handle (do
      let c ← nat
      let n ← nat
      let asg ← rep n (do let nm ← str; let ty ← Wire.ty; let v ← term; return (Sym.var nm ty, v))
      let f ← term
      if !hasRules f || !(asg.all fun kv => hasRules kv.2) then return "out-of-fragment"
      match Model.getValue (c != 0) asg f with
      | some r => return encTerm r
      | none => return "none") toks
  | some "frag" => handle (do let t ← term; return toString (inFrag t)) toks
  | _ => match coreAnswer toks with
    | some a => a
    | none => "bad-op"
