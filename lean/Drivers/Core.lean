import PySMT.Core.DriverLib
open PySMT PySMT.DriverLib
def main : IO Unit := loop fun line =>
  let toks := Wire.tokens line
  match coreAnswer toks with
  | some a => a
  | none => "bad-op"
