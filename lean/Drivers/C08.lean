import PySMT.Core.DriverLib
import PySMT.Spec.SmtlibText
import PySMT.Impl.Parser
/-! Driver of C08 (line protocol, DEV.md).

* `pread <hex text>`   : the model `Impl.Parser.script` on the S-expressions the standard lexer reads from the text
                          → `ok <n> <command>*n` | `err <class>` | `lex <hex message>` | `out-of-fragment`
* `readstd <hex text>` : the standard reader `Std.stepStd` command by command, with the terms it elaborates
                          → `ok <n> <item>*n` | `err <k> <hex message>` | `lex <hex message>`
* `stdlive <hex text>` : `Std.runStd` on the whole text; the conjunction of the assertions in force at the end
                          → `ok <n> <term>` (n live assertions) | `err <hex message>` | `lex <hex message>`

```
command := L <hex|-> | P <hex name> <k> <hex>*k | U <int> | O <int> | DS <hex> <arity> | FS <hex> <ty>
         | D <hex cmd> <hex name> <symty> | F <hex name> <k> (<hex> <ty>)*k <ty> <term> | A <term> | T <hex name> <k> <term>*k
         | AS <term> <weight term> <hex id> | OB <hex name> <term> <k> (<hex key> <hex value>)*k
         | MM <hex name> <k> <term>*k <m> (<hex key> <hex value>)*m | LO <int>
item    := - | A <term> | F <hex name> <k> (<hex> <ty>)*k <ty> <term> | T <k> <term>*k
```
-/
open PySMT PySMT.DriverLib PySMT.Wire

def encOptHex : Option String → String | some s => hex s | none => "-"

def encCmd : Parser.Command → String
  | .setLogic n => s!"L {encOptHex n}"
  | .plain n args => s!"P {hex n} {args.length}" ++ String.join (args.map (fun a => " " ++ hex a))
  | .push n => s!"U {n}"
  | .pop n => s!"O {n}"
  | .declareSort n a => s!"DS {hex n} {a}"
  | .defineSort n t => s!"FS {hex n} {encTy t}"
  | .declare c s => s!"D {hex c} {hex s.name} {encSymTy s}"
  | .defineFun n fs r b =>
    s!"F {hex n} {fs.length}" ++ String.join (fs.map (fun f => s!" {hex f.name} {encTy f.ret}")) ++ s!" {encTy r} {encTerm b}"
  | .assert t => s!"A {encTerm t}"
  | .terms n ts => s!"T {hex n} {ts.length}" ++ String.join (ts.map (fun t => " " ++ encTerm t))
  | .assertSoft t w i => s!"AS {encTerm t} {encTerm w} {hex i}"
  | .objective n t os =>
    s!"OB {hex n} {encTerm t} {os.length}" ++ String.join (os.map (fun o => s!" {hex o.1} {hex o.2}"))
  | .minmax n ts os =>
    s!"MM {hex n} {ts.length}" ++ String.join (ts.map (fun t => " " ++ encTerm t)) ++ s!" {os.length}"
      ++ String.join (os.map (fun o => s!" {hex o.1} {hex o.2}"))
  | .loadObjective n => s!"LO {n}"

def pread (text : String) : String :=
  match Sexp.read text with
  | .error e => s!"lex {hex e}"
  | .ok cmds =>
    match Parser.script Parser.PEnv.init cmds with
    | .ok cs => s!"ok {cs.length}" ++ String.join (cs.map (fun c => " " ++ encCmd c))
    | .error .unmodelled => "out-of-fragment"
    | .error e => s!"err {e.name}"

/-- the standard's elaboration of the term-carrying commands -/
def stdItem (st : Std.StdState) (c : Sexp) : Except String String :=
  match c with
  | .list [.atom "assert", t] =>
    (Std.readStdTy st.env [] t).map (fun r => s!"A {encTerm r.1}")
  | .list [.atom "get-value", .list ts] | .list [.atom "check-sat-assuming", .list ts] =>
    (ts.mapM (fun t => Std.readStdTy st.env [] t)).map
      (fun rs => s!"T {rs.length}" ++ String.join (rs.map (fun r => " " ++ encTerm r.1)))
  | _ => .ok "-"

def stdDefItem (st : Std.StdState) (c : Sexp) : String :=
  match c with
  | .list (.atom "define-fun" :: _) =>
    (match st.env.defs with
     | (n, d) :: _ =>
       s!"F {hex n} {d.params.length}" ++ String.join (d.params.map (fun f => s!" {hex f.name} {encTy f.ret}"))
         ++ s!" {encTy d.ret} {encTerm d.body}"
     | [] => "-")
  | _ => "-"

def readstdGo : Std.StdState → Nat → List Sexp → List String → Except (Nat × String) (List String)
  | _, _, [], acc => .ok acc.reverse
  | st, k, c :: rest, acc =>
    match stdItem st c with
    | .error e => .error (k, e)
    | .ok item =>
      match Std.stepStd st c with
      | .error e => .error (k, e)
      | .ok st' =>
        let item' := if item == "-" then stdDefItem st' c else item
        readstdGo st' (k + 1) rest (item' :: acc)

def readstd (text : String) : String :=
  match Sexp.read text with
  | .error e => s!"lex {hex e}"
  | .ok cmds =>
    match readstdGo Std.StdState.init 0 cmds [] with
    | .ok items => s!"ok {items.length}" ++ String.join (items.map (fun i => " " ++ i))
    | .error (k, e) => s!"err {k} {hex e}"

/-- the conjunction of the assertions in force after the whole script, for the standard's interpreter (`Std.runStd`) -/
def stdlive (text : String) : String :=
  match Sexp.read text with
  | .error e => s!"lex {hex e}"
  | .ok cmds =>
    match Std.runStd cmds with
    | .ok st =>
      let t : Term := match st.live with
        | [] => Term.tt
        | [t] => t
        | ts => .node .and ts .none
      s!"ok {st.live.length} {encTerm t}"
    | .error e => s!"err {hex e}"

def main : IO Unit := loop fun line =>
  let toks := Wire.tokens line
  match toks[0]?, toks[1]?, toks.size with
  | some "pread", some h, 2 => (match unhex h with | .ok t => pread t | .error _ => "bad-op")
  | some "readstd", some h, 2 => (match unhex h with | .ok t => readstd t | .error _ => "bad-op")
  | some "stdlive", some h, 2 => (match unhex h with | .ok t => stdlive t | .error _ => "bad-op")
  | _, _, _ => match coreAnswer toks with
    | some a => a
    | none => "bad-op"
