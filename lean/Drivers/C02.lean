import PySMT.Core.DriverLib
import PySMT.Impl.Simplifier
import PySMT.Impl.Model
/-! Driver of C02: `EagerModel.get_value` / `Model.satisfies` end to end, with the code's own substitution
step (`MGSubstituter` = `Subst.substMG`, every node rebuilt through the manager constructors).

* `getvalue <0|1> <n> (<hexname> <ty> <term>)*n <term>` → `Model.getValue' completion asg f`: `encTerm c` | `none`
  (the method raises) | `out-of-fragment` (an operator without a rule in the simplifier model)
* `getvalue0 …` (same arguments) → `Model.getValue` (in-place replacement of the symbols, no rebuilding)
* `satisfies <n> (<hexname> <ty> <term>)*n <term>` → `Model.satisfies' asg f`: `true` | `false` | `none` | `out-of-fragment`
* `subst <n> (<hexname> <ty> <term>)*n <term>` → `encTerm (Model.substAsg asg f)` (the substitution step alone)
-/
open PySMT PySMT.DriverLib PySMT.Wire PySMT.Simplifier

def asgP : P (Model.Asg × Term) := do
  let n ← nat
  let asg ← rep n (do let nm ← str; let ty ← Wire.ty; let v ← term; return (Sym.var nm ty, v))
  let f ← term
  return (asg, f)

def inModel (asg : Model.Asg) (f : Term) : Bool := hasRules f && (asg.all fun kv => hasRules kv.2)

def main : IO Unit := loop fun line =>
  let toks := Wire.tokens line
  match toks[0]? with
  | some "getvalue" => handle (do
      let c ← nat
      let (asg, f) ← asgP
      if !inModel asg f then return "out-of-fragment"
      match Model.getValue' (c != 0) asg f with
      | some r => return encTerm r
      | none => return "none") toks
  | some "getvalue0" => handle (do
      let c ← nat
      let (asg, f) ← asgP
      if !inModel asg f then return "out-of-fragment"
      match Model.getValue (c != 0) asg f with
      | some r => return encTerm r
      | none => return "none") toks
  | some "satisfies" => handle (do
      let (asg, f) ← asgP
      if !inModel asg f then return "out-of-fragment"
      match Model.satisfies' asg f with
      | some b => return toString b
      | none => return "none") toks
  | some "subst" => handle (do
      let (asg, f) ← asgP
      return encTerm (Model.substAsg asg f)) toks
  | _ => match coreAnswer toks with
    | some a => a
    | none => "bad-op"
