import PySMT.Core.DriverLib
import PySMT.Impl.HR
/-! Driver of the human-readable part of C09 (line protocol, DEV.md).

Token wire format (one token = 2–3 wire tokens, preceded by their number):
```
tok := r <num> <den> | i <int> | v <value> <width> | s <hex> | T <width> | y <hex name> <symty> | u <hex> | o <hex spelling>
```
* `hrtokens <term>`        : the printer model `HR.hrTokens`                                  → `ok <n> <tok>*n`
* `hrparse <n> <tok>*n`    : the parser model `HR.hrParse`                                    → `ok <term>` | `err <class>`
* `hrfrag <term>`          : is the term in the fragments `InHRFrag` / `InHRFragN` of `Props.C09HR`, and what the models
                             make of it → `<true|false> <true|false> <same|regroup|other|err>`
                             (`same`: `hrParse (hrTokens t) = ok t`; `regroup`: `= ok (regroup t)`, different from `t`)
-/
open PySMT PySMT.DriverLib PySMT.Wire PySMT.HR

def encTok : Tok → String
  | .real q => s!"r {q.num} {q.den}"
  | .int n => s!"i {n}"
  | .bvc v w => s!"v {v} {w}"
  | .str s => s!"s {hex s}"
  | .bvType w => s!"T {w}"
  | .ident s => s!"y {hex s.name} {encSymTy s}"
  | .unknown n => s!"u {hex n}"
  | .op s => s!"o {hex s}"

def encToks (l : List Tok) : String := s!"{l.length}" ++ String.join (l.map (fun t => " " ++ encTok t))

def tok : P Tok := do
  let t ← next
  match t with
  | "r" => do let n ← int; let d ← nat; return .real (mkRat n d)
  | "i" => return .int (← int)
  | "v" => do let v ← int; let w ← nat; return .bvc v w
  | "s" => return .str (← str)
  | "T" => return .bvType (← nat)
  | "y" => do let n ← str; return .ident (← symTy n)
  | "u" => return .unknown (← str)
  | "o" => return .op (← str)
  | _ => throw s!"token expected: {t}"

def hrtokensReq : P String := do
  let t ← term
  return "ok " ++ encToks (hrTokens t)

def hrparseReq : P String := do
  let n ← nat
  let toks ← rep n tok
  match hrParse toks with
  | .ok t => return s!"ok {encTerm t}"
  | .error e => return s!"err {e.name}"

def hrfragReq : P String := do
  let t ← term
  let r := match hrParse (hrTokens t) with
    | .ok u => if u = t then "same" else if u = regroup t then "regroup" else "other"
    | .error _ => "err"
  return s!"{inHRFrag t} {inHRFragN t} {r}"

def main : IO Unit := loop fun line =>
  let toks := Wire.tokens line
  match toks[0]? with
  | some "hrtokens" => handle hrtokensReq toks
  | some "hrparse" => handle hrparseReq toks
  | some "hrfrag" => handle hrfragReq toks
  | _ => match coreAnswer toks with
    | some a => a
    | none => "bad-op"
