import PySMT.Impl.SmtSolver
/-!
Line-protocol driver for C17.

Encodings (no spaces inside a token; `~` stands for a space inside a sort text):
* sym   `name:sorttext:use1+use2`          (uses may be empty)
* sort  `name:arity`
* expr  `id/sym,sym/sort,sort`             (both lists may be empty)
* API ops: `A<expr>` add_assertion, `P<n>` push, `O<n>` pop, `R` reset_assertions, `S` solve, `V<expr>` get_value,
  `M` get_model, `I<expr>` is_sat, `L<expr>` is_valid (expr abstracts the negation), `U<expr>` is_unsat, `X` exit
* commands: `so:k:v` `sl:L` `ds:name:arity` `df:<sym>` `as:<expr>` `pu:n` `po:n` `ra` `cs` `gv:<expr>` `ex`

Requests
* `smtsolver <logic> <verdicts|-> <ops…>`: run the wrapper model against the strict solver whose `check-sat`
  answers the scripted verdicts (comma separated, in order; `unknown` when exhausted).  Answer:
  `ok <stream> | <out>@<declared_vars>@<declared_sorts>@<pending_pop T|F>@<strict levels> … | <dead> <queue length>`
  (one `<out>@…` entry per API call: result and bookkeeping after the call) where `<stream>` has a `#` token in
  front of the commands of every API call (the first group is `__init__`), commands are rendered
  `so:k:v sl:L ds:name:arity df:name:sort as:id pu:n po:n ra cs gv:id ex`, a command the strict solver rejected
  is prefixed with `!`, levels are separated by `;` (outermost first; `-` = no level at all), names by `,` (sorted).
* `smtsolver-lenient …`: the same against a solver that acknowledges a pop beyond its stack (drops all levels but the first).
* `strict <cmd…>` with `cs=<verdict>`: `accept` or `reject <index>`.
-/
open PySMT PySMT.StrictSolver PySMT.SmtSolver

def parseSym (t : String) : Option Sym :=
  match t.splitOn ":" with
  | [n, s, u] => some ⟨n, s.replace "~" " ", if u.isEmpty then [] else u.splitOn "+"⟩
  | _ => none

def parseSort (t : String) : Option SortDecl :=
  match t.splitOn ":" with
  | [n, a] => a.toNat?.map fun k => ⟨n, k⟩
  | _ => none

def parseList {α : Type} (f : String → Option α) (t : String) : Option (List α) :=
  if t.isEmpty then some [] else (t.splitOn ",").mapM f

def parseExpr (t : String) : Option Expr :=
  match t.splitOn "/" with
  | [i, ss, ds] => do
    let syms ← parseList parseSym ss
    let sorts ← parseList parseSort ds
    some ⟨i, syms, sorts⟩
  | _ => none

def parseVerdict : String → Option Verdict
  | "sat" => some .sat
  | "unsat" => some .unsat
  | "unknown" => some .unknown
  | _ => none

def parseApi (t : String) : Option Api :=
  let rest := (t.drop 1).toString
  match (t.take 1).toString with
  | "A" => (parseExpr rest).map .addAssertion
  | "P" => rest.toNat?.map .push
  | "O" => rest.toNat?.map .pop
  | "R" => if rest.isEmpty then some .resetAssertions else none
  | "S" => if rest.isEmpty then some .solve else none
  | "V" => (parseExpr rest).map .getValue
  | "M" => if rest.isEmpty then some .getModel else none
  | "I" => (parseExpr rest).map .isSat
  | "L" => (parseExpr rest).map .isValid
  | "U" => (parseExpr rest).map .isUnsat
  | "X" => if rest.isEmpty then some .exit else none
  | _ => none

def parseCmd (t : String) : Option (Cmd × Verdict) :=
  let two := (t.take 2).toString
  let rest := (t.drop 3).toString
  if t == "ra" then some (.resetAssertions, .unknown)
  else if t == "ex" then some (.exit, .unknown)
  else if two == "cs" then (parseVerdict rest).map fun v => (.checkSat, v)
  else if ((t.drop 2).toString.take 1).toString != ":" then none
  else match two with
  | "so" => (match rest.splitOn ":" with
      | "" :: k :: v => some (.setOption (":" ++ k) (":".intercalate v), .unknown)
      | _ => none)
  | "sl" => some (.setLogic rest, .unknown)
  | "ds" => (parseSort rest).map fun d => (.declareSort d, .unknown)
  | "df" => (parseSym rest).map fun s => (.declareFun s, .unknown)
  | "as" => (parseExpr rest).map fun e => (.assert e, .unknown)
  | "pu" => rest.toNat?.map fun n => (.push n, .unknown)
  | "po" => rest.toNat?.map fun n => (.pop n, .unknown)
  | "gv" => (parseExpr rest).map fun e => (.getValue e, .unknown)
  | _ => none

def showCmd : Cmd → String
  | .setOption k v => s!"so:{k}:{v}"
  | .setLogic l => s!"sl:{l}"
  | .declareSort d => s!"ds:{d.name}:{d.arity}"
  | .declareFun s => s!"df:{s.name}:{s.sort.replace " " "~"}"
  | .assert e => s!"as:{e.id}"
  | .push n => s!"pu:{n}"
  | .pop n => s!"po:{n}"
  | .resetAssertions => "ra"
  | .checkSat => "cs"
  | .getValue e => s!"gv:{e.id}"
  | .exit => "ex"

def showErr : Err → String
  | .solverError => "solver-error"
  | .unknownResult => "unknown-result"
  | .badValue => "bad-value"
  | .hang => "hang"
  | .closed => "closed"
  | .indexError => "index-error"

def sortedNames (l : List String) : String := ",".intercalate (l.toArray.qsort (· < ·)).toList

def showOut : Out → String
  | .unit => "unit"
  | .bool b => if b then "true" else "false"
  | .value _ => "val"
  | .model m => "model:" ++ sortedNames (m.map (·.1.name))
  | .error e => "err:" ++ showErr e

/-- scripted decision oracle: verdicts in order, then `unknown` -/
def scripted : Oracle where
  ω := List Verdict
  init := []
  verdict := fun vs _ => match vs with | [] => (.unknown, []) | v :: r => (v, r)
  value := fun _ _ _ => "?"

def scriptedSolver (vs : List Verdict) : Solver := { Solver.strict scripted with init := (State.init, vs) }

/-- test double: the scripted strict solver, except that a pop beyond the stack is acknowledged and removes every level
    but the first (K compares the wrapper model with the wrapper on such a process, `refsolver.py --lenient-pop`) -/
def lenientSolver (vs : List Verdict) : Solver where
  σ := State × List Verdict
  init := (State.init, vs)
  respond := fun s c =>
    match c with
    | .pop n =>
      if !s.1.exited && s.1.logicSet && decide (n ≥ s.1.levels.length) then
        (({ s.1 with levels := s.1.levels.drop (s.1.levels.length - 1), satMode := false }, s.2), .success)
      else StrictSolver.respond scripted s c
    | c => StrictSolver.respond scripted s c

/-- render the events of one group: commands, `!` in front of a command answered by `(error …)` -/
def showEvents : List Event → List String
  | .send c :: .recv (.error _) :: r => ("!" ++ showCmd c) :: showEvents r
  | .send c :: r => showCmd c :: showEvents r
  | .recv _ :: r => showEvents r
  | [] => []

def levelsStr {α : Type} (f : α → String) (ls : List (List α)) : String :=
  if ls.isEmpty then "-" else ";".intercalate (ls.reverse.map fun l => sortedNames (l.map f))

def runShow (S : Solver) (strictLevels : S.σ → Nat) (logic : String) (ops : List Api) : String := Id.run do
  let mut w := create S logic
  let mut toks : List String := "#" :: showEvents w.chan.trace
  let mut outs : List String := []
  for a in ops do
    let before := w.chan.trace.length
    let r := step w a
    w := r.1
    toks := toks ++ ("#" :: showEvents (w.chan.trace.drop before))
    outs := outs ++ [showOut r.2 ++ "@" ++ levelsStr (·.name) w.vars ++ "@" ++ levelsStr (·.name) w.sorts ++ "@" ++
      (if w.pendingPop then "T" else "F") ++ "@" ++ toString (strictLevels w.chan.solver)]
  return "ok " ++ " ".intercalate toks ++ " | " ++ " ".intercalate outs ++ " | " ++
    s!"{w.dead} {w.chan.queue.length}"

def answer (line : String) : String :=
  match (line.splitOn " ").filter (· ≠ "") with
  | "smtsolver" :: logic :: vs :: ops =>
    let verdicts := if vs == "-" then some [] else (vs.splitOn ",").mapM parseVerdict
    match verdicts, ops.mapM parseApi with
    | some vs, some ops => runShow (scriptedSolver vs) (fun s => s.1.levels.length) logic ops
    | _, _ => "bad-op"
  | "smtsolver-lenient" :: logic :: vs :: ops =>
    let verdicts := if vs == "-" then some [] else (vs.splitOn ",").mapM parseVerdict
    match verdicts, ops.mapM parseApi with
    | some vs, some ops => runShow (lenientSolver vs) (fun s => s.1.levels.length) logic ops
    | _, _ => "bad-op"
  | "strict" :: cmds =>
    match cmds.mapM parseCmd with
    | some cs =>
      match firstIllegal State.init cs 0 with
      | none => "accept"
      | some k => s!"reject {k}"
    | none => "bad-op"
  | _ => "bad-op"

partial def loop (h : IO.FS.Stream) : IO Unit := do
  let line ← h.getLine
  if line.isEmpty then return ()
  IO.println (answer (line.dropEndWhile (· == '\n')).toString)
  loop h

def main : IO Unit := do loop (← IO.getStdin)
