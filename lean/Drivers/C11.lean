import PySMT.Core.DriverLib
import PySMT.Impl.Rewritings.CNF
import PySMT.Impl.Rewritings.PolCNF
import PySMT.Impl.Rewritings.Ackermann
/-!
Driver for C11 (wire format: `PySMT/Core/Wire.lean`).

    cnf  <term> <n> (<term> <term>)*n     CNFizer on <term>; the n pairs are the graph of `simplify`
    pcnf <term> <n> (<term> <term>)*n     PolarityCNFizer      on the terms the harness computed it for
                                          (everything else is its own simplification)
        -> ok <clauses> <formula> <m> (<hexname> <sub-formula>)*m
              <clauses>  = raw node `and [or [lit…] …]` (a container, not a formula: no normalisation)
              <formula>  = convert_as_formula
              the m pairs: definition variable ↦ sub-formula (`_introduced_variables`, only the used ones)
        -> err NotImplementedError                      (quantifier reached by the walk)
    ack  <term>
        -> ok <formula> <m> (<hexname> <ty> <application>)*m          (`_terms_dict`)
    shape cnf  <term>   -> true | false     the formula is a conjunction of clauses of literals
    shape nouf <term>   -> true | false     no function application occurs
-/
open PySMT PySMT.DriverLib PySMT.Wire

def simpOf (tbl : List (Term × Term)) (x : Term) : Term :=
  match tbl.find? (fun e => e.1 == x) with
  | some e => e.2
  | none => x

def container (cs : List CNF.Clause) : Term :=
  Term.node .and (cs.map (fun c => Term.node .or c .none)) .none

def usedKeys (tbl : List (Term × Sym)) (cs : List CNF.Clause) : List (Term × Sym) :=
  let syms := (cs.map (fun c => (c.map Term.fv).flatten)).flatten
  tbl.filter (fun e => syms.contains e.2)

def cnfReq (pol : Bool) : P String := do
  let t ← term
  let n ← nat
  let tbl ← rep n (do let a ← term; let b ← term; return (a, b))
  let E := if pol then PolCNF.stdEnv (simpOf tbl) t else CNF.stdEnv (simpOf tbl) t
  let ktbl := if pol then PolCNF.keyTable t else CNF.keyTable t
  match (if pol then PolCNF.convert E t else CNF.convert E t) with
  | none => return "err " ++ ((if pol then PolCNF.convertErr t else CNF.convertErr t).getD "?")
  | some cs =>
    let used := usedKeys ktbl cs
    return s!"ok {encTerm (container cs)} {encTerm (CNF.formulaOf cs)} {used.length}" ++
      String.join (used.map (fun e => s!" {hex e.2.name} {encTerm e.1}"))

def ackReq : P String := do
  let t ← term
  let E := Ackermann.stdEnv t
  let tbl := Ackermann.constTable t
  return s!"ok {encTerm (Ackermann.ack E t)} {tbl.length}" ++
    String.join (tbl.map (fun e => s!" {hex e.2.name} {encTy e.2.ret} {encTerm e.1}"))

def shapeReq (toks : Array String) : String :=
  match toks[1]? with
  | some "cnf" => handle (do let t ← term; return toString (CNF.shapeFormula t)) toks 2
  | some "nouf" => handle (do let t ← term; return toString (Ackermann.noApp t)) toks 2
  | _ => "bad-op"

def main : IO Unit := loop fun line =>
  let toks := Wire.tokens line
  match toks[0]? with
  | some "cnf" => handle (cnfReq false) toks
  | some "pcnf" => handle (cnfReq true) toks
  | some "ack" => handle ackReq toks
  | some "shape" => shapeReq toks
  | _ => match coreAnswer toks with
    | some a => a
    | none => "bad-op"
