import PySMT.Core.DriverLib
import PySMT.Impl.Subst
import PySMT.Spec.Subst
/-! Driver of C05 (substitution).

```
subst  <mg|ms> <envmg|envms> <n> (<kin 0/1> <key term> <vin 0/1> <value term>)*n
       <m> (<kin 0/1> <key term> <k> (<hex name> <ty>)*k <body term>)*m <formula term>
    ->  ok <term> | err <class> [<index>]
spec   (same arguments)   -> ok <term>       -- mgSpec / msSpec of Spec/Subst.lean (no validation, no errors)
normal <term>             -> true | false    -- Build.normal
nocap  <n> (<hex name> <ty> <value term>)*n <formula term>   -> true | false   -- SubstSpec.NoCapture
```
plus the core requests (`echo type wt eval fv`). -/
open PySMT PySMT.DriverLib PySMT.Wire PySMT.Subst

def flag : P Bool := do return (← nat) != 0

def entry : P Entry := do
  let kin ← flag
  let k ← term
  let vin ← flag
  let v ← term
  return ⟨k, kin, v, vin⟩

def ientry : P IEntry := do
  let kin ← flag
  let k ← term
  let n ← nat
  let formals ← rep n (do let nm ← str; let t ← ty; return Sym.var nm t)
  let body ← term
  return ⟨k, kin, ⟨formals, body⟩⟩

def encErr : Err → String
  | .formulaNotTerm => "err formula-not-term"
  | .keyNotTerm i => s!"err key-not-term {i}"
  | .valueNotTerm i => s!"err value-not-term {i}"
  | .keyForeign i => s!"err key-foreign {i}"
  | .valueForeign i => s!"err value-foreign {i}"
  | .ikeyNotFunction i => s!"err ikey-not-function {i}"
  | .ikeyForeign i => s!"err ikey-foreign {i}"
  | .raised => "err raised"

def cls : P Bool := do
  match ← next with
  | "mg" | "envmg" => return false
  | "ms" | "envms" => return true
  | t => throw s!"mg/ms expected: {t}"

def substReq (useSpec : Bool) : P String := do
  let ms ← cls
  let envMs ← cls
  let n ← nat
  let es ← rep n entry
  let m ← nat
  let is ← rep m ientry
  let f ← term
  if useSpec then
    let σ : SubstSpec.TMap := es.map (fun e => (e.key, e.val))
    let defs : List (Sym × SubstSpec.Def) := (imapOf is).map (fun sf => (sf.1, ⟨sf.2.formals, sf.2.body⟩))
    let app := SubstSpec.appOf Build.rebuild envMs defs
    return "ok " ++ encTerm (if ms then SubstSpec.msSpec Build.rebuild app σ f else SubstSpec.mgSpec Build.rebuild app σ f)
  else
    match substitute ms envMs es is f with
    | .ok r => return "ok " ++ encTerm r
    | .error e => return encErr e

def nocapReq : P String := do
  let n ← nat
  let σ ← rep n (do let nm ← str; let t ← ty; let v ← term; return (Sym.var nm t, v))
  let f ← term
  return toString (SubstSpec.NoCapture σ f)

def main : IO Unit := loop fun line =>
  let toks := Wire.tokens line
  match toks[0]? with
  | some "subst" => handle (substReq false) toks
  | some "spec" => handle (substReq true) toks
  | some "normal" => handle (do let t ← term; return toString (Build.normal t)) toks
  | some "nocap" => handle nocapReq toks
  | _ => match coreAnswer toks with
    | some a => a
    | none => "bad-op"
