import PySMT.Core.DriverLib
import PySMT.Impl.Printer
import PySMT.Impl.Parser
/-! Driver of C09 (line protocol, DEV.md).

* `rt tree|dag <term>` : the model of `parse(print(t))` — the printer model `Printer.toSexp`/`toSexpDag`, the parser model
  `Parser.readTerm` in the environment in which the sorts and the free symbols of `t` are declared (the declarations the
  printer model writes, read by the parser model)  → `ok <term>` | `err <class>` | `out-of-fragment`
* `text tree|dag <term>` : the rendered text of the printer model (for replays)
-/
open PySMT PySMT.DriverLib PySMT.Wire

def declsOf (t : Term) : List Sexp :=
  (Printer.sortDecls t).map Printer.declareSort ++ t.fv.eraseDups.map Printer.declareFun

def roundTrip (dag : Bool) (t : Term) : String :=
  match Parser.envAfter Parser.PEnv.init (declsOf t) with
  | .error .unmodelled => "out-of-fragment"
  | .error e => s!"err decl-{e.name}"
  | .ok Γ =>
    match Parser.readTerm Γ (if dag then Printer.toSexpDag t else Printer.toSexp t) with
    | .ok r => s!"ok {encTerm r}"
    | .error .unmodelled => "out-of-fragment"
    | .error e => s!"err {e.name}"

def rt : P String := do
  let mode ← next
  let t ← term
  match mode with
  | "tree" => return roundTrip false t
  | "dag" => return roundTrip true t
  | _ => throw "mode"

def text : P String := do
  let mode ← next
  let t ← term
  match mode with
  | "tree" => return hex (Sexp.render (Printer.toSexp t))
  | "dag" => return hex (Sexp.render (Printer.toSexpDag t))
  | _ => throw "mode"

def main : IO Unit := loop fun line =>
  let toks := Wire.tokens line
  match toks[0]? with
  | some "rt" => handle rt toks
  | some "text" => handle text toks
  | _ => match coreAnswer toks with
    | some a => a
    | none => "bad-op"
