/-
Line-protocol driver for C12 (model of pysmt/oracles.py, `PySMT/Impl/Oracles.lean`).

requests   fvo <term>                 -> `<hexname> <symty>` items separated by " ; "   (model order)
           atoms <term>               -> atoms <term> ; <term> …  |  theory  |  err
           qf <term>                  -> true | false
           types <term>               -> `<ty>` items separated by " ; "  (expandTypes of the walk, model order)
           ctypes <term>              -> the same with custom_only=True (declared sorts only)
           typesw <term>              -> the walk result before expansion
           expand <k> <ty>*k          -> expand_types of the list, exact order
           size <m> <term>            -> <nat>      (m = 0 … 5 as in SizeOracle)
           opclass <python set name>  -> node-type ids, space separated (regenerated tables)
plus the core requests (echo type wt eval fv). Anything else -> bad-op.
-/
import PySMT.Core.DriverLib
import PySMT.Impl.Oracles
open PySMT PySMT.DriverLib PySMT.Wire PySMT.Oracles

def joinItems (l : List String) : String := " ; ".intercalate l

def showSym (s : Sym) : String := s!"{hex s.name} {encSymTy s}"

def opId (o : Op) : Nat := (Op.all.findIdx? (· == o)).getD 999

def opClass (name : String) : Option (List Op) :=
  match name with
  | "ALL_TYPES" => some Gen.Operators.opOrder
  | "QUANTIFIERS" => some Gen.Operators.quantifiers
  | "BOOL_CONNECTIVES" => some Gen.Operators.boolConnectives
  | "BOOL_OPERATORS" => some Gen.Operators.boolOperators
  | "CONSTANTS" => some Gen.Operators.constants
  | "BV_RELATIONS" => some Gen.Operators.bvRelations
  | "IRA_RELATIONS" => some Gen.Operators.iraRelations
  | "STR_RELATIONS" => some Gen.Operators.strRelations
  | "RELATIONS" => some Gen.Operators.relations
  | "BV_OPERATORS" => some Gen.Operators.bvOperators
  | "STR_OPERATORS" => some Gen.Operators.strOperators
  | "IRA_OPERATORS" => some Gen.Operators.iraOperators
  | "ARRAY_OPERATORS" => some Gen.Operators.arrayOperators
  | "THEORY_OPERATORS" => some Gen.Operators.theoryOperators
  | _ => none

def main : IO Unit := loop fun line =>
  let toks := Wire.tokens line
  match toks[0]? with
  | some "fvo" => handle (do let t ← term; return joinItems ((fvO t).map showSym)) toks
  | some "atoms" => handle (do
      let t ← term
      match atomsO t with
      | .err => return "err"
      | .theory => return "theory"
      | .atoms l => return "atoms " ++ joinItems (l.map encTerm)) toks
  | some "qf" => handle (do let t ← term; return toString (isQFO t)) toks
  | some "types" => handle (do let t ← term; return joinItems ((typesO t).map encTy)) toks
  | some "ctypes" => handle (do let t ← term; return joinItems ((typesCustomO t).map encTy)) toks
  | some "typesw" => handle (do let t ← term; return joinItems ((typesWalk t).map encTy)) toks
  | some "expand" => handle (do
      let k ← nat
      let ts ← rep k ty
      return joinItems ((expandTypes ts).map encTy)) toks
  | some "size" => handle (do
      let m ← nat
      let t ← term
      match Measure.ofNat? m with
      | some mm => return toString (sizeO mm t)
      | none => throw "unknown measure") toks
  | some "opclass" =>
    match toks[1]?, toks.size with
    | some n, 2 => match opClass n with
      | some l => " ".intercalate (l.map (fun o => toString (opId o)))
      | none => "bad-op"
    | _, _ => "bad-op"
  | _ => match coreAnswer toks with
    | some a => a
    | none => "bad-op"
