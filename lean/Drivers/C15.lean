import PySMT.Impl.WalkerDriver
/-! Driver for C15: the generic `DagWalker` model (`walker <graph> <ops…>` requests, see
    `PySMT/Impl/WalkerDriver.lean` for the protocol). -/
def main : IO Unit := PySMT.WalkerDriver.main
