/-
Specification side of property C13 (written from the property text, not from pySMT):
what it means for a theory to be well formed, for one theory/logic to *cover* the features another
one needs, and for a logic to be a closest supported logic.

The record types `Theory` / `Logic` themselves come from the regenerated file (they are the
constructor arguments of `pysmt.logics.Theory`); everything below only reads the feature flags
the property lists.
-/
import PySMT.Gen.TheoryOrder
namespace PySMT.Logics

/-- A theory is well formed when difference logic is only claimed together with the arithmetic it
refines and constant arrays only together with arrays.  (`Theory.__init__` asserts the last one.) -/
def Theory.wf (t : Theory) : Bool :=
  (!t.integer_difference || t.integer_arithmetic) &&
  (!t.real_difference || t.real_arithmetic) &&
  (!t.arrays_const || t.arrays)

def WFTheory (t : Theory) : Prop := t.wf = true

instance (t : Theory) : Decidable (WFTheory t) := inferInstanceAs (Decidable (t.wf = true))

/-- `have_` enables every sort, operator family and feature that `need` uses (the feature list of the
property: arrays, constant arrays, bit-vectors, floating point, integers, reals, uninterpreted symbols,
custom sorts, strings, non-linear arithmetic).  The difference-logic refinement is *not* a feature. -/
def Theory.covers (have_ need : Theory) : Bool :=
  (!need.arrays || have_.arrays) &&
  (!need.arrays_const || have_.arrays_const) &&
  (!need.bit_vectors || have_.bit_vectors) &&
  (!need.floating_point || have_.floating_point) &&
  (!need.integer_arithmetic || have_.integer_arithmetic) &&
  (!need.real_arithmetic || have_.real_arithmetic) &&
  (!need.uninterpreted || have_.uninterpreted) &&
  (!need.custom_type || have_.custom_type) &&
  (!need.strings || have_.strings) &&
  (need.linear || !have_.linear)

/-- a logic covers another one: the theory covers it and quantifiers are allowed if needed -/
def Logic.covers (have_ need : Logic) : Bool :=
  have_.theory.covers need.theory && (need.quantifier_free || !have_.quantifier_free)

/-- No two entries of a supported list differ only in their name. -/
def NoTwins (sup : List Logic) : Prop :=
  ∀ a ∈ sup, ∀ b ∈ sup, a.theory = b.theory → a.quantifier_free = b.quantifier_free → a = b

/-- `r` is a closest supported logic for `tgt` with respect to the relation `le`:
supported, above the target, and no *other* supported logic lies between the two. -/
def IsClosest (le : Logic → Logic → Bool) (sup : List Logic) (tgt r : Logic) : Prop :=
  r ∈ sup ∧ le tgt r = true ∧ ¬ ∃ k ∈ sup, le tgt k = true ∧ le k r = true ∧ k ≠ r

/-- `r` is the most generic member of `ls`. -/
def IsMostGeneric (le : Logic → Logic → Bool) (ls : List Logic) (r : Logic) : Prop :=
  r ∈ ls ∧ ∀ x ∈ ls, le x r = true

end PySMT.Logics
