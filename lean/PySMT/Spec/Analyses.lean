import PySMT.Core.Term
import PySMT.Core.TypeOf
import PySMT.Core.FreeVars
/-!
# Specification of the formula analyses (C12)

Definitions on the *structure of a formula*, written from the property text and the SMT-LIB notions,
**independent of `Impl/Oracles.lean`** (this file imports `Core` only). The property theorems of
`Props/C12.lean` relate the oracle models to these.

* free symbols                `Term.fv` (Core/FreeVars), and occurrence-based: `Term.symOccurs`, `Term.fnOccurs`
* shape of pySMT-built terms  `Term.fnames`, `Term.symOk`
* Boolean skeleton and atoms  `isSkel`, `atomsDef`, `skelEval`, `SkelReach`
* sorts                       `Ty.targs`, `Ty.subsorts`, `Ty.isDeclared`, `nodeSorts`, `sortsWritten`, `Good`
* measures                    `Term.size`, `Term.subterms` (Core), `HasPath`, `IsCard`
-/
namespace PySMT

/-! ## shape of the terms pySMT builds -/

/-- function symbols applied somewhere in the term (binders never remove them) -/
def Term.fnames : Term → List Sym
  | .node op args p =>
    let sub := (args.map Term.fnames).flatten
    match op, p with
    | .symbol, .sym _ => []
    | .function, .sym s => s :: sub
    | _, _ => sub

/-- The three shape facts every term built by pySMT's `FormulaManager` satisfies and that make
"free symbols" a meaningful notion on raw trees: bound variables are not function symbols
(`params = []`), applied symbols are (`params ≠ []`; `Function(f, [])` returns the symbol `f`),
symbol nodes are leaves. -/
def Term.symOk : Term → Bool
  | .node op args p =>
    (args.map Term.symOk).all id &&
    (match op, p with
     | .symbol, _ => args.isEmpty
     | .function, .sym s => !s.params.isEmpty
     | .forall_, .qvars vs => vs.all (fun v => v.params.isEmpty)
     | .exists_, .qvars vs => vs.all (fun v => v.params.isEmpty)
     | _, _ => true)

/-! ## occurrences -/

/-- the symbol `s` occurs as a leaf -/
def Term.symOccurs (t : Term) (s : Sym) : Prop := Term.node .symbol [] (.sym s) ∈ t.subterms

/-- the symbol `s` occurs as the name of a function application -/
def Term.fnOccurs (t : Term) (s : Sym) : Prop := ∃ args, Term.node .function args (.sym s) ∈ t.subterms

namespace Analyses

/-! ## Boolean skeleton, atoms -/

/-- node of the Boolean skeleton: connective, quantifier, Boolean `ite`, Boolean constant -/
def isSkel (t : Term) : Bool :=
  match t.op with
  | .and | .or | .not | .implies | .iff | .forall_ | .exists_ | .boolConst => true
  | .ite => t.typeOf == some .bool
  | _ => false

/-- the atoms of a Boolean term: the maximal sub-terms below the Boolean skeleton -/
def atomsDef : Term → List Term
  | .node op args p =>
    if isSkel (.node op args p) then (args.map atomsDef).flatten else [.node op args p]

/-- value of the Boolean skeleton, given the truth values `ρ` of the atoms -/
def skelEval (ρ : Term → Bool) : Term → Bool
  | .node op args p =>
    if isSkel (.node op args p) then
      match op, args.map (skelEval ρ), p with
      | .and, bs, _ => bs.all id
      | .or, bs, _ => bs.any id
      | .not, [a], _ => !a
      | .implies, [a, b], _ => !a || b
      | .iff, [a, b], _ => a == b
      | .ite, [c, a, b], _ => if c then a else b
      | .boolConst, _, .b v => v
      | _, _, _ => false
    else ρ (.node op args p)

/-- `s` is reached from `t` by descending through nodes of the Boolean skeleton only: the nodes of the
"Boolean DAG" of `t`, whose leaves are the atoms -/
inductive SkelReach : Term → Term → Prop
  | refl (t : Term) : SkelReach t t
  | step {op args p a s} : isSkel (.node op args p) = true → a ∈ args → SkelReach a s →
      SkelReach (.node op args p) s

/-! ## sorts -/

/-- argument sorts -/
def Ty.targs : Ty → List Ty
  | .array i e => [i, e]
  | _ => []

/-- a sort and everything it is built from -/
def Ty.subsorts : Ty → List Ty
  | .array i e => .array i e :: (Ty.subsorts i ++ Ty.subsorts e)
  | .bool => [.bool] | .int => [.int] | .real => [.real] | .str => [.str]
  | .bv w => [.bv w] | .custom n => [.custom n]

/-- a declared (uninterpreted) sort — what `get_types(custom_only=True)` keeps -/
def Ty.isDeclared : Ty → Bool
  | .custom _ => true
  | _ => false

/-- sorts written at one node: of a symbol, a function signature, bound variables, a constant, an
array value -/
def nodeSorts : Term → List Ty
  | .node op args p =>
    match op, p with
    | .symbol, .sym s => if s.params.isEmpty then [s.ret] else []
    | .function, .sym f => f.ret :: f.params
    | .forall_, .qvars vs => vs.map (·.ret)
    | .exists_, .qvars vs => vs.map (·.ret)
    | .boolConst, _ => [.bool]
    | .intConst, _ => [.int]
    | .realConst, _ => [.real]
    | .algebraicConst, _ => [.real]
    | .strConst, _ => [.str]
    | .bvConst, .bv _ w => [.bv w]
    | .arrayValue, _ => (Term.node op args p).typeOf.toList
    | _, _ => []

/-- the sorts written in a formula -/
def sortsWritten (t : Term) : List Ty := t.subterms.flatMap nodeSorts

/-- lists built by appending, one at a time, a new sort whose argument sorts are already present:
no duplicates, simpler sorts first -/
inductive Good : List Ty → Prop
  | nil : Good []
  | snoc {l t} : Good l → t ∉ l → (∀ y ∈ Ty.targs t, y ∈ l) → Good (l ++ [t])

/-! ## measures -/

/-- a descending chain of `n` nodes starting at the term -/
inductive HasPath : Term → Nat → Prop
  | here (t : Term) : HasPath t 1
  | step {op args p a n} : a ∈ args → HasPath a n → HasPath (.node op args p) (n + 1)

/-- `n` is the number of distinct terms with property `P` -/
def IsCard (P : Term → Prop) (n : Nat) : Prop :=
  ∃ d : List Term, d.Nodup ∧ (∀ s, s ∈ d ↔ P s) ∧ d.length = n

end Analyses
end PySMT
