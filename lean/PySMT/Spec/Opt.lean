/-!
# Specification of optimisation results (C18)

Written from the property text, not from pySMT: what "the true optimum", "the exact lexicographic
optimum" and "the exact Pareto front" mean for a feasible set `S : M → Prop` of models and
integer-valued objectives, plus executable versions over an explicit list of feasible cost
vectors (used by the driver's `spec …` queries, i.e. by the failing-input search).
-/
namespace PySMT.OptSpec

inductive Sense | min | max
  deriving DecidableEq, Repr, Inhabited

/-- `a` is at least as good as `b` -/
def Sense.le : Sense → Int → Int → Prop
  | .min, a, b => a ≤ b
  | .max, a, b => b ≤ a

/-- `a` is strictly better than `b` -/
def Sense.lt : Sense → Int → Int → Prop
  | .min, a, b => a < b
  | .max, a, b => b < a

instance (d : Sense) (a b : Int) : Decidable (d.le a b) := by cases d <;> unfold Sense.le <;> infer_instance
instance (d : Sense) (a b : Int) : Decidable (d.lt a b) := by cases d <;> unfold Sense.lt <;> infer_instance

section Props
variable {M : Type}

/-- `c` is the optimum of `f` over `S`: attained and not improvable -/
def IsOptimum (d : Sense) (S : M → Prop) (f : M → Int) (c : Int) : Prop :=
  (∃ m, S m ∧ f m = c) ∧ ∀ m, S m → d.le c (f m)

def OptimumAttained (d : Sense) (S : M → Prop) (f : M → Int) : Prop := ∃ c, IsOptimum d S f c

/-- `cs` is the lexicographic optimum of the objectives `gs` (most important first) -/
def IsLexOptimum : List (Sense × (M → Int)) → (M → Prop) → List Int → Prop
  | [], _, cs => cs = []
  | _ :: _, _, [] => False
  | (d, f) :: gs, S, c :: cs => IsOptimum d S f c ∧ IsLexOptimum gs (fun m => S m ∧ f m = c) cs

/-- `a` is at least as good as `b` on every objective -/
def WeakDom (gs : List (Sense × (M → Int))) (a b : M) : Prop := ∀ g ∈ gs, g.1.le (g.2 a) (g.2 b)
/-- `a` is strictly better than `b` on some objective -/
def StrictSome (gs : List (Sense × (M → Int))) (a b : M) : Prop := ∃ g ∈ gs, g.1.lt (g.2 a) (g.2 b)
def Dominates (gs : List (Sense × (M → Int))) (a b : M) : Prop := WeakDom gs a b ∧ StrictSome gs a b

def ParetoOptimal (gs : List (Sense × (M → Int))) (S : M → Prop) (m : M) : Prop :=
  S m ∧ ¬ ∃ q, S q ∧ Dominates gs q m

def costs (gs : List (Sense × (M → Int))) (m : M) : List Int := gs.map (fun g => g.2 m)

end Props

/-! ## Executable versions over explicit lists of feasible cost vectors -/

def better (d : Sense) (a b : Int) : Bool := decide (d.lt a b)

/-- optimum of a list of feasible objective values -/
def listOpt (d : Sense) : List Int → Option Int
  | [] => none
  | v :: vs => some (vs.foldl (fun acc w => if better d w acc then w else acc) v)

/-- lexicographic optimum of a list of feasible cost vectors -/
def lexOpt : List Sense → List (List Int) → Option (List Int)
  | _, [] => none
  | [], _ :: _ => some []
  | d :: ds, vecs =>
    match listOpt d (vecs.map (fun v => v.headD 0)) with
    | none => none
    | some c =>
      match lexOpt ds ((vecs.filter (fun v => v.headD 0 == c)).map List.tail) with
      | none => none
      | some cs => some (c :: cs)

def weakDomL : List Sense → List Int → List Int → Bool
  | d :: ds, a :: as, b :: bs => decide (d.le a b) && weakDomL ds as bs
  | _, _, _ => true

def dominatesL (ds : List Sense) (a b : List Int) : Bool := weakDomL ds a b && a != b

def insertSorted (v : List Int) : List (List Int) → List (List Int)
  | [] => [v]
  | w :: ws => if v == w then w :: ws else if decide (v < w) then v :: w :: ws else w :: insertSorted v ws

/-- the Pareto front (non-dominated cost vectors), duplicates removed, sorted -/
def paretoFront (ds : List Sense) (vecs : List (List Int)) : List (List Int) :=
  (vecs.filter (fun v => !(vecs.any (fun w => dominatesL ds w v)))).foldl (fun acc v => insertSorted v acc) []

end PySMT.OptSpec
