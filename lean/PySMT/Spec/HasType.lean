import PySMT.Core.Term
/-!
# `HasType` — the SMT-LIB sorting discipline on `Term` (specification of C03)

Written from the SMT-LIB 2.6 theory signatures, **not** from `pysmt/type_checker.py`:
a term `f(t₁ … tₙ)` is well-sorted of sort `σ` iff every `tᵢ` is well-sorted of some sort
`σᵢ` and `f` has the rank `σ₁ … σₙ σ` (`Sig f payload [σ₁ … σₙ] σ`).

* **Core**: `not`, `=>` (`implies`), `and`/`or` (left-associative: ≥ 2 arguments), `iff`
  (= on Bool), `=` on two terms of the same sort, `ite`. SMT-LIB allows `=` on Bool;
  pySMT deliberately reserves `Iff` for that and an `equals` node over Bool does not exist
  in its term language: `equals` on Bool is **not typable** here. `distinct`, `xor` are derived
  constructors in pySMT, not node types.
* **Ints / Reals / Reals_Ints**: `+ *` (left-associative, ≥ 2 arguments of one numeric sort),
  `-` and `/`·`div` (`minus`, `div`: two arguments; `div` on `Int` is SMT-LIB `div`, on `Real`
  it is `/`), `<= <`, `to_real : Int → Real`. No implicit Int/Real mixing.
  `pow` is not an SMT-LIB operator; it gets the rank pySMT documents for it
  (`Int Int → Real`, `Real Real → Real`).
* **FixedSizeBitVectors + QF_BV extensions**, indexed operators with their side conditions:
  `(_ extract i j) : (_ BitVec m) → (_ BitVec i-j+1)` needs `j ≤ i < m`;
  `(_ rotate_left k)`, `(_ rotate_right k)`, `(_ zero_extend k)`, `(_ sign_extend k)` for any
  numeral `k ≥ 0`; `concat : m n → m+n`; `bvcomp : m m → 1`.
* **ArraysEx** `select`, `store`, and constant arrays `((as const (Array ι ε)) d)` updated at
  finitely many keys (`arrayValue`).
* **Strings**: `str.len str.++ str.contains str.indexof str.replace str.substr str.prefixof
  str.suffixof str.to_int str.from_int str.at`.
* Symbols carry their declared sort; a symbol with a function signature is a declaration,
  not a term; `function` applies it to arguments of exactly the declared parameter sorts.
  Quantifiers bind a non-empty list of plain (non-function) sorted variables over a Bool body.

Payloads. A `Term` stores pySMT's payload (see `Core/Term.lean`): where SMT-LIB has an index
(`extract`, rotates, extends) or a literal, the payload *is* that index/literal; bit-vector
operators additionally cache the result width (`.ints [w]`, for extends `.ints [w, k]`, for
`extract` `.ints [w, j, i]`) and the cache must be the width the rank prescribes. For every
other operator the payload carries no information and is ignored.

Sorts themselves are taken as given (`Ty`); `(_ BitVec 0)` is not excluded here.

`sigOf` / `Term.sortOf` are the computable characterisations (`Proofs/C03Spec.lean` proves
`HasType t τ ↔ t.sortOf = some τ`); the driver's `hastype` request evaluates `sortOf`.
-/
namespace PySMT
namespace Spec

/-- `σ` is `Int` or `Real` -/
def Num (σ : Ty) : Prop := σ = .int ∨ σ = .real

def bvUnary : List Op := [.bvNot, .bvNeg]
def bvBinary : List Op :=
  [.bvAnd, .bvOr, .bvXor, .bvAdd, .bvSub, .bvMul, .bvUdiv, .bvUrem, .bvLshl, .bvLshr, .bvSdiv, .bvSrem, .bvAshr]
def bvRelation : List Op := [.bvUlt, .bvUle, .bvSlt, .bvSle]

/-- sorts of the key/value arguments of an array value with `n` explicit entries -/
def kvSorts (ι ε : Ty) : Nat → List Ty
  | 0 => []
  | n + 1 => ι :: ε :: kvSorts ι ε n

/-- `Sig op p σs τ`: operator `op` with payload `p` has the rank `σs → τ`. -/
inductive Sig : Op → Payload → List Ty → Ty → Prop
  -- Core
  | boolConst (v : Bool) : Sig .boolConst (.b v) [] .bool
  | not (p) : Sig .not p [.bool] .bool
  | implies (p) : Sig .implies p [.bool, .bool] .bool
  | iff (p) : Sig .iff p [.bool, .bool] .bool
  | and (p) (σs : List Ty) : 2 ≤ σs.length → (∀ σ ∈ σs, σ = .bool) → Sig .and p σs .bool
  | or (p) (σs : List Ty) : 2 ≤ σs.length → (∀ σ ∈ σs, σ = .bool) → Sig .or p σs .bool
  | equals (p) (σ : Ty) : σ ≠ .bool → Sig .equals p [σ, σ] .bool
  | ite (p) (σ : Ty) : Sig .ite p [.bool, σ, σ] σ
  -- symbols, applications, binders
  | symbol (s : Sym) : s.params = [] → Sig .symbol (.sym s) [] s.ret
  | app (f : Sym) : f.params ≠ [] → Sig .function (.sym f) f.params f.ret
  | forall_ (vs : List Sym) : vs ≠ [] → (∀ v ∈ vs, v.params = []) → Sig .forall_ (.qvars vs) [.bool] .bool
  | exists_ (vs : List Sym) : vs ≠ [] → (∀ v ∈ vs, v.params = []) → Sig .exists_ (.qvars vs) [.bool] .bool
  -- Ints, Reals, Reals_Ints
  | intConst (v : Int) : Sig .intConst (.i v) [] .int
  | realConst (v : Rat) : Sig .realConst (.q v) [] .real
  | algebraicConst (p) : Sig .algebraicConst p [] .real
  | plus (p) (σ : Ty) (σs : List Ty) : Num σ → 2 ≤ σs.length → (∀ s ∈ σs, s = σ) → Sig .plus p σs σ
  | times (p) (σ : Ty) (σs : List Ty) : Num σ → 2 ≤ σs.length → (∀ s ∈ σs, s = σ) → Sig .times p σs σ
  | minus (p) (σ : Ty) : Num σ → Sig .minus p [σ, σ] σ
  | div (p) (σ : Ty) : Num σ → Sig .div p [σ, σ] σ
  | le (p) (σ : Ty) : Num σ → Sig .le p [σ, σ] .bool
  | lt (p) (σ : Ty) : Num σ → Sig .lt p [σ, σ] .bool
  | toReal (p) : Sig .toReal p [.int] .real
  | pow (p) (σ : Ty) : Num σ → Sig .pow p [σ, σ] .real
  -- FixedSizeBitVectors + extensions
  | bvConst (v w : Nat) : Sig .bvConst (.bv v w) [] (.bv w)
  | bvUn (op : Op) (m : Nat) : op ∈ bvUnary → Sig op (.ints [m]) [.bv m] (.bv m)
  | bvBin (op : Op) (m : Nat) : op ∈ bvBinary → Sig op (.ints [m]) [.bv m, .bv m] (.bv m)
  | bvRel (op : Op) (p) (m : Nat) : op ∈ bvRelation → Sig op p [.bv m, .bv m] .bool
  | bvComp (m : Nat) : Sig .bvComp (.ints [1]) [.bv m, .bv m] (.bv 1)
  | bvConcat (m n : Nat) : Sig .bvConcat (.ints [m + n]) [.bv m, .bv n] (.bv (m + n))
  | bvExtract (m i j : Nat) : j ≤ i → i < m → Sig .bvExtract (.ints [i - j + 1, j, i]) [.bv m] (.bv (i - j + 1))
  | bvRol (m k : Nat) : Sig .bvRol (.ints [m, k]) [.bv m] (.bv m)
  | bvRor (m k : Nat) : Sig .bvRor (.ints [m, k]) [.bv m] (.bv m)
  | bvZext (m k : Nat) : Sig .bvZext (.ints [m + k, k]) [.bv m] (.bv (m + k))
  | bvSext (m k : Nat) : Sig .bvSext (.ints [m + k, k]) [.bv m] (.bv (m + k))
  | bvToNatural (p) (m : Nat) : Sig .bvToNatural p [.bv m] .int
  -- Strings
  | strConst (v : String) : Sig .strConst (.s v) [] .str
  | strLength (p) : Sig .strLength p [.str] .int
  | strToInt (p) : Sig .strToInt p [.str] .int
  | intToStr (p) : Sig .intToStr p [.int] .str
  | strConcat (p) (σs : List Ty) : 2 ≤ σs.length → (∀ σ ∈ σs, σ = .str) → Sig .strConcat p σs .str
  | strContains (p) : Sig .strContains p [.str, .str] .bool
  | strPrefixOf (p) : Sig .strPrefixOf p [.str, .str] .bool
  | strSuffixOf (p) : Sig .strSuffixOf p [.str, .str] .bool
  | strIndexOf (p) : Sig .strIndexOf p [.str, .str, .int] .int
  | strReplace (p) : Sig .strReplace p [.str, .str, .str] .str
  | strSubstr (p) : Sig .strSubstr p [.str, .int, .int] .str
  | strCharAt (p) : Sig .strCharAt p [.str, .int] .str
  -- ArraysEx + constant arrays
  | select (p) (ι ε : Ty) : Sig .arraySelect p [.array ι ε, ι] ε
  | store (p) (ι ε : Ty) : Sig .arrayStore p [.array ι ε, ι, ε] (.array ι ε)
  | arrayValue (ι ε : Ty) (n : Nat) : Sig .arrayValue (.ty ι) (ε :: kvSorts ι ε n) (.array ι ε)

mutual
/-- `HasType t τ`: the term `t` is well-sorted and has sort `τ`. -/
inductive HasType : Term → Ty → Prop
  | node {op : Op} {args : List Term} {p : Payload} {σs : List Ty} {τ : Ty} :
      HasTypes args σs → Sig op p σs τ → HasType (.node op args p) τ
/-- argument lists, position by position -/
inductive HasTypes : List Term → List Ty → Prop
  | nil : HasTypes [] []
  | cons {a : Term} {as : List Term} {σ : Ty} {σs : List Ty} :
      HasType a σ → HasTypes as σs → HasTypes (a :: as) (σ :: σs)
end

/-! ## computable characterisation -/

def allIs (σs : List Ty) (σ : Ty) : Bool := σs.all (· == σ)

/-- `n`-ary (`n ≥ 2`) operator on arguments of sort `σ` -/
def nary (σs : List Ty) (σ τ : Ty) : Option Ty :=
  if 2 ≤ σs.length ∧ allIs σs σ then some τ else none

def isNum : Ty → Bool | .int | .real => true | _ => false

def plainVars (vs : List Sym) : Bool := !vs.isEmpty && vs.all (fun v => v.params.isEmpty)

/-- does `σs = kvSorts ι ε n` for some `n` -/
def isKv (ι ε : Ty) : List Ty → Bool
  | [] => true
  | k :: v :: rest => k == ι && v == ε && isKv ι ε rest
  | [_] => false

/-- the rank of `op` (with payload `p`) on arguments of sorts `σs`, if any -/
def sigOf (op : Op) (p : Payload) (σs : List Ty) : Option Ty :=
  match op with
  | .boolConst => (match p, σs with | .b _, [] => some .bool | _, _ => none)
  | .not => (match σs with | [.bool] => some .bool | _ => none)
  | .implies | .iff => (match σs with | [.bool, .bool] => some .bool | _ => none)
  | .and | .or => nary σs .bool .bool
  | .equals => (match σs with | [σ, σ'] => if σ = σ' ∧ σ ≠ .bool then some .bool else none | _ => none)
  | .ite => (match σs with | [.bool, σ, σ'] => if σ = σ' then some σ else none | _ => none)
  | .symbol => (match p, σs with | .sym s, [] => if s.params.isEmpty then some s.ret else none | _, _ => none)
  | .function =>
    (match p with | .sym f => if !f.params.isEmpty ∧ σs = f.params then some f.ret else none | _ => none)
  | .forall_ | .exists_ =>
    (match p, σs with | .qvars vs, [.bool] => if plainVars vs then some .bool else none | _, _ => none)
  | .intConst => (match p, σs with | .i _, [] => some .int | _, _ => none)
  | .realConst => (match p, σs with | .q _, [] => some .real | _, _ => none)
  | .algebraicConst => (match σs with | [] => some .real | _ => none)
  | .plus | .times =>
    (match σs with | σ :: _ => if isNum σ then nary σs σ σ else none | [] => none)
  | .minus | .div => (match σs with | [σ, σ'] => if σ = σ' ∧ isNum σ then some σ else none | _ => none)
  | .le | .lt => (match σs with | [σ, σ'] => if σ = σ' ∧ isNum σ then some .bool else none | _ => none)
  | .toReal => (match σs with | [.int] => some .real | _ => none)
  | .pow => (match σs with | [σ, σ'] => if σ = σ' ∧ isNum σ then some .real else none | _ => none)
  | .bvConst => (match p, σs with | .bv _ w, [] => some (.bv w) | _, _ => none)
  | .bvNot | .bvNeg =>
    (match p, σs with | .ints [w], [.bv m] => if w = m then some (.bv m) else none | _, _ => none)
  | .bvAnd | .bvOr | .bvXor | .bvAdd | .bvSub | .bvMul | .bvUdiv | .bvUrem | .bvLshl | .bvLshr
  | .bvSdiv | .bvSrem | .bvAshr =>
    (match p, σs with
      | .ints [w], [.bv m, .bv n] => if w = m ∧ m = n then some (.bv m) else none | _, _ => none)
  | .bvUlt | .bvUle | .bvSlt | .bvSle =>
    (match σs with | [.bv m, .bv n] => if m = n then some .bool else none | _ => none)
  | .bvComp =>
    (match p, σs with | .ints [w], [.bv m, .bv n] => if w = 1 ∧ m = n then some (.bv 1) else none | _, _ => none)
  | .bvConcat =>
    (match p, σs with | .ints [w], [.bv m, .bv n] => if w = m + n then some (.bv w) else none | _, _ => none)
  | .bvExtract =>
    (match p, σs with
      | .ints [w, j, i], [.bv m] => if j ≤ i ∧ i < m ∧ w = i - j + 1 then some (.bv w) else none
      | _, _ => none)
  | .bvRol | .bvRor =>
    (match p, σs with | .ints [w, _], [.bv m] => if w = m then some (.bv m) else none | _, _ => none)
  | .bvZext | .bvSext =>
    (match p, σs with | .ints [w, k], [.bv m] => if w = m + k then some (.bv w) else none | _, _ => none)
  | .bvToNatural => (match σs with | [.bv _] => some .int | _ => none)
  | .strConst => (match p, σs with | .s _, [] => some .str | _, _ => none)
  | .strLength | .strToInt => (match σs with | [.str] => some .int | _ => none)
  | .intToStr => (match σs with | [.int] => some .str | _ => none)
  | .strConcat => nary σs .str .str
  | .strContains | .strPrefixOf | .strSuffixOf => (match σs with | [.str, .str] => some .bool | _ => none)
  | .strIndexOf => (match σs with | [.str, .str, .int] => some .int | _ => none)
  | .strReplace => (match σs with | [.str, .str, .str] => some .str | _ => none)
  | .strSubstr => (match σs with | [.str, .int, .int] => some .str | _ => none)
  | .strCharAt => (match σs with | [.str, .int] => some .str | _ => none)
  | .arraySelect => (match σs with | [.array ι ε, j] => if ι = j then some ε else none | _ => none)
  | .arrayStore =>
    (match σs with | [.array ι ε, j, v] => if ι = j ∧ ε = v then some (.array ι ε) else none | _ => none)
  | .arrayValue =>
    (match p, σs with | .ty ι, ε :: rest => if isKv ι ε rest then some (.array ι ε) else none | _, _ => none)

/-- `some [σ₁ … σₙ]` when every element is `some σᵢ` -/
def allSome : List (Option Ty) → Option (List Ty)
  | [] => some []
  | some σ :: rest => (allSome rest).map (σ :: ·)
  | none :: _ => none

end Spec

/-- the sort of a term by the SMT-LIB rules (`none`: ill-sorted) -/
def Term.sortOf : Term → Option Ty
  | .node op args p =>
    match Spec.allSome (args.map Term.sortOf) with
    | some σs => Spec.sigOf op p σs
    | none => none

end PySMT
