/-!
# S-expressions and the SMT-LIB 2.6 lexicon (specification; written from the standard §3.1, not from pySMT)

## API (stable; imported by `Spec/SmtlibText.lean`, `Impl/Printer.lean`, the C08/C09 parser side)

```
inductive Sexp | atom (tok : String) | str (lit : String) | list (xs : List Sexp)      -- DecidableEq, Repr, Inhabited
Sexp.read     : String → Except String (List Sexp)     -- standard lexer + reader (all S-expressions of the text)
Sexp.readOne  : String → Except String Sexp            -- exactly one S-expression
Sexp.render   : Sexp → String                          -- standard spelling, single spaces
Sexp.renderAll: List Sexp → String                     -- one S-expression per line
Sexp.quoteSym : String → String                        -- spelling of the *symbol* with that name: `|…|` exactly when required
Sexp.sym      : String → Sexp                          -- the atom that denotes the symbol with that (unquoted) name
Sexp.symName? : String → Option String                 -- the symbol name an atom token denotes (none: not a symbol)
Sexp.numeral? : String → Option Nat        Sexp.decimal? : String → Option Rat
Sexp.binary?  : String → Option (Nat × Nat) -- (value, width)        Sexp.hex? : String → Option (Nat × Nat)
Sexp.isKeyword / Sexp.isReserved / Sexp.isSimpleSymbol : String → Bool
Sexp.WF       : Sexp → Bool                            -- tokens that the lexicon can spell (hypothesis of `render_read`)
Sexp.lexChars : List Char → Except String (List Tok)   Sexp.parseToks : List Tok → Except String (List Sexp)
Sexp.toToks   : Sexp → List Tok
```

## What an atom holds

`atom tok` is a *token*. For a symbol, `tok` is the **unquoted name** (`|abc|` and `abc` are the same atom `atom "abc"`,
`|a b|` is `atom "a b"`, `||` is `atom ""`), **except** when the unquoted name is itself the spelling of a different token
class — a numeral (`12`), decimal (`1.5`), `#b01`, `#xA0`, keyword (`:named`) or a reserved word (`let`, `forall`, `_`, `!`,
`as`, `par`, command names, …): such a quoted symbol keeps its bars (`|12|` is `atom "|12|"`, the numeral is `atom "12"`).
No symbol name contains `|`, so the two cases cannot collide. `Sexp.symName?` undoes this (`"|12|" ↦ "12"`, `"abc" ↦ "abc"`,
`"12" ↦ none`), `Sexp.sym` does it. String literals are `str lit` with `lit` the *contents* (`""` already un-escaped).

## Lexicon accepted (SMT-LIB 2.6 §3.1)

* white space: space, tab, LF, CR; comments `;` … end of line (LF or CR)
* numerals `0 | [1-9][0-9]*`, decimals `<numeral>.[0-9]+`, `#b[01]+`, `#x[0-9a-fA-F]+`
* simple symbols: non-empty runs of letters, digits and `~ ! @ $ % ^ & * _ - + = < > . ? /` not starting with a digit
* quoted symbols `|…|`: any printable characters (code ≥ 32, ≠ 127) and white space except `|` and `\`
* string literals `"…"` of printable characters and white space, `""` is the only escape (2.6)
* keywords `:` followed by a simple symbol
* everything else is a lexical error. Deliberately strict: a run such as `1abc` or `01` is an error (the standard would
  split it into two tokens; no sane writer relies on that).
-/
namespace PySMT

inductive Sexp
  | atom (tok : String)
  | str (lit : String)
  | list (xs : List Sexp)
  deriving Repr, Inhabited

mutual
def Sexp.dec : (a b : Sexp) → Decidable (a = b)
  | .atom x, .atom y => if h : x = y then isTrue (by rw [h]) else isFalse (by intro e; cases e; exact h rfl)
  | .str x, .str y => if h : x = y then isTrue (by rw [h]) else isFalse (by intro e; cases e; exact h rfl)
  | .list xs, .list ys =>
    match Sexp.decList xs ys with
    | isTrue h => isTrue (by rw [h])
    | isFalse h => isFalse (by intro e; cases e; exact h rfl)
  | .atom _, .str _ | .atom _, .list _ | .str _, .atom _ | .str _, .list _ | .list _, .atom _ | .list _, .str _ =>
    isFalse (by intro e; cases e)
def Sexp.decList : (a b : List Sexp) → Decidable (a = b)
  | [], [] => isTrue rfl
  | [], _ :: _ => isFalse (by intro e; cases e)
  | _ :: _, [] => isFalse (by intro e; cases e)
  | x :: xs, y :: ys =>
    match Sexp.dec x y, Sexp.decList xs ys with
    | isTrue h1, isTrue h2 => isTrue (by rw [h1, h2])
    | isFalse h, _ => isFalse (by intro e; cases e; exact h rfl)
    | _, isFalse h => isFalse (by intro e; cases e; exact h rfl)
end
instance : DecidableEq Sexp := Sexp.dec

namespace Sexp

/-! ## character classes -/

def isWs (c : Char) : Bool := c == ' ' || c == '\t' || c == '\n' || c == '\r'
def isDigit (c : Char) : Bool := '0' ≤ c && c ≤ '9'
def isLetter (c : Char) : Bool := ('a' ≤ c && c ≤ 'z') || ('A' ≤ c && c ≤ 'Z')
def symPunct : List Char := ['~', '!', '@', '$', '%', '^', '&', '*', '_', '-', '+', '=', '<', '>', '.', '?', '/']
/-- characters of simple symbols (and numerals) -/
def isSymChar (c : Char) : Bool := isLetter c || isDigit c || symPunct.contains c
/-- printable characters (32–126 and ≥ 128) and white space: what may stand inside `"…"` and `|…|` -/
def isPrintable (c : Char) : Bool := (32 ≤ c.toNat && c.toNat ≠ 127) || isWs c
def hexLetters : List Char := ['a', 'b', 'c', 'd', 'e', 'f', 'A', 'B', 'C', 'D', 'E', 'F']
def isHexDigit (c : Char) : Bool := isDigit c || hexLetters.contains c
def isBinDigit (c : Char) : Bool := c == '0' || c == '1'

/-! ## token classes (on the characters of an atom token) -/

def reservedWords : List String :=
  ["!", "_", "as", "BINARY", "DECIMAL", "exists", "HEXADECIMAL", "forall", "let", "match", "NUMERAL", "par", "STRING",
   "assert", "check-sat", "check-sat-assuming", "declare-const", "declare-datatype", "declare-datatypes",
   "declare-fun", "declare-sort", "define-fun", "define-fun-rec", "define-funs-rec", "define-sort", "echo", "exit",
   "get-assertions", "get-assignment", "get-info", "get-model", "get-option", "get-proof", "get-unsat-assumptions",
   "get-unsat-core", "get-value", "pop", "push", "reset", "reset-assertions", "set-info", "set-logic", "set-option"]

def isReserved (s : String) : Bool := reservedWords.contains s

def isSimpleSymbolChars : List Char → Bool
  | [] => false
  | c :: cs => isSymChar c && !isDigit c && cs.all isSymChar

def isNumeralChars : List Char → Bool
  | [] => false
  | ['0'] => true
  | c :: cs => isDigit c && c != '0' && cs.all isDigit

/-- split at the first `.` -/
def splitDot : List Char → List Char × Option (List Char)
  | [] => ([], none)
  | c :: cs => if c == '.' then ([], some cs) else
    let (a, b) := splitDot cs
    (c :: a, b)

def isDecimalChars (cs : List Char) : Bool :=
  match splitDot cs with
  | (a, some b) => isNumeralChars a && !b.isEmpty && b.all isDigit
  | _ => false

def isBinaryChars : List Char → Bool
  | '#' :: 'b' :: ds => !ds.isEmpty && ds.all isBinDigit
  | _ => false

def isHexChars : List Char → Bool
  | '#' :: 'x' :: ds => !ds.isEmpty && ds.all isHexDigit
  | _ => false

def isKeywordChars : List Char → Bool
  | ':' :: cs => isSimpleSymbolChars cs
  | _ => false

def isSimpleSymbol (s : String) : Bool := isSimpleSymbolChars s.toList
def isKeyword (s : String) : Bool := isKeywordChars s.toList

/-- the token is the spelling of something that is not a symbol: literal, keyword or reserved word -/
def isNonSymbolChars (cs : List Char) : Bool :=
  isNumeralChars cs || isDecimalChars cs || isBinaryChars cs || isHexChars cs || isKeywordChars cs
    || isReserved (String.ofList cs)

def digitVal (c : Char) : Nat := c.toNat - '0'.toNat
def hexDigitVal (c : Char) : Nat :=
  if isDigit c then c.toNat - '0'.toNat
  else if 'a' ≤ c && c ≤ 'f' then c.toNat - 'a'.toNat + 10
  else c.toNat - 'A'.toNat + 10

def natOfDigits (ds : List Char) : Nat := ds.foldl (fun acc c => acc * 10 + digitVal c) 0

def numeral? (tok : String) : Option Nat :=
  if isNumeralChars tok.toList then some (natOfDigits tok.toList) else none

def decimal? (tok : String) : Option Rat :=
  if isDecimalChars tok.toList then
    match splitDot tok.toList with
    | (a, some b) => some (mkRat (natOfDigits (a ++ b)) (10 ^ b.length))
    | _ => none
  else none

/-- `#b…` : (value, width) -/
def binary? (tok : String) : Option (Nat × Nat) :=
  if isBinaryChars tok.toList then
    let ds := tok.toList.drop 2
    some (ds.foldl (fun acc c => acc * 2 + digitVal c) 0, ds.length)
  else none

/-- `#x…` : (value, width = 4 · digits) -/
def hex? (tok : String) : Option (Nat × Nat) :=
  if isHexChars tok.toList then
    let ds := tok.toList.drop 2
    some (ds.foldl (fun acc c => acc * 16 + hexDigitVal c) 0, 4 * ds.length)
  else none

/-- characters allowed inside `|…|` -/
def isQuotedChar (c : Char) : Bool := isPrintable c && c != '|' && c != '\\'

/-- the atom token for the *symbol* whose (unquoted) name has these characters -/
def symTokChars (name : List Char) : List Char :=
  if isNonSymbolChars name then '|' :: (name ++ ['|']) else name

/-- the atom that denotes the symbol with that name -/
def sym (name : String) : Sexp := .atom (String.ofList (symTokChars name.toList))

def stripBars : List Char → Option (List Char)
  | '|' :: cs => match cs.reverse with
    | '|' :: r => some r.reverse
    | _ => none
  | _ => none

/-- the symbol name an atom token denotes -/
def symName? (tok : String) : Option String :=
  match stripBars tok.toList with
  | some n => some (String.ofList n)
  | none => if isNonSymbolChars tok.toList || tok.toList.head? == some '|' then none else some tok

/-- standard spelling of the symbol with that name: bars exactly when the name is not a simple symbol
or is a reserved word (names containing `|` or `\` have no spelling; the result is then not readable) -/
def quoteSymChars (name : List Char) : List Char :=
  if isSimpleSymbolChars name && !isReserved (String.ofList name) then name else '|' :: (name ++ ['|'])

def quoteSym (name : String) : String := String.ofList (quoteSymChars name.toList)

/-! ## tokens, lexer (a character-by-character state machine: structurally recursive, kernel-reducible) -/

inductive Tok
  | lp | rp
  | atom (s : String)
  | str (s : String)
  deriving DecidableEq, Repr, Inhabited

inductive Mode
  | top
  | run (acc : List Char)    -- inside a numeral / simple symbol / `#…` / `:…` token (characters reversed)
  | str (acc : List Char)    -- inside `"…"`
  | strQ (acc : List Char)   -- inside `"…"`, just after a `"`: an escape `""` or the end of the literal
  | bar (acc : List Char)    -- inside `|…|`
  | comment
  deriving Repr

/-- classify a maximal run of symbol characters (possibly starting with `#` or `:`) -/
def classify (cs : List Char) : Except String Tok :=
  if isNumeralChars cs || isDecimalChars cs || isBinaryChars cs || isHexChars cs || isKeywordChars cs
     || isSimpleSymbolChars cs then .ok (.atom (String.ofList cs))
  else .error ("lexical error: illegal token " ++ String.ofList cs)

def stepTop (out : List Tok) (c : Char) : Except String (Mode × List Tok) :=
  if isSymChar c || c == '#' || c == ':' then .ok (.run [c], out)
  else if isWs c then .ok (.top, out)
  else if c == '(' then .ok (.top, .lp :: out)
  else if c == ')' then .ok (.top, .rp :: out)
  else if c == ';' then .ok (.comment, out)
  else if c == '"' then .ok (.str [], out)
  else if c == '|' then .ok (.bar [], out)
  else .error ("lexical error: illegal character " ++ String.singleton c)

def step : Mode → List Tok → Char → Except String (Mode × List Tok)
  | .top, out, c => stepTop out c
  | .run acc, out, c =>
    if isSymChar c then .ok (.run (c :: acc), out)
    else match classify acc.reverse with
      | .ok t => stepTop (t :: out) c
      | .error e => .error e
  | .str acc, out, c =>
    if c == '"' then .ok (.strQ acc, out)
    else if isPrintable c then .ok (.str (c :: acc), out)
    else .error "lexical error: illegal character in string literal"
  | .strQ acc, out, c =>
    if c == '"' then .ok (.str ('"' :: acc), out)
    else stepTop (.str (String.ofList acc.reverse) :: out) c
  | .bar acc, out, c =>
    if c == '|' then .ok (.top, .atom (String.ofList (symTokChars acc.reverse)) :: out)
    else if isQuotedChar c then .ok (.bar (c :: acc), out)
    else .error "lexical error: illegal character in quoted symbol"
  | .comment, out, c => if c == '\n' || c == '\r' then .ok (.top, out) else .ok (.comment, out)

def finish : Mode → List Tok → Except String (List Tok)
  | .top, out | .comment, out => .ok out.reverse
  | .run acc, out => match classify acc.reverse with
    | .ok t => .ok (t :: out).reverse
    | .error e => .error e
  | .strQ acc, out => .ok (Tok.str (String.ofList acc.reverse) :: out).reverse
  | .str _, _ => .error "lexical error: unterminated string literal"
  | .bar _, _ => .error "lexical error: unterminated quoted symbol"

def lexGo : Mode → List Tok → List Char → Except String (List Tok)
  | m, out, [] => finish m out
  | m, out, c :: cs => match step m out c with
    | .ok (m', out') => lexGo m' out' cs
    | .error e => .error e

def lexChars (cs : List Char) : Except String (List Tok) := lexGo .top [] cs

/-! ## reader (a stack machine over the tokens) -/

def parseGo : List Tok → List (List Sexp) → List Sexp → Except String (List Sexp)
  | [], [], acc => .ok acc.reverse
  | [], _ :: _, _ => .error "syntax error: missing )"
  | .lp :: ts, stack, acc => parseGo ts (acc :: stack) []
  | .rp :: _, [], _ => .error "syntax error: unbalanced )"
  | .rp :: ts, parent :: stack, acc => parseGo ts stack (.list acc.reverse :: parent)
  | .atom s :: ts, stack, acc => parseGo ts stack (.atom s :: acc)
  | .str s :: ts, stack, acc => parseGo ts stack (.str s :: acc)

def parseToks (ts : List Tok) : Except String (List Sexp) := parseGo ts [] []

/-- all S-expressions of an SMT-LIB text -/
def read (text : String) : Except String (List Sexp) :=
  match lexChars text.toList with
  | .ok ts => parseToks ts
  | .error e => .error e

def readOne (text : String) : Except String Sexp :=
  match read text with
  | .ok [s] => .ok s
  | .ok l => .error s!"syntax error: {l.length} S-expressions where one was expected"
  | .error e => .error e

/-! ## renderer -/

/-- spelling of an atom token -/
def atomChars (tok : List Char) : List Char :=
  if tok.head? == some '|' || isNonSymbolChars tok then tok else quoteSymChars tok

def escapeStr : List Char → List Char
  | [] => []
  | c :: cs => if c == '"' then '"' :: '"' :: escapeStr cs else c :: escapeStr cs

mutual
def renderChars : Sexp → List Char
  | .atom tok => atomChars tok.toList
  | .str lit => '"' :: (escapeStr lit.toList ++ ['"'])
  | .list xs => '(' :: (renderList xs ++ [')'])
def renderList : List Sexp → List Char
  | [] => []
  | [x] => renderChars x
  | x :: y :: rest => renderChars x ++ ' ' :: renderList (y :: rest)
end

def render (s : Sexp) : String := String.ofList (renderChars s)

def renderAll (l : List Sexp) : String := String.join (l.map (fun s => render s ++ "\n"))

mutual
def toToks : Sexp → List Tok
  | .atom tok => [.atom tok]
  | .str lit => [.str lit]
  | .list xs => .lp :: (toToksList xs ++ [.rp])
def toToksList : List Sexp → List Tok
  | [] => []
  | x :: rest => toToks x ++ toToksList rest
end

/-! ## well-formed S-expressions: every token has a spelling -/

/-- an atom token the lexer can produce -/
def atomOK (tok : List Char) : Bool :=
  match stripBars tok with
  | some n => isNonSymbolChars n && n.all isQuotedChar        -- bars are kept only for colliding names
  | none => tok.head? != some '|' && (isNonSymbolChars tok && !isReserved (String.ofList tok) || isSimpleSymbolChars tok
      || (!isNonSymbolChars tok && tok.all isQuotedChar))

mutual
def WF : Sexp → Bool
  | .atom tok => atomOK tok.toList
  | .str lit => lit.toList.all isPrintable
  | .list xs => WFList xs
def WFList : List Sexp → Bool
  | [] => true
  | x :: rest => WF x && WFList rest
end

end Sexp
end PySMT
