import PySMT.Spec.Sexp
import PySMT.Core.Term
import PySMT.Core.Eval
import PySMT.Core.FreeVars
/-!
# The SMT-LIB 2.6 standard's reading of terms, sorts and commands (specification)

Written from the SMT-LIB 2.6 reference (§3.5–3.9, §4.2) and the theory files Core, Ints, Reals, Reals_Ints,
FixedSizeBitVectors (+ the QF_BV logic's abbreviations), ArraysEx, Strings (2.6 names) — *not* from pySMT. It is the
independent reader that the printed text of C07 is judged by, and the reference the parser of C08/C09 is compared with.

## API (stable)

```
structure FunDef  { params : List Sym, ret : Ty, body : Term }
structure SEnv    { logic : String, sorts : List (String × Nat), funs : List Sym, defs : List (String × FunDef),
                    aliases : List (String × Ty) }   -- all fields have defaults; aliases: parameterless define-sort
SEnv.realsOnly    : SEnv → Bool          -- numerals are Real (logics with Reals and without Ints: QF_LRA, LRA, QF_RDL, QF_NRA, …)
Ty.pyName         : Ty → String          -- the Core's name of a sort instance: custom "Pair{Int, BV{8}}"
sortStd           : SEnv → Sexp → Except String Ty
readStdTy         : SEnv → (bound : List Sym) → Sexp → Except String (Term × Ty)    -- elaborated term and its sort
readStd           : SEnv → (bound : List Sym) → Sexp → Except String Term
evalStd           : Interp → SEnv → Sexp → Except String Val      -- evalStd I env s = (readStd env [] s).map (eval I)
theorySymbols     : List String          -- predefined function symbols (cannot be declared, bound or used as variable names)
predefinedSorts   : List String
structure StdState { env : SEnv, saved : List SEnv, asserts : List (List Term), logicSet : Bool }   -- asserts: one list per level, innermost first
StdState.init     : StdState
stepStd           : StdState → Sexp → Except String StdState       -- one command
runStd            : List Sexp → Except String StdState             -- whole script; error = first illegal command (prefixed "command k: ")
StdState.live     : StdState → List Term                           -- assertions in force
opNames           : Op → List String                               -- the standard's symbol(s) for an operator
envOf             : (logic : String) → Term → SEnv                 -- free symbols declared, sort symbols of all mentioned sorts declared
```

## Conventions

* **Result terms** are the shared `Term`s with pySMT's payload conventions (CORE.md): `=` on Bool is `iff`, on other sorts
  `equals`; `>`/`>=` are `lt`/`le` with swapped arguments (`bvugt…` likewise); n-ary `and or + * str.++` are one n-ary node;
  left-associative binary operators (`- / div bvand bvor bvxor bvadd bvmul concat`) are left-nested; `=>` is right-nested;
  chainable `= < <= > >=` with more than two arguments are the conjunction of the adjacent pairs; `distinct` is the
  conjunction of the negated pairwise equalities (a single negation for two arguments); `xor` is `not (iff …)`.
* **`let` is parallel and elaborated by substitution**: `Term` has no `let`; every right-hand side is read in the *outer*
  scope, the body in the scope extended by all bindings; an occurrence of a let-bound name is replaced by the elaborated
  right-hand side. If that would move a free symbol of the right-hand side under a binder for the same symbol (capture),
  the reader answers an error (`unsupported: …capture`) instead of renaming — it never misreads.
* **Binders shadow** everything of the same name (let-bound names, declared constants) inside their body.
* **Literals**: numerals are `Int` constants, or `Real` constants when `env.realsOnly`; decimals are `Real` constants;
  `#b…`/`#x…`/`(_ bvN w)` are bit-vector constants. SMT-LIB has no negative or rational literals: `(- c)` of a constant and
  `(/ c d)` of two Real constants with `d ≠ 0` are read as the constant they denote (so that `(- 5)` is the integer −5 and
  `(/ 1.0 3.0)` the real ⅓); every other unary minus `(- t)` is `0 - t`.
* **Strictly sorted**: every application is checked against the rank of the symbol in the theory files (`/` takes Reals,
  `div` takes Ints, no implicit Int→Real coercion, bit-vector widths must agree, `(_ extract i j)` needs `m > i ≥ j`, …).
  Ill-sorted or undeclared ⇒ error. Not covered (error `unsupported`): `mod abs to_int is_int`, `int2bv`, `match`,
  datatypes, regular expressions and the string operators without a counterpart in `Op`, `define-sort` with parameters,
  recursive functions.
* **String literals** denote the string constant of the Strings theory: only printable ASCII characters may occur, `\\u{…}` and
  `\\ud₃d₂d₁d₀` are escape sequences (`strConstOf`).
* `(as const (Array σ τ)) v` is the `arrayValue` node with no assignment; a `store` is always an `arrayStore` node.
* `(! t …)` is `t`. `(as x σ)` for a declared constant checks the sort.
* `define-fun` applications are read by substituting the arguments for the parameters in the elaborated body (error on capture).
-/
namespace PySMT

def Ty.pyName : Ty → String
  | .bool => "Bool" | .int => "Int" | .real => "Real" | .str => "String"
  | .bv w => "BV{" ++ toString w ++ "}"
  | .array i e => "Array{" ++ i.pyName ++ ", " ++ e.pyName ++ "}"
  | .custom n => n

namespace Std
open Sexp

structure FunDef where
  params : List Sym
  ret : Ty
  body : Term
  deriving Repr, Inhabited

structure SEnv where
  logic : String := "ALL"
  /-- declared sort symbols with their arity -/
  sorts : List (String × Nat) := []
  /-- declared function symbols (constants: `params = []`) -/
  funs : List Sym := []
  /-- defined function symbols -/
  defs : List (String × FunDef) := []
  /-- sort abbreviations introduced by the parameterless `(define-sort S () σ)` -/
  aliases : List (String × Ty) := []
  deriving Repr, Inhabited

/-- logics whose only arithmetic sort is Real: there a numeral denotes a Real -/
def realsOnlyLogics : List String :=
  ["QF_LRA", "LRA", "QF_RDL", "QF_NRA", "NRA", "QF_UFLRA", "UFLRA", "QF_UFNRA", "UFNRA", "QF_NRAT", "QF_ALRA", "QF_AUFLRA",
   "AUFLRA", "QF_ABVLRA"]

def SEnv.realsOnly (env : SEnv) : Bool := realsOnlyLogics.contains env.logic

def predefinedSorts : List String := ["Bool", "Int", "Real", "String", "Array", "BitVec", "RegLan", "RoundingMode", "FloatingPoint"]

/-- function symbols of the theories (incl. the abbreviations of the logics); none may be re-declared or bound -/
def theorySymbols : List String :=
  ["true", "false", "not", "=>", "and", "or", "xor", "=", "distinct", "ite",
   "-", "+", "*", "div", "mod", "abs", "/", "<=", "<", ">=", ">", "to_real", "to_int", "is_int",
   "concat", "extract", "bvnot", "bvneg", "bvand", "bvor", "bvadd", "bvmul", "bvudiv", "bvurem", "bvshl", "bvlshr", "bvult",
   "bvnand", "bvnor", "bvxor", "bvxnor", "bvcomp", "bvsub", "bvsdiv", "bvsrem", "bvsmod", "bvashr", "repeat", "zero_extend",
   "sign_extend", "rotate_left", "rotate_right", "bvule", "bvugt", "bvuge", "bvslt", "bvsle", "bvsgt", "bvsge", "bv2nat",
   "int2bv", "nat2bv", "select", "store", "const",
   "str.++", "str.len", "str.<", "str.<=", "str.at", "str.substr", "str.prefixof", "str.suffixof", "str.contains",
   "str.indexof", "str.replace", "str.replace_all", "str.replace_re", "str.replace_re_all", "str.is_digit", "str.to_code",
   "str.from_code", "str.to_int", "str.from_int", "str.to_re", "str.in_re", "re.none", "re.all", "re.allchar", "re.++",
   "re.union", "re.inter", "re.*", "re.comp", "re.diff", "re.+", "re.opt", "re.range", "re.^", "re.loop"]

def SEnv.lookupFun (env : SEnv) (n : String) : Option Sym := env.funs.find? (fun s => s.name == n)
def SEnv.lookupDef (env : SEnv) (n : String) : Option FunDef := (env.defs.find? (fun d => d.1 == n)).map (·.2)
def SEnv.lookupSort (env : SEnv) (n : String) : Option Nat := (env.sorts.find? (fun d => d.1 == n)).map (·.2)
def SEnv.lookupAlias (env : SEnv) (n : String) : Option Ty := (env.aliases.find? (fun d => d.1 == n)).map (·.2)

/-! ## sorts -/

mutual
def sortStd (env : SEnv) : Sexp → Except String Ty
  | .atom tok =>
    match symName? tok with
    | none => .error ("sort expected: " ++ tok)
    | some n =>
      if n == "Bool" then .ok .bool else if n == "Int" then .ok .int else if n == "Real" then .ok .real
      else if n == "String" then .ok .str
      else match env.lookupSort n with
        | some 0 => .ok (.custom n)
        | some _ => .error ("sort symbol used with wrong arity: " ++ n)
        | none =>
          match env.lookupAlias n with
          | some ty => .ok ty
          | none => .error ("undeclared sort: " ++ n)
  | .str _ => .error "sort expected"
  | .list [.atom "_", .atom b, .atom w] =>
    if symName? b == some "BitVec" then
      match numeral? w with
      | some k => if k > 0 then .ok (.bv k) else .error "(_ BitVec 0)"
      | none => .error "(_ BitVec <numeral>) expected"
    else .error "unknown indexed sort"
  | .list (.atom h :: args) =>
    match symName? h with
    | none => .error "sort expected"
    | some n =>
      match sortStdList env args with
      | .error e => .error e
      | .ok tys =>
        if n == "Array" then
          match tys with
          | [i, e] => .ok (.array i e)
          | _ => .error "Array takes two sorts"
        else match env.lookupSort n with
          | some k =>
            if k == tys.length && k > 0 then .ok (.custom (n ++ "{" ++ ", ".intercalate (tys.map Ty.pyName) ++ "}"))
            else .error ("sort symbol used with wrong arity: " ++ n)
          | none => .error ("undeclared sort: " ++ n)
  | .list _ => .error "sort expected"
def sortStdList (env : SEnv) : List Sexp → Except String (List Ty)
  | [] => .ok []
  | s :: rest =>
    match sortStd env s, sortStdList env rest with
    | .ok t, .ok ts => .ok (t :: ts)
    | .error e, _ => .error e
    | _, .error e => .error e
end

/-! ## scopes: binder variables and let-bound names -/

inductive Binding
  | var (s : Sym)
  | letb (name : String) (t : Term) (ty : Ty)
  deriving Repr

abbrev TT := Term × Ty

/-- innermost binding of the name `n`; `crossed` = binder variables between the use and the binding found -/
def lookupScope (n : String) : List Binding → List Sym → Option (Except String TT)
  | [], _ => none
  | .var s :: rest, crossed =>
    if s.name == n then some (.ok (Term.sym s, s.ret)) else lookupScope n rest (s :: crossed)
  | .letb m t ty :: rest, crossed =>
    if m == n then
      (if crossed.any (fun x => t.fv.contains x) then some (.error ("unsupported: let-bound term would be captured by a binder: " ++ n))
       else some (.ok (t, ty)))
    else lookupScope n rest crossed

/-! ## capture-checking substitution (applications of defined functions) -/

def substArgs (m : List (Sym × Term)) : Term → Except String Term
  | .node op args p =>
    match op, p with
    | .symbol, .sym s =>
      match m.find? (fun e => e.1 == s) with
      | some e => .ok e.2
      | none => .ok (.node op args p)
    | .forall_, .qvars vs | .exists_, .qvars vs =>
      let m' := m.filter (fun e => !vs.contains e.1)
      if m'.any (fun e => vs.any (fun v => e.2.fv.contains v)) then .error "unsupported: argument captured by a binder of the definition"
      else (args.mapM (substArgs m')).map (fun as => .node op as p)
    | _, _ => (args.mapM (substArgs m)).map (fun as => .node op as p)

/-! ## applying the theory symbols -/

def bvw : Ty → Option Nat | .bv w => some w | _ => none

def allTy (args : List TT) (t : Ty) : Bool := args.all (fun a => a.2 == t)

def node (op : Op) (args : List TT) (p : Payload := .none) : Term := .node op (args.map (·.1)) p

/-- adjacent pairs of a chainable operator -/
def chainPairs {α} : List α → List (α × α)
  | a :: b :: rest => (a, b) :: chainPairs (b :: rest)
  | _ => []

def allPairs {α} : List α → List (α × α)
  | [] => []
  | a :: rest => rest.map (fun b => (a, b)) ++ allPairs rest

def conj : List Term → Term
  | [t] => t
  | ts => .node .and ts .none

def mkEqTerm (a b : TT) : Term := if a.2 == .bool then .node .iff [a.1, b.1] .none else .node .equals [a.1, b.1] .none

def isNumConst : Term → Option (Sum Int Rat)
  | .node .intConst [] (.i n) => some (.inl n)
  | .node .realConst [] (.q r) => some (.inr r)
  | _ => none

def zeroOf : Ty → Term | .real => Term.real 0 | _ => Term.int 0

def bvBinOps : List (String × Op) :=
  [("bvand", .bvAnd), ("bvor", .bvOr), ("bvxor", .bvXor), ("bvadd", .bvAdd), ("bvmul", .bvMul), ("bvsub", .bvSub),
   ("bvudiv", .bvUdiv), ("bvurem", .bvUrem), ("bvshl", .bvLshl), ("bvlshr", .bvLshr), ("bvashr", .bvAshr),
   ("bvsdiv", .bvSdiv), ("bvsrem", .bvSrem)]
/-- the ones declared `:left-assoc` in the QF_BV logic / theory -/
def bvLeftAssoc : List String := ["bvand", "bvor", "bvxor", "bvadd", "bvmul"]
/-- relations; `true` = arguments swapped -/
def bvRels : List (String × Op × Bool) :=
  [("bvult", .bvUlt, false), ("bvule", .bvUle, false), ("bvugt", .bvUlt, true), ("bvuge", .bvUle, true),
   ("bvslt", .bvSlt, false), ("bvsle", .bvSle, false), ("bvsgt", .bvSlt, true), ("bvsge", .bvSle, true)]

def bvBin (op : Op) (a b : TT) : Except String TT :=
  match a.2, b.2 with
  | .bv w, .bv w' => if w == w' then .ok (node op [a, b] (.ints [w]), .bv w) else .error "bit-vector widths differ"
  | _, _ => .error "bit-vector arguments expected"

def leftFold (f : TT → TT → Except String TT) : List TT → Except String TT
  | [] => .error "arguments expected"
  | a :: rest => rest.foldlM f a

def bvConcat2 (a b : TT) : Except String TT :=
  match a.2, b.2 with
  | .bv w, .bv w' => .ok (node .bvConcat [a, b] (.ints [w + w']), .bv (w + w'))
  | _, _ => .error "concat: bit-vector arguments expected"

def bvc1 (v w : Nat) : TT := (Term.bvc v w, .bv w)

/-- `bvsmod` as defined in the QF_BV logic -/
def bvSmod (s t : TT) (m : Nat) : TT :=
  let ex (x : TT) : TT := (node .bvExtract [x] (.ints [1, m - 1, m - 1]), .bv 1)
  let eqb (x : TT) (v : Nat) : Term := .node .equals [x.1, Term.bvc v 1] .none
  let neg (x : TT) : TT := (node .bvNeg [x] (.ints [m]), .bv m)
  let ite (c : Term) (a b : TT) : TT := (.node .ite [c, a.1, b.1] .none, .bv m)
  let msbS := ex s; let msbT := ex t
  let absS := ite (eqb msbS 0) s (neg s)
  let absT := ite (eqb msbT 0) t (neg t)
  let u : TT := (node .bvUrem [absS, absT] (.ints [m]), .bv m)
  let add (a b : TT) : TT := (node .bvAdd [a, b] (.ints [m]), .bv m)
  ite (.node .equals [u.1, Term.bvc 0 m] .none) u
    (ite (.node .and [eqb msbS 0, eqb msbT 0] .none) u
      (ite (.node .and [eqb msbS 1, eqb msbT 0] .none) (add (neg u) t)
        (ite (.node .and [eqb msbS 0, eqb msbT 1] .none) (add u t) (neg u))))

def arithTy (args : List TT) : Except String Ty :=
  match args with
  | (_, .int) :: _ => if allTy args .int then .ok .int else .error "arguments of mixed sorts (no implicit Int/Real coercion)"
  | (_, .real) :: _ => if allTy args .real then .ok .real else .error "arguments of mixed sorts (no implicit Int/Real coercion)"
  | _ => .error "arithmetic arguments expected"

def arithSub (a b : TT) : Except String TT :=
  if a.2 == b.2 && (a.2 == .int || a.2 == .real) then .ok (node .minus [a, b], a.2) else .error "-: ill-sorted"

def realDiv (a b : TT) : Except String TT :=
  if a.2 == .real && b.2 == .real then
    match isNumConst a.1, isNumConst b.1 with
    | some (.inr x), some (.inr y) => if y ≠ 0 then .ok (Term.real (x / y), .real) else .ok (node .div [a, b], .real)
    | _, _ => .ok (node .div [a, b], .real)
  else .error "/ takes Real arguments"

def intDiv (a b : TT) : Except String TT :=
  if a.2 == .int && b.2 == .int then .ok (node .div [a, b], .int) else .error "div takes Int arguments"

def strSig (name : String) : Option (Op × List Ty × Ty) :=
  match name with
  | "str.len" => some (.strLength, [.str], .int)
  | "str.at" => some (.strCharAt, [.str, .int], .str)
  | "str.substr" => some (.strSubstr, [.str, .int, .int], .str)
  | "str.indexof" => some (.strIndexOf, [.str, .str, .int], .int)
  | "str.replace" => some (.strReplace, [.str, .str, .str], .str)
  | "str.prefixof" => some (.strPrefixOf, [.str, .str], .bool)
  | "str.suffixof" => some (.strSuffixOf, [.str, .str], .bool)
  | "str.contains" => some (.strContains, [.str, .str], .bool)
  | "str.to_int" => some (.strToInt, [.str], .int)
  | "str.from_int" => some (.intToStr, [.int], .str)
  | _ => none

/-- application of a theory function symbol `f` (not indexed) to elaborated arguments -/
def applyTheory (f : String) (args : List TT) : Except String TT :=
  match f with
  | "not" => match args with
    | [a] => if a.2 == .bool then .ok (node .not [a], .bool) else .error "not: Bool expected"
    | _ => .error "not takes one argument"
  | "and" | "or" =>
    if args.length ≥ 2 && allTy args .bool then .ok (node (if f == "and" then .and else .or) args, .bool)
    else .error (f ++ ": at least two Bool arguments expected")
  | "=>" =>
    if args.length ≥ 2 && allTy args .bool then
      match args.reverse with
      | last :: before => .ok (before.foldl (fun acc a => (node .implies [a, acc], .bool)) last)
      | [] => .error "=>"
    else .error "=>: at least two Bool arguments expected"
  | "xor" =>
    if args.length ≥ 2 && allTy args .bool then
      leftFold (fun a b => .ok (.node .not [.node .iff [a.1, b.1] .none] .none, .bool)) args
    else .error "xor: at least two Bool arguments expected"
  | "=" =>
    match args with
    | a :: _ :: _ =>
      if allTy args a.2 then .ok (conj ((chainPairs args).map (fun p => mkEqTerm p.1 p.2)), .bool)
      else .error "=: arguments of different sorts"
    | _ => .error "=: at least two arguments expected"
  | "distinct" =>
    match args with
    | a :: _ :: _ =>
      if allTy args a.2 then .ok (conj ((allPairs args).map (fun p => .node .not [mkEqTerm p.1 p.2] .none)), .bool)
      else .error "distinct: arguments of different sorts"
    | _ => .error "distinct: at least two arguments expected"
  | "ite" =>
    match args with
    | [c, a, b] => if c.2 == .bool && a.2 == b.2 then .ok (node .ite [c, a, b], a.2) else .error "ite: ill-sorted"
    | _ => .error "ite takes three arguments"
  | "+" | "*" =>
    if args.length ≥ 2 then (arithTy args).map (fun t => (node (if f == "+" then .plus else .times) args, t))
    else .error (f ++ ": at least two arguments expected")
  | "-" =>
    match args with
    | [a] =>
      match isNumConst a.1 with
      | some (.inl n) => .ok (Term.int (-n), .int)
      | some (.inr r) => .ok (Term.real (-r), .real)
      | none =>
        if a.2 == .int || a.2 == .real then .ok (.node .minus [zeroOf a.2, a.1] .none, a.2) else .error "-: arithmetic argument expected"
    | _ :: _ :: _ => leftFold arithSub args
    | [] => .error "-: arguments expected"
  | "/" => if args.length ≥ 2 then leftFold realDiv args else .error "/: at least two arguments expected"
  | "div" => if args.length ≥ 2 then leftFold intDiv args else .error "div: at least two arguments expected"
  | "<=" | "<" | ">=" | ">" =>
    if args.length ≥ 2 then
      (arithTy args).map (fun _ =>
        let op : Op := if f == "<=" || f == ">=" then .le else .lt
        let swap := f == ">=" || f == ">"
        (conj ((chainPairs args).map (fun p => if swap then node op [p.2, p.1] else node op [p.1, p.2])), .bool))
    else .error (f ++ ": at least two arguments expected")
  | "to_real" => match args with
    | [a] => if a.2 == .int then .ok (node .toReal [a], .real) else .error "to_real: Int expected"
    | _ => .error "to_real takes one argument"
  | "bvnot" | "bvneg" => match args with
    | [a] => match a.2 with
      | .bv w => .ok (node (if f == "bvnot" then .bvNot else .bvNeg) [a] (.ints [w]), .bv w)
      | _ => .error (f ++ ": bit-vector expected")
    | _ => .error (f ++ " takes one argument")
  | "concat" => if args.length ≥ 2 then leftFold bvConcat2 args else .error "concat: two arguments expected"
  | "bvcomp" => match args with
    | [a, b] => match a.2, b.2 with
      | .bv w, .bv w' => if w == w' then .ok (node .bvComp [a, b] (.ints [1]), .bv 1) else .error "bvcomp: widths differ"
      | _, _ => .error "bvcomp: bit-vectors expected"
    | _ => .error "bvcomp takes two arguments"
  | "bvnand" | "bvnor" | "bvxnor" => match args with
    | [a, b] =>
      (bvBin (if f == "bvnand" then .bvAnd else if f == "bvnor" then .bvOr else .bvXor) a b).map
        (fun r => (.node .bvNot [r.1] (.ints [(bvw r.2).getD 0]), r.2))
    | _ => .error (f ++ " takes two arguments")
  | "bvsmod" => match args with
    | [a, b] => match a.2, b.2 with
      | .bv w, .bv w' => if w == w' then .ok (bvSmod a b w) else .error "bvsmod: widths differ"
      | _, _ => .error "bvsmod: bit-vectors expected"
    | _ => .error "bvsmod takes two arguments"
  | "bv2nat" => match args with
    | [a] => match a.2 with
      | .bv _ => .ok (node .bvToNatural [a], .int)
      | _ => .error "bv2nat: bit-vector expected"
    | _ => .error "bv2nat takes one argument"
  | "select" => match args with
    | [a, i] => match a.2 with
      | .array it et => if i.2 == it then .ok (node .arraySelect [a, i], et) else .error "select: index sort"
      | _ => .error "select: array expected"
    | _ => .error "select takes two arguments"
  | "store" => match args with
    | [a, i, v] => match a.2 with
      | .array it et => if i.2 == it && v.2 == et then .ok (node .arrayStore [a, i, v], a.2) else .error "store: ill-sorted"
      | _ => .error "store: array expected"
    | _ => .error "store takes three arguments"
  | "str.++" =>
    if args.length ≥ 2 && allTy args .str then .ok (node .strConcat args, .str) else .error "str.++: at least two String arguments expected"
  | _ =>
    match bvBinOps.lookup f with
    | some op =>
      if bvLeftAssoc.contains f then (if args.length ≥ 2 then leftFold (bvBin op) args else .error (f ++ ": arguments expected"))
      else match args with
        | [a, b] => bvBin op a b
        | _ => .error (f ++ " takes two arguments")
    | none =>
    match bvRels.lookup f with
    | some (op, swap) =>
      match args with
      | [a, b] => match a.2, b.2 with
        | .bv w, .bv w' =>
          if w == w' then .ok ((if swap then node op [b, a] else node op [a, b]), .bool) else .error (f ++ ": widths differ")
        | _, _ => .error (f ++ ": bit-vectors expected")
      | _ => .error (f ++ " takes two arguments")
    | none =>
    match strSig f with
    | some (op, ptys, rty) =>
      if args.map (·.2) == ptys then .ok (node op args, rty) else .error (f ++ ": ill-sorted")
    | none => .error ("unsupported theory symbol: " ++ f)

/-- `((_ f i…) args)` -/
def applyIndexed (f : String) (idx : List Nat) (args : List TT) : Except String TT :=
  match f, idx, args with
  | "extract", [i, j], [a] =>
    match a.2 with
    | .bv m => if j ≤ i && i < m then .ok (node .bvExtract [a] (.ints [i - j + 1, j, i]), .bv (i - j + 1)) else .error "extract: m > i ≥ j violated"
    | _ => .error "extract: bit-vector expected"
  | "zero_extend", [k], [a] | "sign_extend", [k], [a] =>
    match a.2 with
    | .bv m => .ok (node (if f == "zero_extend" then .bvZext else .bvSext) [a] (.ints [m + k, k]), .bv (m + k))
    | _ => .error (f ++ ": bit-vector expected")
  | "rotate_left", [k], [a] | "rotate_right", [k], [a] =>
    match a.2 with
    | .bv m => .ok (node (if f == "rotate_left" then .bvRol else .bvRor) [a] (.ints [m, k]), .bv m)
    | _ => .error (f ++ ": bit-vector expected")
  | "repeat", [k], [a] =>
    match a.2 with
    | .bv _ => if k ≥ 1 then leftFold bvConcat2 (List.replicate k a) else .error "repeat: index ≥ 1 expected"
    | _ => .error "repeat: bit-vector expected"
  | _, _, _ => .error ("unsupported indexed symbol or wrong number of indices/arguments: " ++ f)

/-- `(_ bvN w)` -/
def bvLiteral? (tok : String) : Option Nat :=
  match tok.toList with
  | 'b' :: 'v' :: ds => if isNumeralChars ds then some (natOfDigits ds) else none
  | _ => none

/-- application of a declared or defined function symbol -/
def applyUser (env : SEnv) (f : String) (args : List TT) : Except String TT :=
  match env.lookupFun f with
  | some s =>
    if s.params.isEmpty then .error ("constant applied to arguments: " ++ f)
    else if args.map (·.2) == s.params then .ok (Term.app s (args.map (·.1)), s.ret)
    else .error ("ill-sorted application of " ++ f)
  | none =>
    match env.lookupDef f with
    | some d =>
      if args.map (·.2) == d.params.map (·.ret) then
        (substArgs (d.params.zip (args.map (·.1))) d.body).map (fun t => (t, d.ret))
      else .error ("ill-sorted application of " ++ f)
    | none => .error ("undeclared function symbol: " ++ f)

def atomTerm (env : SEnv) (scope : List Binding) (tok : String) : Except String TT :=
  match numeral? tok with
  | some n => if env.realsOnly then .ok (Term.real (n : Int), .real) else .ok (Term.int n, .int)
  | none =>
  match decimal? tok with
  | some q => .ok (Term.real q, .real)
  | none =>
  match binary? tok with
  | some (v, w) => .ok (Term.bvc v w, .bv w)
  | none =>
  match hex? tok with
  | some (v, w) => .ok (Term.bvc v w, .bv w)
  | none =>
  match symName? tok with
  | none => .error ("term expected: " ++ tok)
  | some n =>
    match lookupScope n scope [] with
    | some r => r
    | none =>
      if n == "true" then .ok (Term.tt, .bool) else if n == "false" then .ok (Term.ff, .bool)
      else match env.lookupFun n with
        | some s => if s.params.isEmpty then .ok (Term.sym s, s.ret) else .error ("function symbol used as a term: " ++ n)
        | none =>
          match env.lookupDef n with
          | some d => if d.params.isEmpty then .ok (d.body, d.ret) else .error ("function symbol used as a term: " ++ n)
          | none => .error ("undeclared symbol: " ++ n)

/-! ### string literals of the Strings theory: printable ASCII characters, with the escapes `\u{d…}` (1–5 hexadecimal
digits, at most 2FFFF) and `\ud₃d₂d₁d₀`; a backslash not followed by such a form stands for itself -/

def hexVal? (ds : List Char) : Option Nat :=
  if !ds.isEmpty && ds.all isHexDigit then some (ds.foldl (fun acc c => acc * 16 + hexDigitVal c) 0) else none

def charOfCode? (n : Nat) : Option Char :=
  if n ≤ 0x2FFFF && !(0xD800 ≤ n && n ≤ 0xDFFF) then some (Char.ofNat n) else none

def takeUntilBrace : List Char → List Char → Option (List Char × List Char)
  | [], _ => none
  | c :: cs, acc => if c == '}' then some (acc.reverse, cs) else takeUntilBrace cs (c :: acc)

def decodeStrLit : Nat → List Char → Except String (List Char)
  | _, [] => .ok []
  | 0, _ => .error "string literal too long"
  | fuel + 1, c :: cs =>
    if !(0x20 ≤ c.toNat && c.toNat ≤ 0x7E) then
      .error "string literal with a character outside printable ASCII (the Strings theory spells it \\u{…})"
    else
      let plain := (decodeStrLit fuel cs).map (c :: ·)
      if c != '\\' then plain else
      match cs with
      | 'u' :: '{' :: rest =>
        match takeUntilBrace rest [] with
        | some (ds, rest') =>
          if ds.length ≤ 5 then
            match (hexVal? ds).bind charOfCode? with
            | some ch => (decodeStrLit fuel rest').map (ch :: ·)
            | none => plain
          else plain
        | none => plain
      | 'u' :: a :: b :: c' :: d :: rest =>
        match (hexVal? [a, b, c', d]).bind charOfCode? with
        | some ch => (decodeStrLit fuel rest).map (ch :: ·)
        | none => plain
      | _ => plain

/-- the string constant denoted by a string literal with contents `lit` -/
def strConstOf (lit : String) : Except String String :=
  (decodeStrLit (lit.length + 1) lit.toList).map String.ofList

def indices : List Sexp → Option (List Nat)
  | [] => some []
  | .atom t :: rest => match numeral? t, indices rest with
    | some n, some ns => some (n :: ns)
    | _, _ => none
  | _ :: _ => none

def distinctNames (ns : List String) : Bool := ns.eraseDups.length == ns.length

def rdSortedVars (env : SEnv) : List Sexp → Except String (List Sym)
  | [] => .ok []
  | .list [.atom x, sort] :: rest =>
    match symName? x with
    | none => .error "binder: variable name expected"
    | some n =>
      if theorySymbols.contains n then .error ("binder binds a theory symbol: " ++ n) else
      match sortStd env sort, rdSortedVars env rest with
      | .ok ty, .ok vs => .ok (Sym.var n ty :: vs)
      | .error err, _ => .error err
      | _, .error err => .error err
  | _ :: _ => .error "ill-formed sorted variable"

/-- `(_ bvN w)` -/
def bvLitTerm : List Sexp → Except String TT
  | [.atom lit, .atom w] =>
    match bvLiteral? lit, numeral? w with
    | some v, some k => if k > 0 then .ok (Term.bvc (v % 2 ^ k) k, .bv k) else .error "(_ bvN 0)"
    | _, _ => .error "unsupported indexed identifier"
  | _ => .error "unsupported indexed identifier"

/-- application whose head is a list: `((_ f i…) args)` or `((as const σ) v)` -/
def applyHead (env : SEnv) (hd : List Sexp) (as : List TT) : Except String TT :=
  match hd with
  | .atom "_" :: .atom f :: idx =>
    match symName? f, indices idx with
    | some fn, some ns => if ns.isEmpty then .error "indices expected" else applyIndexed fn ns as
    | _, _ => .error "ill-formed indexed identifier"
  | [.atom "as", .atom c, sort] =>
    if symName? c == some "const" then
      match sortStd env sort, as with
      | .ok (.array it et), [v] =>
        if v.2 == et then .ok (.node .arrayValue [v.1] (.ty it), .array it et) else .error "(as const …): element sort mismatch"
      | .ok _, _ => .error "(as const σ) needs an array sort and one argument"
      | .error e, _ => .error e
    else .error "unsupported qualified identifier"
  | _ => .error "ill-formed application head"

/-- application of a function symbol (not a binder, not a reserved word) to elaborated arguments -/
def applySym (env : SEnv) (scope : List Binding) (f : String) (as : List TT) : Except String TT :=
  if as.isEmpty then .error "application without arguments"
  else if (lookupScope f scope []).isSome then .error ("variable applied to arguments: " ++ f)
  else if theorySymbols.contains f then applyTheory f as
  else applyUser env f as

def bindingName : Binding → String
  | .letb n _ _ => n
  | .var s => s.name

mutual
/-- the standard's reading of a term in a scope -/
def rd (env : SEnv) (scope : List Binding) : Sexp → Except String TT
  | .atom tok => atomTerm env scope tok
  | .str lit => (strConstOf lit).map (fun v => (Term.str v, .str))
  | .list [] => .error "term expected: ()"
  | .list (.atom hd :: args) =>
    if hd == "let" then rdLet env scope args
    else if hd == "forall" then rdQuant env scope true args
    else if hd == "exists" then rdQuant env scope false args
    else if hd == "!" then rdAnnot env scope args
    else if hd == "_" then bvLitTerm args
    else if hd == "as" then rdAs env scope args
    else if hd == "match" || hd == "par" then .error "unsupported: match"
    else
      match symName? hd with
      | none => .error ("function symbol expected: " ++ hd)
      | some f =>
        match rdList env scope args with
        | .error e => .error e
        | .ok as => applySym env scope f as
  | .list (.list hd :: args) =>
    match rdList env scope args with
    | .error e => .error e
    | .ok as => applyHead env hd as
  | .list (.str _ :: _) => .error "string literal in head position"
/-- `(let (bindings) body)` -/
def rdLet (env : SEnv) (scope : List Binding) : List Sexp → Except String TT
  | [.list bs, body] =>
    match rdBindings env scope bs with
    | .error e => .error e
    | .ok new =>
      if new.isEmpty then .error "let without bindings"
      else if !distinctNames (new.map bindingName) then .error "let binds a variable twice"
      else rd env (new ++ scope) body
  | _ => .error "ill-formed let"
/-- `(forall (sorted vars) body)` -/
def rdQuant (env : SEnv) (scope : List Binding) (isForall : Bool) : List Sexp → Except String TT
  | [.list vs, body] =>
    match rdSortedVars env vs with
    | .error e => .error e
    | .ok syms =>
      if syms.isEmpty then .error "quantifier without variables"
      else if !distinctNames (syms.map (·.name)) then .error "quantifier binds a variable twice"
      else match rd env (syms.reverse.map Binding.var ++ scope) body with
        | .error e => .error e
        | .ok (b, ty) =>
          if ty == .bool then .ok (.node (if isForall then .forall_ else .exists_) [b] (.qvars syms), .bool)
          else .error "quantifier body must be Bool"
  | _ => .error "ill-formed quantifier"
/-- `(! t attributes…)` -/
def rdAnnot (env : SEnv) (scope : List Binding) : List Sexp → Except String TT
  | t :: _ :: _ => rd env scope t
  | _ => .error "ill-formed annotation"
/-- `(as x σ)` -/
def rdAs (env : SEnv) (scope : List Binding) : List Sexp → Except String TT
  | [x, sort] =>
    match rd env scope x, sortStd env sort with
    | .ok (t, ty), .ok ty' => if ty == ty' then .ok (t, ty) else .error "(as x σ): sort mismatch"
    | .error e, _ => .error e
    | _, .error e => .error e
  | _ => .error "ill-formed (as …)"
def rdList (env : SEnv) (scope : List Binding) : List Sexp → Except String (List TT)
  | [] => .ok []
  | s :: rest =>
    match rd env scope s, rdList env scope rest with
    | .ok t, .ok ts => .ok (t :: ts)
    | .error e, _ => .error e
    | _, .error e => .error e
/-- `((x t) …)`: every right-hand side is read in the same (outer) scope -/
def rdBindings (env : SEnv) (scope : List Binding) : List Sexp → Except String (List Binding)
  | [] => .ok []
  | .list [.atom x, e] :: rest =>
    match symName? x with
    | none => .error "let: variable name expected"
    | some n =>
      if theorySymbols.contains n then .error ("let binds a theory symbol: " ++ n) else
      match rd env scope e, rdBindings env scope rest with
      | .ok (t, ty), .ok bs => .ok (.letb n t ty :: bs)
      | .error err, _ => .error err
      | _, .error err => .error err
  | _ :: _ => .error "ill-formed let binding"
end

def readStdTy (env : SEnv) (bound : List Sym) (s : Sexp) : Except String TT :=
  rd env (bound.reverse.map Binding.var) s

/-- the standard's reading of a term; `bound` = enclosing binder variables, outermost first -/
def readStd (env : SEnv) (bound : List Sym) (s : Sexp) : Except String Term :=
  (readStdTy env bound s).map (·.1)

def evalStd (I : Interp) (env : SEnv) (s : Sexp) : Except String Val :=
  (readStd env [] s).map (eval I)

/-! ## commands -/

structure StdState where
  env : SEnv := {}
  /-- environments saved by `push`, innermost first -/
  saved : List SEnv := []
  /-- assertions per level, innermost first (`asserts.length = saved.length + 1`) -/
  asserts : List (List Term) := [[]]
  logicSet : Bool := false
  deriving Repr, Inhabited

def StdState.init : StdState := {}
def StdState.live (st : StdState) : List Term := (st.asserts.reverse.map List.reverse).flatten

def SEnv.nameTaken (env : SEnv) (n : String) : Bool :=
  theorySymbols.contains n || (env.lookupFun n).isSome || (env.lookupDef n).isSome

def Nat.iter {α} (f : α → α) : Nat → α → α
  | 0, a => a
  | n + 1, a => Nat.iter f n (f a)

def pushN (st : StdState) (n : Nat) : StdState :=
  Nat.iter (fun s => { s with saved := s.env :: s.saved, asserts := [] :: s.asserts }) n st

def popN (st : StdState) : Nat → Except String StdState
  | 0 => .ok st
  | n + 1 =>
    match st.saved, st.asserts with
    | e :: rest, _ :: as => popN { st with env := { e with logic := st.env.logic }, saved := rest, asserts := as } n
    | _, _ => .error "pop below the first level"

def levels? : List Sexp → Option Nat
  | [] => some 1
  | [.atom n] => numeral? n
  | _ => none

def stepSetLogic (st : StdState) : List Sexp → Except String StdState
  | [.atom l] =>
    if st.logicSet then .error "set-logic twice"
    else match symName? l with
      | some n => .ok { st with env := { st.env with logic := n }, logicSet := true }
      | none => .error "set-logic: symbol expected"
  | _ => .error "ill-formed set-logic"

def declareSortIn (st : StdState) (n : String) (ar : Nat) : Except String StdState :=
  if predefinedSorts.contains n || (st.env.lookupSort n).isSome || (st.env.lookupAlias n).isSome then
    .error ("sort declared twice: " ++ n)
  else .ok { st with env := { st.env with sorts := (n, ar) :: st.env.sorts } }

/-- `(define-sort S () σ)` (only the parameterless form) -/
def stepDefineSort (st : StdState) : List Sexp → Except String StdState
  | [.atom s, .list [], body] =>
    match symName? s with
    | none => .error "ill-formed define-sort"
    | some n =>
      if predefinedSorts.contains n || (st.env.lookupSort n).isSome || (st.env.lookupAlias n).isSome then
        .error ("sort declared twice: " ++ n)
      else match sortStd st.env body with
        | .ok ty => .ok { st with env := { st.env with aliases := (n, ty) :: st.env.aliases } }
        | .error e => .error e
  | [.atom _, .list (_ :: _), _] => .error "unsupported: define-sort with parameters"
  | _ => .error "ill-formed define-sort"

def stepDeclareSort (st : StdState) : List Sexp → Except String StdState
  | [.atom s, .atom k] =>
    match symName? s, numeral? k with
    | some n, some ar => declareSortIn st n ar
    | _, _ => .error "ill-formed declare-sort"
  | [.atom s] =>
    match symName? s with
    | some n => declareSortIn st n 0
    | none => .error "ill-formed declare-sort"
  | _ => .error "ill-formed declare-sort"

/-- declare the function symbol `n` with parameter sorts `ps` and result sort `r` -/
def declareSymIn (st : StdState) (n : String) (ps : List Sexp) (r : Sexp) : Except String StdState :=
  if st.env.nameTaken n then .error ("symbol declared twice or predefined: " ++ n)
  else match sortStdList st.env ps, sortStd st.env r with
    | .ok ptys, .ok rty => .ok { st with env := { st.env with funs := ⟨n, ptys, rty⟩ :: st.env.funs } }
    | .error e, _ => .error e
    | _, .error e => .error e

def stepDeclareFun (st : StdState) : List Sexp → Except String StdState
  | [.atom f, .list ps, r] =>
    match symName? f with
    | some n => declareSymIn st n ps r
    | none => .error "ill-formed declare-fun"
  | _ => .error "ill-formed declare-fun"

def stepDeclareConst (st : StdState) : List Sexp → Except String StdState
  | [.atom f, r] =>
    match symName? f with
    | some n => declareSymIn st n [] r
    | none => .error "ill-formed declare-const"
  | _ => .error "ill-formed declare-const"

def stepDefineFun (st : StdState) : List Sexp → Except String StdState
  | [.atom f, .list ps, r, body] =>
    match symName? f with
    | none => .error "ill-formed define-fun"
    | some n =>
      if st.env.nameTaken n then .error ("symbol declared twice or predefined: " ++ n)
      else match rdSortedVars st.env ps, sortStd st.env r with
        | .ok params, .ok rty =>
          if !distinctNames (params.map (·.name)) then .error "define-fun: parameter named twice"
          else match readStdTy st.env params body with
            | .ok (t, ty) =>
              if ty == rty then .ok { st with env := { st.env with defs := (n, ⟨params, rty, t⟩) :: st.env.defs } }
              else .error "define-fun: body has a different sort"
            | .error e => .error e
        | .error e, _ => .error e
        | _, .error e => .error e
  | _ => .error "ill-formed define-fun"

def stepAssert (st : StdState) : List Sexp → Except String StdState
  | [t] =>
    match readStdTy st.env [] t with
    | .ok (tm, ty) =>
      if ty == .bool then
        match st.asserts with
        | top :: rest => .ok { st with asserts := (tm :: top) :: rest }
        | [] => .ok { st with asserts := [[tm]] }
      else .error "assert: Bool term expected"
    | .error e => .error e
  | _ => .error "ill-formed assert"

/-- commands whose arguments are terms that must be well-sorted (`get-value`, `check-sat-assuming`) -/
def stepTerms (st : StdState) (boolOnly : Bool) (name : String) : List Sexp → Except String StdState
  | [.list ts] =>
    match rdList st.env [] ts with
    | .ok as => if !boolOnly || allTy as .bool then .ok st else .error (name ++ ": Bool terms expected")
    | .error e => .error e
  | _ => .error ("ill-formed " ++ name)

def noArgCommands : List String :=
  ["check-sat", "get-model", "get-assertions", "get-unsat-core", "get-proof", "get-assignment", "get-unsat-assumptions", "exit"]
def ignoredCommands : List String := ["set-option", "set-info", "get-info", "get-option", "echo"]

/-- one command in a state -/
def stepStd (st : StdState) (cmd : Sexp) : Except String StdState :=
  match cmd with
  | .list (.atom c :: args) =>
    if c == "set-logic" then stepSetLogic st args
    else if c == "declare-sort" then stepDeclareSort st args
    else if c == "declare-fun" then stepDeclareFun st args
    else if c == "declare-const" then stepDeclareConst st args
    else if c == "define-fun" then stepDefineFun st args
    else if c == "define-sort" then stepDefineSort st args
    else if c == "assert" then stepAssert st args
    else if c == "check-sat" then (if args.isEmpty then .ok st else .error "check-sat takes no argument")
    else if c == "get-value" then stepTerms st false c args
    else if c == "check-sat-assuming" then stepTerms st true c args
    else if c == "push" then
      match levels? args with
      | some n => .ok (pushN st n)
      | none => .error "ill-formed push"
    else if c == "pop" then
      match levels? args with
      | some n => popN st n
      | none => .error "ill-formed pop"
    else if c == "reset-assertions" then
      .ok { st with env := { logic := st.env.logic }, saved := [], asserts := [[]] }
    else if c == "reset" then .ok StdState.init
    else if ignoredCommands.contains c then .ok st
    else if noArgCommands.contains c then (if args.isEmpty then .ok st else .error (c ++ " takes no argument"))
    else .error ("unsupported command: " ++ c)
  | _ => .error "command expected"

def runStdFrom : StdState → Nat → List Sexp → Except String StdState
  | st, _, [] => .ok st
  | st, k, c :: rest =>
    match stepStd st c with
    | .ok st' => runStdFrom st' (k + 1) rest
    | .error e => .error ("command " ++ toString k ++ ": " ++ e)

/-- run a script from the initial state; the error names the first illegal command (0-based) -/
def runStd (cmds : List Sexp) : Except String StdState := runStdFrom StdState.init 0 cmds

/-! ## the standard's names of the operators of `Op` -/

/-- the theory symbols (identifier names; for the indexed ones the name after `_`) whose application `readStd`
elaborates to a node with this operator, given arguments of the right sorts. `div` has two: `/` on Reals, `div` on Ints.
`pow`, algebraic constants: none. -/
def opNames : Op → List String
  | .forall_ => ["forall"] | .exists_ => ["exists"] | .and => ["and"] | .or => ["or"] | .not => ["not"]
  | .implies => ["=>"] | .iff => ["="] | .equals => ["="] | .ite => ["ite"]
  | .plus => ["+"] | .minus => ["-"] | .times => ["*"] | .le => ["<="] | .lt => ["<"] | .toReal => ["to_real"]
  | .div => ["/", "div"]
  | .bvNot => ["bvnot"] | .bvAnd => ["bvand"] | .bvOr => ["bvor"] | .bvXor => ["bvxor"] | .bvConcat => ["concat"]
  | .bvExtract => ["extract"] | .bvUlt => ["bvult"] | .bvUle => ["bvule"] | .bvNeg => ["bvneg"] | .bvAdd => ["bvadd"]
  | .bvSub => ["bvsub"] | .bvMul => ["bvmul"] | .bvUdiv => ["bvudiv"] | .bvUrem => ["bvurem"] | .bvLshl => ["bvshl"]
  | .bvLshr => ["bvlshr"] | .bvRol => ["rotate_left"] | .bvRor => ["rotate_right"] | .bvZext => ["zero_extend"]
  | .bvSext => ["sign_extend"] | .bvSlt => ["bvslt"] | .bvSle => ["bvsle"] | .bvComp => ["bvcomp"]
  | .bvSdiv => ["bvsdiv"] | .bvSrem => ["bvsrem"] | .bvAshr => ["bvashr"] | .bvToNatural => ["bv2nat"]
  | .strLength => ["str.len"] | .strConcat => ["str.++"] | .strContains => ["str.contains"]
  | .strIndexOf => ["str.indexof"] | .strReplace => ["str.replace"] | .strSubstr => ["str.substr"]
  | .strPrefixOf => ["str.prefixof"] | .strSuffixOf => ["str.suffixof"] | .strToInt => ["str.to_int"]
  | .intToStr => ["str.from_int"] | .strCharAt => ["str.at"]
  | .arraySelect => ["select"] | .arrayStore => ["store"]
  | _ => []

/-! ## the environment a term lives in (Core convention: `Ty.custom "Pair{Int, U}"` is an instance of the declared
sort symbol `Pair` of arity 2; see `Core/Ty.lean`) -/

def splitArgs : List Char → Nat → List Char → List (List Char)
  | [], _, cur => [cur.reverse]
  | ',' :: ' ' :: rest, 0, cur => cur.reverse :: splitArgs rest 0 []
  | c :: rest, d, cur =>
    if c == '{' then splitArgs rest (d + 1) (c :: cur)
    else if c == '}' then splitArgs rest (d - 1) (c :: cur)
    else splitArgs rest d (c :: cur)

def uptoBrace : List Char → List Char × Option (List Char)
  | [] => ([], none)
  | c :: cs => if c == '{' then ([], some cs) else
    let (a, b) := uptoBrace cs
    (c :: a, b)

/-- sort symbols (with arity) that must be declared for the sort instance called `name` -/
def sortSymsOfName : Nat → List Char → List (String × Nat)
  | 0, _ => []
  | fuel + 1, cs =>
    match uptoBrace cs with
    | (base, none) => if predefinedSorts.contains (String.ofList base) then [] else [(String.ofList base, 0)]
    | (base, some inner) =>
      let parts := splitArgs inner.dropLast 0 []
      let sub := (parts.map (sortSymsOfName fuel)).flatten
      if base == "BV".toList then []
      else if base == "Array".toList then sub else (String.ofList base, parts.length) :: sub

def sortSymsOfTy : Ty → List (String × Nat)
  | .array i e => sortSymsOfTy i ++ sortSymsOfTy e
  | .custom n => sortSymsOfName n.length n.toList
  | _ => []

/-- every symbol occurrence of a term, free or bound, and the signatures of applied functions -/
def allSyms : Term → List Sym
  | .node op args p =>
    let sub := (args.map allSyms).flatten
    match op, p with
    | .symbol, .sym s => [s]
    | .function, .sym f => f :: sub
    | .forall_, .qvars vs | .exists_, .qvars vs => vs ++ sub
    | _, _ => sub

/-- the least environment in which `t` makes sense: its free symbols as declared functions, the sort symbols of
every sort it mentions -/
def envOf (logic : String) (t : Term) : SEnv :=
  { logic := logic
    sorts := (((allSyms t).map (fun s => (s.ret :: s.params).map sortSymsOfTy)).flatten.flatten).eraseDups
    funs := t.fv.eraseDups }

end Std
end PySMT
