/-
Specification for the detection half of C13: the features a formula *uses*, read off the term alone
(written from the property text; independent of `pysmt/oracles.py` and of `Impl/TheoryOracle.lean`).

A need is recorded in a `Theory` record: flag on = the feature is used; `linear = false` = non-linear
arithmetic is used.  The difference-logic flags are never set (not a feature the property lists).

* sorts: of every symbol, every constant, every bound variable, every function signature (parameters and
  result), the index sort of every array value;
* operator families: bit-vector, string, array operators, integer-valued string/bit-vector operators,
  `to_real`; constant arrays;
* uninterpreted symbols: every function application and every function-typed symbol;
* quantifiers (`hasQuant`);
* non-linearity: a product with at least two operands that contain a free symbol (function names count),
  a quotient whose divisor contains one, or `pow`.
-/
import PySMT.Core.FreeVars
import PySMT.Core.TypeOf
import PySMT.Spec.LogicOrder
namespace PySMT.Features
open PySMT PySMT.Logics

/-- nothing needed -/
def none : Theory :=
  { arrays := false, arrays_const := false, bit_vectors := false, floating_point := false,
    integer_arithmetic := false, real_arithmetic := false, integer_difference := false,
    real_difference := false, linear := true, uninterpreted := false, custom_type := false, strings := false }

/-- union of two needs -/
def join (a b : Theory) : Theory :=
  { arrays := a.arrays || b.arrays, arrays_const := a.arrays_const || b.arrays_const,
    bit_vectors := a.bit_vectors || b.bit_vectors, floating_point := a.floating_point || b.floating_point,
    integer_arithmetic := a.integer_arithmetic || b.integer_arithmetic,
    real_arithmetic := a.real_arithmetic || b.real_arithmetic,
    integer_difference := false, real_difference := false,
    linear := a.linear && b.linear, uninterpreted := a.uninterpreted || b.uninterpreted,
    custom_type := a.custom_type || b.custom_type, strings := a.strings || b.strings }

def joinAll (l : List Theory) : Theory := l.foldr join none

/-- what a sort needs -/
def ofSort : Ty → Theory
  | .bool => none
  | .int => { none with integer_arithmetic := true }
  | .real => { none with real_arithmetic := true }
  | .str => { none with strings := true }
  | .bv _ => { none with bit_vectors := true }
  | .array i e => join { none with arrays := true } (join (ofSort i) (ofSort e))
  | .custom _ => { none with custom_type := true }

/-- what a declared symbol needs: its sort, or for a function symbol its whole signature -/
def ofSym (s : Sym) : Theory :=
  if s.isFn then join { none with uninterpreted := true } (join (joinAll (s.params.map ofSort)) (ofSort s.ret))
  else ofSort s.ret

def isBvOp : Op → Bool
  | .bvConst | .bvNot | .bvAnd | .bvOr | .bvXor | .bvConcat | .bvExtract | .bvUlt | .bvUle | .bvNeg | .bvAdd
  | .bvSub | .bvMul | .bvUdiv | .bvUrem | .bvLshl | .bvLshr | .bvRol | .bvRor | .bvZext | .bvSext | .bvSlt
  | .bvSle | .bvComp | .bvSdiv | .bvSrem | .bvAshr | .bvToNatural => true
  | _ => false

def isStrOp : Op → Bool
  | .strConst | .strLength | .strConcat | .strContains | .strIndexOf | .strReplace | .strSubstr | .strPrefixOf
  | .strSuffixOf | .strToInt | .intToStr | .strCharAt => true
  | _ => false

/-- operators whose *result* is an integer although no operand need be one -/
def isIntValuedOp : Op → Bool
  | .intConst | .strLength | .strIndexOf | .strToInt | .bvToNatural => true
  | _ => false

def nonConstant (t : Term) : Bool := !t.fv.isEmpty

/-- needs of a node that no operand can account for: sorts of symbols, constants, bound variables,
function results and array-value indices; results of a different sort than the operands (integer-valued
string / bit-vector operators, `to_real`, `int.to.str`); constant arrays; uninterpreted application;
non-linearity -/
def intrinsic (op : Op) (p : Payload) (args : List Term) : Theory :=
  let fam : Theory :=
    { none with
      bit_vectors := op == .bvConst,
      strings := op == .strConst || op == .intToStr,
      integer_arithmetic := isIntValuedOp op || op == .toReal,
      real_arithmetic := op == .realConst || op == .algebraicConst || op == .toReal,
      arrays := op == .arrayValue,
      arrays_const := op == .arrayValue,
      uninterpreted := op == .function,
      linear := !(match op, args with
        | .times, _ => decide ((args.filter nonConstant).length ≥ 2)
        | .div, [_, d] => nonConstant d
        | .pow, _ => true
        | _, _ => false) }
  let pay : Theory :=
    match op with
    | .symbol => (match p with | .sym s => ofSym s | _ => none)
    | .function => (match p with | .sym s => ofSort s.ret | _ => none)
    | .forall_ => (match p with | .qvars vs => joinAll (vs.map ofSym) | _ => none)
    | .exists_ => (match p with | .qvars vs => joinAll (vs.map ofSym) | _ => none)
    | .arrayValue => (match p with | .ty idx => ofSort idx | _ => none)
    | _ => none
  join fam pay

/-- needs of a node that a well-sorted operand already has: the operator family of bit-vector, string and
array operators (their operands are bit-vectors, strings, arrays) and the parameter sorts of an applied
function (its arguments have those sorts) -/
def operandImplied (op : Op) (p : Payload) : Theory :=
  let fam : Theory :=
    { none with
      bit_vectors := isBvOp op,
      strings := isStrOp op,
      arrays := op == .arraySelect || op == .arrayStore }
  let pay : Theory :=
    match op with
    | .function => (match p with | .sym s => joinAll (s.params.map ofSort) | _ => none)
    | _ => none
  join fam pay

/-- the needs a single node introduces by itself -/
def own (op : Op) (p : Payload) (args : List Term) : Theory :=
  join (intrinsic op p args) (operandImplied op p)

/-- all features a term uses -/
def features : Term → Theory
  | .node op args p => join (own op p args) (joinAll (args.map features))

/-- the part of `features` that does not rest on operands being well sorted -/
def featuresIntrinsic : Term → Theory
  | .node op args p => join (intrinsic op p args) (joinAll (args.map featuresIntrinsic))

/-- does the term contain a quantifier -/
def hasQuant (t : Term) : Bool := !t.isQF

end PySMT.Features

namespace PySMT.Features
open PySMT

/-- function symbols occur only applied: never as a term of their own, never bound by a quantifier
(every well-sorted SMT-LIB formula; pySMT's checker rejects the former, its parser cannot produce the latter) -/
def nodeFirstOrder (op : Op) (p : Payload) : Bool :=
  match op with
  | .symbol => (match p with | .sym s => !s.isFn | _ => true)
  | .forall_ => (match p with | .qvars vs => vs.all (fun v => !v.isFn) | _ => true)
  | .exists_ => (match p with | .qvars vs => vs.all (fun v => !v.isFn) | _ => true)
  | _ => true

def firstOrder : Term → Bool
  | .node op args p => nodeFirstOrder op p && (args.map firstOrder).all id

/-- node shapes the formula manager produces (arities of leaves and unary operators); `pow` is outside the
modelled fragment (its typing in pySMT is finding F05) -/
def nodeShape (op : Op) (n : Nat) : Bool :=
  match op with
  | .boolConst | .intConst | .realConst | .algebraicConst | .strConst | .bvConst | .symbol => n == 0
  | .toReal | .intToStr | .bvToNatural | .forall_ | .exists_ => n == 1
  | .pow => false
  | _ => true

def shapeOk : Term → Bool
  | .node op args _ => nodeShape op args.length && (args.map shapeOk).all id

/-- the formulas the detection theorem speaks about -/
def inFragment (t : Term) : Bool := firstOrder t && shapeOk t

end PySMT.Features

namespace PySMT.Features
open PySMT

/-- `pow` does not occur (it has no SMT-LIB rank; pySMT's own typing of it is finding F05) -/
def noPow : Term → Bool
  | .node op args _ => (op != .pow) && (args.map noPow).all id

end PySMT.Features

/-!
## Difference logic

Definition used (from the SMT-LIB descriptions of QF_IDL / QF_RDL, read up to reassociation of subtraction):
a formula is in integer (real) difference logic when

* every arithmetic *atom* over that sort -- `=`, `<=`, `<` between two terms of the sort -- is a difference
  constraint: both sides are built from *variable-like* terms and numerals with binary `-` only, and after
  cancelling equal terms on both sides at most one variable-like term remains with a positive and at most one
  with a negative sign (`x - y ⋈ c`, `x ⋈ y`, `x ⋈ c`, `c ⋈ y`, and rearrangements such as `x - c ⋈ y`);
* `+`, `*`, `/`, `pow`, `to_real` over that sort do not occur at all, and `-` occurs only inside the sides of
  such atoms (not as a function argument, array index, ITE branch, …).

A *variable-like* term is any term of the sort whose root is not one of those arithmetic operators (a symbol,
an application, a select, an ITE, `str.len`, …).  SMT-LIB's QF_IDL proper is stricter (`x ⋈ c` is not an atom
there); every formula the stricter reading accepts is accepted here.
-/
namespace PySMT.Features
open PySMT

def isArithOp : Op → Bool
  | .plus | .minus | .times | .div | .pow | .toReal => true
  | _ => false

def isNumeral : Term → Bool
  | .node .intConst _ _ | .node .realConst _ _ => true
  | _ => false

/-- the variable-like leaves of a side of an atom with their signs (`true` = positive); numerals vanish -/
def signedLeaves : Term → Bool → List (Term × Bool)
  | .node .minus [a, b] _, s => signedLeaves a s ++ signedLeaves b (!s)
  | t, s => if isNumeral t then [] else [(t, s)]

/-- at most one positive and one negative variable-like term survive cancellation -/
def differenceConstraint (l r : Term) : Bool :=
  let ls := signedLeaves l true ++ signedLeaves r false
  let pos := (ls.filter (·.2)).map (·.1)
  let neg := (ls.filter (fun x => !x.2)).map (·.1)
  decide ((neg.foldl List.erase pos).length ≤ 1) && decide ((pos.foldl List.erase neg).length ≤ 1)

/-- `dlOk k t inSide`: `t` obeys the discipline for sort `k`; `inSide` says that `t` is (a `-`-descendant of)
a side of an arithmetic atom over `k` -/
def dlOk (k : Ty) : Term → Bool → Bool
  | .node op args p, inSide =>
    let here := Term.node op args p
    if isArithOp op && here.typeOf == some k then
      -- an arithmetic operator over the sort: only `-`, only inside a side
      op == .minus && inSide && (args.map (fun a => dlOk k a true)).all id
    else if (op == .equals || op == .le || op == .lt) && (args.head?.bind Term.typeOf) == some k then
      (match args with
       | [l, r] => differenceConstraint l r
       | _ => false) && (args.map (fun a => dlOk k a true)).all id
    else
      -- anything else: its children start afresh (a `-` directly below is not inside a side);
      -- a variable-like term inside a side lands here too
      (args.map (fun a => dlOk k a false)).all id

/-- the formula is in difference logic over the sort `k` (`.int` or `.real`) -/
def isDL (k : Ty) (t : Term) : Bool := dlOk k t false

end PySMT.Features
