/-!
# The SMT-LIB assertion stack (specification for C16)

Written from the SMT-LIB 2.6 standard (section 4.1.4 "Assertion stack", 4.2.2 `push`/`pop`/
`reset-assertions`) and from the text of property C16; *not* from pySMT.

* The assertion stack is a non-empty list of *assertion levels*; `init` has the single base level.
* `assert`, and the optimisation extensions `maximize/minimize/…` (here: `objective g`) and
  `assert-soft` (here: `soft id f w`), add an item to the current (innermost) level.
* `push n` adds `n` empty levels; `pop n` removes the `n` innermost levels together with everything
  that was added in them, and is an error when `n` is not smaller than the number of levels (the base
  level cannot be popped); `reset-assertions` goes back to the single empty base level.
* `check-sat` and every other command (`other`) leave the stack alone.

Formulas, objectives, weights and soft-goal identifiers are opaque numbers.
-/

namespace PySMT.AssertStack

/-- What an assertion level can hold. -/
inductive Item where
  | assert (f : Nat)
  | objective (g : Nat)
  | soft (id f w : Nat)
  deriving Repr, DecidableEq, Inhabited

/-- Script commands, as far as the assertion stack is concerned. -/
inductive Cmd where
  | assert (f : Nat)
  | objective (g : Nat)
  | soft (id f w : Nat)
  | push (n : Nat)
  | pop (n : Nat)
  | reset
  | check
  | other          -- declare-fun, set-logic, get-model, …: no effect on the assertion stack
  deriving Repr, DecidableEq, Inhabited

/-- Assertion levels, innermost (most recently pushed) first. -/
abbrev Stack := List (List Item)

def init : Stack := [[]]

/-- The only command that can be illegal is a `pop` that would remove the base level. -/
def legal (s : Stack) : Cmd → Bool
  | .pop n => decide (n < s.length)
  | _ => true

def addItem (it : Item) : Stack → Stack
  | [] => [[it]]
  | l :: ls => (l ++ [it]) :: ls

def step (s : Stack) : Cmd → Stack
  | .assert f => addItem (.assert f) s
  | .objective g => addItem (.objective g) s
  | .soft id f w => addItem (.soft id f w) s
  | .push n => List.replicate n [] ++ s
  | .pop n => s.drop n
  | .reset => init
  | .check => s
  | .other => s

/-- Run a command list; `none` as soon as a command is illegal. -/
def runFrom : Stack → List Cmd → Option Stack
  | s, [] => some s
  | s, c :: cs => if legal s c then runFrom (step s c) cs else none

def run (cs : List Cmd) : Option Stack := runFrom init cs

def Legal (cs : List Cmd) : Prop := (run cs).isSome

instance (cs : List Cmd) : Decidable (Legal cs) := inferInstanceAs (Decidable ((run cs).isSome = true))

/-- All live items, oldest first (outermost level first, order of addition inside a level). -/
def items (s : Stack) : List Item := s.reverse.flatten

def assertsOf (its : List Item) : List Nat :=
  its.filterMap fun | .assert f => some f | _ => none

/-- The live assertions, oldest first. -/
def live (s : Stack) : List Nat := assertsOf (items s)

/-! ### Goals -/

/-- The soft clauses `(formula, weight)` with identifier `id`, oldest first. -/
def softOf (id : Nat) (its : List Item) : List (Nat × Nat) :=
  its.filterMap fun | .soft i f w => if i = id then some (f, w) else none | _ => none

/-- A place in the goal list: an objective, or the MaxSMT goal of an identifier. -/
inductive Slot where
  | obj (g : Nat)
  | max (id : Nat)
  deriving Repr, DecidableEq, Inhabited

/-- Objectives in order of appearance; one MaxSMT goal per identifier, placed where its first live
    soft clause is.  `seen` = identifiers that already have their place. -/
def slotsFrom : List Nat → List Item → List Slot
  | _, [] => []
  | seen, .assert _ :: r => slotsFrom seen r
  | seen, .objective g :: r => .obj g :: slotsFrom seen r
  | seen, .soft i _ _ :: r => if i ∈ seen then slotsFrom seen r else .max i :: slotsFrom (i :: seen) r

def slots (its : List Item) : List Slot := slotsFrom [] its

/-- A reported goal: an objective, or a MaxSMT goal with its soft clauses. -/
inductive Goal where
  | obj (g : Nat)
  | maxsmt (soft : List (Nat × Nat))
  deriving Repr, DecidableEq, Inhabited

def fill (its : List Item) : Slot → Goal
  | .obj g => .obj g
  | .max i => .maxsmt (softOf i its)

def goalsOf (its : List Item) : List Goal := (slots its).map (fill its)

/-- The live goals: every MaxSMT goal holds exactly the live soft clauses of its identifier. -/
def liveGoals (s : Stack) : List Goal := goalsOf (items s)

/-! ### The solver API seen as stack commands

An incremental solver offers `add_assertion`, `push`, `pop`, `reset_assertions`, `solve`, and the
one-shot queries `is_sat f`, `is_valid f`, `is_unsat f`, `solve([f])`.  Property C16 says that a
one-shot query leaves the assertions as it found them: as a stack command it is a `check`. -/


inductive Query where
  | isSat | isValid | isUnsat | assuming
  deriving Repr, DecidableEq, Inhabited

/-- A query may also end with an exception that the client catches and survives (the native solver answers
    "unknown", or the formula cannot be converted): which native call of the query raises. -/
inductive Fail where
  | add      -- asserting the query's formula raises
  | solve    -- the check raises (unknown result)
  deriving Repr, DecidableEq, Inhabited

inductive Op where
  | assert (f : Nat)
  | push (n : Nat)
  | pop (n : Nat)
  | reset
  | solve
  | oneshot (q : Query) (f : Nat)
  | read           -- reading the solver's assertion list
  | solveFails     -- `solve()` that raises
  | oneshotFails (q : Query) (fail : Fail) (f : Nat)   -- one-shot query that raises
  | assumingPush (f : Nat)        -- `solve([f])` for an assumption the wrapper cannot pass natively
  | assumingPushFails (f : Nat)   -- … and the wrapper's attempt to assert it raises
  deriving Repr, DecidableEq, Inhabited

def Op.cmd : Op → Cmd
  | .assert f => .assert f
  | .push n => .push n
  | .pop n => .pop n
  | .reset => .reset
  | .solve => .check
  | .oneshot _ _ => .check
  | .read => .other
  | .solveFails => .check
  | .oneshotFails _ _ _ => .check      -- also a query that raises leaves the assertions as it found them
  | .assumingPush _ => .check
  | .assumingPushFails _ => .check

/-- the calls property C16 calls one-shot queries -/
def Op.isOneshot : Op → Bool
  | .oneshot _ _ => true
  | .oneshotFails _ _ _ => true
  | .assumingPush _ => true
  | .assumingPushFails _ => true
  | _ => false

def runOps (ops : List Op) : Option Stack := run (ops.map Op.cmd)

def LegalOps (ops : List Op) : Prop := (runOps ops).isSome

instance (ops : List Op) : Decidable (LegalOps ops) := inferInstanceAs (Decidable ((runOps ops).isSome = true))

end PySMT.AssertStack
