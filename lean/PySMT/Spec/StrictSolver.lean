/-!
# A strict SMT-LIB 2.6 front end (specification for C17)

Written from the SMT-LIB 2.6 standard (section 4.1 "execution modes", 4.2.2 "assertion stack",
4.2.3 "declaring symbols", 4.2.6 "inspecting models"), *not* from pySMT.  It is the reference
against which the text-interface wrapper is proved and tested; `harness/refsolver.py` is the same
machine as a process.

* The solver keeps a stack of *levels* (innermost first); each level owns the sorts and the
  function symbols declared and the formulas asserted while it was the top level.
* `declare-sort` / `declare-fun` are illegal when the name is already in scope (at any level);
  `declare-fun` is illegal when its sort mentions a sort that is not in scope.
* `assert` / `get-value` are illegal when the term mentions a symbol or a sort that is not in scope
  (with exactly that signature).
* `push n` opens `n` empty levels, `pop n` removes `n` levels together with their declarations
  and assertions and is illegal when fewer than `n+1` levels exist (the first level cannot be popped).
* `reset-assertions` drops all levels *and* all declarations (`:global-declarations` is false).
* `get-value` is legal only in sat mode: the last `check-sat` answered `sat` and no command changed
  the assertion stack or the declarations since.
* `set-logic` is legal exactly once; everything except `set-option`/`set-logic`/`exit` needs it first;
  `:produce-models` can only be set before `set-logic`.  Nothing is legal after `exit`.
* Every command yields **exactly one** reply: `success`, a verdict, a value, or `(error …)`;
  an illegal command leaves the state unchanged (continued execution).

Terms are abstract: a term is an identifier together with the symbols (with their sorts) and the
declared (custom) sorts it mentions.  What `check-sat` and `get-value` answer on a legal state is
left to an *oracle* (with its own state, so that scripted, stateful or non-deterministic decision
procedures are all covered).
-/
namespace PySMT.StrictSolver

/-- a declared (uninterpreted) sort: `(declare-sort name arity)` -/
structure SortDecl where
  name : String
  arity : Nat
  deriving DecidableEq, Repr, Inhabited

/-- a symbol with its signature: `(declare-fun name sort)`; `uses` = names of the declared sorts occurring in `sort` -/
structure Sym where
  name : String
  sort : String
  uses : List String
  deriving DecidableEq, Repr, Inhabited

/-- an abstract term / formula: identifier, symbols and declared sorts it mentions -/
structure Expr where
  id : String
  syms : List Sym
  sorts : List SortDecl
  deriving DecidableEq, Repr, Inhabited

/-- the term consisting of one symbol (what `get-value (x)` asks for) -/
def Expr.ofSym (s : Sym) : Expr := ⟨s.name, [s], []⟩

inductive Verdict | sat | unsat | unknown
  deriving DecidableEq, Repr, Inhabited

inductive Cmd
  | setOption (key value : String)
  | setLogic (logic : String)
  | declareSort (d : SortDecl)
  | declareFun (s : Sym)
  | assert (e : Expr)
  | push (n : Nat)
  | pop (n : Nat)
  | resetAssertions
  | checkSat
  | getValue (e : Expr)
  | exit
  deriving DecidableEq, Repr, Inhabited

inductive Reply
  | success
  | verdict (v : Verdict)
  | value (v : String)
  | error (why : String)
  deriving DecidableEq, Repr, Inhabited

structure Level where
  sorts : List SortDecl := []
  syms : List Sym := []
  asserts : List Expr := []
  deriving DecidableEq, Repr, Inhabited

structure State where
  /-- innermost level first; never empty -/
  levels : List Level
  logicSet : Bool
  satMode : Bool
  exited : Bool
  deriving DecidableEq, Repr, Inhabited

def State.init : State := ⟨[{}], false, false, false⟩

def sortNameInScope (ls : List Level) (n : String) : Bool := ls.any (fun l => l.sorts.any (fun d => d.name == n))
def symNameInScope (ls : List Level) (n : String) : Bool := ls.any (fun l => l.syms.any (fun s => s.name == n))
/-- the sort is in scope with exactly this arity -/
def sortInScope (ls : List Level) (d : SortDecl) : Bool := ls.any (fun l => l.sorts.contains d)
/-- the symbol is in scope with exactly this signature -/
def symInScope (ls : List Level) (s : Sym) : Bool := ls.any (fun l => l.syms.contains s)

def exprInScope (ls : List Level) (e : Expr) : Bool :=
  e.syms.all (symInScope ls) && e.sorts.all (sortInScope ls)

/-- all live assertions, innermost level first -/
def live (ls : List Level) : List Expr := ls.flatMap (·.asserts)
/-- all symbols in scope -/
def scopeSyms (ls : List Level) : List Sym := ls.flatMap (·.syms)

def addSort (d : SortDecl) : List Level → List Level
  | [] => []
  | l :: r => { l with sorts := d :: l.sorts } :: r
def addSym (s : Sym) : List Level → List Level
  | [] => []
  | l :: r => { l with syms := s :: l.syms } :: r
def addAssert (e : Expr) : List Level → List Level
  | [] => []
  | l :: r => { l with asserts := e :: l.asserts } :: r

/-- Is the command legal in this state? -/
def legal (st : State) : Cmd → Bool
  | .setOption k _ => !st.exited && (k != ":produce-models" || !st.logicSet)
  | .setLogic _ => !st.exited && !st.logicSet
  | .declareSort d => !st.exited && st.logicSet && !sortNameInScope st.levels d.name
  | .declareFun s => !st.exited && st.logicSet && !symNameInScope st.levels s.name
                      && s.uses.all (sortNameInScope st.levels)
  | .assert e => !st.exited && st.logicSet && exprInScope st.levels e
  | .push _ => !st.exited && st.logicSet
  | .pop n => !st.exited && st.logicSet && decide (n < st.levels.length)
  | .resetAssertions => !st.exited && st.logicSet
  | .checkSat => !st.exited && st.logicSet
  | .getValue e => !st.exited && st.logicSet && st.satMode && exprInScope st.levels e
  | .exit => !st.exited

/-- State after a *legal* command; `v` is the verdict given (only used by `check-sat`). -/
def next (st : State) (v : Verdict) : Cmd → State
  | .setOption _ _ => st
  | .setLogic _ => { st with logicSet := true }
  | .declareSort d => { st with levels := addSort d st.levels, satMode := false }
  | .declareFun s => { st with levels := addSym s st.levels, satMode := false }
  | .assert e => { st with levels := addAssert e st.levels, satMode := false }
  | .push n => { st with levels := List.replicate n {} ++ st.levels, satMode := false }
  | .pop n => { st with levels := st.levels.drop n, satMode := false }
  | .resetAssertions => { st with levels := [{}], satMode := false }
  | .checkSat => { st with satMode := (v == .sat) }
  | .getValue _ => st
  | .exit => { st with exited := true }

/-- legality and successor in one function (`none` = the command is rejected) -/
def step (st : State) (v : Verdict) (c : Cmd) : Option State :=
  if legal st c then some (next st v c) else none

/-- a command stream annotated with the verdicts that were given -/
def run : State → List (Cmd × Verdict) → Option State
  | st, [] => some st
  | st, (c, v) :: cs => match step st v c with
    | some st' => run st' cs
    | none => none

/-- index of the first rejected command of an annotated stream -/
def firstIllegal : State → List (Cmd × Verdict) → Nat → Option Nat
  | _, [], _ => none
  | st, (c, v) :: cs, k => match step st v c with
    | some st' => firstIllegal st' cs (k + 1)
    | none => some k

/-- What the decision procedure behind the front end answers on legal `check-sat` / `get-value`.
    `ω` is the oracle's own state. -/
structure Oracle where
  ω : Type
  init : ω
  verdict : ω → State → Verdict × ω
  value : ω → State → Expr → String

def errorText (c : Cmd) : String :=
  match c with
  | .declareSort _ | .declareFun _ => "already declared or unknown sort"
  | .assert _ | .getValue _ => "unknown symbol or not in sat mode"
  | .pop _ => "pop beyond the first level"
  | _ => "illegal in this mode"

/-- the front end as a reactive machine: exactly one reply per command -/
def respond (O : Oracle) (s : State × O.ω) (c : Cmd) : (State × O.ω) × Reply :=
  if legal s.1 c then
    match c with
    | .checkSat =>
      let r := O.verdict s.2 s.1
      ((next s.1 r.1 c, r.2), .verdict r.1)
    | .getValue e => (s, .value (O.value s.2 s.1 e))
    | c => ((next s.1 .unknown c, s.2), .success)
  else (s, .error (errorText c))

def Reply.isError : Reply → Bool
  | .error _ => true
  | _ => false

/-- run a plain command stream through the reactive machine, failing at the first `(error …)` -/
def exec (O : Oracle) : State × O.ω → List Cmd → Option (State × O.ω)
  | s, [] => some s
  | s, c :: cs => if (respond O s c).2.isError then none else exec O (respond O s c).1 cs

end PySMT.StrictSolver
