import PySMT.Core.FreeVars
import PySMT.Core.Eval
/-!
# Specification of substitution (C05)

Written from the property text and the class docstrings of `pysmt/substituter.py`
("Most General Substitution" / "Most Specific Substitution", `FunctionInterpretation`), not from
the walker code:

* `mgSpec` — *most general*: going down from the root, the **outermost** sub-term that is a key is
  replaced by its value (and not looked into); a node that is not a key is the constructor of its
  operator applied to the results of its children. `f = a & b`, `{a ↦ c, (c & b) ↦ d, (a & b) ↦ c}`
  gives `c`.
* `msSpec` — *most specific*: the children are replaced first, the node is re-constructed, and if
  the **result** is a key it is replaced by its value. The same example gives `d`.
* below a quantifier a key that mentions one of the bound variables is not replaced
  ("occurrences bound by a quantifier are never replaced");
* an application `f(a₁ … aₙ)` of an interpreted symbol `f(x₁ … xₙ) = body` becomes
  `body[x₁ ↦ a₁' … xₙ ↦ aₙ']` where `aᵢ'` are the results for the arguments.

This file imports nothing of the model (`PySMT/Impl`). "The constructor of its operator" is a
**parameter** `mk : Op → Payload → List Term → Term` of the specification functions: substitution
is specified *relative to the constructor layer* (the `FormulaManager` constructors are a separate
component; C04/C06 are about them). The property theorems instantiate `mk` with the model
`Build.rebuild` of those constructors, and say separately what `Build.rebuild` is: the plain node
`Term.node op args p` on normal terms with unchanged children (`rebuild_self`), and in general the
plain node over the new children up to the four documented normalisations (`Build.Shape`:
`Not(Not x) = x`, `ToReal(c)`, `Div` by a constant, `Array(...)` through a `dict`).

The semantic half of the property is stated with `Interp.updSyms` / `Interp.updFns` (the
interpretation "updated with the values of the replacement terms") and the decidable proviso
`NoCapture`.
-/
namespace PySMT.SubstSpec

/-- the constructor layer: operator, payload of the node being replaced, new children ↦ term -/
abbrev Mk := Op → Payload → List Term → Term

abbrev TMap := List (Term × Term)

/-- value of the key `t`, if `t` is a key -/
def find (σ : TMap) (t : Term) : Option Term := (σ.find? (fun kv => kv.1 == t)).map (·.2)

/-- the keys that may be replaced below a binder of `vs` -/
def below (σ : TMap) (vs : List Sym) : TMap :=
  σ.filter (fun kv => kv.1.fv.all (fun x => !vs.contains x))

/-- interpretation of applications: `app f as = some r` when `f` is interpreted -/
abbrev App := Sym → List Term → Option Term

/-- most general substitution -/
def mgSpec (mk : Mk) (app : App) : TMap → Term → Term
  | σ, .node op args p =>
    match find σ (.node op args p) with
    | some v => v
    | none =>
      match op, p with
      | .forall_, .qvars vs => mk op p (args.map (mgSpec mk app (below σ vs)))
      | .exists_, .qvars vs => mk op p (args.map (mgSpec mk app (below σ vs)))
      | .function, .sym f =>
        let as := args.map (mgSpec mk app σ)
        (app f as).getD (mk op p as)
      | _, _ => mk op p (args.map (mgSpec mk app σ))

/-- most specific substitution -/
def msSpec (mk : Mk) (app : App) : TMap → Term → Term
  | σ, .node op args p =>
    let r :=
      match op, p with
      | .forall_, .qvars vs => mk op p (args.map (msSpec mk app (below σ vs)))
      | .exists_, .qvars vs => mk op p (args.map (msSpec mk app (below σ vs)))
      | .function, .sym f =>
        let as := args.map (msSpec mk app σ)
        (app f as).getD (mk op p as)
      | _, _ => mk op p (args.map (msSpec mk app σ))
    (find σ r).getD r

/-- a function interpretation `f(formals) = body` -/
structure Def where
  formals : List Sym
  body    : Term

/-- `d[k] = v` on an association list read as a dictionary: an existing key keeps its place and
gets the new value, a new key goes to the end -/
def upsert (k v : Term) : TMap → TMap
  | [] => [(k, v)]
  | (k', v') :: rest => if k' = k then (k', v) :: rest else (k', v') :: upsert k v rest

/-- the dictionary of a list of pairs: for a repeated key the last value counts -/
def dictOfPairs (ps : TMap) : TMap := ps.foldl (fun d kv => upsert kv.1 kv.2 d) []

/-- `body[formals ↦ actuals]`; for a repeated formal parameter the last actual counts -/
def instantiate (mk : Mk) (ms : Bool) (d : Def) (actuals : List Term) : Term :=
  let σ := dictOfPairs ((d.formals.map Term.sym).zip actuals)
  if ms then msSpec mk (fun _ _ => none) σ d.body else mgSpec mk (fun _ _ => none) σ d.body

def appOf (mk : Mk) (ms : Bool) (defs : List (Sym × Def)) : App :=
  fun f as => ((defs.find? (fun fd => fd.1 == f)).map (·.2)).map (fun d => instantiate mk ms d as)

/-! ## the semantic statement -/

/-- a symbol-keyed substitution -/
abbrev SMap := List (Sym × Term)

def SMap.get : SMap → Sym → Option Term
  | [], _ => none
  | (k, v) :: rest, x => if k = x then some v else SMap.get rest x

def SMap.toTMap (σ : SMap) : TMap := σ.map (fun kv => (Term.sym kv.1, kv.2))

/-- remove the keys bound by `vs` -/
def SMap.drop (σ : SMap) (vs : List Sym) : SMap := σ.filter (fun kv => !vs.contains kv.1)

/-- `I` updated with the values (under `I`) of the replacement terms -/
def updSyms (I : Interp) (σ : SMap) : Interp :=
  { I with sym := fun x => match σ.get x with | some v => eval I v | none => I.sym x }

/-- `I` updated with the supplied function interpretations: `f(v₁ … vₙ)` is the value of the body
with the formal parameters bound to `v₁ … vₙ` (an application to another number of arguments, which
no well-typed term contains, keeps its meaning) -/
def updFns (I : Interp) (defs : List (Sym × Def)) : Interp :=
  { I with fn := fun f vs =>
      match (defs.find? (fun fd => fd.1 == f)).map (·.2) with
      | some d => if vs.length = d.formals.length then eval (I.bindMany (d.formals.zip vs)) d.body else I.fn f vs
      | none => I.fn f vs }

/-- both updates at once -/
def upd (I : Interp) (σ : SMap) (defs : List (Sym × Def)) : Interp :=
  { I with sym := (updSyms I σ).sym, fn := (updFns I defs).fn }

/-- The proviso of the property: no free symbol of a replacement term falls under a quantifier
binding it. At a quantifier binding `vs` the keys in `vs` stop being replaced; every other key that
occurs free in the body must have a replacement none of whose free symbols is in `vs`. -/
def NoCapture : SMap → Term → Bool
  | σ, .node op args p =>
    match op.isQuantifier, p with
    | true, .qvars vs =>
      let σ' := σ.drop vs
      let bodyFv := (args.map Term.fv).flatten
      σ'.all (fun kv => !bodyFv.contains kv.1 || kv.2.fv.all (fun z => !vs.contains z))
        && (args.map (NoCapture σ')).all id
    | _, _ => (args.map (NoCapture σ)).all id

end PySMT.SubstSpec
