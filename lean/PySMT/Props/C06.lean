import PySMT.Proofs.C06Infix3
import PySMT.Proofs.C06Examples
import PySMT.Proofs.BuildAgree
import PySMT.Proofs.C06More
/-!
# C06 — derived constructors and infix operators: the property theorems

Model: `Impl/Mk.lean` (every `FormulaManager` constructor, `shortcuts.Abs`, the infix layer
interpreted over the regenerated table `Gen/Infix.lean`). Reference semantics: `Core/Eval.lean`.

Reading guide. `eval I t` is the value of `t`; `truth I t = (eval I t).isTrue`; `ofBV x` is the
value of the bit-vector `x : BitVec w` (Lean core). Every theorem has the form "if the
constructor returns the formula `t`, then `t` denotes the named function of the argument
*values*, whatever these values are" (all arities, all widths); companion theorems state
exactly when a constructor refuses its arguments.

Boolean forms are stated on truth values (they hold without typing hypotheses); numeric and
bit-vector forms are stated for arguments that evaluate to integers / rationals / bit-vectors
of one width.

Weaker-than-stated theorems (`_partial`):
* `shiftInt_denotes_partial` — a shift by a Python integer `k ≥ 2^w` (or `k < 0`) does not
  build the all-zero / sign-filled vector the mathematical shift would give: the code refuses
  it with `PysmtValueError` ("Cannot express k in w bits", the documented domain of `BV`),
  see `shiftInt_refused`. The theorem covers `0 ≤ k < 2^w`.

Theorems that only restate a definition (kept because the property lists every constructor /
method): `ite/equals/function/select/store/array/strings_denote`, `call_denotes` (the evaluator's
clause of the node the constructor builds), `infix_direct(2)_denotes` (the dispatch; the semantic
versions are `direct_methods_denote`, `select_store_methods_denote`).

Not covered by any theorem: `Pow` (no semantics in `Core/Eval`; its constant folding is checked
by the harness only), `Symbol`/`FreshSymbol`/`normalize` (C04), the `@assert_infix_enabled`
decorators (infix notation is assumed enabled).

Hypotheses to be aware of: bit-vector theorems quantify over values `ofBV x` of one width `w`; where
the code reads `bv_width()` the theorems either take `bvWidth s = .ok w` or (the `typed_…` versions)
`s.wt`, `compOK s` and `s.typeOf = some (.bv w)` (`bvWidth_of_typeOf`); that a well-typed term of sort
`BV w` evaluates to a width-`w` value is not proved here.
-/
namespace PySMT.Props.C06
open PySMT PySMT.Mk PySMT.Mk.Infix PySMT.C06

/-! ## comparisons, disequality, xor -/

theorem ge_denotes (I : Interp) {a b t : Term} (h : Mk.GE a b = .ok t) :
    (∀ x y : Int, eval I a = .i x → eval I b = .i y → eval I t = .b (decide (x ≥ y))) ∧
    (∀ x y : Rat, eval I a = .r x → eval I b = .r y → eval I t = .b (decide (x ≥ y))) :=
  PySMT.C06.ge_denotes I h

theorem gt_denotes (I : Interp) {a b t : Term} (h : Mk.GT a b = .ok t) :
    (∀ x y : Int, eval I a = .i x → eval I b = .i y → eval I t = .b (decide (x > y))) ∧
    (∀ x y : Rat, eval I a = .r x → eval I b = .r y → eval I t = .b (decide (x > y))) :=
  PySMT.C06.gt_denotes I h

theorem le_denotes (I : Interp) {a b t : Term} (h : Mk.LE a b = .ok t) :
    (∀ x y : Int, eval I a = .i x → eval I b = .i y → eval I t = .b (decide (x ≤ y))) ∧
    (∀ x y : Rat, eval I a = .r x → eval I b = .r y → eval I t = .b (decide (x ≤ y))) :=
  PySMT.C06.le_denotes I h

theorem lt_denotes (I : Interp) {a b t : Term} (h : Mk.LT a b = .ok t) :
    (∀ x y : Int, eval I a = .i x → eval I b = .i y → eval I t = .b (decide (x < y))) ∧
    (∀ x y : Rat, eval I a = .r x → eval I b = .r y → eval I t = .b (decide (x < y))) :=
  PySMT.C06.lt_denotes I h

theorem ne_denotes (I : Interp) {a b t : Term} (h : Mk.NotEquals a b = .ok t) :
    truth I t = decide (eval I a ≠ eval I b) :=
  notEquals_truth I h

theorem xor_denotes (I : Interp) {a b t : Term} (h : Mk.Xor a b = .ok t) :
    truth I t = (truth I a != truth I b) :=
  xor_truth I h

theorem equalsOrIff_denotes (I : Interp) {a b t : Term} (h : Mk.EqualsOrIff a b = .ok t) :
    (a.typeOf = some .bool → truth I t = (truth I a == truth I b)) ∧
    (a.typeOf ≠ some .bool → truth I t = decide (eval I a = eval I b)) :=
  equalsOrIff_truth I h

/-! ## primitive Boolean constructors with their normalisations -/

theorem not_denotes (I : Interp) {a t : Term} (h : Mk.Not a = .ok t) : truth I t = !truth I a :=
  not_truth I h

theorem and_denotes (I : Interp) {as : List Term} {t : Term} (h : Mk.And as = .ok t) :
    truth I t = as.all (truth I) :=
  and_truth I h

theorem or_denotes (I : Interp) {as : List Term} {t : Term} (h : Mk.Or as = .ok t) :
    truth I t = as.any (truth I) :=
  or_truth I h

theorem implies_denotes (I : Interp) {a b t : Term} (h : Mk.Implies a b = .ok t) :
    truth I t = (!truth I a || truth I b) :=
  implies_truth I h

theorem iff_denotes (I : Interp) {a b t : Term} (h : Mk.Iff a b = .ok t) :
    truth I t = (truth I a == truth I b) :=
  iff_truth I h

/-! ## cardinality forms, all-different (every arity, including 0 and 1) -/

/-- true iff the number of true arguments is at most one -/
theorem atMostOne_denotes (I : Interp) {as : List Term} {t : Term} (h : Mk.AtMostOne as = .ok t) :
    truth I t = decide ((as.filter (truth I)).length ≤ 1) :=
  atMostOne_truth I h

/-- true iff exactly one argument is true -/
theorem exactlyOne_denotes (I : Interp) {as : List Term} {t : Term} (h : Mk.ExactlyOne as = .ok t) :
    truth I t = decide ((as.filter (truth I)).length = 1) :=
  exactlyOne_truth I h

/-- true iff the arguments are pairwise different (`differ`: different values; on Boolean
operands, different truth values) -/
theorem allDifferent_denotes (I : Interp) {as : List Term} {t : Term} (h : Mk.AllDifferent as = .ok t) :
    truth I t = decide (as.Pairwise (differ I)) :=
  allDifferent_truth I h

/-! ## minimum / maximum (halving recursion, every arity ≥ 1) -/

theorem min_denotes (I : Interp) {as : List Term} {t : Term} (h : Mk.Min as = .ok t) :
    (∀ xs : List Int, as.map (eval I) = xs.map Val.i → ∃ m, eval I t = .i m ∧ m ∈ xs ∧ ∀ x ∈ xs, m ≤ x) ∧
    (∀ xs : List Rat, as.map (eval I) = xs.map Val.r → ∃ m, eval I t = .r m ∧ m ∈ xs ∧ ∀ x ∈ xs, m ≤ x) :=
  PySMT.C06.min_denotes I h

theorem max_denotes (I : Interp) {as : List Term} {t : Term} (h : Mk.Max as = .ok t) :
    (∀ xs : List Int, as.map (eval I) = xs.map Val.i → ∃ m, eval I t = .i m ∧ m ∈ xs ∧ ∀ x ∈ xs, x ≤ m) ∧
    (∀ xs : List Rat, as.map (eval I) = xs.map Val.r → ∃ m, eval I t = .r m ∧ m ∈ xs ∧ ∀ x ∈ xs, x ≤ m) :=
  PySMT.C06.max_denotes I h

/-- unsigned (`sign = false`: order of `toNat`) and signed (`sign = true`: order of `toInt`) minimum -/
theorem minBV_denotes (I : Interp) (sign : Bool) {as : List Term} {t : Term} {w : Nat}
    (h : Mk.MinBV sign as = .ok t) (xs : List (BitVec w)) (hv : as.map (eval I) = xs.map ofBV) :
    ∃ m, eval I t = ofBV m ∧ m ∈ xs ∧
      ∀ x ∈ xs, if sign then m.toInt ≤ x.toInt else m.toNat ≤ x.toNat :=
  PySMT.C06.minBV_denotes I sign h xs hv

theorem maxBV_denotes (I : Interp) (sign : Bool) {as : List Term} {t : Term} {w : Nat}
    (h : Mk.MaxBV sign as = .ok t) (xs : List (BitVec w)) (hv : as.map (eval I) = xs.map ofBV) :
    ∃ m, eval I t = ofBV m ∧ m ∈ xs ∧
      ∀ x ∈ xs, if sign then x.toInt ≤ m.toInt else x.toNat ≤ m.toNat :=
  PySMT.C06.maxBV_denotes I sign h xs hv

/-- no arguments: refused (the `assert len(exprs) > 0` of the code) -/
theorem minMax_empty : Mk.Min [] = .error .assertion ∧ Mk.Max [] = .error .assertion :=
  ⟨PySMT.C06.minMax_empty _ _, PySMT.C06.minMax_empty _ _⟩

/-! ## arithmetic: n-ary sum / product, difference, division by a constant, to_real, abs -/

theorem plus_denotes (I : Interp) {as : List Term} {t : Term} (h : Mk.Plus as = .ok t) :
    (∀ (x : Int) (xs : List Int), as.map (eval I) = (x :: xs).map Val.i → eval I t = .i (xs.foldl (· + ·) x)) ∧
    (∀ (x : Rat) (xs : List Rat), as.map (eval I) = (x :: xs).map Val.r → eval I t = .r (xs.foldl (· + ·) x)) :=
  PySMT.C06.plus_denotes I h

theorem times_denotes (I : Interp) {as : List Term} {t : Term} (h : Mk.Times as = .ok t) :
    (∀ (x : Int) (xs : List Int), as.map (eval I) = (x :: xs).map Val.i → eval I t = .i (xs.foldl (· * ·) x)) ∧
    (∀ (x : Rat) (xs : List Rat), as.map (eval I) = (x :: xs).map Val.r → eval I t = .r (xs.foldl (· * ·) x)) :=
  PySMT.C06.times_denotes I h

theorem minus_denotes (I : Interp) {a b t : Term} (h : Mk.Minus a b = .ok t) :
    (∀ x y : Int, eval I a = .i x → eval I b = .i y → eval I t = .i (x - y)) ∧
    (∀ x y : Rat, eval I a = .r x → eval I b = .r y → eval I t = .r (x - y)) :=
  PySMT.C06.minus_denotes I h

/-- `Div` by a non-zero real constant is rewritten into a product and still denotes the quotient -/
theorem div_denotes (I : Interp) {a b t : Term} (h : Mk.Div a b = .ok t) :
    (∀ x y : Rat, y ≠ 0 → eval I a = .r x → eval I b = .r y → eval I t = .r (x / y)) ∧
    (∀ x y : Int, y ≠ 0 → eval I a = .i x → eval I b = .i y → eval I t = .i (x / y)) :=
  PySMT.C06.div_denotes I h

theorem toReal_denotes (I : Interp) {a t : Term} (h : Mk.ToReal a = .ok t) :
    (a.typeOf = some .int → ∀ x : Int, eval I a = .i x → eval I t = .r x) ∧
    (a.typeOf = some .real → eval I t = eval I a) :=
  PySMT.C06.toReal_denotes I h

/-- `shortcuts.Abs` on integers: `|x|`; on reals: the `r ≥ 0` with `r = x ∨ r = -x`; refused on other sorts -/
theorem abs_denotes (I : Interp) {a t : Term} (h : Mk.Abs a = .ok t) :
    (a.typeOf = some .int → ∀ x : Int, eval I a = .i x → eval I t = .i x.natAbs) ∧
    (a.typeOf = some .real → ∀ x : Rat, eval I a = .r x →
      ∃ r : Rat, eval I t = .r r ∧ 0 ≤ r ∧ (r = x ∨ r = -x)) :=
  ⟨fun hty x ha => abs_denotes_int I h hty x ha, fun hty x ha => abs_denotes_real I h hty x ha⟩

theorem abs_refused (a : Term) (τ : Ty) (hty : a.typeOf = some τ) (h1 : τ ≠ .int) (h2 : τ ≠ .real) :
    Mk.Abs a = .error .pyValue :=
  abs_error a τ hty h1 h2

/-! ## bit-vector constants -/

/-- `SBV(n, w)` in range: the constant whose two's complement value is `n` -/
theorem sbv_denotes (n : Int) (w : Nat) (hw : 0 < w) (hlo : -((2 : Int) ^ (w - 1)) ≤ n)
    (hhi : n < (2 : Int) ^ (w - 1)) :
    Mk.SBV n w = .ok (Term.bvc (BitVec.ofInt w n).toNat w) ∧ (BitVec.ofInt w n).toInt = n ∧
      (BitVec.ofInt w n).toNat < 2 ^ w :=
  PySMT.C06.sbv_denotes n w hw hlo hhi

/-- `SBV(n, w)` out of range ⇔ value error -/
theorem sbv_refused_iff (n : Int) (w : Nat) :
    Mk.SBV n w = .error .value ↔ (w = 0 ∨ n < -((2 : Int) ^ (w - 1)) ∨ n > (2 : Int) ^ (w - 1) - 1) :=
  sbv_error_iff n w

/-- `BV(n, w)` out of range ⇔ value error -/
theorem bv_refused_iff (n : Int) (w : Nat) : Mk.BV n w = .error .value ↔ (w = 0 ∨ n < 0 ∨ n ≥ 2 ^ w) :=
  bv_error_iff n w

theorem bvOneZero_denotes (w : Nat) (hw : 0 < w) :
    Mk.BVOne w = .ok (Term.bvc 1 w) ∧ Mk.BVZero w = .ok (Term.bvc 0 w) :=
  ⟨bvOne_denotes w hw, bvZero_denotes w hw⟩

/-! ## bit-vector operators -/

/-- the binary operators `and or xor add sub mul udiv urem sdiv srem` (`BinOp.fn` = the Lean core
`BitVec` operation, division by zero as in SMT-LIB) -/
theorem bvBinary_denotes (I : Interp) (o : BinOp) {a b t : Term} (h : bvBin o.op a b = .ok t) {w : Nat}
    (x y : BitVec w) (ha : eval I a = ofBV x) (hb : eval I b = ofBV y) : eval I t = ofBV (o.fn x y) :=
  bvBin_eval I o h x y ha hb

/-- n-ary `BVAnd / BVOr / BVAdd / BVMul`: the left fold over the argument values (arity ≥ 1) -/
theorem bvNary_denotes (I : Interp) (o : BinOp) {as : List Term} {t : Term} (h : bvNary o.op as = .ok t)
    {w : Nat} (x : BitVec w) (xs : List (BitVec w)) (hv : as.map (eval I) = (x :: xs).map ofBV) :
    eval I t = ofBV (xs.foldl o.fn x) :=
  bvNary_eval I o h x xs hv

theorem bvNary_refused (op : Op) : bvNary op [] = .error .value := bvNary_empty op

/-- n-ary `BVConcat` (arity ≥ 2): left-associated, first argument most significant -/
theorem bvConcat_denotes (I : Interp) {a b : Term} {rest : List Term} {t : Term}
    (h : Mk.BVConcat (a :: b :: rest) = .ok t) :
    eval I t = (rest.map (eval I)).foldl Sem.bvConcat (Sem.bvConcat (eval I a) (eval I b)) :=
  PySMT.C06.bvConcat_denotes I h

theorem bvConcat2_denotes (I : Interp) {a b t : Term} (h : Mk.BVConcat [a, b] = .ok t) {w v : Nat}
    (x : BitVec w) (y : BitVec v) (ha : eval I a = ofBV x) (hb : eval I b = ofBV y) :
    eval I t = ofBV (x ++ y) :=
  bvConcat_two I h x y ha hb

theorem bvConcat_refused (as : List Term) (h : as.length < 2) : Mk.BVConcat as = .error .index :=
  bvConcat_short as h

theorem bvNot_denotes (I : Interp) {a t : Term} (h : Mk.BVNot a = .ok t) {w : Nat} (x : BitVec w)
    (ha : eval I a = ofBV x) : eval I t = ofBV (~~~x) :=
  PySMT.C06.bvNot_denotes I h x ha

theorem bvNeg_denotes (I : Interp) {a t : Term} (h : Mk.BVNeg a = .ok t) {w : Nat} (x : BitVec w)
    (ha : eval I a = ofBV x) : eval I t = ofBV (-x) :=
  PySMT.C06.bvNeg_denotes I h x ha

theorem bvugt_denotes (I : Interp) {a b t : Term} (h : Mk.BVUGT a b = .ok t) {w : Nat} (x y : BitVec w)
    (ha : eval I a = ofBV x) (hb : eval I b = ofBV y) : eval I t = .b (decide (x.toNat > y.toNat)) :=
  PySMT.C06.bvugt_denotes I h x y ha hb

theorem bvuge_denotes (I : Interp) {a b t : Term} (h : Mk.BVUGE a b = .ok t) {w : Nat} (x y : BitVec w)
    (ha : eval I a = ofBV x) (hb : eval I b = ofBV y) : eval I t = .b (decide (x.toNat ≥ y.toNat)) :=
  PySMT.C06.bvuge_denotes I h x y ha hb

theorem bvsgt_denotes (I : Interp) {a b t : Term} (h : Mk.BVSGT a b = .ok t) {w : Nat} (x y : BitVec w)
    (ha : eval I a = ofBV x) (hb : eval I b = ofBV y) : eval I t = .b (decide (x.toInt > y.toInt)) :=
  PySMT.C06.bvsgt_denotes I h x y ha hb

theorem bvsge_denotes (I : Interp) {a b t : Term} (h : Mk.BVSGE a b = .ok t) {w : Nat} (x y : BitVec w)
    (ha : eval I a = ofBV x) (hb : eval I b = ofBV y) : eval I t = .b (decide (x.toInt ≥ y.toInt)) :=
  PySMT.C06.bvsge_denotes I h x y ha hb

theorem bvult_denotes (I : Interp) {a b t : Term} (h : Mk.BVULT a b = .ok t) {w : Nat} (x y : BitVec w)
    (ha : eval I a = ofBV x) (hb : eval I b = ofBV y) : eval I t = .b (decide (x.toNat < y.toNat)) :=
  bvult_eval I h x y ha hb

theorem bvule_denotes (I : Interp) {a b t : Term} (h : Mk.BVULE a b = .ok t) {w : Nat} (x y : BitVec w)
    (ha : eval I a = ofBV x) (hb : eval I b = ofBV y) : eval I t = .b (decide (x.toNat ≤ y.toNat)) :=
  PySMT.C06.bvule_denotes I h x y ha hb

theorem bvslt_denotes (I : Interp) {a b t : Term} (h : Mk.BVSLT a b = .ok t) {w : Nat} (x y : BitVec w)
    (ha : eval I a = ofBV x) (hb : eval I b = ofBV y) : eval I t = .b (decide (x.toInt < y.toInt)) :=
  bvslt_eval I h x y ha hb

theorem bvsle_denotes (I : Interp) {a b t : Term} (h : Mk.BVSLE a b = .ok t) {w : Nat} (x y : BitVec w)
    (ha : eval I a = ofBV x) (hb : eval I b = ofBV y) : eval I t = .b (decide (x.toInt ≤ y.toInt)) :=
  PySMT.C06.bvsle_denotes I h x y ha hb

theorem bvNand_denotes (I : Interp) {a b t : Term} (h : Mk.BVNand a b = .ok t) {w : Nat} (x y : BitVec w)
    (ha : eval I a = ofBV x) (hb : eval I b = ofBV y) : eval I t = ofBV (~~~(x &&& y)) :=
  PySMT.C06.bvNand_denotes I h x y ha hb

theorem bvNor_denotes (I : Interp) {a b t : Term} (h : Mk.BVNor a b = .ok t) {w : Nat} (x y : BitVec w)
    (ha : eval I a = ofBV x) (hb : eval I b = ofBV y) : eval I t = ofBV (~~~(x ||| y)) :=
  PySMT.C06.bvNor_denotes I h x y ha hb

theorem bvXnor_denotes (I : Interp) {a b t : Term} (h : Mk.BVXnor a b = .ok t) {w : Nat} (x y : BitVec w)
    (ha : eval I a = ofBV x) (hb : eval I b = ofBV y) : eval I t = ofBV (~~~(x ^^^ y)) :=
  PySMT.C06.bvXnor_denotes I h x y ha hb

/-- `BVSMod` builds SMT-LIB's abbreviation of `bvsmod` (`smodStd`, transcribed clause by clause
from the standard) -/
theorem bvsmod_std (I : Interp) {s t r : Term} {w : Nat} (h : Mk.BVSMod s t = .ok r)
    (hw : bvWidth s = .ok w) (x y : BitVec w) (hs : eval I s = ofBV x) (ht : eval I t = ofBV y) :
    eval I r = ofBV (smodStd x y) :=
  PySMT.C06.bvsmod_std I h hw x y hs ht

/-- … which is Lean core's `BitVec.smod` … -/
theorem bvsmod_core {w : Nat} (x y : BitVec w) : smodStd x y = BitVec.smod x y :=
  smodStd_eq_smod x y

/-- … whose two's complement value is the floor-modulus of the operands' values (sign of the divisor) -/
theorem bvsmod_arith {w : Nat} (x y : BitVec w) : (smodStd x y).toInt = x.toInt.fmod y.toInt := by
  rw [smodStd_eq_smod, BitVec.toInt_smod]

/-- `BVRepeat(x, k)`, `k ≥ 1`: `k` copies of `x` -/
theorem repeat_denotes (I : Interp) {f t : Term} {k : Int} (h : Mk.BVRepeat f k = .ok t) {w : Nat}
    (x : BitVec w) (hf : eval I f = ofBV x) :
    1 ≤ k ∧ eval I t = ofBV (BitVec.replicate k.toNat x) :=
  PySMT.C06.repeat_denotes I h x hf

/-- `BVRepeat(x, k)`, `k < 1`: refused (repaired, see the finding recorded for C06) -/
theorem repeat_refused (f : Term) (k : Int) (hk : k < 1) : Mk.BVRepeat f k = .error .value :=
  repeat_error f k hk

/-- shifts (`shl`, `lshr`, `ashr`) by a Python integer `0 ≤ k < 2^w`.
PARTIAL: for `k ≥ 2^w` (or `k < 0`) no formula is built, see `shiftInt_refused`. -/
theorem shiftInt_denotes_partial (I : Interp) (o : ShiftOp) {l t : Term} {k : Int} {w : Nat}
    (h : o.mk l (.i k) = .ok t) (hw : bvWidth l = .ok w) (x : BitVec w) (hl : eval I l = ofBV x) :
    0 ≤ k ∧ k < 2 ^ w ∧ eval I t = ofBV (o.fn x k.toNat) :=
  shiftInt_denotes I o h hw x hl

theorem shiftInt_refused (o : ShiftOp) (l : Term) (k : Int) (w : Nat) (hw : bvWidth l = .ok w)
    (hk : k < 0 ∨ k ≥ 2 ^ w) : o.mk l (.i k) = .error .value :=
  shiftInt_error o l k w hw hk

theorem shift_denotes (I : Interp) (o : ShiftOp) {l r t : Term} {w : Nat}
    (h : o.mk l (.t r) = .ok t) (x y : BitVec w) (hl : eval I l = ofBV x) (hr : eval I r = ofBV y) :
    eval I t = ofBV (o.fn x y.toNat) :=
  shiftTerm_denotes I o h x y hl hr

theorem bvRol_denotes (I : Interp) {f t : Term} {k : Int} (h : Mk.BVRol f k = .ok t) {w : Nat}
    (x : BitVec w) (hf : eval I f = ofBV x) : eval I t = ofBV (x.rotateLeft k.toNat) :=
  PySMT.C06.bvRol_denotes I h x hf

theorem bvRor_denotes (I : Interp) {f t : Term} {k : Int} (h : Mk.BVRor f k = .ok t) {w : Nat}
    (x : BitVec w) (hf : eval I f = ofBV x) : eval I t = ofBV (x.rotateRight k.toNat) :=
  PySMT.C06.bvRor_denotes I h x hf

theorem bvZExt_denotes (I : Interp) {f t : Term} {k : Int} (h : Mk.BVZExt f k = .ok t) {w : Nat}
    (hw : bvWidth f = .ok w) (x : BitVec w) (hf : eval I f = ofBV x) :
    eval I t = ofBV (x.setWidth (w + k.toNat)) :=
  PySMT.C06.bvZExt_denotes I h hw x hf

theorem bvSExt_denotes (I : Interp) {f t : Term} {k : Int} (h : Mk.BVSExt f k = .ok t) {w : Nat}
    (hw : bvWidth f = .ok w) (x : BitVec w) (hf : eval I f = ofBV x) :
    eval I t = ofBV (x.signExtend (w + k.toNat)) :=
  PySMT.C06.bvSExt_denotes I h hw x hf

theorem bvExtract_denotes (I : Interp) {f t : Term} {s e : Int} (h : Mk.BVExtract f s (some e) = .ok t)
    {w : Nat} (x : BitVec w) (hf : eval I f = ofBV x) :
    0 ≤ s ∧ s ≤ e ∧ eval I t = ofBV (x.extractLsb' s.toNat (e.toNat - s.toNat + 1)) :=
  PySMT.C06.bvExtract_denotes I h x hf

theorem bvComp_denotes (I : Interp) {a b t : Term} (h : Mk.BVComp a b = .ok t) {w : Nat} (x y : BitVec w)
    (ha : eval I a = ofBV x) (hb : eval I b = ofBV y) : eval I t = ofBV (if x = y then 1#1 else 0#1) :=
  PySMT.C06.bvComp_denotes I h x y ha hb

theorem bvToNatural_denotes (I : Interp) {a t : Term} (h : Mk.BVToNatural a = .ok t) {w : Nat} (x : BitVec w)
    (ha : eval I a = ofBV x) : eval I t = .i x.toNat :=
  PySMT.C06.bvToNatural_denotes I h x ha

/-! ## the infix layer, on the *regenerated* dispatch table `Gen.Infix.table` -/

/-- every entry of the regenerated table is of a verified shape (dispatch to manager functions
of the kinds `pyOp` prescribes / direct call of the function of the same name / one of the
aligned structured bodies / a hand-modelled piece with the aligned AST hash), and no method
name occurs twice -/
theorem infix_table_conforms : Gen.Infix.table.all entryOK = true ∧
    Gen.Infix.table.all (fun e => (Gen.Infix.table.lookup e.1).isSome &&
      ((Gen.Infix.table.lookup e.1).map (fun m => m.beq e.2) == some true)) = true :=
  table_ok

/-- every manager function used by the table denotes its kind (`Kind.Denotes`) -/
theorem manager_denotes (I : Interp) {f : String} {k : Kind} (hk : mgrKind f = some k) {a b t : Term}
    (h : call f [.t a, .t b] = .ok t) : k.Denotes I a b t :=
  mgr_denotes I hk h

/-- for every entry of the regenerated table that goes through `_apply_infix` (all binary
operators and named binary methods): the formula built on `(a, b)` denotes the Python-named
operation `pyOp name` — the bit-vector operation for a bit-vector receiver, the other one
otherwise -/
theorem infix_table_denotes (I : Interp) {name p : String} {f g : Option String}
    (hl : Gen.Infix.table.lookup name = some ⟨[p], false, [.ret (.infix .self (.var p) f g)]⟩)
    {a b t : Term} (h : Infix.run Gen.Infix.table name a [.t b] = .ok t) :
    ∃ kn kb τ, pyOp name = some (kn, kb) ∧ a.typeOf = some τ ∧
      (τ.isBv = true → ∃ k, kb = some k ∧ k.Denotes I a b t) ∧
      (τ.isBv = false → ∃ k, kn = some k ∧ k.Denotes I a b t) :=
  PySMT.C06.infix_table_denotes I hl h

/-- literal promotion: a Python literal on the right is replaced by the constant of the
receiver's sort before the dispatch -/
theorem infix_literal {a : Term} {τ : Ty} (hτ : a.typeOf = some τ) (lit : Arg) (c : Term)
    (hc : prepareArg lit τ = .ok c) (f g : Option String) :
    applyInfix a lit f g = applyInfix a (.t c) f g :=
  applyInfix_literal hτ lit c hc f g

theorem infix_literal_constants (n : Int) (q : Rat) (v : Bool) (w : Nat) :
    prepareArg (.i n) .int = .ok (Term.int n) ∧ prepareArg (.i n) .real = .ok (Term.real n) ∧
    prepareArg (.q q) .real = .ok (Term.real q) ∧ prepareArg (.b v) .bool = .ok (Term.bool v) ∧
    prepareArg (.i n) (.bv w) = Mk.BV n w :=
  ⟨rfl, rfl, rfl, rfl, rfl⟩

/-- one- and two-parameter methods that call the manager function of their own name: these two theorems
only restate the dispatch (`run … = call name …`); the semantic statements are `direct_methods_denote`
and `select_store_methods_denote` -/
theorem infix_direct_denotes {name p F : String}
    (hl : Gen.Infix.table.lookup name = some ⟨[p], false, [.ret (.mgr F [.self, .var p])]⟩)
    (a : Term) (b : Arg) : Infix.run Gen.Infix.table name a [b] = call name [.t a, b] :=
  infix_direct1 hl a b

theorem infix_direct2_denotes {name p1 p2 F : String}
    (hl : Gen.Infix.table.lookup name = some ⟨[p1, p2], false, [.ret (.mgr F [.self, .var p1, .var p2])]⟩)
    (a : Term) (b c : Arg) : Infix.run Gen.Infix.table name a [b, c] = call name [.t a, b, c] :=
  infix_direct2 hl a b c

/-- `-a` -/
theorem neg_denotes (I : Interp) {a t : Term} (h : Infix.run Gen.Infix.table "__neg__" a [] = .ok t) :
    (∀ (w : Nat) (x : BitVec w), a.typeOf = some (.bv w) → eval I a = ofBV x → eval I t = ofBV (-x)) ∧
    (a.typeOf = some .int → ∀ x : Int, eval I a = .i x → eval I t = .i (-x)) ∧
    (a.typeOf = some .real → ∀ x : Rat, eval I a = .r x → eval I t = .r (-x)) :=
  PySMT.C06.neg_denotes I h

/-- `~a` -/
theorem invert_denotes (I : Interp) {a t : Term} (h : Infix.run Gen.Infix.table "__invert__" a [] = .ok t) :
    (∀ (w : Nat) (x : BitVec w), a.typeOf = some (.bv w) → eval I a = ofBV x → eval I t = ofBV (~~~x)) ∧
    (a.typeOf = some .bool → truth I t = !truth I a) :=
  PySMT.C06.invert_denotes I h

/-- `b - a` evaluated as `a.__rsub__(b)`: integers and reals -/
theorem rsub_denotes (I : Interp) {a b t : Term}
    (h : Infix.run Gen.Infix.table "__rsub__" a [.t b] = .ok t) :
    (a.typeOf = some .int → ∀ x y : Int, eval I a = .i x → eval I b = .i y → eval I t = .i (y - x)) ∧
    (a.typeOf = some .real → ∀ x y : Rat, eval I a = .r x → eval I b = .r y → eval I t = .r (y - x)) :=
  rsub_denotes_arith I h

/-- `b - a` evaluated as `a.__rsub__(b)`: bit-vectors -/
theorem rsub_bv_denotes (I : Interp) {a b t : Term} {w : Nat}
    (h : Infix.run Gen.Infix.table "__rsub__" a [.t b] = .ok t) (hty : a.typeOf = some (.bv w))
    (x y : BitVec w) (ha : eval I a = ofBV x) (hb : eval I b = ofBV y) : eval I t = ofBV (y - x) :=
  rsub_denotes_bv I h hty x y ha hb

/-- `n - a` for a Python integer `n` and a bit-vector `a` -/
theorem rsub_bv_int_denotes (I : Interp) {a t : Term} {w : Nat} {n : Int}
    (h : Infix.run Gen.Infix.table "__rsub__" a [.i n] = .ok t) (hty : a.typeOf = some (.bv w))
    (hw : bvWidth a = .ok w) (x : BitVec w) (ha : eval I a = ofBV x) :
    0 ≤ n ∧ n < 2 ^ w ∧ eval I t = ofBV (BitVec.ofNat w n.toNat - x) :=
  rsub_denotes_bv_int I h hty hw x ha

/-- `c.Ite(a, b)` -/
theorem iteMethod_denotes (I : Interp) {c a b t : Term}
    (h : Infix.run Gen.Infix.table "Ite" c [.t a, .t b] = .ok t) :
    eval I t = if truth I c then eval I a else eval I b :=
  PySMT.C06.iteMethod_denotes I h

/-- `a / b` (Python 3 `__truediv__`) is `__div__` -/
theorem truediv_denotes (a : Term) (b : Arg) :
    Infix.run Gen.Infix.table "__truediv__" a [b] = Infix.run Gen.Infix.table "__div__" a [b] :=
  run_truediv a b

/-- `a[lo:hi]`: bits `lo … hi`, both inclusive -/
theorem getitem_denotes (I : Interp) {a t : Term} {lo : Option Int} {hi : Int} {w : Nat}
    (h : Infix.run Gen.Infix.table "__getitem__" a [.slice lo (some hi)] = .ok t)
    (x : BitVec w) (ha : eval I a = ofBV x) :
    eval I t = ofBV (x.extractLsb' (lo.getD 0).toNat (hi.toNat - (lo.getD 0).toNat + 1)) :=
  PySMT.C06.getitem_denotes I h x ha

/-- `a[k]`: bit `k` -/
theorem getitem_index_denotes (I : Interp) {a t : Term} {k : Int} {w : Nat}
    (h : Infix.run Gen.Infix.table "__getitem__" a [.i k] = .ok t)
    (x : BitVec w) (ha : eval I a = ofBV x) : eval I t = ofBV (x.extractLsb' k.toNat 1) :=
  PySMT.C06.getitem_index_denotes I h x ha

/-- `f(a1, …, an)`: the application node (its value is the evaluator's clause for `function`) -/
theorem call_denotes (I : Interp) (f : Sym) (as : List Term) (hp : f.params ≠ [])
    (hl : as.length = f.params.length) (hne : as ≠ []) {t : Term}
    (h : Infix.run Gen.Infix.table "__call__" (Term.sym f) (as.map Arg.t) = .ok t) :
    eval I t = I.fn f (as.map (eval I)) := by
  rw [call_method f as hp hl] at h
  exact function_denotes I h hne

/-! ## additions after the independent review (rev-b): totality, domains, literals, typing -/

/-- **Div, total**: for every value of the divisor — zero included, where SMT-LIB leaves the
result to the interpretation (`I.div0r` / `I.div0i`) — also under the rewrite into
`Times(l, Real(1/c))`, which only fires for a non-zero constant `c` -/
theorem div_total (I : Interp) {a b t : Term} (h : Mk.Div a b = .ok t) :
    (∀ x y : Rat, eval I a = .r x → eval I b = .r y → eval I t = Sem.div I (.r x) (.r y)) ∧
    (∀ x y : Int, eval I a = .i x → eval I b = .i y → eval I t = Sem.div I (.i x) (.i y)) :=
  PySMT.C06.div_total I h

/-- **width lemma**: `FNode.bv_width()` of a well-typed term of sort `BV w` is `w`. (`compOK`: every
`bvComp` node carries the payload `(1,)` its constructor stores; `Term.wt` ignores that payload while
`bv_width()` reads it.) It discharges every `bvWidth … = .ok w` hypothesis of this file: `typed_width_theorems`. -/
theorem bvWidth_of_typeOf {t : Term} (hwt : t.wt = true) (hc : PySMT.BuildAgree.compOK t = true) {w : Nat}
    (hty : t.typeOf = some (.bv w)) : Mk.bvWidth t = .ok w :=
  PySMT.C06.bvWidth_of_typeOf hwt hc hty

/-- `BVSMod`, extensions, shifts by an integer, `n - x`, default-end extraction — from typing, without
syntactic-width hypotheses, with the domains of the integer parameters in the conclusion -/
theorem typed_width_theorems (I : Interp) {s : Term} {w : Nat} (hwt : s.wt = true)
    (hc : PySMT.BuildAgree.compOK s = true) (hty : s.typeOf = some (.bv w)) (x : BitVec w)
    (hs : eval I s = ofBV x) :
    (∀ {t r : Term} (y : BitVec w), Mk.BVSMod s t = .ok r → eval I t = ofBV y →
      eval I r = ofBV (BitVec.smod x y)) ∧
    (∀ {t : Term} {k : Int}, Mk.BVZExt s k = .ok t → 0 ≤ k ∧ eval I t = ofBV (x.setWidth (w + k.toNat))) ∧
    (∀ {t : Term} {k : Int}, Mk.BVSExt s k = .ok t → 0 ≤ k ∧ eval I t = ofBV (x.signExtend (w + k.toNat))) ∧
    (∀ (o : ShiftOp) {t : Term} {k : Int}, o.mk s (.i k) = .ok t →
      0 ≤ k ∧ k < 2 ^ w ∧ eval I t = ofBV (o.fn x k.toNat)) ∧
    (∀ (o : ShiftOp) (k : Int), (k < 0 ∨ k ≥ 2 ^ w) → o.mk s (.i k) = .error .value) ∧
    (∀ {t : Term} {n : Int}, Infix.run Gen.Infix.table "__rsub__" s [.i n] = .ok t →
      0 ≤ n ∧ n < 2 ^ w ∧ eval I t = ofBV (BitVec.ofNat w n.toNat - x)) ∧
    (∀ {t : Term} {lo : Int}, Mk.BVExtract s lo none = .ok t →
      0 ≤ lo ∧ lo < w ∧ eval I t = ofBV (x.extractLsb' lo.toNat (w - lo.toNat))) :=
  PySMT.C06.typed_width_theorems I hwt hc hty x hs

/-- `BVExtract(f, s)` with the default end -/
theorem bvExtract_default_denotes (I : Interp) {f t : Term} {s : Int} (h : Mk.BVExtract f s none = .ok t)
    {w : Nat} (hw : bvWidth f = .ok w) (x : BitVec w) (hf : eval I f = ofBV x) :
    0 ≤ s ∧ s < w ∧ eval I t = ofBV (x.extractLsb' s.toNat (w - s.toNat)) :=
  bvExtract_default I h hw x hf

/-- slices outside `0 ≤ start ≤ end`, or longer than the operand, are refused -/
theorem bvExtract_refused (f : Term) (s e : Int) (w : Nat) (hw : bvWidth f = .ok w)
    (hbad : s < 0 ∨ e < s ∨ e - s + 1 > w) : Mk.BVExtract f s (some e) = .error .assertion :=
  PySMT.C06.bvExtract_refused f s e w hw hbad

/-- negative rotation steps / extensions are refused; a successful rotation has `0 ≤ k ≤ width` -/
theorem rotate_extend_domain (f : Term) (k : Int) :
    (∀ w, bvWidth f = .ok w → k < 0 → Mk.BVRol f k = .error .type ∧ Mk.BVRor f k = .error .type ∧
      Mk.BVZExt f k = .error .type ∧ Mk.BVSExt f k = .error .type) ∧
    (∀ t, Mk.BVRol f k = .ok t ∨ Mk.BVRor f k = .ok t → ∃ w, f.typeOf = some (.bv w) ∧ 0 ≤ k ∧ k ≤ w) := by
  refine ⟨fun w hw hk => rotate_extend_refused f k w hw hk, fun t h => ?_⟩
  rcases h with h | h
  · exact rotate_domain (Or.inl rfl) h
  · exact rotate_domain (Or.inr rfl) h

/-- `a[lo:]` -/
theorem getitem_default_end_denotes (I : Interp) {a t : Term} {lo : Option Int} {w : Nat}
    (h : Infix.run Gen.Infix.table "__getitem__" a [.slice lo none] = .ok t)
    (hw : bvWidth a = .ok w) (x : BitVec w) (ha : eval I a = ofBV x) :
    0 ≤ lo.getD 0 ∧ lo.getD 0 < w ∧ eval I t = ofBV (x.extractLsb' (lo.getD 0).toNat (w - (lo.getD 0).toNat)) :=
  getitem_default_end I h hw x ha

/-- `a[lo:hi]` only succeeds for `0 ≤ lo ≤ hi` (the domain hidden by `lo.getD 0` / `toNat` in `getitem_denotes`) -/
theorem getitem_domain {a t : Term} {lo : Option Int} {hi : Int}
    (h : Infix.run Gen.Infix.table "__getitem__" a [.slice lo (some hi)] = .ok t) :
    0 ≤ lo.getD 0 ∧ lo.getD 0 ≤ hi := by
  rw [run_getitem_slice] at h
  unfold getitemModel at h
  cases hty : a.typeOf with
  | none => rw [hty] at h; cases h
  | some τ =>
    rw [hty] at h
    cases hb : τ.isBv
    · simp [hb] at h
    · simp only [hb, if_true] at h
      obtain ⟨_, _, hr⟩ := PySMT.BuildAgree.extract_agree h
      exact ⟨by omega, by omega⟩

/-- **literal right operand** (`x + 5`, `3 * x`, `b & True`, `v << 3`, `i.Equals(2)` …): through a
binary entry of the regenerated table, the call with the Python literal `lit` is the call with the
constant `c` that `_infix_prepare_arg` builds at the receiver's sort, `c` denotes the literal
(`LitDenotes`: `.i n` at Int, `.r n` / `.r q` at Real, `.b v` at Bool, and at `BV w` the value
`BitVec.ofNat w n` together with `0 < w ∧ 0 ≤ n < 2^w`), and the formula denotes `pyOp name` of
the receiver and `c` -/
theorem infix_literal_denotes (I : Interp) {name p : String} {f g : Option String}
    (hl : Gen.Infix.table.lookup name = some ⟨[p], false, [.ret (.infix .self (.var p) f g)]⟩)
    {a t : Term} {lit : Arg} (h : Infix.run Gen.Infix.table name a [lit] = .ok t) :
    ∃ kn kb τ c, pyOp name = some (kn, kb) ∧ a.typeOf = some τ ∧ prepareArg lit τ = .ok c ∧
      LitDenotes I lit τ c ∧
      (τ.isBv = true → ∃ k, kb = some k ∧ k.Denotes I a c t) ∧
      (τ.isBv = false → ∃ k, kn = some k ∧ k.Denotes I a c t) :=
  PySMT.C06.infix_literal_denotes I hl h

/-- `n - a` (Int) and `q - a` (Real) for Python numbers on the left -/
theorem rsub_literal_denotes (I : Interp) {a t : Term} :
    (∀ {n : Int} (x : Int), Infix.run Gen.Infix.table "__rsub__" a [.i n] = .ok t → a.typeOf = some .int →
      eval I a = .i x → eval I t = .i (n - x)) ∧
    (∀ {lit : Arg} {q : Rat} (x : Rat), ((∃ n : Int, lit = .i n ∧ q = (n : Rat)) ∨ lit = .q q) →
      Infix.run Gen.Infix.table "__rsub__" a [lit] = .ok t → a.typeOf = some .real →
      eval I a = .r x → eval I t = .r (q - x)) :=
  ⟨fun x h hty ha => rsub_int_literal I h hty x ha, fun x hlit h hty ha => rsub_real_literal I hlit h hty x ha⟩

/-- the direct methods of `FNode`, semantically (instead of `run … = call name …`) -/
theorem direct_methods_denote (I : Interp) {a t : Term} {w : Nat} (x : BitVec w) (ha : eval I a = ofBV x) :
    (∀ k, Infix.run Gen.Infix.table "BVRol" a [.i k] = .ok t →
      (∃ w', a.typeOf = some (.bv w') ∧ 0 ≤ k ∧ k ≤ w') ∧ eval I t = ofBV (x.rotateLeft k.toNat)) ∧
    (∀ k, Infix.run Gen.Infix.table "BVRor" a [.i k] = .ok t →
      (∃ w', a.typeOf = some (.bv w') ∧ 0 ≤ k ∧ k ≤ w') ∧ eval I t = ofBV (x.rotateRight k.toNat)) ∧
    (∀ k, a.wt = true → PySMT.BuildAgree.compOK a = true → a.typeOf = some (.bv w) →
      Infix.run Gen.Infix.table "BVZExt" a [.i k] = .ok t → 0 ≤ k ∧ eval I t = ofBV (x.setWidth (w + k.toNat))) ∧
    (∀ k, a.wt = true → PySMT.BuildAgree.compOK a = true → a.typeOf = some (.bv w) →
      Infix.run Gen.Infix.table "BVSExt" a [.i k] = .ok t → 0 ≤ k ∧ eval I t = ofBV (x.signExtend (w + k.toNat))) ∧
    (∀ k, Infix.run Gen.Infix.table "BVRepeat" a [.i k] = .ok t →
      1 ≤ k ∧ eval I t = ofBV (BitVec.replicate k.toNat x)) ∧
    (∀ s e, Infix.run Gen.Infix.table "BVExtract" a [.i s, .i e] = .ok t →
      0 ≤ s ∧ s ≤ e ∧ eval I t = ofBV (x.extractLsb' s.toNat (e.toNat - s.toNat + 1))) :=
  PySMT.C06.direct_methods_denote I x ha

theorem select_store_methods_denote (I : Interp) {a i v t : Term} :
    (Infix.run Gen.Infix.table "Select" a [.t i] = .ok t → eval I t = (eval I a).select (eval I i)) ∧
    (Infix.run Gen.Infix.table "Store" a [.t i, .t v] = .ok t → eval I t = (eval I a).store (eval I i) (eval I v)) :=
  method_select_store I

/-! ### constructors whose meaning is the evaluator's clause for their node (stated by name because
the property lists every constructor; these theorems say only that the constructor builds the node
of its name with the arguments in order) -/

theorem ite_denotes (I : Interp) {c a b t : Term} (h : Mk.Ite c a b = .ok t) :
    eval I t = if truth I c then eval I a else eval I b := ite_eval I h

theorem equals_denotes (I : Interp) {a b t : Term} (h : Mk.Equals a b = .ok t) :
    eval I t = .b (decide (eval I a = eval I b)) := equals_eval I h

theorem function_denotes (I : Interp) {f : Sym} {as : List Term} {t : Term} (h : Mk.Function f as = .ok t)
    (hne : as ≠ []) : eval I t = I.fn f (as.map (eval I)) := PySMT.C06.function_denotes I h hne

theorem select_denotes (I : Interp) {a i t : Term} (h : Mk.Select a i = .ok t) :
    eval I t = (eval I a).select (eval I i) := select_denotes' I h

theorem store_denotes (I : Interp) {a i v t : Term} (h : Mk.Store a i v = .ok t) :
    eval I t = (eval I a).store (eval I i) (eval I v) := store_denotes' I h

/-- `Array(idx, d, assign)`: the array value with default `d` and the pairs of `assign` (in the order
the code visits them) whose value is not the default -/
theorem array_denotes (I : Interp) {idx : Ty} {d t : Term} {assign : List (Term × Term)}
    (h : Mk.Array idx d assign = .ok t) :
    eval I t = Sem.arrayValue idx (eval I d) ((keptPairs d assign).map (eval I)) := array_denotes' I h

/-- `BV(n, w)`, success case -/
theorem bv_denotes (I : Interp) {n : Int} {w : Nat} (hw : 0 < w) (h0 : 0 ≤ n) (h1 : n < 2 ^ w) :
    Mk.BV n w = .ok (Term.bvc n.toNat w) ∧ eval I (Term.bvc n.toNat w) = ofBV (BitVec.ofNat w n.toNat) ∧
      (BitVec.ofNat w n.toNat).toNat = n.toNat := bv_denotes' I hw h0 h1

theorem strings_denote (I : Interp) {a b c t : Term} {as : List Term} :
    (Mk.StrLength a = .ok t → eval I t = .i (Sem.sOf (eval I a)).length) ∧
    (Mk.StrConcat as = .ok t → 2 ≤ as.length ∧ eval I t = Sem.mkS ((as.map (eval I)).flatMap Sem.sOf)) ∧
    (Mk.StrContains a b = .ok t → eval I t = .b (Sem.strContains (Sem.sOf (eval I a)) (Sem.sOf (eval I b)))) ∧
    (Mk.StrIndexOf a b c = .ok t →
      eval I t = .i (Sem.strIndexOf (Sem.sOf (eval I a)) (Sem.sOf (eval I b)) (Sem.iOf (eval I c)))) ∧
    (Mk.StrReplace a b c = .ok t →
      eval I t = Sem.mkS (Sem.strReplace (Sem.sOf (eval I a)) (Sem.sOf (eval I b)) (Sem.sOf (eval I c)))) ∧
    (Mk.StrSubstr a b c = .ok t →
      eval I t = Sem.mkS (Sem.strSubstr (Sem.sOf (eval I a)) (Sem.iOf (eval I b)) (Sem.iOf (eval I c)))) ∧
    (Mk.StrPrefixOf a b = .ok t → eval I t = .b (Sem.isPrefix (Sem.sOf (eval I a)) (Sem.sOf (eval I b)))) ∧
    (Mk.StrSuffixOf a b = .ok t →
      eval I t = .b (Sem.isPrefix (Sem.sOf (eval I a)).reverse (Sem.sOf (eval I b)).reverse)) ∧
    (Mk.StrToInt a = .ok t → eval I t = .i (Sem.strToInt (Sem.sOf (eval I a)))) ∧
    (Mk.IntToStr a = .ok t → eval I t = Sem.mkS (Sem.intToStr (Sem.iOf (eval I a)))) ∧
    (Mk.StrCharAt a b = .ok t → eval I t = Sem.mkS (Sem.strAt (Sem.sOf (eval I a)) (Sem.iOf (eval I b)))) :=
  PySMT.C06.strings_denote I

/-- n-ary `BVConcat` with `BitVec.++` (operands of arbitrary widths; `SomeBV = Σ w, BitVec w`,
`SomeBV.append s u = ⟨s.1 + u.1, s.2 ++ u.2⟩`): `((x₀ ++ x₁) ++ x₂) ++ …` -/
theorem bvConcat_append_denotes (I : Interp) {a b : Term} {rest : List Term} {t : Term}
    (h : Mk.BVConcat (a :: b :: rest) = .ok t) (x y : SomeBV) (zs : List SomeBV)
    (ha : eval I a = x.val) (hb : eval I b = y.val) (hr : rest.map (eval I) = zs.map SomeBV.val) :
    eval I t = (zs.foldl SomeBV.append (x.append y)).val :=
  bvConcat_append I h x y zs ha hb hr

/-! ## consolidation: the three models of the constructors agree where they overlap -/

/-- `Impl/Simp/Build.lean` (the constructors the simplifier rebuilds with) agrees with `Impl/Mk.lean`:
for every constructor `c` of `Build`, `Mk.c args = .ok t → Build.c args = t` (the fields of
`BuildAgree.BuildAgreesMk`; only `BVZExt`/`BVSExt` need the operand to be well-typed with
well-formed `bvComp` payloads, because their type check does not force the operand's width) -/
theorem build_agrees_mk : PySMT.BuildAgree.BuildAgreesMk :=
  PySMT.BuildAgree.build_agrees_mk

/-- `Impl/SubstBuild.lean` (`rebuild` = `IdentityDagWalker` through the constructors) agrees with
`Impl/Mk.lean`: on well-typed new children, whenever the `Mk` constructor that
`IdentityDagWalker.walk_<op>` calls (`BuildAgree.identityWalk`) returns `t`, `rebuild op p as = t` -/
theorem rebuild_agrees_mk {op : Op} {p : Payload} {as : List Term} {t : Term}
    (hwt : ∀ a ∈ as, a.wt = true) (hc : ∀ a ∈ as, PySMT.BuildAgree.compOK a = true)
    (h : PySMT.BuildAgree.identityWalk op p as = .ok t) : PySMT.Build.rebuild op p as = t :=
  PySMT.BuildAgree.rebuild_agrees_mk hwt hc h

/-! ## non-vacuity: the hypotheses `… = .ok t` are satisfiable -/

section examples
set_option linter.defProp false
private def xi : Term := Term.var "x" .int
private def yi : Term := Term.var "y" .int
private def pb : Term := Term.var "p" .bool
private def qb : Term := Term.var "q" .bool
private def xv : Term := Term.var "u" (.bv 4)
private def yv : Term := Term.var "v" (.bv 4)
private def hxi : xi.typeOf = some .int := typeOf_var _ _
private def hyi : yi.typeOf = some .int := typeOf_var _ _
private def hpb : pb.typeOf = some .bool := typeOf_var _ _
private def hqb : qb.typeOf = some .bool := typeOf_var _ _
private def hxv : xv.typeOf = some (.bv 4) := typeOf_var _ _
private def hyv : yv.typeOf = some (.bv 4) := typeOf_var _ _

example : ∃ t, Mk.GE xi yi = .ok t := ⟨_, create2 _ _ _ _ _ _ hyi hxi (by decide)⟩
example : ∃ t, Mk.GT xi yi = .ok t := ⟨_, create2 _ _ _ _ _ _ hyi hxi (by decide)⟩
example : Mk.Xor pb qb = .ok (.node .not [.node .iff [pb, qb] .none] .none) := by
  simp only [Mk.Xor, Mk.Iff, create2 .iff pb qb .none _ _ hpb hqb (by decide), bind, Except.bind, Mk.Not]
  exact create1 .not _ .none .bool (by rw [typeOf_node]; simp only [List.map_cons, List.map_nil, hpb, hqb]; decide)
    (by decide)
example : Mk.AtMostOne [] = .ok Term.tt := rfl
example : Mk.AllDifferent [xi] = .ok Term.tt := rfl
example : Mk.Min [xi] = .ok xi := by unfold Mk.Min minMaxWrap; rfl
example : Mk.SBV (-2) 2 = .ok (Term.bvc 2 2) := by
  have := (PySMT.C06.sbv_denotes (-2) 2 (by decide) (by decide) (by decide)).1
  simpa using this
example : Mk.SBV (-3) 2 = .error .value := (sbv_error_iff (-3) 2).mpr (by decide)
example : ∃ t, Mk.BVUGT xv yv = .ok t := ⟨_, create2 _ _ _ _ _ _ hyv hxv (by decide)⟩
example : ∃ t, Mk.BVSGE xv yv = .ok t := ⟨_, create2 _ _ _ _ _ _ hyv hxv (by decide)⟩
private def hwx : bvWidth xv = .ok 4 := bvWidth_var _ _
example : Mk.BVAdd [xv, yv] = .ok (.node .bvAdd [xv, yv] (.ints [4])) := by
  have hc := create2 .bvAdd xv yv (.ints [4]) _ _ hxv hyv (by decide)
  simp only [Mk.BVAdd, bvNary, bvChain, bvBin, hwx, bind, Except.bind, hc]
example : Mk.BVLShl xv (.i 3) = .ok (.node .bvLshl [xv, Term.bvc 3 4] (.ints [4])) := by
  have hc := create2 .bvLshl xv (Term.bvc 3 4) (.ints [4]) (.bv 4) (.bv 4) hxv
    (by simp only [Term.bvc, typeOf_node]; rfl) (by decide)
  have hb : Mk.BV 3 4 = .ok (Term.bvc 3 4) := bv_ok (by decide) (by decide) (by decide)
  simp only [Mk.BVLShl, shiftAmount, hwx, bind, Except.bind, bvBin, hb, hc]
example : Mk.BVLShl xv (.i 16) = .error .value :=
  shiftInt_error .shl xv 16 4 hwx (Or.inr (by decide))
example : Mk.BVRepeat xv 0 = .error .value := repeat_error _ _ (by decide)
example : Mk.BVRepeat xv 1 = .ok xv := rfl
example : Gen.Infix.table.lookup "__add__" =
    some ⟨["right"], false, [.ret (.infix .self (.var "right") (some "Plus") (some "BVAdd"))]⟩ := by rfl
example : pyOp "__add__" = some (some .plus, some (.bv .add)) := rfl
-- `div_total`: a division by the constant zero is built (and left to the interpretation)
private def xr : Term := Term.var "r" .real
private def hxr : xr.typeOf = some .real := typeOf_var _ _
example : Mk.Div xr (Term.real 0) = .ok (.node .div [xr, Term.real 0] .none) := by
  have hc := create2 .div xr (Term.real 0) .none .real .real hxr (typeOf_realc 0) (by decide)
  simpa [Mk.Div, Term.real] using hc
-- `infix_literal_denotes`: `x + 5` on an Int receiver
example : Infix.run Gen.Infix.table "__add__" xi [.i 5] = .ok (.node .plus [xi, Term.int 5] .none) := by
  rw [run_binary _ "__add__" "right" (some "Plus") (some "BVAdd") xi (.i 5) (by rfl),
    applyInfix_literal hxi (.i 5) _ (prepare_int 5)]
  unfold applyInfix
  rw [hxi]
  exact create2 .plus xi (Term.int 5) .none .int .int hxi (typeOf_intc 5) (by decide)
-- `bvWidth_of_typeOf` / `typed_width_theorems`: a bit-vector symbol is well-typed and `compOK`
example : xv.wt = true ∧ PySMT.BuildAgree.compOK xv = true ∧ xv.typeOf = some (.bv 4) := by
  refine ⟨?_, ?_, hxv⟩
  · simp only [xv, Term.var, Term.sym, Term.wt, List.map_nil, List.all_nil, Bool.true_and]; rfl
  · simp only [xv, Term.var, Term.sym, PySMT.BuildAgree.compOK, List.map_nil, List.all_nil, Bool.true_and]; rfl
end examples

end PySMT.Props.C06
