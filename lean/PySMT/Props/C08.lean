import PySMT.Proofs.C08Table
import PySMT.Proofs.C08Model
import PySMT.Proofs.C08Sound
import PySMT.Proofs.C08AgreeTop2
import PySMT.Proofs.C08WT5
import PySMT.Proofs.C08Model2
import PySMT.Proofs.C08Capture
import PySMT.Proofs.C08Script3
import PySMT.Proofs.C08LogicSwap
/-!
# C08 — SMT-LIB import never misreads: the property theorems

Model: `Impl/Parser.lean` (pySMT's reading of an S-expression: `readTerm`, `cmd`, `script`), over the regenerated
operator table `Gen/ParserOps.lean`. Reference: the standard reader `Spec/SmtlibText.lean` (`Std.readStd`,
`Std.applyTheory`, `Std.stepStd`, `Std.runStd`). The agreement of the model with `SmtLibParser.get_script` is tested on
every run (K, literal comparison of whole command lists), the agreement of the *implementation* with the standard reader
is searched on every run (S, two independent oracles).

## What these theorems are about, and what they are not about

* **S-expressions, not text.** Every theorem starts from the S-expression the STANDARD lexer (`Spec/Sexp.lean`) makes of
  the text. pySMT's own `Tokenizer` (parser.py) is NOT modelled and not pinned by a hash: where it differs from the
  standard lexer (`\|` inside bars, annotation values read character by character, the tolerant numerals `01`, `1/3`,
  `1_0`, `٣` of `Fraction()`/`int()`, known findings F16/F16b) only the search (S) looks. The carriage return was not
  white space and did not end a comment (a command was silently dropped): repaired in /repo (P16).
* **`parse_model` is not modelled** (no Lean definition mentions it); model files are covered by S only.
* **Direction.** The property reads "whenever the parser accepts …". The soundness theorems below have the additional
  hypothesis that the STANDARD gives the text a meaning (`hstd : Std.readStd env [] s = .ok u`): they are "both accept ⇒
  same sort and value", and in fact the stronger "standard accepts ⇒ parser accepts and returns `mkNorm u`". The half
  "parser accepts, standard rejects" — "rejected with an error, never silently read as something else" — has only these
  results: `unknown_symbol_rejected`, `unknown_symbol_rejected_nested` (unknown names below applications),
  `let_repeated_variable`, `assert_bool`, and `readTerm_wt_partial`, which is about pySMT's type checker and NOT about
  SMT-LIB well-sortedness: `(= r 1)` with `r : Real`, `(/ 1 3)` in an integer logic are accepted (F15e and relatives are
  known findings). The capture F17b (below) is a text the parser accepts and misreads while the reference refuses it.
* **Same evaluator on both sides (common mode).** `Std.readStd` returns a pySMT-shaped `Term`, and "the standard's value"
  is `eval I` of it: the semantic clauses of every operator (signs of `bvsdiv`/`bvsrem`, division by zero, rotation modulo
  the width, strings, arrays) sit in the single file `Core/Eval.lean`, shared by both sides. What is established here is:
  spelling ↦ operator, argument and index order, literal decoding, scoping. Whether `eval` matches the theory files of the
  standard is not the subject of this property (C04/C05 tie `eval` to pySMT; the reference solvers tie it to the theories).

## What is proved

* `parserOps_std` — every token of `self.interpreted` is bound to the handler name the hand-written table
  `Table.expected` (Proofs/C08Table.lean) prescribes, minus the explicit exclusions `Table.knownNonStd`: a `decide` over
  the regenerated table, i.e. a check of NAMES. That the handler of that name builds the operator the standard prescribes
  is part of the agreement theorem for the operators of the fragment, and a compiled `#guard` for the rest, not a theorem.
* the repaired behaviours as theorems about the model:
  - simultaneous `let` (F13/F13b): `let_simultaneous` (all names already bound), `let_outer_kept` (ANY binding list:
    while the binding terms are read, every name that had a meaning before the `let` keeps it), `let_repeated_variable`;
  - binders shadow definitions (F14): `binder_shadows` (one binder), `binder_shadows_all`, `binder_lookup` (lists of
    binders: the last binder of a name wins, any other name keeps its meaning);
  - unknown names are rejected inside terms (F15): `unknown_symbol_rejected` for one atom under `notLiteralStrict` (the
    first round's `notLiteral` was too weak for the CODE: `notLiteral "1_0"` is provable and Python reads `|1_0|` as the
    integer 10; `notLiteralStrict` excludes the tokens Python's `Fraction()`/`int()`/string branch accept and the model's
    `literal` does not: a leading `"`, `_` in a token that starts like a number, blanks, non-ASCII digits),
    `unknown_symbol_rejected_nested` lifts it to every enclosing nest of operator/function applications. Since the repair
    P14 (`atom()` cached EVERY result: after `(get-value (foo))` the text `(= s foo)` was read as `s = "foo"`) the
    literal cache of the code holds literals only, and the model, which has no cache, is faithful here; the cache is still
    observable when `set-logic` comes after a numeral (known, F15d);
  - `assert` takes Boolean terms (F15c): `assert_bool`;
  - bound variables (F31): `quantifier_order` — one variable per binder IN TEXTUAL ORDER, parameterless, named as written
    or as written followed by a number (the fresh symbol `_get_quantified_var` makes when the manager knows the name with
    another sort); `quantifier_order_exact` — `vs.map name = bindNames bs` when no name is bound twice and the manager
    does not know the names. (The earlier `quantifier_order` proved only `vs.length = bs.length`.)
* `readTerm_wt_partial` — **accepted ⇒ well-typed for pySMT's checker** (`Term.wt`), for *every* S-expression, in every
  environment whose bound terms are well-typed. `_partial`: (a) applications of `define-fun`'d functions are excluded
  (`EnvOK`: the substitution of F17), (b) `NoNullary s`: no application to zero arguments `(f)` — finding P12: for a
  declared `f : Int → Int` the parser accepts `(f)` and returns the bare function symbol; `wt_counterexample`.
* `readTerm_agree_partial`, `readTerm_sound_frag_partial`, `readTerm_accept_sound_partial` — **soundness against the
  standard on the fragment `Agree.FragS`** (decidable; `Proofs/C08AgreeFrag.lean`): numerals (typed by the logic),
  decimals, `#b`/`#x`, `(_ bvN w)`, string literals without escapes, names; `not and or => xor = distinct ite + * - / <=
  < >= > to_real`, all bit-vector operators (`concat bvnot bvneg bvand … bvsge bvcomp bv2nat`, `(_ extract i j)`,
  `(_ zero_extend k)`, `(_ sign_extend k)`, `(_ repeat k)`, `(_ rotate_left k)`, `(_ rotate_right k)`), `select store
  ((as const σ) v)`, the string operators, applications of declared functions, `let` and `forall`/`exists`, nested
  arbitrarily. In corresponding environments (`Agree.Corr env [] Γ`), **whenever the standard reader gives the text a
  meaning `u`, the parser model accepts it and returns exactly `mkNorm u`** — `u` after the three normalisations
  `FormulaManager`'s constructors perform (`Not(Not x)`, `ToReal(c)`, `Div` by a constant; `mkNorm_id_of_normal`) — a
  well-formed term of the sort of `u` with the value of `u` under every well-formed interpretation (`mkNorm_meaning`,
  `standard_reading_wf_partial`).
  `_partial`, i.e. NOT in the fragment and covered by K/S only: chainable/left-associative forms with more than two
  arguments of `=> = distinct - / < <= > >= bvxor`, `(- t)` for a non-constant `t`, `bvsmod`, annotations `(! t …)` (so
  `:named` too), `(as x σ)`, parametric sorts, `div mod abs`, the F11 spellings, `define-fun` (reading AND applying).
  **Further restrictions of `FragS`, `RotOK` and `Corr` (all decidable, all visible in the statements only through these
  names, therefore listed here):**
  - `bvLitOK`: in `(_ bvN w)` the value fits the width, `N < 2^w` (pySMT refuses larger values, the standard reduces);
  - `minusOK`/`minusArgOK`: unary minus only of a numeral or decimal literal; `(- (- 1))`, `(- x)` are outside;
  - `RotOK`: every rotation amount is at most the width of its operand (pySMT refuses larger rotations);
  - `bindNameOK`, `letNameOK`: a bound name is `pnameOK` (not spelled like a literal: F16/F16b; not `(` or `)`: P03) and
    is not the name of a declared sort or sort alias; `fragVars`: a quantified name the manager knows with another sort
    is excluded through `ρ` and `Agree.MgrLe` (the fresh renaming);
  - `Corr.funTok`: a declared function WITH PARAMETERS must not be named like a token of the parser's table: after
    `(declare-fun pow (Int Int) Int)` the code reads `(pow 2 3)` with its built-in handler (known finding P17, the model
    does the same); such environments are outside every agree/sound theorem;
  - `Corr.nodefs` (and `envOK`): **no `define-fun` at all** — every agree/sound theorem is vacuous for an environment
    with one definition (F17: applying a definition substitutes with capture);
  - `Corr.logic`: the parser's numeral flag agrees with the standard's reading of numerals. After `(set-logic QF_BV)`
    (also QF_UF, QF_AX, QF_ABV, QF_AUFBV, BV) it does NOT (pySMT would read a numeral as a Real there,
    `Agree.logicOK_false_examples`). For those logics the theorems are available for NUMERAL-FREE texts
    (`Agree.numFreeS`: no numeral in term position; the indices of `(_ bv1 8)`, `(_ extract 3 1)`, `(_ BitVec 8)` are
    fine): `readTerm_sound_numfree_partial`, `assert_after_decls_numfree`, instance `qf_bv_script`.
* **F17b is a hypothesis, made explicit**: `capture_witness` — for `(let ((y x)) (exists ((x Int)) (> x y)))` with
  declared `x : Int`, `FragS`, `RotOK`, `Corr` and `MgrLe` hold, the parser model returns `exists x. x < x`, and the
  standard reader answers the capture error, so `hstd` is what keeps the capture out of the soundness theorems;
  `capture_changes_meaning`: the returned term is false where the text's meaning is true. `Capture.NoCapture` is a
  decidable side condition mirroring the capture check of `Std.rd` (false for the witness, true for the examples of this
  file); `noCapture_excludes_partial` proves `NoCapture ⇒ no capture error` for atoms only (full statement:
  `Capture.NoCaptureExcludes`); "`FragS ∧ NoCapture ∧ well-sorted ⇒ hstd`" is NOT proved.
* **Script level** (`Proofs/C08Script1-3.lean`; replaces the artificial environment `penvOf env`, whose formula manager
  is empty — a state no run reaches; `penv_corresponds` is kept): `decls_refine` — for command lists over `set-logic`,
  `declare-sort` (arity 0, two-atom form), `declare-fun`, `declare-const`, parameterless `define-sort`, `set-info`,
  `set-option` with the decidable side condition `declCmdsOK` (names `nameOK1`, a function with parameters not named
  like a parser token, sorts of the fragment, one name — one symbol `ρ`, `logicOK` for `set-logic`): whenever the
  STANDARD accepts the list from a state the parser environment refines (`Refines`: `Corr`, `MgrLe`, sort symbols of
  arity 0; `refines_init`: the initial states), the parser model accepts it, builds the expected commands, and the final
  environment refines the standard's final state. `decls_refine_both` is the reviewer's form (both accept ⇒ `Corr`
  and `MgrLe` preserved). `assert_after_decls`, `terms_after_decls`: soundness of `assert`, `get-value`,
  `check-sat-assuming` after such a prefix, from `PEnv.init` as `get_script` starts. NOT covered: `define-fun`,
  `push`/`pop` (C09's `script_cmds_roundtrip` covers them for printer-generated scripts), `declare-sort` of arity > 0 or
  after an assertion, OMT commands.
* `readTerm_sound_partial` — the first round's theorem (propositional fragment, truth values), kept.
-/
namespace PySMT.Props.C08
open PySMT PySMT.Parser PySMT.Gen.ParserOps

/-- The operator table: every token is read with the constructor the standard prescribes, except the listed
non-standard spellings (`pow`, `<->`, `str.to.int`, `int.to.str`). -/
theorem parserOps_std :
    table.all (fun e => Table.knownNonStd.contains e.1 || Table.expectedOf e.1 == some e.2) = true :=
  Table.table_std

/-- The exclusions are tokens the standard does not have. -/
theorem parserOps_exclusions_not_std :
    Table.knownNonStd.all (fun n => !(Std.theorySymbols.contains n)) = true :=
  Table.knownNonStd_not_std

/-- Every command name the parser dispatches on is modelled, is an OMT extension, or is one of the two commands the
parser itself refuses (`define-fun-rec`, `define-funs-rec`). -/
theorem commands_covered :
    commands.all (fun e =>
      ["set-logic", "set-info", "set-option", "get-info", "get-option", "echo", "push", "pop", "declare-sort",
       "define-sort", "declare-fun", "declare-const", "define-fun", "assert", "get-value", "check-sat-assuming",
       "define-fun-rec", "define-funs-rec"].contains e.1 || noArgCommands.contains e.1 || omtCommands.contains e.1)
      = true :=
  Table.commands_covered

/-- **Simultaneous let (F13).** If every variable of the `let` already means something in the enclosing scope (the
case in which sequential and simultaneous binding differ) and no variable is repeated, every binding term is read
with the bindings of the enclosing scope, and the body with all new bindings. -/
theorem let_simultaneous (binds : List (String × Parser.Val)) (ia : Option Bool) (bs : List Sexp) (σ : MgrSt)
    (hb : ∀ n ∈ bindNames bs, (lookup n binds).isSome) (hn : (bindNames bs).Nodup) :
    rdLetBinds ⟨binds, ia, σ⟩ [] [] bs =
      (evalBindsOuter binds ia σ bs []).map (fun r => ⟨bindAll r.1.reverse binds, ia, r.2⟩) :=
  rdLetBinds_outer binds ia bs σ [] [] hb (fun _ _ h => by simp at h) hn

/-- **Repeated let variable (F13b)** is a syntax error. -/
theorem let_repeated_variable (Γ : PEnv) (x : String) (e : Sexp) (bs : List Sexp) (seen : List String)
    (delayed : List (String × Parser.Val)) (h : pyTok x ∈ seen) :
    rdLetBinds Γ seen delayed (.list [.atom x, e] :: bs) = .error .syntax :=
  rdLetBinds_dup Γ x e bs seen delayed h

/-- **Simultaneous let, arbitrary binding lists (F13).** `letEnvs` records, with the recursion of `rdLetBinds` itself,
the environment in which each binding term is read (`let_envs_faithful`: it accepts exactly the lists `rdLetBinds`
accepts). In each of them every name that had a meaning before the `let` still has THAT meaning — a binding never sees
an earlier binding of the same `let` through a name of the enclosing scope — and the logic is unchanged. (A name without
a previous meaning is bound at once: the known extension F13c.) -/
theorem let_outer_kept (bs : List Sexp) (Γ : PEnv) (seen : List String) (delayed : List (String × Parser.Val))
    (tr : List PEnv) (h : letEnvs Γ seen delayed bs = .ok tr) :
    tr.length = bs.length ∧
      ∀ Γi ∈ tr, Γi.intArith = Γ.intArith ∧ ∀ n, (lookup n Γ.binds).isSome → lookup n Γi.binds = lookup n Γ.binds :=
  Parser.let_outer_kept bs Γ seen delayed tr h

/-- `letEnvs` accepts exactly the binding lists the model's `rdLetBinds` accepts -/
theorem let_envs_faithful (bs : List Sexp) (Γ : PEnv) (seen : List String) (delayed : List (String × Parser.Val)) :
    (rdLetBinds Γ seen delayed bs).toBool = (letEnvs Γ seen delayed bs).toBool :=
  letEnvs_ok_iff bs Γ seen delayed

/-- **Binders shadow definitions (F14)**, one binder. -/
theorem binder_shadows (Γ : PEnv) (x : String) (ty : Sexp) (Γ' : PEnv) (vs : List Sym)
    (h : rdQuantBinds Γ [] [.list [.atom x, ty]] = .ok (Γ', vs)) :
    ∃ s, vs = [s] ∧ lookup (pyTok x) Γ'.binds = some (.term (Term.sym s)) :=
  rdQuantBinds_shadows Γ x ty Γ' vs h

/-- **Binders shadow definitions (F14)**, lists of binders: when no name is bound twice, every bound name denotes its
bound variable in the body, whatever it meant in the enclosing scope (declared symbol, definition, let variable). -/
theorem binder_shadows_all (Γ : PEnv) (bs : List Sexp) (Γ' : PEnv) (vs : List Sym)
    (h : rdQuantBinds Γ [] bs = .ok (Γ', vs)) (hn : (bindNames bs).Nodup) :
    ∀ p ∈ (bindNames bs).zip vs, lookup p.1 Γ'.binds = some (.term (Term.sym p.2)) :=
  Parser.binder_shadows_all Γ bs [] Γ' vs vs h (by simp) hn

/-- … and in general: a name denotes the variable of the LAST binder of that name, and what it denoted in the enclosing
scope when no binder has that name. -/
theorem binder_lookup (Γ : PEnv) (bs : List Sexp) (Γ' : PEnv) (vs : List Sym)
    (h : rdQuantBinds Γ [] bs = .ok (Γ', vs)) (n : String) :
    lookup n Γ'.binds =
      (match ((bindNames bs).zip vs).reverse.find? (fun p => p.1 == n) with
       | some p => some (.term (Term.sym p.2))
       | none => lookup n Γ.binds) :=
  Parser.binder_lookup Γ bs [] Γ' vs vs h (by simp) n

/-- **Unknown names are rejected inside terms (F15).** `notLiteralStrict` (Proofs/C08Model2.lean): neither the model's
`literal` nor Python's `Fraction()`/`int()`/string branch reads the token as a literal. -/
theorem unknown_symbol_rejected (Γ : PEnv) (tok : String)
    (hb : lookup (pyTok tok) Γ.binds = none) (hl : notLiteralStrict (pyTok tok)) :
    rdVal Γ false (.atom tok) = .error .syntax :=
  Parser.unknown_symbol_rejected_strict Γ tok hb hl

/-- **… and below applications (F15, nested).** `hasUnknownArg Γ.binds s`: `s` is an application — head any token that
is not one of the binder/annotation keywords (an operator of the table, a declared or defined function, an indexed
operator `((_ extract 3 1) …)`) — one of whose arguments is an unknown name (not bound, `notLiteralStrict`) or is such an
application itself. The parser model never accepts such a text, whatever the state of the formula manager. -/
theorem unknown_symbol_rejected_nested (s : Sexp) (Γ : PEnv) (h : hasUnknownArg Γ.binds s = true)
    (lone : Bool) (v : Parser.Val) (σ : MgrSt) : rdVal Γ lone s ≠ .ok (v, σ) :=
  Parser.unknown_symbol_rejected_nested s Γ h lone v σ

/-- **Known residue (F15b):** as a whole command argument the unknown name is a String constant. This is the
witness why "malformed text is always rejected" is *not* a theorem of the model. -/
theorem unknown_symbol_lone_known (Γ : PEnv) (tok : String)
    (hb : lookup (pyTok tok) Γ.binds = none) (hl : notLiteralStrict (pyTok tok)) :
    readTerm Γ (.atom tok) = .ok (Term.str (pyTok tok)) :=
  Parser.unknown_symbol_lone Γ tok hb hl.1

/-- **assert takes Boolean terms (F15c).** -/
theorem assert_bool (Γ Γ' : PEnv) (t : Sexp) (k : Command)
    (h : cmd Γ (.list [.atom "assert", t]) = .ok (Γ', k)) : ∃ t', k = .assert t' ∧ t'.typeOf = some .bool :=
  Parser.assert_bool Γ Γ' t k h

/-- **Bound variables keep their textual order (F31).** One variable per binder, in textual order; the variable of the
binder `(x ty)` has no parameters and is called `x`, or `x` followed by a number (the fresh symbol
`_get_quantified_var` makes when the manager knows `x` with another sort). -/
theorem quantifier_order (Γ : PEnv) (bs : List Sexp) (Γ' : PEnv) (vs : List Sym)
    (h : rdQuantBinds Γ [] bs = .ok (Γ', vs)) :
    List.Forall₂ (fun b v => ∃ x ty, b = Sexp.list [Sexp.atom x, ty] ∧ v.params = [] ∧
        (v.name = pyTok x ∨ ∃ k : Nat, v.name = pyTok x ++ natToString k)) bs vs := by
  obtain ⟨new, hv, hf⟩ := rdQuantBinds_names Γ bs [] Γ' vs h
  simp only [List.reverse_nil, List.nil_append] at hv
  subst hv
  exact hf

/-- **… with exactly the written names**, when no name is bound twice and the formula manager has no symbol of one of
the names: `vs.map name = bindNames bs` (`bindNames`: the names of the binders in textual order). -/
theorem quantifier_order_exact (Γ : PEnv) (bs : List Sexp) (Γ' : PEnv) (vs : List Sym)
    (h : rdQuantBinds Γ [] bs = .ok (Γ', vs)) (hn : (bindNames bs).Nodup)
    (hfree : ∀ n ∈ bindNames bs, ∀ e ∈ Γ.mgr.symbols, e.1 ≠ n) : vs.map (·.name) = bindNames bs := by
  obtain ⟨new, hv, hm⟩ := rdQuantBinds_names_exact bs Γ [] Γ' vs h hn hfree
  simp only [List.reverse_nil, List.nil_append] at hv
  subst hv
  exact hm

/-- **Soundness on the propositional fragment** (see the header for what is missing). -/
theorem readTerm_sound_partial (env : Std.SEnv) (Γ : PEnv) (hrel : Sound.EnvRel Γ.binds env) (s : Sexp)
    (hfr : Sound.PropFrag s = true) (t t' : Term) (hpy : readTerm Γ s = .ok t) (hstd : Std.readStd env [] s = .ok t') :
    ∀ I, C06.truth I t = C06.truth I t' :=
  Sound.readTerm_sound env Γ hrel s hfr t t' hpy hstd

/-! ## accepted ⇒ well-typed -/

/-- **Every accepted term is well-typed** (see the header for the two exclusions). -/
theorem readTerm_wt_partial (Γ : PEnv) (h : WT.EnvOK Γ.binds) (s : Sexp) (hs : WT.NoNullary s = true) (t : Term)
    (hr : readTerm Γ s = .ok t) : t.wt = true :=
  WT.readTerm_wt Γ h s hs t hr

/-- **Finding (nullary application).** After `(declare-fun f (Int) Int)` the text `(f)` is accepted and the returned
"term" is the bare function symbol, which the checker does not accept: `NoNullary` cannot be dropped. -/
theorem wt_counterexample : WT.EnvOK WT.ufEnv.binds ∧ ∃ t, readTerm WT.ufEnv WT.cexS = .ok t ∧ t.wt = false :=
  WT.counterexample

/-! ## soundness against the standard reader on the fragment `Agree.FragS` -/

/-- **Agreement.** Whenever the standard reader gives a text of the fragment the meaning `u`, the parser model accepts
it and returns `mkNorm u`, which pySMT's checker accepts. -/
theorem readTerm_agree_partial (env : Std.SEnv) (ρ : List (String × Sym)) (Γ : PEnv) (hc : Agree.Corr env [] Γ)
    (hm : Agree.MgrLe Γ.mgr ρ) (s : Sexp) (hf : Agree.FragS env ρ s = true) (hro : Agree.RotOK env [] s = true)
    (u : Term) (h : Std.readStd env [] s = .ok u) :
    readTerm Γ s = .ok (Agree.mkNorm u) ∧ (Agree.mkNorm u).wf = true ∧ ∃ τ, (Agree.mkNorm u).typeOf = some τ :=
  Agree.readTerm_agree env ρ Γ hc hm s hf hro u h

/-- **Soundness.** … and the returned term has the sort of `u` and, under every well-formed interpretation, the value of
`u`. -/
theorem readTerm_sound_frag_partial (env : Std.SEnv) (ρ : List (String × Sym)) (Γ : PEnv) (hc : Agree.Corr env [] Γ)
    (hm : Agree.MgrLe Γ.mgr ρ) (s : Sexp) (hf : Agree.FragS env ρ s = true) (hro : Agree.RotOK env [] s = true)
    (u : Term) (h : Std.readStd env [] s = .ok u) :
    ∃ t, readTerm Γ s = .ok t ∧ t = Agree.mkNorm u ∧ t.wf = true ∧ t.typeOf = u.typeOf ∧
      ∀ I : Interp, I.WF → eval I t = eval I u :=
  Agree.readTerm_sound env ρ Γ hc hm s hf hro u h

/-- **The property's form**: whenever the parser accepts (and the standard gives the text a meaning), the term it
returns denotes exactly what the standard says the text denotes. -/
theorem readTerm_accept_sound_partial (env : Std.SEnv) (ρ : List (String × Sym)) (Γ : PEnv) (hc : Agree.Corr env [] Γ)
    (hm : Agree.MgrLe Γ.mgr ρ) (s : Sexp) (hf : Agree.FragS env ρ s = true) (hro : Agree.RotOK env [] s = true)
    (t u : Term) (hpy : readTerm Γ s = .ok t) (hstd : Std.readStd env [] s = .ok u) :
    t.wf = true ∧ t.typeOf = u.typeOf ∧ ∀ I : Interp, I.WF → eval I t = eval I u :=
  Agree.readTerm_sound_accept env ρ Γ hc hm s hf hro t u hpy hstd

/-- the manager's normalisation is the identity on terms in the manager's normal form: there the parser returns the
standard's term itself -/
theorem mkNorm_id_of_normal (u : Term) (h : Agree.mgrNormal u = true) : Agree.mkNorm u = u :=
  Agree.mkNorm_of_normal u h

/-- the manager's normalisation keeps sort and meaning -/
theorem mkNorm_meaning (u : Term) (hwf : u.wf = true) :
    (Agree.mkNorm u).wf = true ∧ (Agree.mkNorm u).typeOf = u.typeOf ∧
      ∀ I : Interp, I.WF → eval I (Agree.mkNorm u) = eval I u :=
  Agree.mkNorm_sem u hwf

/-- on the fragment the standard reader only builds terms pySMT's checker accepts -/
theorem standard_reading_wf_partial (env : Std.SEnv) (ρ : List (String × Sym)) (hnd : env.defs = []) (s : Sexp)
    (hf : Agree.FragS env ρ s = true) (hro : Agree.RotOK env [] s = true) (u : Term)
    (h : Std.readStd env [] s = .ok u) : u.wf = true ∧ ∃ τ, u.typeOf = some τ :=
  Agree.readStd_wf env ρ hnd s hf hro u h

/-- the parser environment built from the declarations of `env` corresponds to `env` -/
theorem penv_corresponds (env : Std.SEnv) (h : Agree.envOK env = true) (ρ : List (String × Sym)) :
    Agree.Corr env [] (Agree.penvOf env) ∧ Agree.MgrLe (Agree.penvOf env).mgr ρ :=
  ⟨Agree.corr_penvOf env h, Agree.mgrLe_penvOf env ρ⟩

/-! ## the capture F17b, explicit -/

/-- **Witness (F17b).** `(let ((y x)) (exists ((x Int)) (> x y)))` with declared `x : Int` (`Capture.capS`,
`Capture.capEnv`): in the fragment, `RotOK`, corresponding environments — and the parser model returns `exists x. x < x`
while the standard reader answers the capture error. The hypothesis `hstd` of the soundness theorems is what excludes it. -/
theorem capture_witness :
    Agree.envOK Capture.capEnv = true ∧ Agree.FragS Capture.capEnv Capture.capρ Capture.capS = true ∧
    Agree.RotOK Capture.capEnv [] Capture.capS = true ∧
    Agree.Corr Capture.capEnv [] (Agree.penvOf Capture.capEnv) ∧
    Agree.MgrLe (Agree.penvOf Capture.capEnv).mgr Capture.capρ ∧
    readTerm (Agree.penvOf Capture.capEnv) Capture.capS =
      .ok (Term.mkExists [Sym.var "x" .int] (.node .lt [Term.var "x" .int, Term.var "x" .int] .none)) ∧
    Std.readStd Capture.capEnv [] Capture.capS = .error (Capture.captureMsg "y") :=
  ⟨Capture.capture_witness.1, Capture.capture_witness.2.1, Capture.capture_witness.2.2.1, Capture.capture_witness_hyps.1,
   Capture.capture_witness_hyps.2, Capture.capture_witness.2.2.2.1, Capture.capture_witness.2.2.2.2.1⟩

/-- **The capture changes the meaning**: under the well-formed interpretation `capI` (`x = 0`, integers `{0, 1}`) the
term the parser returns is false and the text's meaning `exists x'. x < x'` is true. -/
theorem capture_changes_meaning :
    Capture.capI.WF ∧ eval Capture.capI Capture.capT = .b false ∧ eval Capture.capI Capture.intendedT = .b true :=
  Capture.capture_changes_meaning

/-- the decidable side condition `NoCapture` separates the witness from the examples of this file -/
theorem noCapture_examples :
    Capture.NoCapture Capture.capEnv [] Capture.capS = false ∧
    Capture.NoCapture Capture.envEx [] Capture.sEx1 = true ∧ Capture.NoCapture Capture.envEx [] Capture.sEx2 = true :=
  ⟨Capture.noCapture_capS, Capture.noCapture_sEx1, Capture.noCapture_sEx2⟩

/-- **`NoCapture` excludes the capture error — atoms only.** Full statement: `Capture.NoCaptureExcludes` (every text
with `NoCapture` never gets the capture error from the standard reader); proved here for a single atom. The compound
case (induction over `Std.rd` with an inequality of error messages at each error site) is open, and so is
"`FragS ∧ NoCapture ∧ well-sorted ⇒` the standard accepts". -/
theorem noCapture_excludes_partial (env : Std.SEnv) (sc : List Std.Binding) (tok : String) (n : String)
    (h : Capture.NoCapture env sc (.atom tok) = true) : Std.rd env sc (.atom tok) ≠ .error (Capture.captureMsg n) :=
  Capture.noCapture_atom_partial env sc tok n h

/-- when the standard answers the capture error for a let-bound name, this is why (`lookupScope`, both directions) -/
theorem capture_error_iff (n : String) (sc : List Std.Binding) (crossed : List Sym) :
    (∃ e, Std.lookupScope n sc crossed = some (.error e)) ↔
      ∃ pre t ty post, sc = pre ++ .letb n t ty :: post ∧ (∀ b ∈ pre, Std.bindingName b ≠ n) ∧
        ∃ x, (x ∈ crossed ∨ Std.Binding.var x ∈ pre) ∧ x ∈ t.fv :=
  Capture.lookupScope_error_iff n sc crossed

/-! ## script level: declarations, then terms -/

/-- the initial states correspond -/
theorem refines_init (ρ : List (String × Sym)) : Agree.Refines ρ Std.StdState.init PEnv.init :=
  Agree.refines_init ρ

/-- **Declaration prefixes** (see the header for the fragment and `declCmdsOK`). Whenever the standard accepts the
commands from a state the parser's environment refines, the parser model accepts them, builds the expected `Command`s, and
the final environment refines the standard's final state. -/
theorem decls_refine (ρ : List (String × Sym)) (cs : List Sexp) (st st' : Std.StdState) (k : Nat) (Γ : PEnv)
    (hcs : Agree.declCmdsOK ρ st cs = true) (hstd : Std.runStdFrom st k cs = .ok st') (hr : Agree.Refines ρ st Γ) :
    ∃ Γ', envAfter Γ cs = .ok Γ' ∧ script Γ cs = .ok (Agree.declCommands st cs) ∧ Agree.Refines ρ st' Γ' :=
  Agree.decls_refine ρ cs st st' k Γ hcs hstd hr

/-- … in the form "whenever both accept, `Corr` and `MgrLe` are preserved". -/
theorem decls_refine_both (ρ : List (String × Sym)) (cs : List Sexp) (st st' : Std.StdState) (k : Nat) (Γ Γ' : PEnv)
    (hcs : Agree.declCmdsOK ρ st cs = true) (hstd : Std.runStdFrom st k cs = .ok st') (hpy : envAfter Γ cs = .ok Γ')
    (hr : Agree.Refines ρ st Γ) : Agree.Corr st'.env [] Γ' ∧ Agree.MgrLe Γ'.mgr ρ :=
  Agree.decls_refine_both ρ cs st st' k Γ Γ' hcs hstd hpy hr

/-- **`assert` after a declaration prefix**, from the parser's initial state (as `get_script` starts): whenever the
standard accepts `cs` followed by `(assert s)`, `s` in the fragment, the parser model accepts the script and its last
command asserts `mkNorm u` for the term `u` the standard asserted: well-formed, Boolean, same value. -/
theorem assert_after_decls (ρ : List (String × Sym)) (cs : List Sexp) (s : Sexp) (st' st'' : Std.StdState)
    (hcs : Agree.declCmdsOK ρ Std.StdState.init cs = true) (hrun : Std.runStd cs = .ok st')
    (hf : Agree.FragS st'.env ρ s = true) (hro : Agree.RotOK st'.env [] s = true)
    (hstd : Std.runStd (cs ++ [.list [.atom "assert", s]]) = .ok st'') :
    ∃ u, Std.readStd st'.env [] s = .ok u ∧ st''.live = st'.live ++ [u] ∧
      script PEnv.init (cs ++ [.list [.atom "assert", s]])
        = .ok (Agree.declCommands Std.StdState.init cs ++ [.assert (Agree.mkNorm u)]) ∧
      (Agree.mkNorm u).wf = true ∧ (Agree.mkNorm u).typeOf = some .bool ∧
      ∀ I : Interp, I.WF → eval I (Agree.mkNorm u) = eval I u :=
  Agree.assert_after_decls ρ cs s st' st'' hcs hrun hf hro hstd

/-- **`get-value` / `check-sat-assuming` after a declaration prefix.** -/
theorem terms_after_decls (ρ : List (String × Sym)) (cs : List Sexp) (name : String) (ts : List Sexp)
    (st' st'' : Std.StdState) (hname : name = "get-value" ∨ name = "check-sat-assuming")
    (hcs : Agree.declCmdsOK ρ Std.StdState.init cs = true) (hrun : Std.runStd cs = .ok st')
    (hf : Agree.FragL st'.env ρ ts = true) (hro : Agree.RotOKL st'.env [] ts = true)
    (hstd : Std.runStd (cs ++ [.list [.atom name, .list ts]]) = .ok st'') :
    ∃ as, Std.rdList st'.env [] ts = .ok as ∧ st'' = st' ∧
      script PEnv.init (cs ++ [.list [.atom name, .list ts]])
        = .ok (Agree.declCommands Std.StdState.init cs ++ [.terms name (as.map (fun a => Agree.mkNorm a.1))]) ∧
      ∀ a ∈ as, (Agree.mkNorm a.1).wf = true ∧ (Agree.mkNorm a.1).typeOf = some a.2 ∧ a.1.typeOf = some a.2 ∧
        ∀ I : Interp, I.WF → eval I (Agree.mkNorm a.1) = eval I a.1 :=
  Agree.terms_after_decls ρ cs name ts st' st'' hname hcs hrun hf hro hstd

/-! ### logics without arithmetic (QF_BV, QF_UF, QF_AX, …): numeral-free texts -/

/-- **Soundness relative to the script's real logic.** The parser environment corresponds to `env` up to the NAME of
the logic (`Corr { env with logic := l }`: e.g. `l = swapLogic "QF_BV" = "QF_LRA"`, whose reading of numerals is the one of
the parser's flag after `(set-logic QF_BV)`); for a numeral-free text the standard's reading under the real logic
`env.logic` is what the parser returns. -/
theorem readTerm_sound_numfree_partial (env : Std.SEnv) (l : String) (ρ : List (String × Sym)) (Γ : PEnv)
    (hc : Agree.Corr { env with logic := l } [] Γ) (hm : Agree.MgrLe Γ.mgr ρ) (s : Sexp)
    (hn : Agree.numFreeS s = true) (hf : Agree.FragS env ρ s = true) (hro : Agree.RotOK env [] s = true) (u : Term)
    (h : Std.readStd env [] s = .ok u) :
    ∃ t, readTerm Γ s = .ok t ∧ t = Agree.mkNorm u ∧ t.wf = true ∧ t.typeOf = u.typeOf ∧
      ∀ I : Interp, I.WF → eval I t = eval I u :=
  Agree.readTerm_sound_numfree env l ρ Γ hc hm s hn hf hro u h

/-- **`set-logic L` (ANY name, no `logicOK`), declarations, then the assertion of a numeral-free text**, from the
initial states: the conclusion of `assert_after_decls`. (`declCmdsOKL`: `declCmdsOK` of the declarations in the
standard's state after `set-logic`; `declHead`: the command is a declaration, `set-info` or `set-option`.) -/
theorem assert_after_decls_numfree (ρ : List (String × Sym)) (tok : String) (ds : List Sexp) (s : Sexp)
    (st' st'' : Std.StdState) (hds : ds.all Agree.declHead = true)
    (hok : Agree.declCmdsOKL ρ Std.StdState.init tok ds = true)
    (hrun : Std.runStd (Agree.setLogicCmd tok :: ds) = .ok st') (hn : Agree.numFreeS s = true)
    (hf : Agree.FragS st'.env ρ s = true) (hro : Agree.RotOK st'.env [] s = true)
    (hstd : Std.runStd (Agree.setLogicCmd tok :: ds ++ [.list [.atom "assert", s]]) = .ok st'') :
    ∃ u, Std.readStd st'.env [] s = .ok u ∧ st''.live = st'.live ++ [u] ∧
      script PEnv.init (Agree.setLogicCmd tok :: ds ++ [.list [.atom "assert", s]])
        = .ok (Agree.declCommands Std.StdState.init (Agree.setLogicCmd tok :: ds) ++ [.assert (Agree.mkNorm u)]) ∧
      (Agree.mkNorm u).wf = true ∧ (Agree.mkNorm u).typeOf = some .bool ∧
      ∀ I : Interp, I.WF → eval I (Agree.mkNorm u) = eval I u :=
  Agree.assert_after_decls_numfree ρ tok ds s st' st'' hds hok hrun hn hf hro hstd

/-- **A QF_BV script**: `(set-logic QF_BV) (declare-fun v () (_ BitVec 8)) (declare-const w (_ BitVec 8))
(assert (bvult v (bvadd w (_ bv1 8))))` — `logicOK "QF_BV"` is false, the standard accepts the script, and the parser
model returns the four commands with the assertion of exactly the standard's term. -/
theorem qf_bv_script :
    Agree.logicOK "QF_BV" = false ∧
    script PEnv.init (Agree.BVScript.cs ++ [.list [.atom "assert", Agree.BVScript.asrt]])
      = .ok [.setLogic (some "QF_BV"), .declare "declare-fun" Agree.BVScript.vS,
             .declare "declare-const" Agree.BVScript.wS, .assert Agree.BVScript.tU] ∧
    Std.readStd Agree.BVScript.st.env [] Agree.BVScript.asrt = .ok Agree.BVScript.tU ∧
    Agree.BVScript.tU.wf = true ∧ Agree.BVScript.tU.typeOf = some .bool :=
  ⟨Agree.BVScript.logic_not_ok.1, Agree.BVScript.script_QF_BV⟩

/-- the hypothesis `numFreeS` is needed: with the flag of QF_BV the parser reads the numeral `1` as a Real constant, the
standard (logic `QF_BV`) as an Int constant -/
example : readTerm { PEnv.init with intArith := some false } (.atom "1") = .ok (Term.real 1) ∧
    Std.readStd { logic := "QF_BV" } [] (.atom "1") = .ok (Term.int 1) :=
  ⟨Agree.BVScript.parser_reads_real, Agree.BVScript.std_reads_int.1⟩

/-- the hypotheses of the script theorems are satisfiable: `Agree.exCs` has one command of every kind of the fragment
(with a quoted name), the standard accepts it, and afterwards the formula manager is NOT empty -/
example : Agree.declCmdsOK Agree.exRho Std.StdState.init Agree.exCs = true ∧ Std.runStd Agree.exCs = .ok Agree.exSt ∧
    Agree.FragS Agree.exSt.env Agree.exRho Agree.exAsrt = true ∧ Agree.RotOK Agree.exSt.env [] Agree.exAsrt = true :=
  ⟨Agree.exCs_ok, Agree.exSt_run, Agree.exAsrt_frag, Agree.exAsrt_rot⟩

/-! ## non-vacuity -/

/-- binder lists: `((x Int) (y Bool))` where `x` is a defined function of the enclosing scope and the manager knows
`y : Int` — `x` shadows the definition, `y` becomes the fresh `y0` (so `quantifier_order` cannot say "named as written") -/
example : ∃ Γ' vs, rdQuantBinds exEnv [] exBinders = .ok (Γ', vs) ∧ vs.map (·.name) = ["x", "y0"] ∧
    (bindNames exBinders).Nodup :=
  ⟨_, _, exBinders_run, by decide, by decide⟩

/-- unknown names below applications: `(and p (not foo))`, `(f foo)`, `((_ extract 3 1) foo)` -/
example : hasUnknownArg exEnv.binds (.list [.atom "and", .atom "p", .list [.atom "not", .atom "foo"]]) = true ∧
    hasUnknownArg exEnv.binds (.list [.atom "f", .atom "foo"]) = true ∧
    hasUnknownArg exEnv.binds (.list [.list [.atom "_", .atom "extract", .atom "3", .atom "1"], .atom "foo"]) = true ∧
    hasUnknownArg exEnv.binds (.list [.atom "and", .atom "p", .atom "p"]) = false := by
  decide +kernel

/-- `notLiteralStrict` holds for ordinary names (with `_` too), fails for the tolerant literals of Python -/
example : notLiteralStrict "foo_bar" ∧ ¬ notLiteralStrict "1_0" ∧ ¬ notLiteralStrict "\"abc\"" ∧ ¬ notLiteralStrict "٣" ∧
    notLiteral "1_0" := by
  decide +kernel


/-- the fragment contains nested connectives over symbols -/
example : Sound.PropFrag (.list [.atom "and", .atom "p", .list [.atom "not", .list [.atom "=>", .atom "q", .atom "true"]]])
    = true := by decide

/-- corresponding environments exist: one declared Boolean constant `p` -/
example : Sound.EnvRel
    [("p", .term (Term.var "p" .bool)), ("true", .term Term.tt), ("false", .term Term.ff)]
    { funs := [Sym.var "p" .bool] } := by
  refine ⟨by simp [lookup], by simp [lookup], ?_, ?_⟩
  · intro n s h1 h2 hf hp
    simp only [Std.SEnv.lookupFun, List.find?] at hf
    split at hf
    · next heq =>
      have hn : n = "p" := by have := heq; simp [Sym.var] at this; exact this.symm
      cases hf
      subst hn
      simp [lookup, Term.var]
    · simp at hf
  · intro n; simp [Std.SEnv.lookupDef]

/-- the hypotheses of `let_simultaneous` are satisfiable: `(let ((x y) (y x)) …)` with declared `x`, `y` -/
example :
    let binds : List (String × Parser.Val) := [("y", .term (Term.var "y" .int)), ("x", .term (Term.var "x" .int))]
    let bs : List Sexp := [.list [.atom "x", .atom "y"], .list [.atom "y", .atom "x"]]
    (∀ n ∈ bindNames bs, (lookup n binds).isSome) ∧ (bindNames bs).Nodup := by
  decide

/-- … and the conclusion is the simultaneous reading: in the body `x` means the outer `y` and `y` the outer `x` -/
example :
    let binds : List (String × Parser.Val) := [("y", .term (Term.var "y" .int)), ("x", .term (Term.var "x" .int))]
    (evalBindsOuter binds none {} [.list [.atom "x", .atom "y"], .list [.atom "y", .atom "x"]] []).map (·.1)
      = .ok [("y", .term (Term.var "x" .int)), ("x", .term (Term.var "y" .int))] := by
  have hx : pyTok "x" = "x" := by decide
  have hy : pyTok "y" = "y" := by decide
  simp [evalBindsOuter, rdVal, atomVal, lookup, hx, hy, Except.map]

/-- `notLiteral` holds for ordinary names, fails for the F16 tokens -/
example : notLiteral "foo" := by unfold notLiteral; decide
example : ¬ notLiteral "-3" := by unfold notLiteral; decide
example : ¬ notLiteral "1e2" := by unfold notLiteral; decide

/-! ### the fragment theorems -/

/-- an environment: `x : Int`, `p : Bool`, `f : Int → Int`, logic `QF_LIA`; the manager knows `y : Int` -/
def envEx : Std.SEnv := { logic := "QF_LIA", funs := [Sym.var "x" .int, Sym.var "p" .bool, ⟨"f", [.int], .int⟩] }
def ρEx : List (String × Sym) := [("y", Sym.var "y" .int)]
/-- `(and p (<= (f x) (- 5)))` -/
def sEx1 : Sexp :=
  .list [.atom "and", .atom "p", .list [.atom "<=", .list [.atom "f", .atom "x"], .list [.atom "-", .atom "5"]]]
/-- `(forall ((y Int)) (let ((z (+ y 1))) (=> (> z 0) (= ((_ extract 3 0) #xAB) #b1011))))` -/
def sEx2 : Sexp :=
  .list [.atom "forall", .list [.list [.atom "y", .atom "Int"]],
    .list [.atom "let", .list [.list [.atom "z", .list [.atom "+", .atom "y", .atom "1"]]],
      .list [.atom "=>", .list [.atom ">", .atom "z", .atom "0"],
        .list [.atom "=", .list [.list [.atom "_", .atom "extract", .atom "3", .atom "0"], .atom "#xAB"], .atom "#b1011"]]]]

/-- the environment hypothesis is satisfiable -/
example : Agree.envOK envEx = true := by decide

/-- the fragment contains operators, functions, unary minus of a literal … -/
example : Agree.FragS envEx ρEx sEx1 = true := by
  simp only [sEx1, Agree.FragS, Agree.FragL, Agree.fragOps, Agree.arityOK, Agree.binaryOnly, Agree.minusOK,
    Agree.minusArgOK, Agree.isNumLit, Agree.userHead]
  decide

/-- … quantifiers, `let`, indexed bit-vector operators, `#x`/`#b` literals -/
example : Agree.FragS envEx ρEx sEx2 = true := by
  simp only [sEx2, Agree.FragS, Agree.FragL, Agree.fragOps, Agree.arityOK, Agree.binaryOnly, Agree.minusOK,
    Agree.fragQuant, Agree.fragLet, Agree.fragLetB, Agree.fragBody, Agree.fragBinds, Agree.fragBind, Agree.fragVars,
    Agree.letNameOK, Agree.fragHead, Agree.FragSort]
  decide

/-- a rotation within the width, and one beyond it -/
def sEx3 : Sexp := .list [.atom "=", .list [.list [.atom "_", .atom "rotate_left", .atom "3"], .atom "#xAB"], .atom "#x5D"]
def sEx4 : Sexp := .list [.atom "=", .list [.list [.atom "_", .atom "rotate_left", .atom "9"], .atom "#xAB"], .atom "#x5D"]

/-- the side condition for rotations holds for the three texts (and fails for a rotation by 9 of 8 bits) -/
example : Agree.RotOK envEx [] sEx1 = true ∧ Agree.RotOK envEx [] sEx2 = true ∧ Agree.RotOK envEx [] sEx3 = true ∧
    Agree.RotOK envEx [] sEx4 = false := by
  refine ⟨?_, ?_, ?_, ?_⟩ <;>
  · simp only [sEx1, sEx2, sEx3, sEx4, Agree.RotOK, Agree.RotOKL, Agree.rotQuant, Agree.rotLet, Agree.rotBinds,
      Agree.rotBind, Agree.rotHeadOK]
    decide +kernel

example : Agree.FragS envEx ρEx sEx3 = true := by
  simp only [sEx3, Agree.FragS, Agree.FragL, Agree.fragOps, Agree.arityOK, Agree.binaryOnly, Agree.minusOK,
    Agree.fragHead]
  decide

/-- the standard reader accepts both -/
example : (Std.readStd envEx [] sEx1).toBool = true ∧ (Std.readStd envEx [] sEx2).toBool = true := by
  constructor <;> decide +kernel

/-- … so the theorems say something about them: the parser model accepts `sEx2` and returns a term with the standard's
meaning -/
example : ∃ t, readTerm (Agree.penvOf envEx) sEx2 = .ok t := by
  have hacc : (Std.readStd envEx [] sEx2).toBool = true := by decide +kernel
  cases hr : Std.readStd envEx [] sEx2 with
  | error e => rw [hr] at hacc; cases hacc
  | ok u =>
    obtain ⟨t, h, _⟩ := readTerm_sound_frag_partial envEx ρEx (Agree.penvOf envEx)
      (Agree.corr_penvOf envEx (by decide)) (Agree.mgrLe_penvOf envEx ρEx) sEx2 (by
        simp only [sEx2, Agree.FragS, Agree.FragL, Agree.fragOps, Agree.arityOK, Agree.binaryOnly, Agree.minusOK,
          Agree.fragQuant, Agree.fragLet, Agree.fragLetB, Agree.fragBody, Agree.fragBinds, Agree.fragBind,
          Agree.fragVars, Agree.letNameOK, Agree.fragHead, Agree.FragSort]
        decide) (by
        simp only [sEx2, Agree.RotOK, Agree.RotOKL, Agree.rotQuant, Agree.rotLet, Agree.rotBinds, Agree.rotBind,
          Agree.rotHeadOK]
        decide +kernel) u hr
    exact ⟨t, h⟩

/-- chainable comparisons, `(- x)` of a non-constant and `bvsmod` are outside the fragment -/
example : Agree.FragS envEx ρEx (.list [.atom "<", .atom "x", .atom "x", .atom "x"]) = false ∧
    Agree.FragS envEx ρEx (.list [.atom "-", .atom "x"]) = false ∧
    Agree.FragS envEx ρEx (.list [.atom "bvsmod", .atom "#b01", .atom "#b01"]) = false := by
  refine ⟨?_, ?_, ?_⟩ <;>
  · simp only [Agree.FragS, Agree.FragL, Agree.fragOps, Agree.arityOK, Agree.binaryOnly, Agree.minusOK,
      Agree.minusArgOK, Agree.isNumLit, Agree.fragHead]
    decide

/-- F16/F16b stay excluded: a name spelled like a numeral, a decimal or `#b…` is not `pnameOK` -/
theorem f16_excluded : Agree.pnameOK "12" = false ∧ Agree.pnameOK "1.5" = false ∧ Agree.pnameOK "#b01" = false ∧
    Agree.pnameOK "x12" = true ∧ Agree.pnameOK ".def_0" = true := by decide

/-- the hypotheses of `readTerm_wt_partial` are satisfiable and its conclusion is about a term that is really returned -/
example : WT.EnvOK PEnv.init.binds ∧ WT.NoNullary WT.exS = true ∧ ∃ t, readTerm PEnv.init WT.exS = .ok t :=
  ⟨WT.EnvOK_init, WT.exS_noNullary, _, WT.read_example⟩

end PySMT.Props.C08
