import PySMT.Proofs.C08Table
import PySMT.Proofs.C08Model
import PySMT.Proofs.C08Sound
import PySMT.Proofs.C08AgreeTop2
import PySMT.Proofs.C08WT5
/-!
# C08 — SMT-LIB import never misreads: the property theorems

Model: `Impl/Parser.lean` (pySMT's reading of an S-expression: `readTerm`, `cmd`, `script`), over the regenerated
operator table `Gen/ParserOps.lean`. Reference: the standard reader `Spec/SmtlibText.lean` (`Std.readStd`,
`Std.applyTheory`). The agreement of the model with `SmtLibParser.get_script` is tested on every run (K, literal
comparison of whole command lists), the agreement of the *implementation* with the standard reader is searched on every
run (S, two independent oracles).

## What is proved

* `parserOps_std` — every token of `self.interpreted` is bound to the constructor the standard prescribes
  (`decide` over the regenerated table, minus the explicit exclusions `Table.knownNonStd`);
* the repaired behaviours as theorems about the model: simultaneous `let` (F13/F13b), binders shadow definitions (F14),
  unknown names are rejected inside terms (F15), `assert` takes Boolean terms (F15c), bound variables keep their
  order (F31);
* `readTerm_wt_partial` — **accepted ⇒ well-typed**: every term `readTerm` returns is accepted by pySMT's checker
  (`Term.wt`), for *every* S-expression (all branches of the model: literals, operators, `let`, quantifiers, annotations,
  `(_ …)`, `(as …)`, `to_bv`), in every environment whose bound terms are well-typed. `_partial`: (a) applications of
  `define-fun`'d functions are excluded (`EnvOK`: the substitution of F17), (b) `NoNullary s`: no application to zero
  arguments `(f)` — a NEW FINDING of this proof: for a declared `f : Int → Int` the parser accepts `(f)` and returns the
  bare function symbol (`Function(f, [])` returns `vname`), which is not a term; `wt_counterexample` is the witness.
* `readTerm_agree_partial`, `readTerm_sound_frag_partial`, `readTerm_accept_sound_partial` — **soundness against the
  standard on the fragment `Agree.FragS`** (decidable; `Proofs/C08AgreeFrag.lean`): numerals (typed by the logic), decimals,
  `#b`/`#x`, `(_ bvN w)`, string literals without escapes, names; `not and or => xor = distinct ite + * - / <= < >= >
  to_real`, all bit-vector operators (`concat bvnot bvneg bvand … bvsge bvcomp bv2nat`, `(_ extract i j)`,
  `(_ zero_extend k)`, `(_ sign_extend k)`, `(_ repeat k)`, `(_ rotate_left k)`, `(_ rotate_right k)`), `select store
  ((as const σ) v)`, the string operators,
  applications of declared functions, `let` (simultaneous, against the standard's substitution semantics) and
  `forall`/`exists`, nested arbitrarily; side condition `Agree.RotOK env [] s` (decidable, `Proofs/C08AgreeRot.lean`; trivially
  true for a text without rotations): every rotation amount is at most the width of its operand — pySMT refuses larger
  rotations (a type error), the standard does not. In corresponding environments (`Agree.Corr env [] Γ`: explicit, one direction —
  the parser may know more names; `penv_corresponds`: `Agree.penvOf env` is one), **whenever the standard reader gives the
  text a meaning `u`, the parser model accepts it and returns exactly `mkNorm u`** — `u` after the three normalisations
  `FormulaManager`'s constructors perform (`Not(Not x)`, `ToReal(c)`, `Div` by a constant; `mkNorm_id_of_normal`: the
  identity on terms in the manager's normal form) — a well-formed term of the sort of `u` that has the value of `u` under
  every well-formed interpretation (`Proofs/C08NormSem.lean`; `standard_reading_wf_partial`: the standard only builds
  terms pySMT's checker accepts, `Proofs/C08StdWF*.lean`). In particular: whenever both readers accept, same sort, same
  meaning (`readTerm_accept_sound_partial`).
  `_partial`, i.e. NOT in the fragment and covered by K/S only: chainable/left-associative forms with more than two
  arguments of `=> = distinct - / < <= > >= bvxor` (pySMT rejects them or builds a different but equivalent term), `(- t)`
  for a non-constant `t` (the standard reads `0 - t`, pySMT `-1 * t`), `bvsmod` (pySMT's own encoding), annotations `(! t …)`, `(as x σ)`, parametric sorts, `div mod
  abs`, the F11 spellings `str.to_int`/`str.from_int`, and the commands (`script`). The known findings stay explicit
  hypotheses: F16/F16b (tolerant numerals, bars dropped): every bound name must satisfy `Agree.pnameOK` (`Corr.names`,
  `FragS`'s `bindNameOK`; witness `f16_excluded`); F17 (capture when applying a definition): `Corr.nodefs`; the fresh
  renaming of a bound variable whose name the manager knows with another sort: `FragS`'s `ρ` condition with
  `Agree.MgrLe`.
* `readTerm_sound_partial` — the first round's theorem (propositional fragment, truth values), kept.
-/
namespace PySMT.Props.C08
open PySMT PySMT.Parser PySMT.Gen.ParserOps

/-- The operator table: every token is read with the constructor the standard prescribes, except the listed
non-standard spellings (`pow`, `<->`, `str.to.int`, `int.to.str`). -/
theorem parserOps_std :
    table.all (fun e => Table.knownNonStd.contains e.1 || Table.expectedOf e.1 == some e.2) = true :=
  Table.table_std

/-- The exclusions are tokens the standard does not have. -/
theorem parserOps_exclusions_not_std :
    Table.knownNonStd.all (fun n => !(Std.theorySymbols.contains n)) = true :=
  Table.knownNonStd_not_std

/-- Every command name the parser dispatches on is modelled, is an OMT extension, or is one of the two commands the
parser itself refuses (`define-fun-rec`, `define-funs-rec`). -/
theorem commands_covered :
    commands.all (fun e =>
      ["set-logic", "set-info", "set-option", "get-info", "get-option", "echo", "push", "pop", "declare-sort",
       "define-sort", "declare-fun", "declare-const", "define-fun", "assert", "get-value", "check-sat-assuming",
       "define-fun-rec", "define-funs-rec"].contains e.1 || noArgCommands.contains e.1 || omtCommands.contains e.1)
      = true :=
  Table.commands_covered

/-- **Simultaneous let (F13).** If every variable of the `let` already means something in the enclosing scope (the
case in which sequential and simultaneous binding differ) and no variable is repeated, every binding term is read
with the bindings of the enclosing scope, and the body with all new bindings. -/
theorem let_simultaneous (binds : List (String × Parser.Val)) (ia : Option Bool) (bs : List Sexp) (σ : MgrSt)
    (hb : ∀ n ∈ bindNames bs, (lookup n binds).isSome) (hn : (bindNames bs).Nodup) :
    rdLetBinds ⟨binds, ia, σ⟩ [] [] bs =
      (evalBindsOuter binds ia σ bs []).map (fun r => ⟨bindAll r.1.reverse binds, ia, r.2⟩) :=
  rdLetBinds_outer binds ia bs σ [] [] hb (fun _ _ h => by simp at h) hn

/-- **Repeated let variable (F13b)** is a syntax error. -/
theorem let_repeated_variable (Γ : PEnv) (x : String) (e : Sexp) (bs : List Sexp) (seen : List String)
    (delayed : List (String × Parser.Val)) (h : pyTok x ∈ seen) :
    rdLetBinds Γ seen delayed (.list [.atom x, e] :: bs) = .error .syntax :=
  rdLetBinds_dup Γ x e bs seen delayed h

/-- **Binders shadow definitions (F14).** -/
theorem binder_shadows (Γ : PEnv) (x : String) (ty : Sexp) (Γ' : PEnv) (vs : List Sym)
    (h : rdQuantBinds Γ [] [.list [.atom x, ty]] = .ok (Γ', vs)) :
    ∃ s, vs = [s] ∧ lookup (pyTok x) Γ'.binds = some (.term (Term.sym s)) :=
  rdQuantBinds_shadows Γ x ty Γ' vs h

/-- **Unknown names are rejected inside terms (F15).** -/
theorem unknown_symbol_rejected (Γ : PEnv) (tok : String)
    (hb : lookup (pyTok tok) Γ.binds = none) (hl : notLiteral (pyTok tok)) :
    rdVal Γ false (.atom tok) = .error .syntax :=
  Parser.unknown_symbol_rejected Γ tok hb hl

/-- **Known residue (F15b):** as a whole command argument the unknown name is a String constant. This is the
witness why "malformed text is always rejected" is *not* a theorem of the model. -/
theorem unknown_symbol_lone_known (Γ : PEnv) (tok : String)
    (hb : lookup (pyTok tok) Γ.binds = none) (hl : notLiteral (pyTok tok)) :
    readTerm Γ (.atom tok) = .ok (Term.str (pyTok tok)) :=
  Parser.unknown_symbol_lone Γ tok hb hl

/-- **assert takes Boolean terms (F15c).** -/
theorem assert_bool (Γ Γ' : PEnv) (t : Sexp) (k : Command)
    (h : cmd Γ (.list [.atom "assert", t]) = .ok (Γ', k)) : ∃ t', k = .assert t' ∧ t'.typeOf = some .bool :=
  Parser.assert_bool Γ Γ' t k h

/-- **Bound variables keep their textual order (F31).** -/
theorem quantifier_order (Γ : PEnv) (bs : List Sexp) (Γ' : PEnv) (vs : List Sym)
    (h : rdQuantBinds Γ [] bs = .ok (Γ', vs)) : vs.length = bs.length := by
  obtain ⟨new, hv, hl⟩ := rdQuantBinds_order Γ bs [] Γ' vs h
  simp [hv, hl]

/-- **Soundness on the propositional fragment** (see the header for what is missing). -/
theorem readTerm_sound_partial (env : Std.SEnv) (Γ : PEnv) (hrel : Sound.EnvRel Γ.binds env) (s : Sexp)
    (hfr : Sound.PropFrag s = true) (t t' : Term) (hpy : readTerm Γ s = .ok t) (hstd : Std.readStd env [] s = .ok t') :
    ∀ I, C06.truth I t = C06.truth I t' :=
  Sound.readTerm_sound env Γ hrel s hfr t t' hpy hstd

/-! ## accepted ⇒ well-typed -/

/-- **Every accepted term is well-typed** (see the header for the two exclusions). -/
theorem readTerm_wt_partial (Γ : PEnv) (h : WT.EnvOK Γ.binds) (s : Sexp) (hs : WT.NoNullary s = true) (t : Term)
    (hr : readTerm Γ s = .ok t) : t.wt = true :=
  WT.readTerm_wt Γ h s hs t hr

/-- **Finding (nullary application).** After `(declare-fun f (Int) Int)` the text `(f)` is accepted and the returned
"term" is the bare function symbol, which the checker does not accept: `NoNullary` cannot be dropped. -/
theorem wt_counterexample : WT.EnvOK WT.ufEnv.binds ∧ ∃ t, readTerm WT.ufEnv WT.cexS = .ok t ∧ t.wt = false :=
  WT.counterexample

/-! ## soundness against the standard reader on the fragment `Agree.FragS` -/

/-- **Agreement.** Whenever the standard reader gives a text of the fragment the meaning `u`, the parser model accepts
it and returns `mkNorm u`, which pySMT's checker accepts. -/
theorem readTerm_agree_partial (env : Std.SEnv) (ρ : List (String × Sym)) (Γ : PEnv) (hc : Agree.Corr env [] Γ)
    (hm : Agree.MgrLe Γ.mgr ρ) (s : Sexp) (hf : Agree.FragS env ρ s = true) (hro : Agree.RotOK env [] s = true)
    (u : Term) (h : Std.readStd env [] s = .ok u) :
    readTerm Γ s = .ok (Agree.mkNorm u) ∧ (Agree.mkNorm u).wf = true ∧ ∃ τ, (Agree.mkNorm u).typeOf = some τ :=
  Agree.readTerm_agree env ρ Γ hc hm s hf hro u h

/-- **Soundness.** … and the returned term has the sort of `u` and, under every well-formed interpretation, the value of
`u`. -/
theorem readTerm_sound_frag_partial (env : Std.SEnv) (ρ : List (String × Sym)) (Γ : PEnv) (hc : Agree.Corr env [] Γ)
    (hm : Agree.MgrLe Γ.mgr ρ) (s : Sexp) (hf : Agree.FragS env ρ s = true) (hro : Agree.RotOK env [] s = true)
    (u : Term) (h : Std.readStd env [] s = .ok u) :
    ∃ t, readTerm Γ s = .ok t ∧ t = Agree.mkNorm u ∧ t.wf = true ∧ t.typeOf = u.typeOf ∧
      ∀ I : Interp, I.WF → eval I t = eval I u :=
  Agree.readTerm_sound env ρ Γ hc hm s hf hro u h

/-- **The property's form**: whenever the parser accepts (and the standard gives the text a meaning), the term it
returns denotes exactly what the standard says the text denotes. -/
theorem readTerm_accept_sound_partial (env : Std.SEnv) (ρ : List (String × Sym)) (Γ : PEnv) (hc : Agree.Corr env [] Γ)
    (hm : Agree.MgrLe Γ.mgr ρ) (s : Sexp) (hf : Agree.FragS env ρ s = true) (hro : Agree.RotOK env [] s = true)
    (t u : Term) (hpy : readTerm Γ s = .ok t) (hstd : Std.readStd env [] s = .ok u) :
    t.wf = true ∧ t.typeOf = u.typeOf ∧ ∀ I : Interp, I.WF → eval I t = eval I u :=
  Agree.readTerm_sound_accept env ρ Γ hc hm s hf hro t u hpy hstd

/-- the manager's normalisation is the identity on terms in the manager's normal form: there the parser returns the
standard's term itself -/
theorem mkNorm_id_of_normal (u : Term) (h : Agree.mgrNormal u = true) : Agree.mkNorm u = u :=
  Agree.mkNorm_of_normal u h

/-- the manager's normalisation keeps sort and meaning -/
theorem mkNorm_meaning (u : Term) (hwf : u.wf = true) :
    (Agree.mkNorm u).wf = true ∧ (Agree.mkNorm u).typeOf = u.typeOf ∧
      ∀ I : Interp, I.WF → eval I (Agree.mkNorm u) = eval I u :=
  Agree.mkNorm_sem u hwf

/-- on the fragment the standard reader only builds terms pySMT's checker accepts -/
theorem standard_reading_wf_partial (env : Std.SEnv) (ρ : List (String × Sym)) (hnd : env.defs = []) (s : Sexp)
    (hf : Agree.FragS env ρ s = true) (hro : Agree.RotOK env [] s = true) (u : Term)
    (h : Std.readStd env [] s = .ok u) : u.wf = true ∧ ∃ τ, u.typeOf = some τ :=
  Agree.readStd_wf env ρ hnd s hf hro u h

/-- the parser environment built from the declarations of `env` corresponds to `env` -/
theorem penv_corresponds (env : Std.SEnv) (h : Agree.envOK env = true) (ρ : List (String × Sym)) :
    Agree.Corr env [] (Agree.penvOf env) ∧ Agree.MgrLe (Agree.penvOf env).mgr ρ :=
  ⟨Agree.corr_penvOf env h, Agree.mgrLe_penvOf env ρ⟩

/-! ## non-vacuity -/

/-- the fragment contains nested connectives over symbols -/
example : Sound.PropFrag (.list [.atom "and", .atom "p", .list [.atom "not", .list [.atom "=>", .atom "q", .atom "true"]]])
    = true := by decide

/-- corresponding environments exist: one declared Boolean constant `p` -/
example : Sound.EnvRel
    [("p", .term (Term.var "p" .bool)), ("true", .term Term.tt), ("false", .term Term.ff)]
    { funs := [Sym.var "p" .bool] } := by
  refine ⟨by simp [lookup], by simp [lookup], ?_, ?_⟩
  · intro n s h1 h2 hf hp
    simp only [Std.SEnv.lookupFun, List.find?] at hf
    split at hf
    · next heq =>
      have hn : n = "p" := by have := heq; simp [Sym.var] at this; exact this.symm
      cases hf
      subst hn
      simp [lookup, Term.var]
    · simp at hf
  · intro n; simp [Std.SEnv.lookupDef]

/-- the hypotheses of `let_simultaneous` are satisfiable: `(let ((x y) (y x)) …)` with declared `x`, `y` -/
example :
    let binds : List (String × Parser.Val) := [("y", .term (Term.var "y" .int)), ("x", .term (Term.var "x" .int))]
    let bs : List Sexp := [.list [.atom "x", .atom "y"], .list [.atom "y", .atom "x"]]
    (∀ n ∈ bindNames bs, (lookup n binds).isSome) ∧ (bindNames bs).Nodup := by
  decide

/-- … and the conclusion is the simultaneous reading: in the body `x` means the outer `y` and `y` the outer `x` -/
example :
    let binds : List (String × Parser.Val) := [("y", .term (Term.var "y" .int)), ("x", .term (Term.var "x" .int))]
    (evalBindsOuter binds none {} [.list [.atom "x", .atom "y"], .list [.atom "y", .atom "x"]] []).map (·.1)
      = .ok [("y", .term (Term.var "x" .int)), ("x", .term (Term.var "y" .int))] := by
  have hx : pyTok "x" = "x" := by decide
  have hy : pyTok "y" = "y" := by decide
  simp [evalBindsOuter, rdVal, atomVal, lookup, hx, hy, Except.map]

/-- `notLiteral` holds for ordinary names, fails for the F16 tokens -/
example : notLiteral "foo" := by unfold notLiteral; decide
example : ¬ notLiteral "-3" := by unfold notLiteral; decide
example : ¬ notLiteral "1e2" := by unfold notLiteral; decide

/-! ### the fragment theorems -/

/-- an environment: `x : Int`, `p : Bool`, `f : Int → Int`, logic `QF_LIA`; the manager knows `y : Int` -/
def envEx : Std.SEnv := { logic := "QF_LIA", funs := [Sym.var "x" .int, Sym.var "p" .bool, ⟨"f", [.int], .int⟩] }
def ρEx : List (String × Sym) := [("y", Sym.var "y" .int)]
/-- `(and p (<= (f x) (- 5)))` -/
def sEx1 : Sexp :=
  .list [.atom "and", .atom "p", .list [.atom "<=", .list [.atom "f", .atom "x"], .list [.atom "-", .atom "5"]]]
/-- `(forall ((y Int)) (let ((z (+ y 1))) (=> (> z 0) (= ((_ extract 3 0) #xAB) #b1011))))` -/
def sEx2 : Sexp :=
  .list [.atom "forall", .list [.list [.atom "y", .atom "Int"]],
    .list [.atom "let", .list [.list [.atom "z", .list [.atom "+", .atom "y", .atom "1"]]],
      .list [.atom "=>", .list [.atom ">", .atom "z", .atom "0"],
        .list [.atom "=", .list [.list [.atom "_", .atom "extract", .atom "3", .atom "0"], .atom "#xAB"], .atom "#b1011"]]]]

/-- the environment hypothesis is satisfiable -/
example : Agree.envOK envEx = true := by decide

/-- the fragment contains operators, functions, unary minus of a literal … -/
example : Agree.FragS envEx ρEx sEx1 = true := by
  simp only [sEx1, Agree.FragS, Agree.FragL, Agree.fragOps, Agree.arityOK, Agree.binaryOnly, Agree.minusOK,
    Agree.minusArgOK, Agree.isNumLit, Agree.userHead]
  decide

/-- … quantifiers, `let`, indexed bit-vector operators, `#x`/`#b` literals -/
example : Agree.FragS envEx ρEx sEx2 = true := by
  simp only [sEx2, Agree.FragS, Agree.FragL, Agree.fragOps, Agree.arityOK, Agree.binaryOnly, Agree.minusOK,
    Agree.fragQuant, Agree.fragLet, Agree.fragLetB, Agree.fragBody, Agree.fragBinds, Agree.fragBind, Agree.fragVars,
    Agree.letNameOK, Agree.fragHead, Agree.FragSort]
  decide

/-- a rotation within the width, and one beyond it -/
def sEx3 : Sexp := .list [.atom "=", .list [.list [.atom "_", .atom "rotate_left", .atom "3"], .atom "#xAB"], .atom "#x5D"]
def sEx4 : Sexp := .list [.atom "=", .list [.list [.atom "_", .atom "rotate_left", .atom "9"], .atom "#xAB"], .atom "#x5D"]

/-- the side condition for rotations holds for the three texts (and fails for a rotation by 9 of 8 bits) -/
example : Agree.RotOK envEx [] sEx1 = true ∧ Agree.RotOK envEx [] sEx2 = true ∧ Agree.RotOK envEx [] sEx3 = true ∧
    Agree.RotOK envEx [] sEx4 = false := by
  refine ⟨?_, ?_, ?_, ?_⟩ <;>
  · simp only [sEx1, sEx2, sEx3, sEx4, Agree.RotOK, Agree.RotOKL, Agree.rotQuant, Agree.rotLet, Agree.rotBinds,
      Agree.rotBind, Agree.rotHeadOK]
    decide +kernel

example : Agree.FragS envEx ρEx sEx3 = true := by
  simp only [sEx3, Agree.FragS, Agree.FragL, Agree.fragOps, Agree.arityOK, Agree.binaryOnly, Agree.minusOK,
    Agree.fragHead]
  decide

/-- the standard reader accepts both -/
example : (Std.readStd envEx [] sEx1).toBool = true ∧ (Std.readStd envEx [] sEx2).toBool = true := by
  constructor <;> decide +kernel

/-- … so the theorems say something about them: the parser model accepts `sEx2` and returns a term with the standard's
meaning -/
example : ∃ t, readTerm (Agree.penvOf envEx) sEx2 = .ok t := by
  have hacc : (Std.readStd envEx [] sEx2).toBool = true := by decide +kernel
  cases hr : Std.readStd envEx [] sEx2 with
  | error e => rw [hr] at hacc; cases hacc
  | ok u =>
    obtain ⟨t, h, _⟩ := readTerm_sound_frag_partial envEx ρEx (Agree.penvOf envEx)
      (Agree.corr_penvOf envEx (by decide)) (Agree.mgrLe_penvOf envEx ρEx) sEx2 (by
        simp only [sEx2, Agree.FragS, Agree.FragL, Agree.fragOps, Agree.arityOK, Agree.binaryOnly, Agree.minusOK,
          Agree.fragQuant, Agree.fragLet, Agree.fragLetB, Agree.fragBody, Agree.fragBinds, Agree.fragBind,
          Agree.fragVars, Agree.letNameOK, Agree.fragHead, Agree.FragSort]
        decide) (by
        simp only [sEx2, Agree.RotOK, Agree.RotOKL, Agree.rotQuant, Agree.rotLet, Agree.rotBinds, Agree.rotBind,
          Agree.rotHeadOK]
        decide +kernel) u hr
    exact ⟨t, h⟩

/-- chainable comparisons, `(- x)` of a non-constant and `bvsmod` are outside the fragment -/
example : Agree.FragS envEx ρEx (.list [.atom "<", .atom "x", .atom "x", .atom "x"]) = false ∧
    Agree.FragS envEx ρEx (.list [.atom "-", .atom "x"]) = false ∧
    Agree.FragS envEx ρEx (.list [.atom "bvsmod", .atom "#b01", .atom "#b01"]) = false := by
  refine ⟨?_, ?_, ?_⟩ <;>
  · simp only [Agree.FragS, Agree.FragL, Agree.fragOps, Agree.arityOK, Agree.binaryOnly, Agree.minusOK,
      Agree.minusArgOK, Agree.isNumLit, Agree.fragHead]
    decide

/-- F16/F16b stay excluded: a name spelled like a numeral, a decimal or `#b…` is not `pnameOK` -/
theorem f16_excluded : Agree.pnameOK "12" = false ∧ Agree.pnameOK "1.5" = false ∧ Agree.pnameOK "#b01" = false ∧
    Agree.pnameOK "x12" = true ∧ Agree.pnameOK ".def_0" = true := by decide

/-- the hypotheses of `readTerm_wt_partial` are satisfiable and its conclusion is about a term that is really returned -/
example : WT.EnvOK PEnv.init.binds ∧ WT.NoNullary WT.exS = true ∧ ∃ t, readTerm PEnv.init WT.exS = .ok t :=
  ⟨WT.EnvOK_init, WT.exS_noNullary, _, WT.read_example⟩

end PySMT.Props.C08
