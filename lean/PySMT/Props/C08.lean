import PySMT.Proofs.C08Table
import PySMT.Proofs.C08Model
import PySMT.Proofs.C08Sound
/-!
# C08 — SMT-LIB import never misreads: the property theorems

Model: `Impl/Parser.lean` (pySMT's reading of an S-expression: `readTerm`, `cmd`, `script`), over the regenerated
operator table `Gen/ParserOps.lean`. Reference: the standard reader `Spec/SmtlibText.lean` (`Std.readStd`,
`Std.applyTheory`). The agreement of the model with `SmtLibParser.get_script` is tested on every run (K, literal
comparison of whole command lists), the agreement of the *implementation* with the standard reader is searched on every
run (S, two independent oracles).

What is proved here, and what is not:
* `parserOps_std` — every token of `self.interpreted` is bound to the constructor the standard prescribes
  (`decide` over the regenerated table, minus the explicit exclusions `Table.knownNonStd`);
* the repaired behaviours as theorems about the model: simultaneous `let` (F13/F13b), binders shadow definitions (F14),
  unknown names are rejected inside terms (F15), `assert` takes Boolean terms (F15c), bound variables keep their
  order (F31);
* `readTerm_sound_partial` — whenever the parser model and the standard reader `Std.readStd` both accept a text of the
  propositional fragment (`Sound.PropFrag`: declared constants, `true`, `false` under `not/and/or/=>/xor`, nested
  arbitrarily) in corresponding environments, the two terms have the same truth value under every interpretation.
  `_partial`: the statement for `ite`, `=`, `distinct`, arithmetic, bit-vectors, arrays, strings (they need the typing
  invariant `readTerm_wt`, which is **not** proved), for `let`/quantifiers against the standard's substitution semantics
  and for definitions is not proved; these are covered by the search (S, two oracles) and by K only. F16 and F17 are
  outside the fragment by construction (witnesses: `KNOWN_SHAPES` of the harness, `unknown_symbol_lone_known` below).
-/
namespace PySMT.Props.C08
open PySMT PySMT.Parser PySMT.Gen.ParserOps

/-- The operator table: every token is read with the constructor the standard prescribes, except the listed
non-standard spellings (`pow`, `<->`, `str.to.int`, `int.to.str`). -/
theorem parserOps_std :
    table.all (fun e => Table.knownNonStd.contains e.1 || Table.expectedOf e.1 == some e.2) = true :=
  Table.table_std

/-- The exclusions are tokens the standard does not have. -/
theorem parserOps_exclusions_not_std :
    Table.knownNonStd.all (fun n => !(Std.theorySymbols.contains n)) = true :=
  Table.knownNonStd_not_std

/-- Every command name the parser dispatches on is modelled, is an OMT extension, or is one of the two commands the
parser itself refuses (`define-fun-rec`, `define-funs-rec`). -/
theorem commands_covered :
    commands.all (fun e =>
      ["set-logic", "set-info", "set-option", "get-info", "get-option", "echo", "push", "pop", "declare-sort",
       "define-sort", "declare-fun", "declare-const", "define-fun", "assert", "get-value", "check-sat-assuming",
       "define-fun-rec", "define-funs-rec"].contains e.1 || noArgCommands.contains e.1 || omtCommands.contains e.1)
      = true :=
  Table.commands_covered

/-- **Simultaneous let (F13).** If every variable of the `let` already means something in the enclosing scope (the
case in which sequential and simultaneous binding differ) and no variable is repeated, every binding term is read
with the bindings of the enclosing scope, and the body with all new bindings. -/
theorem let_simultaneous (binds : List (String × Parser.Val)) (ia : Option Bool) (bs : List Sexp) (σ : MgrSt)
    (hb : ∀ n ∈ bindNames bs, (lookup n binds).isSome) (hn : (bindNames bs).Nodup) :
    rdLetBinds ⟨binds, ia, σ⟩ [] [] bs =
      (evalBindsOuter binds ia σ bs []).map (fun r => ⟨bindAll r.1.reverse binds, ia, r.2⟩) :=
  rdLetBinds_outer binds ia bs σ [] [] hb (fun _ _ h => by simp at h) hn

/-- **Repeated let variable (F13b)** is a syntax error. -/
theorem let_repeated_variable (Γ : PEnv) (x : String) (e : Sexp) (bs : List Sexp) (seen : List String)
    (delayed : List (String × Parser.Val)) (h : pyTok x ∈ seen) :
    rdLetBinds Γ seen delayed (.list [.atom x, e] :: bs) = .error .syntax :=
  rdLetBinds_dup Γ x e bs seen delayed h

/-- **Binders shadow definitions (F14).** -/
theorem binder_shadows (Γ : PEnv) (x : String) (ty : Sexp) (Γ' : PEnv) (vs : List Sym)
    (h : rdQuantBinds Γ [] [.list [.atom x, ty]] = .ok (Γ', vs)) :
    ∃ s, vs = [s] ∧ lookup (pyTok x) Γ'.binds = some (.term (Term.sym s)) :=
  rdQuantBinds_shadows Γ x ty Γ' vs h

/-- **Unknown names are rejected inside terms (F15).** -/
theorem unknown_symbol_rejected (Γ : PEnv) (tok : String)
    (hb : lookup (pyTok tok) Γ.binds = none) (hl : notLiteral (pyTok tok)) :
    rdVal Γ false (.atom tok) = .error .syntax :=
  Parser.unknown_symbol_rejected Γ tok hb hl

/-- **Known residue (F15b):** as a whole command argument the unknown name is a String constant. This is the
witness why "malformed text is always rejected" is *not* a theorem of the model. -/
theorem unknown_symbol_lone_known (Γ : PEnv) (tok : String)
    (hb : lookup (pyTok tok) Γ.binds = none) (hl : notLiteral (pyTok tok)) :
    readTerm Γ (.atom tok) = .ok (Term.str (pyTok tok)) :=
  Parser.unknown_symbol_lone Γ tok hb hl

/-- **assert takes Boolean terms (F15c).** -/
theorem assert_bool (Γ Γ' : PEnv) (t : Sexp) (k : Command)
    (h : cmd Γ (.list [.atom "assert", t]) = .ok (Γ', k)) : ∃ t', k = .assert t' ∧ t'.typeOf = some .bool :=
  Parser.assert_bool Γ Γ' t k h

/-- **Bound variables keep their textual order (F31).** -/
theorem quantifier_order (Γ : PEnv) (bs : List Sexp) (Γ' : PEnv) (vs : List Sym)
    (h : rdQuantBinds Γ [] bs = .ok (Γ', vs)) : vs.length = bs.length := by
  obtain ⟨new, hv, hl⟩ := rdQuantBinds_order Γ bs [] Γ' vs h
  simp [hv, hl]

/-- **Soundness on the propositional fragment** (see the header for what is missing). -/
theorem readTerm_sound_partial (env : Std.SEnv) (Γ : PEnv) (hrel : Sound.EnvRel Γ.binds env) (s : Sexp)
    (hfr : Sound.PropFrag s = true) (t t' : Term) (hpy : readTerm Γ s = .ok t) (hstd : Std.readStd env [] s = .ok t') :
    ∀ I, C06.truth I t = C06.truth I t' :=
  Sound.readTerm_sound env Γ hrel s hfr t t' hpy hstd

/-! ## non-vacuity -/

/-- the fragment contains nested connectives over symbols -/
example : Sound.PropFrag (.list [.atom "and", .atom "p", .list [.atom "not", .list [.atom "=>", .atom "q", .atom "true"]]])
    = true := by decide

/-- corresponding environments exist: one declared Boolean constant `p` -/
example : Sound.EnvRel
    [("p", .term (Term.var "p" .bool)), ("true", .term Term.tt), ("false", .term Term.ff)]
    { funs := [Sym.var "p" .bool] } := by
  refine ⟨by simp [lookup], by simp [lookup], ?_, ?_⟩
  · intro n s h1 h2 hf hp
    simp only [Std.SEnv.lookupFun, List.find?] at hf
    split at hf
    · next heq =>
      have hn : n = "p" := by have := heq; simp [Sym.var] at this; exact this.symm
      cases hf
      subst hn
      simp [lookup, Term.var]
    · simp at hf
  · intro n; simp [Std.SEnv.lookupDef]

/-- the hypotheses of `let_simultaneous` are satisfiable: `(let ((x y) (y x)) …)` with declared `x`, `y` -/
example :
    let binds : List (String × Parser.Val) := [("y", .term (Term.var "y" .int)), ("x", .term (Term.var "x" .int))]
    let bs : List Sexp := [.list [.atom "x", .atom "y"], .list [.atom "y", .atom "x"]]
    (∀ n ∈ bindNames bs, (lookup n binds).isSome) ∧ (bindNames bs).Nodup := by
  decide

/-- … and the conclusion is the simultaneous reading: in the body `x` means the outer `y` and `y` the outer `x` -/
example :
    let binds : List (String × Parser.Val) := [("y", .term (Term.var "y" .int)), ("x", .term (Term.var "x" .int))]
    (evalBindsOuter binds none {} [.list [.atom "x", .atom "y"], .list [.atom "y", .atom "x"]] []).map (·.1)
      = .ok [("y", .term (Term.var "x" .int)), ("x", .term (Term.var "y" .int))] := by
  have hx : pyTok "x" = "x" := by decide
  have hy : pyTok "y" = "y" := by decide
  simp [evalBindsOuter, rdVal, atomVal, lookup, hx, hy, Except.map]

/-- `notLiteral` holds for ordinary names, fails for the F16 tokens -/
example : notLiteral "foo" := by unfold notLiteral; decide
example : ¬ notLiteral "-3" := by unfold notLiteral; decide
example : ¬ notLiteral "1e2" := by unfold notLiteral; decide

end PySMT.Props.C08
