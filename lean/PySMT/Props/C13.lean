/-
Property C13 -- "Detected logic covers the formula; ordering and selection are sound".

All statements are about the definitions in `PySMT/Gen/TheoryOrder.lean` and `PySMT/Gen/Logics.lean`,
which are regenerated from `pysmt/logics.py` on every run (code by `ast` translation, tables by import),
so a change of the Python source changes the statements' subject and re-runs the proofs.
`a ≤ b` below is the translated `Theory.__le__` / `Logic.__le__`.

Scope notes
* ordering / `combine` theorems: all 2^12 theories, all logics (any name), no table involved;
* table theorems (`table_*`, `*_subset_logics`): the regenerated tables, by `decide +kernel`;
* selection theorems: arbitrary lists of supported logics and arbitrary targets;
* detection (`oracle_wf`, `detect_covers`, `detect_sort_covered`, `detect_logic_covers`, `detect_covers_wf_partial`,
  `detect_covers_partial`, `detect_logic_covers_partial`): about the hand-written model
  `Impl/TheoryOracle.lean` of the (repaired) `TheoryOracle` and of `oracles.get_logic`, compared with the real code on
  every generated formula by the harness.
-/
import PySMT.Proofs.C13Table
import PySMT.Proofs.C13Detect
import PySMT.Proofs.C13Typed
import PySMT.Proofs.C13Perm
import PySMT.Proofs.C13Total
import PySMT.Proofs.C13Factory
namespace PySMT.Logics.C13

local infix:50 " ≤ₜ " => fun a b => Theory.le a b = true
local infix:50 " ≤ₗ " => fun a b => Logic.le a b = true

/-! ## The "at most as expressive as" relation on theories is a partial order -/

theorem theory_le_refl (a : Theory) : a ≤ₜ a := Theory.le_refl a

theorem theory_le_trans (a b c : Theory) : a ≤ₜ b → b ≤ₜ c → a ≤ₜ c := Theory.le_trans a b c

theorem theory_le_antisymm (a b : Theory) : a ≤ₜ b → b ≤ₜ a → a = b := Theory.le_antisymm a b

/-- being below a theory means that theory enables every listed feature -/
theorem theory_le_covers (a b : Theory) : a ≤ₜ b → b.covers a = true := Theory.le_covers a b

/-! ## `combine` gives an upper bound of both (on well-formed theories), and stays well formed -/

theorem combine_ub (a b : Theory) (ha : WFTheory a) (hb : WFTheory b) :
    a ≤ₜ a.combine b ∧ b ≤ₜ a.combine b := Theory.combine_ub a b ha hb

/-- exact characterisation: `combine a b` is an upper bound iff, for integers and for reals, one side
has the arithmetic or neither side claims difference logic -/
theorem combine_ub_iff (a b : Theory) :
    (a ≤ₜ a.combine b ∧ b ≤ₜ a.combine b) ↔ Theory.combinable a b = true := Theory.combine_ub_iff a b

theorem combine_wf (a b : Theory) (ha : WFTheory a) (hb : WFTheory b) : WFTheory (a.combine b) :=
  Theory.combine_wf a b ha hb

/-- neither of `combine`'s internal assertions nor the constructor's assertion can fire on theories
the constructor accepted -/
theorem combine_no_assertion (a b : Theory) (ha : a.init_ok = true) (hb : b.init_ok = true) :
    Theory.combine.assert1 a b = true ∧ Theory.combine.assert2 a b = true ∧ (a.combine b).init_ok = true :=
  ⟨(Theory.combine_asserts a b).1, (Theory.combine_asserts a b).2, Theory.combine_init_ok a b ha hb⟩

/-- FINDING (known, F45): without the well-formedness hypothesis the upper-bound claim is false --
`Theory(integer_difference=True)` is accepted by the constructor and
`Theory(integer_difference=True).combine(Theory())` is not above its first argument. -/
theorem combine_ub_fails_on_illformed :
    ¬ ∀ a b : Theory, a ≤ₜ a.combine b ∧ b ≤ₜ a.combine b := Theory.combine_not_ub_illformed

/-- every `set_*` method keeps a theory well formed; `set_lira` / `set_arrays` only when switching the
flag *on* (the only use in the library) or when the dependent flag is off -/
theorem set_ops_wf_partial (a : Theory) (v : Bool) (ha : WFTheory a) :
    WFTheory (a.set_linear v) ∧ WFTheory (a.set_strings v) ∧ WFTheory (a.set_difference_logic v) ∧
    WFTheory (a.set_arrays_const v) ∧ WFTheory (a.set_lira true) ∧ WFTheory (a.set_arrays true) ∧
    WFTheory a.copy :=
  ⟨Theory.set_linear_wf a v ha, Theory.set_strings_wf a v ha, Theory.set_difference_logic_wf a v ha,
   Theory.set_arrays_const_wf a v ha, Theory.set_lira_wf a true ha (.inl rfl),
   Theory.set_arrays_wf a true ha (.inl rfl), by rw [Theory.copy_eq]; exact ha⟩

/-- every named logic of the module has a well-formed theory -/
theorem table_wf : ∀ l ∈ ALL_NAMED, WFTheory l.theory := fun l hl => (Logics.table_wf l hl).1

/-! ## The relation on logics is a partial order up to the name -/

theorem logic_le_preorder : (∀ a : Logic, a ≤ₗ a) ∧ (∀ a b c : Logic, a ≤ₗ b → b ≤ₗ c → a ≤ₗ c) :=
  ⟨Logic.le_refl, Logic.le_trans⟩

theorem logic_le_antisymm_mod_name (a b : Logic) :
    a ≤ₗ b → b ≤ₗ a → a.theory = b.theory ∧ a.quantifier_free = b.quantifier_free :=
  Logic.le_antisymm_mod_name a b

/-- a logic above the target covers all features of the target, and allows quantifiers if the target
needs them -/
theorem logic_le_covers (a b : Logic) : a ≤ₗ b → b.covers a = true := Logic.le_covers a b

/-- `<`, `>=`, `>`, `==`, `!=` are the derived relations of `<=` and structural equality -/
theorem logic_derived_relations (a b : Logic) :
    (Logic.lt a b = true ↔ (a ≠ b ∧ a ≤ₗ b)) ∧ (Logic.ge a b = true ↔ b ≤ₗ a) ∧
    (Logic.gt a b = true ↔ (b ≠ a ∧ b ≤ₗ a)) ∧ (Logic.eq a b = true ↔ a = b) ∧
    (Logic.ne a b = true ↔ a ≠ b) :=
  ⟨Logic.lt_iff a b, Logic.ge_iff a b, (Logic.gt_iff a b).trans (Logic.lt_iff b a), Logic.eq_iff a b,
   Logic.ne_iff a b⟩

/-! ## The regenerated table -/

/-- no two logics of `LOGICS ∪ PYSMT_LOGICS ∪ SMTLIB2_LOGICS` have the same theory and quantifier flag -/
theorem table_no_twins : NoTwins TABLE := Logics.table_no_twins

/-- hence `≤` is a genuine partial order on the table (decided pair by pair) -/
theorem table_antisymm_mod_name : ∀ a ∈ TABLE, ∀ b ∈ TABLE, a ≤ₗ b → b ≤ₗ a → a = b :=
  Logics.table_antisymm

theorem table_names_unique : ∀ a ∈ TABLE, ∀ b ∈ TABLE, a.name = b.name → a = b :=
  Logics.table_names_unique

/-- F32: whatever detection returns (`PYSMT_LOGICS`) and every SMT-LIB logic can be found again in
`LOGICS`, by flags (`get_logic`) and therefore by membership for `get_logic_by_name` -/
theorem detected_logics_are_listed :
    (∀ l ∈ PYSMT_LOGICS, l ∈ LOGICS) ∧ (∀ l ∈ SMTLIB2_LOGICS, l ∈ LOGICS) ∧
    (∀ l ∈ LOGICS, (get_logic l.quantifier_free l.theory.arrays l.theory.arrays_const l.theory.bit_vectors
      l.theory.floating_point l.theory.integer_arithmetic l.theory.real_arithmetic
      l.theory.integer_difference l.theory.real_difference l.theory.linear l.theory.uninterpreted
      l.theory.custom_type l.theory.strings).toOption = some l) :=
  ⟨pysmt_subset_logics, smtlib2_subset_logics, get_logic_finds⟩

/-! ## Selection, for arbitrary supported lists -/

/-- `get_closer_logic` returns a supported logic above the target with no other supported logic in
between (so, in particular, none *strictly* in between) -/
theorem closer_spec (sup : List Logic) (tgt r : Logic) (h : get_closer_logic sup tgt = .ok r) :
    r ∈ sup ∧ tgt ≤ₗ r ∧ ¬ ∃ k ∈ sup, tgt ≤ₗ k ∧ k ≤ₗ r ∧ k ≠ r :=
  get_closer_logic_spec sup tgt r h

/-- the returned logic can express everything the target needs -/
theorem closer_covers (sup : List Logic) (tgt r : Logic) (h : get_closer_logic sup tgt = .ok r) :
    r.covers tgt = true :=
  Logic.le_covers tgt r (get_closer_logic_spec sup tgt r h).2.1

/-- it fails with `NoLogicAvailableError` exactly when no supported logic is above the target … -/
theorem closer_none_iff (sup : List Logic) (tgt : Logic) :
    get_closer_logic sup tgt = .error .NoLogicAvailableError ↔ ∀ k ∈ sup, Logic.le tgt k = false :=
  get_closer_logic_none sup tgt

/-- … and otherwise succeeds (no `IndexError` from an empty set of minima), provided the supported
list has no twins -/
theorem closer_total (sup : List Logic) (tgt : Logic) (hnt : NoTwins sup)
    (hex : ∃ k ∈ sup, tgt ≤ₗ k) : ∃ r, get_closer_logic sup tgt = .ok r :=
  get_closer_logic_total sup tgt hnt hex

/-- with twins in the supported list the function does raise `IndexError` -/
theorem closer_total_needs_noTwins :
    get_closer_logic [BOOL, AUTO] BOOL = .error .IndexError := by decide +kernel

theorem closer_pysmt_spec (tgt r : Logic) (h : get_closer_pysmt_logic tgt = .ok r) :
    r ∈ PYSMT_LOGICS ∧ tgt ≤ₗ r ∧ (¬ ∃ k ∈ PYSMT_LOGICS, tgt ≤ₗ k ∧ k ≤ₗ r ∧ k ≠ r) ∧ r.covers tgt = true :=
  have h' := get_closer_pysmt_logic_spec tgt r h
  ⟨h'.1, h'.2.1, h'.2.2, Logic.le_covers tgt r h'.2.1⟩

theorem closer_pysmt_total (tgt : Logic) (hex : ∃ k ∈ PYSMT_LOGICS, tgt ≤ₗ k) :
    ∃ r, get_closer_pysmt_logic tgt = .ok r := get_closer_pysmt_logic_total tgt hex

/-- including the two hard-wired answers (`QF_BOOL ↦ QF_UF`, `BOOL ↦ LRA`) -/
theorem closer_smtlib_spec (tgt r : Logic) (h : get_closer_smtlib_logic tgt = .ok r) :
    r ∈ SMTLIB2_LOGICS ∧ tgt ≤ₗ r ∧ (¬ ∃ k ∈ SMTLIB2_LOGICS, tgt ≤ₗ k ∧ k ≤ₗ r ∧ k ≠ r) ∧
    r.covers tgt = true :=
  have h' := get_closer_smtlib_logic_spec tgt r h
  ⟨h'.1, h'.2.1, h'.2.2, Logic.le_covers tgt r h'.2.1⟩

/-- `most_generic_logic` returns a member above all members, and it is the only such member -/
theorem most_generic_spec (ls : List Logic) (r : Logic) (h : most_generic_logic ls = .ok r) :
    (r ∈ ls ∧ ∀ x ∈ ls, x ≤ₗ r) ∧ ∀ y, (y ∈ ls ∧ ∀ x ∈ ls, x ≤ₗ y) → y = r :=
  most_generic_logic_spec ls r h

/-! ## Selection does not depend on the enumeration order (the supported "lists" are frozensets) -/

/-- any two enumerations of the same set of supported logics (names pairwise distinct) give the same answer,
result or exception -/
theorem closer_perm (sup sup' : List Logic) (tgt : Logic) (hp : sup.Perm sup') (hn : NamesUnique sup) :
    get_closer_logic sup tgt = get_closer_logic sup' tgt := get_closer_logic_perm tgt hp hn

/-- … namely, among the ≤-minimal supported logics above the target, the one with the least name -/
theorem closer_least_name (sup : List Logic) (tgt r : Logic) (h : get_closer_logic sup tgt = .ok r) :
    ∀ k ∈ sup, tgt ≤ₗ k → (∀ j ∈ sup, tgt ≤ₗ j → j ≤ₗ k → j = k) → r.name ≤ k.name :=
  get_closer_logic_least_name sup tgt r h

theorem most_generic_perm (ls ls' : List Logic) (hp : ls.Perm ls') :
    most_generic_logic ls = most_generic_logic ls' := most_generic_logic_perm hp

/-- `get_logic_by_name` returns a member of `LOGICS` whose name equals the argument up to case.  (That two
members of `LOGICS` never agree up to case is checked on the real table by the harness only: `String.toLower`
does not evaluate in the kernel in reasonable time; `table_names_unique` is about exact names.) -/
theorem by_name_spec (n : String) (l : Logic) (h : get_logic_by_name n = .ok l) :
    l ∈ LOGICS ∧ l.name.toLower = n.toLower := by
  simp only [get_logic_by_name] at h
  split at h
  · rename_i x hx
    cases h
    exact ⟨List.mem_of_find?_eq_some hx, by simpa using List.find?_some hx⟩
  · cases h

/-! ## Totality of detection -/

/-- some pySMT logic is above a target iff one of the six maximal ones is, iff the flags satisfy `detectable`
(no floating point, and one of six explicit combinations: see `Proofs/C13Total.lean`) -/
theorem detectable_iff (tgt : Logic) :
    ((∃ k ∈ PYSMT_LOGICS, tgt ≤ₗ k) ↔ (∃ k ∈ MAXIMAL_PYSMT, tgt ≤ₗ k)) ∧
    ((∃ k ∈ PYSMT_LOGICS, tgt ≤ₗ k) ↔ detectable tgt.quantifier_free tgt.theory = true) :=
  ⟨exists_above_iff tgt, exists_above_iff_detectable tgt⟩

open PySMT.TheoryOracle in
/-- **for which formulas `get_logic` answers**: it returns a logic exactly when the detected theory and
quantifier flag are `detectable`, and raises `NoLogicAvailableError` (never `IndexError`) otherwise -/
theorem detect_total (t : Term) :
    ((∃ L, getLogic t = .ok L) ↔ detectable t.isQF (theoryOf t) = true) ∧
    (detectable t.isQF (theoryOf t) = false → getLogic t = .error .NoLogicAvailableError) :=
  get_closer_pysmt_logic_total_iff { name := "Detected Logic", quantifier_free := t.isQF, theory := theoryOf t }

/-! ## Detection -/

open PySMT.TheoryOracle PySMT.Features in
/-- every theory the oracle computes is well formed -- for *any* term, well-sorted or not (hence `combine_ub`
applies to everything detection produces, and the assertions in `walk_plus` cannot fire) -/
theorem oracle_wf (t : Term) : WFTheory (theoryOf t) := theoryOf_wf t

open PySMT.TheoryOracle PySMT.Features in
/-- The detected theory enables every *intrinsic* feature of the formula: the sorts of all symbols, constants,
bound variables, function results and array-value indices; integer-valued string and bit-vector operators,
`to_real`, strings produced from integers; constant arrays; uninterpreted applications; non-linear products,
quotients by non-constants.

`_partial`: no sortedness is assumed here, so only the intrinsic part of `features` can be guaranteed (the
operator-family features that a well-sorted operand accounts for, and the parameter sorts of applied functions,
are covered by `detect_covers` under `Spec.HasType`); `inFragment` excludes `pow` and function symbols used as
terms or bound by a quantifier, and asks for the arities of leaves and unary operators. -/
theorem detect_covers_partial (t : Term) (hf : inFragment t = true) :
    (theoryOf t).covers (featuresIntrinsic t) = true := by
  simp only [inFragment, Bool.and_eq_true] at hf
  exact (covers_iff _ _).2 (theoryOf_covers t hf.1 hf.2)

open PySMT.TheoryOracle PySMT.Features in
/-- **Detection covers the formula.**  For every formula that is well-sorted by the SMT-LIB discipline
(`Spec.HasType`, the independent specification of C03) and does not use `pow`, the detected theory enables
*every* feature the formula uses (`Features.features`): all sorts (symbols, constants, bound variables, function
signatures incl. parameter sorts, array-value indices), all operator families (bit-vector, string, array,
integer-valued and real-valued conversions), constant arrays, uninterpreted symbols, custom sorts, non-linear
arithmetic.  (`pow` must be excluded: see `detect_covers_fails_with_int_pow`.) -/
theorem detect_covers (t : Term) (τ : Ty) (h : Spec.HasType t τ) (hp : noPow t = true) :
    (theoryOf t).covers (features t) = true :=
  (covers_iff _ _).2 (covers_of_hasType t τ h hp)

open PySMT.TheoryOracle PySMT.Features in
/-- the detected theory also enables the sort of the term itself -/
theorem detect_sort_covered (t : Term) (τ : Ty) (h : Spec.HasType t τ) (hp : noPow t = true) :
    (theoryOf t).covers (ofSort τ) = true :=
  (covers_iff _ _).2 (theoryOf_covers_typed t τ (Spec.sortOf_of_hasType h) hp).2

/-- `f(x ^ 2)` with `x : Int` and `f : Real → Bool` -/
def intPowWitness : Term :=
  Term.app ⟨"f", [.real], .bool⟩ [.node .pow [Term.var "x" .int, Term.int 2] .none]

open PySMT.TheoryOracle PySMT.Features PySMT.Spec in
/-- FINDING (known, F46; a consequence of F05): `pow` over integers has the rank `Int Int → Real` (pySMT's
typing, also `Spec.Sig.pow`), but `walk_pow` only keeps the theory of the base: `f(x ^ 2)` with
`f : Real → Bool` is well-sorted and uses the reals (parameter sort of `f`), yet the detected theory has no
real arithmetic.  Hence the `noPow` hypothesis of `detect_covers`. -/
theorem detect_covers_fails_with_int_pow :
    HasType intPowWitness .bool ∧ (theoryOf intPowWitness).covers (features intPowWitness) = false := by
  constructor
  · rw [hasType_iff_sortOf]
    simp [intPowWitness, Term.sortOf, allSome, sigOf, Term.app, Term.var, Term.sym, Term.int, Sym.var, isNum]
  · simp [intPowWitness, features, own, intrinsic, operandImplied, Features.join, Features.joinAll, Features.none,
      isIntValuedOp, isBvOp, isStrOp, ofSym, ofSort, theoryOf, rule, funBase, withUF, symTheory, theoryFromType,
      Term.app, Term.var, Term.sym, Term.int, Sym.var, Sym.isFn, Theory.covers, Theory.combine,
      Theory.combine.integer_difference, Theory.combine.real_difference, Theory.default, Theory.copy,
      Theory.set_linear, Theory.set_difference_logic]

/-- `((x - y) - z) <= 0` over the integers -/
def idlWitness : Term :=
  .node .le [.node .minus [.node .minus [Term.var "x" .int, Term.var "y" .int] .none, Term.var "z" .int] .none,
             Term.int 0] .none

open PySMT.TheoryOracle PySMT.Features PySMT.Spec in
/-- FINDING (known, F47): the difference-logic flags are *unsound*.  `walk_combine` treats `-` like a Boolean
connective, so any term built from variables, numerals and subtraction keeps `integer_difference`, also when
three variables are involved, when `-` sits under a function / ITE / array index, or when the right-hand side is
not a numeral: `((x - y) - z) <= 0` is well-sorted, is **not** a difference constraint (`Features.isDL`, see
`Spec/Features.lean` for the definition used), yet the detected theory claims integer difference logic and
`get_logic` labels the formula `QF_IDL` -- a logic that cannot express it.  (The positive statement
`(theoryOf t).integer_difference = true → isDL .int t` is therefore false; `covers` deliberately ignores the
difference flags, so `detect_covers` is not affected.) -/
theorem detect_idl_unsound :
    HasType idlWitness .bool ∧ (theoryOf idlWitness).integer_difference = true ∧
    isDL .int idlWitness = false ∧ getLogic idlWitness = .ok QF_IDL := by
  have w1 : theoryOf idlWitness = QF_IDL.theory := by
    simp [idlWitness, theoryOf, rule, combineList, foldCombine, symTheory, theoryFromType, Term.var, Term.sym,
      Term.int, Sym.var, Sym.isFn, Theory.combine, Theory.combine.integer_difference,
      Theory.combine.real_difference, Theory.default, QF_IDL]
  have w3 : idlWitness.isQF = true := by
    simp [idlWitness, Term.isQF, Term.subterms, Op.isQuantifier, Term.op, Term.var, Term.sym, Term.int]
  refine ⟨?_, by rw [w1]; rfl, ?_, ?_⟩
  · rw [hasType_iff_sortOf]
    simp [idlWitness, Term.sortOf, allSome, sigOf, Term.var, Term.sym, Term.int, Sym.var, isNum]
  · simp only [idlWitness, isDL, dlOk, Term.typeOf, Term.var, Term.sym, Term.int, Sym.var, List.map_cons,
      List.map_nil, List.head?_cons, Option.bind_some]
    decide
  · simp only [getLogic, w1, w3]
    decide +kernel

open PySMT.TheoryOracle PySMT.Features in
/-- the same for every term pySMT's own checker accepts with the constructors' arities (`Term.wf`, which
excludes `pow`).  `_partial`: outside the holes of the checker (`Term.noF06`, the exclusion of C03's soundness
theorem: e.g. quantifiers "binding" function symbols), where accepted terms need not be well-sorted. -/
theorem detect_covers_wf_partial (t : Term) (hwf : t.wf = true) (hex : t.noF06 = true) :
    (theoryOf t).covers (features t) = true :=
  (covers_iff _ _).2 (covers_of_wf t hwf hex)

open PySMT.TheoryOracle PySMT.Features in
/-- the logic `get_logic` labels the formula with is a pySMT logic whose theory enables every intrinsic feature
of the formula, and it is not quantifier-free when the formula has a quantifier (`_partial` as above) -/
theorem detect_logic_covers_partial (t : Term) (L : Logic) (hf : inFragment t = true)
    (h : getLogic t = .ok L) :
    L ∈ PYSMT_LOGICS ∧ L.theory.covers (featuresIntrinsic t) = true ∧
    (hasQuant t = true → L.quantifier_free = false) :=
  ⟨(getLogic_spec t L h).1, (covers_iff _ _).2 (getLogic_covers t L hf h).1, (getLogic_covers t L hf h).2⟩

open PySMT.TheoryOracle PySMT.Features in
/-- **The logic a formula is labelled with can express it**: whatever `get_logic` returns for a well-sorted,
`pow`-free formula is a pySMT logic whose theory enables every feature of the formula, and which allows
quantifiers if the formula has any. -/
theorem detect_logic_covers (t : Term) (τ : Ty) (L : Logic) (h : Spec.HasType t τ) (hp : noPow t = true)
    (hl : getLogic t = .ok L) :
    L ∈ PYSMT_LOGICS ∧ L.theory.covers (features t) = true ∧ (hasQuant t = true → L.quantifier_free = false) :=
  have hs := getLogic_spec t L hl
  ⟨hs.1, (covers_iff _ _).2 (hs.2.1.trans (covers_of_hasType t τ h hp)), hs.2.2⟩

/-! ## Handing a formula to a solver, labelling a script -/

open PySMT.FactorySelect in
/-- `Factory._get_solver_class` (model: `Impl/FactorySelect.lean`, compared with the real Factory on
harness-registered solver classes): the class returned is one of the registered ones (the named one if a name
was given) and the logic the solver is created with is a closest logic **of that class's own `LOGICS`** for the
effective target: the requested logic if any, else the default logic (no name given) or the class's most generic
/ the default logic (name given). -/
theorem factory_select_spec (sl : List SolverClass) (prefs : List String) (d : Logic) (name : Option String)
    (logic : Option Logic) (S : SolverClass) (L : Logic)
    (h : getSolverClass sl prefs d name logic = .ok (S, L)) :
    S ∈ sl ∧ (∀ n, name = some n → S.name = n) ∧
    ∃ eff, (∀ g, logic = some g → eff = g) ∧ (name = Option.none → logic = Option.none → eff = d) ∧
      (L ∈ S.logics ∧ eff ≤ₗ L ∧ ¬ ∃ k ∈ S.logics, eff ≤ₗ k ∧ k ≤ₗ L ∧ k ≠ L) :=
  getSolverClass_spec h

open PySMT.FactorySelect in
/-- so a formula whose logic was requested is never handed to a solver logic that cannot express it -/
theorem factory_select_covers (sl : List SolverClass) (prefs : List String) (d g : Logic)
    (name : Option String) (S : SolverClass) (L : Logic)
    (h : getSolverClass sl prefs d name (some g) = .ok (S, L)) :
    L ∈ S.logics ∧ g ≤ₗ L ∧ L.covers g = true := getSolverClass_covers h

open PySMT.FactorySelect PySMT.TheoryOracle PySMT.Features in
/-- the `set-logic` that `smtlibscript_from_formula` writes (closest SMT-LIB logic of the detected one, or the
detected pySMT logic itself when SMT-LIB has none) enables every feature of the formula -/
theorem script_logic_covers (t : Term) (τ : Ty) (L : Logic) (ht : Spec.HasType t τ) (hp : noPow t = true)
    (h : scriptLogic t = .ok L) :
    L.theory.covers (features t) = true ∧ (hasQuant t = true → L.quantifier_free = false) :=
  ⟨(covers_iff _ _).2 (scriptLogic_covers t τ L ht hp h).1, (scriptLogic_covers t τ L ht hp h).2⟩

/-! ## Non-vacuity -/

-- hypotheses of `combine_ub` / `combine_wf` are satisfiable, and the statement is not trivial
example : WFTheory QF_LIA.theory ∧ WFTheory QF_LRA.theory ∧
    QF_LIA.theory.combine QF_LRA.theory = QF_LIRA.theory := by decide
-- the order is neither empty nor total
example : Logic.le QF_LIA LIA = true ∧ Logic.le LIA QF_LIA = false ∧
    Logic.le QF_BV QF_UFLIRA = false ∧ Logic.le QF_UFLIRA QF_BV = false := by decide
-- `get_closer_logic` does return something, does choose between incomparable minima by name …
example : get_closer_logic [QF_UFLIRA, QF_NIRA] QF_LIRA = .ok QF_NIRA ∧
    get_closer_logic [QF_NIRA, QF_UFLIRA] QF_LIRA = .ok QF_NIRA := by decide +kernel
-- … does skip non-minimal candidates, and does fail when nothing fits
example : get_closer_logic [UFLIRA, QF_UFLIRA, QF_LIA] QF_IDL = .ok QF_LIA ∧
    get_closer_logic [QF_BV, QF_LRA] QF_LIA = .error .NoLogicAvailableError := by decide +kernel
example : most_generic_logic [QF_LIA, LIA, LRA, UFLIRA] = .ok UFLIRA ∧
    most_generic_logic [QF_LIA, QF_LRA] = .error .NoLogicAvailableError := by decide +kernel
example : get_closer_smtlib_logic QF_BOOL = .ok QF_UF ∧ get_closer_smtlib_logic BOOL = .ok LRA := by
  decide +kernel
-- hypotheses of `closer_perm` hold for the real supported lists; `detectable` is neither empty nor everything
example : NamesUnique PYSMT_LOGICS ∧ NamesUnique SMTLIB2_LOGICS := by
  constructor <;> (unfold NamesUnique; decide +kernel)
example : detectable true QF_UFIDL.theory = true ∧ detectable false QF_AX.theory = false ∧
    detectable true (QF_SLIA.theory.combine QF_LRA.theory) = false := by decide
-- `getSolverClass` does return something: by preference, by name, and with the default logic
example : PySMT.FactorySelect.getSolverClass [⟨"a", [QF_LRA, QF_UFLIA]⟩, ⟨"b", [QF_NIA]⟩] ["b", "a"] QF_UFLIRA
      Option.none (some QF_LIA) = .ok (⟨"b", [QF_NIA]⟩, QF_NIA) ∧
    PySMT.FactorySelect.getSolverClass [⟨"a", [QF_LIA, LIA]⟩] [] QF_UFLIRA (some "a") Option.none =
      .ok (⟨"a", [QF_LIA, LIA]⟩, LIA) := by decide +kernel
-- hypotheses of `closer_total` hold for the real supported lists
example : NoTwins PYSMT_LOGICS ∧ NoTwins SMTLIB2_LOGICS := ⟨pysmt_no_twins, smtlib2_no_twins⟩
example : ∃ k ∈ PYSMT_LOGICS, Logic.le ⟨"Detected Logic", true, QF_UFIDL.theory⟩ k = true :=
  ⟨QF_UFIDL, by decide +kernel, by decide⟩

-- detection: the three repaired shapes are in the fragment and get their feature
section
open PySMT.TheoryOracle PySMT.Features
private def exIntToStr : Term :=
  Term.mkEq (.node .intToStr [Term.var "x" .int] .none) (.node .intToStr [Term.var "y" .int] .none)
private def exBound : Term := Term.mkForall [Sym.var "v" (.bv 8)] (Term.var "b" .bool)
private def exDiv : Term :=
  Term.mkEq (.node .div [Term.real 3, Term.var "r" .real] .none) (Term.real 1)
/-- unfolding set for evaluating the (well-founded-recursive) term functions on concrete terms -/
macro "eval_terms" : tactic => `(tactic|
  simp [exIntToStr, exBound, exDiv, inFragment, firstOrder, shapeOk, nodeFirstOrder, nodeShape, featuresIntrinsic,
    intrinsic, Features.join, Features.joinAll, Features.none, isIntValuedOp, ofSym, ofSort, hasQuant, Term.isQF,
    Term.subterms, Op.isQuantifier, Term.op, theoryOf, rule, symTheory, theoryFromType, combineList, foldCombine,
    hasFreeVars, nonConstant, Term.fv, isZero, Term.mkEq, Term.mkForall, Term.var, Term.sym, Term.real, Sym.var,
    Sym.isFn, Theory.combine, Theory.combine.integer_difference, Theory.combine.real_difference, Theory.default,
    Theory.copy, Theory.set_strings, Theory.set_linear, Theory.set_difference_logic, divCore])
example : inFragment exIntToStr = true ∧ (featuresIntrinsic exIntToStr).strings = true ∧
    (theoryOf exIntToStr).strings = true := by eval_terms
example : inFragment exBound = true ∧ (featuresIntrinsic exBound).bit_vectors = true ∧
    (theoryOf exBound).bit_vectors = true ∧ hasQuant exBound = true := by eval_terms
example : inFragment exDiv = true ∧ (featuresIntrinsic exDiv).linear = false ∧
    (theoryOf exDiv).linear = false := by eval_terms
-- the hypotheses of `detect_covers` / `detect_logic_covers` are satisfiable on exactly these formulas
example : Spec.HasType exIntToStr .bool ∧ Spec.HasType exBound .bool ∧ Spec.HasType exDiv .bool ∧
    noPow exIntToStr = true ∧ noPow exBound = true ∧ noPow exDiv = true := by
  simp only [Spec.hasType_iff_sortOf]
  simp [exIntToStr, exBound, exDiv, noPow, Term.sortOf, Spec.allSome, Spec.sigOf, Spec.plainVars, Spec.isNum,
    Term.mkEq, Term.mkForall, Term.var, Term.sym, Term.real, Sym.var]
end

end PySMT.Logics.C13
