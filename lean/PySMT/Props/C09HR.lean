import PySMT.Proofs.C09HRTable
import PySMT.Proofs.C09HR6
import PySMT.Proofs.C09HREx
import PySMT.Proofs.C09HR7
import PySMT.Proofs.C09HRSpell
/-!
# C09, third sentence — the human-readable format: the property theorems

> Parsing the human-readable serialisation of a formula returns a formula with the same type and meaning whose
> serialisation differs at most in the grouping of n-ary operators.

Models (`Impl/HR.lean`, **token level**): `hrTokens : Term → List Tok` is `HRPrinter` (`pysmt/printers.py`, what
`FNode.serialize()` runs) composed with the scanner's table; `hrParse : List Tok → Except Err Term` is `PrattParser(HRLexer)`
(`pysmt/parsing.py`: `expression`, every `nud`/`led`, the type-directed constructors of the lexer), with the spellings,
constructors and **binding powers of the regenerated table** `Gen/HROps.lean` (`tools/gen_hrops.py`, re-extracted from
`/repo` on every run) and the formula-manager constructors of `Impl/Mk.lean`. The regular-expression scanner itself is
**not** modelled: a token is what the scanner hands to the parser (a constant with its value, an identifier resolved to its
symbol, the spelling of a fixed rule). On every run (K, `harness/props/c09.py: run_hr_model`, ≈ 900 formulas of every
sort) `hrTokens f` is compared token by token with the real scanner's tokens of the real `f.serialize()`, `hrParse` of
those tokens with the real `HRParser().parse(text)`, and for every formula the Lean side places in the fragment the real
parser must have returned the identical formula object.

## What is proved

* `hr_roundtrip_exact` — for every term of `InHRFrag` the parser model reads the printer model's tokens back to **the very
  same term**: `hrParse (hrTokens t) = .ok t` (then type, meaning and serialisation are trivially the same).
* `hr_roundtrip_partial` — on the larger fragment `InHRFragN` (n-ary `And`/`Or`/`Plus`/`Times` of three or more
  arguments allowed) the parse succeeds and returns `regroup t` — `t` with those applications nested to the left, what the
  Pratt loop builds from `(a & b & c)` — which has the same type, the same meaning under **every** interpretation (no
  well-typedness or `WF` hypothesis is needed), and differs from `t` at most in the grouping of n-ary operators:
  `sameUpToGrouping t' t`, i.e. `flatNary t' = flatNary t` — flattening every nest of applications of one of
  `And`/`Or`/`Plus`/`Times` into one application gives the same *term* (so `((p & q) | p)` and `(p & (q | p))` are NOT
  related; an earlier version compared token lists with every parenthesis erased, which was far too coarse).
* `hr_frag_of_printable_partial` — **the fragment is not an unenforced count**: on the operator slice `HR.sliceOp` (Boolean
  connectives, linear integer/real arithmetic and comparisons, equality, if-then-else, array select/store, symbols,
  function applications, quantifiers, Boolean/integer/real constants) every formula that is `Printable` (C07: well-typed,
  canonical payloads and arities), in the manager's normal form (`mgrNormal`, C08) and whose names are names the HR format
  can carry (`hrSpellable`) **is** in `InHRFragN`. `_partial`: bit-vector and string operators, `ToReal`, `/`, constant
  arrays are outside the slice (for them membership is the decidable condition below, evaluated per formula by K).
* `hr_regroup_type_meaning` — the type/meaning part for every term, in or out of the fragment.
* `hr_frag_subset` — `InHRFrag ⊆ InHRFragN`, and `regroup` is the identity on `InHRFrag`.
* `hrOps_consistent` — the regenerated table is consistent (`Proofs/C09HRTable.lean`, by `decide`): every operator
  spelling `HRPrinter` writes for a node type is a token of `HRLexer` carrying the constructor of that node type; every
  infix operator binds (`0 <`), no binding power handed on as a right binding power reaches the postfix tokens `(` (200) /
  `[` (300), no infix operator binds tighter than the prefix operators printed without an outer parenthesis
  (`ToReal(x)`, `bv2nat(x)`: 100) — the assumptions under which "every compound is parenthesised" is read back; every
  punctuation class has one spelling; the printer's table covers the 66 node types; the hand-modelled method bodies
  (AST hashes of every method of `parsing.py`, of `HRPrinter.walk_*`) and the scanner's functional rules are the ones the
  model was written against.
* `hrOps_precedence` — the binding powers are in the conventional order
  `?:` < `<->`,`->`,`xor` < quantifiers < `|` < `&` < `!` < relations < `+`,`-` < `*`,`/`,… < shifts,`::`,rotations
  < prefix `-`,`ToReal`,`bv2nat`, string functions < call < index (the comment table of `parsing.py`). Because the printer
  parenthesises every infix application, the round trip itself does *not* depend on this order — this theorem is what a
  swapped precedence in `/repo` breaks.

## The fragment (`Impl/HR.lean: fragNode`, decidable; the driver request `hrfrag` evaluates it on every generated formula:
≈ 73 % of the stream is in `InHRFrag`, ≈ 85 % in `InHRFragN`; ≈ 5 % are deliberate F30 names)

Every node has one of the printer's forms — infix application (binary for `InHRFrag`), `(! a)`/`(- a)`, rotations and
extensions `(a ROL k)`, `ToReal(a)`/`bv2nat(a)`, the string functions, `(c ? a : b)`, quantifiers with at least one
variable, `a[lo:hi]`, `a[i]`, `a[i := v]`, constant arrays `Array{I, E}(d)` over sorts the HR grammar can spell (not
`String`, not user sorts), function applications, symbols, constants — and
**the constructor the parser calls for this form, applied to these arguments, returns this very node** (`isOk`): the node
is what `FormulaManager` builds (well-typed, canonical payload, manager-normal: no `Not(Not x)`, no `ToReal` of a constant,
no `Div` by a non-zero constant, …). Non-vacuity: `Proofs/C09HREx.lean` (one member per operator family).

Excluded, covered by K/S only:
* **F30** (known finding; the generator of K/S produces such names and strings, S reports them under F30, K checks that
  the Lean side puts none of them in the fragment): string constants containing `"` (the printer doubles the quote, the
  scanner does not undo it), and every name outside `HR.hrName`: entries of the identifier map (`xor`, `ToReal`, `Int`,
  `True`, …), names printed bare (`_simple_symbol_prog` of `pysmt/utils.py`, regenerated) that are not identifiers of the
  scanner (`a.b`, `k!1`, `.def_0`) or spell a keyword rule (`forall`, `exists`), names printed quoted that hold `'` or `\`
  (the scanner's `'(.*?)'` knows no escape). `fragNode` asks `hrName` of every symbol, function name and bound variable.
  The scanner itself is still not modelled: `hrName` states what it does to a *name*; that `lex (render (hrTokens t)) =
  hrTokens t` is K only;
* array values with assigned entries (read back as the equal chain of `Store`s over the constant array: a different
  term with the same tokens), infix applications of one argument, quantifiers without variables, algebraic constants,
  arrays over `String`/user sorts (the HR grammar has no spelling for these sorts);
* operators the printer never writes (`>=`, `>`, `u>`, … prefix `-` on numbers): the parser model has them (K compares it on
  the printed stream only).
-/
namespace PySMT.Props.C09HR
open PySMT PySMT.HR

/-- **the round trip, exactly**: on the fragment in which every infix application is binary the parser model reads the
printer model's tokens back to the very same term. -/
theorem hr_roundtrip_exact (t : Term) (h : InHRFrag t) : hrParse (hrTokens t) = .ok t :=
  RT.hrParse_hrTokens t h

/-- **the round trip, up to the grouping of n-ary operators** (`_partial`: the fragment `InHRFragN`; token level — the
scanner, F30 and array values with assignments are covered by K/S only): the parse succeeds, and the parsed term has the
type of `t`, the meaning of `t` under every interpretation, and is `t` up to the grouping of n-ary operators
(`flatNary t' = flatNary t`). -/
theorem hr_roundtrip_partial (t : Term) (h : InHRFragN t) :
    ∃ t', hrParse (hrTokens t) = .ok t' ∧ t'.typeOf = t.typeOf ∧ (∀ I : Interp, eval I t' = eval I t) ∧
      sameUpToGrouping t' t :=
  ⟨regroup t, RT.hrParse_hrTokens_regroup t h, RT.typeOf_regroup t, RT.eval_regroup t, RT.flatNary_regroup t⟩

/-- `regroup` changes nothing but the grouping of n-ary operators (no hypothesis) -/
theorem hr_regroup_grouping (t : Term) : sameUpToGrouping (regroup t) t := RT.flatNary_regroup t

/-- **the fragment contains the printable, manager-normal, spellable formulas of the operator slice** (`_partial`: the
slice `HR.sliceOp` — no bit-vector or string operators, `ToReal`, `/`, constant arrays) -/
theorem hr_frag_of_printable_partial (env : Std.SEnv) (scope : List Sym) (t : Term)
    (hP : Printer.Printable env scope t = true) (hN : Parser.Agree.mgrNormal t = true) (hS : hrSpellable t = true) :
    InHRFragN t :=
  Spell.spellable_frag env t scope hP hN hS

/-- … hence the round trip for them -/
theorem hr_roundtrip_printable_partial (env : Std.SEnv) (t : Term)
    (hP : Printer.Printable env [] t = true) (hN : Parser.Agree.mgrNormal t = true) (hS : hrSpellable t = true) :
    hrParse (hrTokens t) = .ok (regroup t) :=
  RT.hrParse_hrTokens_regroup t (Spell.spellable_frag env t [] hP hN hS)

/-- what the parser returns is `regroup t`: n-ary `And`/`Or`/`Plus`/`Times` nested to the left, nothing else changed -/
theorem hr_roundtrip_regroup_partial (t : Term) (h : InHRFragN t) : hrParse (hrTokens t) = .ok (regroup t) :=
  RT.hrParse_hrTokens_regroup t h

/-- re-grouping keeps the type and the meaning of every term (no hypothesis) -/
theorem hr_regroup_type_meaning (t : Term) : (regroup t).typeOf = t.typeOf ∧ ∀ I : Interp, eval I (regroup t) = eval I t :=
  ⟨RT.typeOf_regroup t, RT.eval_regroup t⟩

/-- the exact fragment is part of the larger one; nothing is re-grouped there -/
theorem hr_frag_subset (t : Term) (h : InHRFrag t) : InHRFragN t ∧ regroup t = t :=
  ⟨(RT.frag_subset t h).2, (RT.frag_subset t h).1⟩

/-- **the regenerated table is consistent** with the printer's forms and with the assumptions of the proofs -/
theorem hrOps_consistent : Table.consistent = true := Table.consistent_true

/-- **the binding powers are in the conventional order** -/
theorem hrOps_precedence : Table.precedence = true := Table.precedence_true

/-! ## non-vacuity: members of the fragments, one per operator family (`Proofs/C09HREx.lean`) -/

/-- `(x & (! y))` -/
example : InHRFrag Ex.t1 := Ex.frag_t1
/-- `((i + 1) <= (x ? i : 2))` -/
example : InHRFrag Ex.t2 := Ex.frag_t2
/-- `(forall i . (f(i) = i))` -/
example : InHRFrag Ex.t3 := Ex.frag_t3
/-- `a[i := 1][i]` -/
example : InHRFrag Ex.t4 := Ex.frag_t4
/-- `(b u< (b + 1_4))` -/
example : InHRFrag Ex.t5 := Ex.frag_t5
/-- `str.len(str.++(s, "ab"))` -/
example : InHRFrag Ex.t6 := Ex.frag_t6
/-- `(x & y & (! y))`, read back as `((x & y) & (! y))` -/
example : InHRFragN Ex.t7 ∧ regroup Ex.t7 = Ex.t7' ∧ Ex.t7' ≠ Ex.t7 :=
  ⟨Ex.frag_t7, Ex.regroup_t7, by decide⟩
/-- `(exists i . (f(i) = i))` -/
example : InHRFrag Ex.t8 := Ex.frag_t8
/-- `((- b)::b)[0:3]` (prefix minus, concatenation, extraction) -/
example : InHRFrag Ex.t9 := Ex.frag_t9
/-- `((b & b) xor (b << 1_4))` -/
example : InHRFrag Ex.t10 := Ex.frag_t10
/-- `Array{Int, Int}(0)` -/
example : InHRFrag Ex.t11 := Ex.frag_t11
/-- the hypotheses of `hr_frag_of_printable_partial` hold of `('x y' <= -5)` -/
example : ∃ env, Printer.Printable env [] C07.t1 = true ∧ Parser.Agree.mgrNormal C07.t1 = true ∧ hrSpellable C07.t1 = true :=
  ⟨_, Spell.ex_printable, Spell.ex_normal, Spell.ex_spellable⟩
example : hrParse (hrTokens Ex.t7) = .ok Ex.t7' := by
  rw [← Ex.regroup_t7]; exact hr_roundtrip_regroup_partial _ Ex.frag_t7

end PySMT.Props.C09HR
