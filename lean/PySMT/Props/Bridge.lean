import PySMT.Proofs.C03Bridge
import PySMT.Props.C01
import PySMT.Props.C02
import PySMT.Props.C05
import PySMT.Props.C10
/-!
# What the constructor theorem of C03 buys the other properties

The semantic theorems of C01 (`simp_*_partial`), C02 (`getValue'_*`), C05 (`subst_lemma_mg`,
`subst_equals`) and C10 (`propagate_*`) take `t.wf`, `Build.normal t`, `Subst.ConstKeys t` as
hypotheses — "true of every term a `FormulaManager` builds". `C03.Built t` (Proofs/C03Mk.lean: `t`
is obtained from constants and plain symbols by the public constructors of `Impl/Mk.lean`, 90
rules) implies all three (`built_wf`, `built_normal`, `built_constKeys`), so one headline
theorem of each client holds of `Built` terms with **no structural hypothesis left**; what remains
are the clients' own semantic provisos (fragment `inFrag`, divisions by zero, capture, …).

Remaining gap, stated: `Built` excludes symbolic `Pow` (a `pow` node has no semantics and is
outside `wf`), `BV` given as a string and the infix layer; its `Array` rule asks for a dictionary
with constant keys (index sorts that are not array sorts — C05's `ConstKeys`); quantifier binders
are plain symbols. Terms produced by the *parser* or by a *transformation* are not `Built` by
these theorems (C01's `simp_wf_partial` gives `wf` of `simp t`, not `Built`).
-/
namespace PySMT
namespace Bridge
open PySMT.C03

/-- every term the public constructors build is well-formed (`Impl/WF.lean`) -/
theorem built_wf (t : Term) (h : Built t) : t.wf = true := C03.wf_of_built h
/-- … in the manager's normal form (`Impl/SubstBuild.lean`) -/
theorem built_normal (t : Term) (h : Built t) : Build.normal t = true := C03.normal_of_built h
/-- … with constant array-value keys (`Proofs/C05Sem.lean`) -/
theorem built_constKeys (t : Term) (h : Built t) : Subst.ConstKeys t = true := C03.constKeys_of_built h

/-! ## C01 — simplification -/
section C01
open PySMT.Simp PySMT.Simplifier

/-- C01 `simp_sound_partial` on constructor-built terms: no `wf` hypothesis -/
theorem simp_sound_built (t : Term) (τ : Ty) (hb : Built t) (hfr : inFrag t = true)
    (hty : t.typeOf = some τ) (I : Interp) (hI : I.WF) (hd : div0 I t = false) :
    eval I (simp t) = eval I t :=
  C01.simp_sound_partial t τ (C03.wf_of_built hb) hfr hty I hI hd

/-- C01 `simp_type_partial` / `simp_wf_partial` on constructor-built terms -/
theorem simp_type_wf_built (t : Term) (τ : Ty) (hb : Built t) (hfr : inFrag t = true)
    (hty : t.typeOf = some τ) : (simp t).typeOf = some τ ∧ (simp t).wf = true :=
  ⟨C01.simp_type_partial t τ (C03.wf_of_built hb) hfr hty, C01.simp_wf_partial t τ (C03.wf_of_built hb) hfr hty⟩

/-- C01 `simp_sound_total_partial` (no proviso on divisions by zero) on constructor-built terms -/
theorem simp_sound_total_built (t : Term) (τ : Ty) (hb : Built t) (hfr : inFrag t = true)
    (hty : t.typeOf = some τ) (I : Interp) (hI : I.WF) (h0r : I.div0r 0 = 0) (h0i : I.div0i 0 = 0) :
    eval I (simp t) = eval I t :=
  C01.simp_sound_total_partial t τ (C03.wf_of_built hb) hfr hty I hI h0r h0i
end C01

/-! ## C02 — model evaluation -/
section C02
open PySMT.Model PySMT.Simplifier

/-- C02 `getValue'_sound_partial` on constructor-built formulas: no `wf`/`normal`/`ConstKeys` hypothesis -/
theorem getValue'_sound_built (σ : Asg) (hσ : AsgWF σ) (f c : Term) (τ : Ty) (hb : Built f)
    (hqf : qf f = true) (hfr : inFrag f = true) (hty : f.typeOf = some τ) (h : getValue' true σ f = some c) :
    ∃ σ' : Asg, complete σ f.fv = some σ' ∧ AsgWF σ' ∧ (∀ s v, σ.get s = some v → σ'.get s = some v) ∧
      Build.isConstant c = true ∧ c.typeOf = some τ ∧
      ∀ I : Interp, I.WF → Extends I σ' → div0 I f = false → eval I f = eval I c :=
  C02.getValue'_sound_partial σ hσ f c τ (C03.wf_of_built hb) hqf hfr (C03.normal_of_built hb) (C03.constKeys_of_built hb) hty h

/-- C02 `getValue'_exact_partial` on constructor-built formulas -/
theorem getValue'_exact_built (completion : Bool) (σ : Asg) (hσ : AsgWF σ) (f : Term) (τ : Ty) (hb : Built f)
    (hev : evaluable f = true) (hfr : inFrag f = true) (hty : f.typeOf = some τ)
    (htot : ∀ s ∈ f.fv, (σ.get s).isSome = true) (hd : div0 (interpOf σ) f = false) :
    getValue' completion σ f = some (constOf (eval (interpOf σ) f)) :=
  C02.getValue'_exact_partial completion σ hσ f τ (C03.wf_of_built hb) hev hfr (C03.normal_of_built hb) hty htot hd
end C02

/-! ## C05 — substitution -/
section C05
open PySMT.Subst PySMT.Build
open PySMT.SubstSpec (SMap NoCapture updSyms)

/-- C05 `subst_lemma_mg` (substitution lemma, `MGSubstituter`) on constructor-built terms -/
theorem subst_lemma_mg_built (envMs : Bool) (t : Term) (σ : SMap) (I : Interp) (hI : I.WF) (hb : Built t)
    (hσ : Subst.SMapOK σ) (hnc : NoCapture σ t = true) :
    eval I (substMG envMs [] σ.toTMap t) = eval (updSyms I σ) t :=
  C05.subst_lemma_mg envMs t σ I hI (C03.wf_of_built hb) (C03.normal_of_built hb) (C03.constKeys_of_built hb) hσ hnc

/-- C05 `subst_equals` (replacing equals by equals) on constructor-built terms -/
theorem subst_equals_built (ms envMs : Bool) (σ : Subst.TMap) (hσ : WfMap σ) (t : Term) (hb : Built t)
    (hk : ∀ k ∈ arrKeys t, ∀ kv ∈ σ, kv.1 ≠ k)
    (heq : ∀ J : Interp, J.WF → ∀ kv ∈ σ, eval J kv.1 = eval J kv.2) (I : Interp) (hI : I.WF) :
    eval I (if ms then substMS envMs [] σ t else substMG envMs [] σ t) = eval I t :=
  C05.subst_equals ms envMs σ hσ t (C03.wf_of_built hb) (C03.normal_of_built hb) (C03.constKeys_of_built hb) hk heq I hI
end C05

/-! ## C10 — `propagate_toplevel` -/
section C10
open PySMT.Rewritings

/-- C10 `propagate_equiv_partial` on constructor-built formulas (the `_partial` proviso `repsNotBound`
is C10's own: capture, finding F51) -/
theorem propagate_equiv_built_partial (rank : Term → Int) (t r : Term) (hb : Built t)
    (hty : t.typeOf = some .bool) (hsafe : repsNotBound rank t = true) (h : propagate rank t = some r)
    (I : Interp) (hI : I.WF) : eval I r = eval I t :=
  C10.propagate_equiv_partial rank t r (C03.wf_of_built hb) hty (C03.normal_of_built hb) (C03.constKeys_of_built hb) hsafe h I hI

/-- C10 `propagate_total` + `propagate_wf` on constructor-built formulas -/
theorem propagate_total_wf_built (rank : Term → Int) (t : Term) (hb : Built t) (hty : t.typeOf = some .bool) :
    ∃ r, propagate rank t = some r ∧ r.wf = true ∧ r.typeOf = some .bool := by
  obtain ⟨r, hr⟩ := C10.propagate_total rank t (C03.wf_of_built hb) hty
  exact ⟨r, hr, C10.propagate_wf rank t r (C03.wf_of_built hb) hty (C03.normal_of_built hb) hr⟩
end C10

/-! ## non-vacuity: a compound `Built` term to which the corollaries apply -/
example : Built (Term.node .lt [Term.var "x" .int, .int 1] .none) := by
  refine Built.LT (l := Term.var "x" .int) (r := .int 1) (Built.symbol _ rfl) (Built.intC 1) ?_
  simp [Mk.LT, Mk.create, Term.var, Term.sym, Sym.var, Term.int, Term.typeOf]
  decide

end Bridge
end PySMT
