import PySMT.Proofs.C18Pareto
import PySMT.Proofs.C18Term
import PySMT.Proofs.C18ParetoTerm
import PySMT.Proofs.C18ParetoPrefix
import PySMT.Proofs.C18Real
import PySMT.Proofs.C18Spec
import PySMT.Proofs.C18Examples
/-!
# C18 — Optimisation returns the true optimum and restores the solver

Property theorems about the model `PySMT.Opt` (`Impl/Opt.lean`) of `pysmt/optimization/optimizer.py`.

Reading guide.  `M` is the type of models and `A m` says that `m` satisfies the user's assertions.
`val i m : Val` is the *raw* value of the `i`-th goal term in `m` (an integer or a bit-vector).  The
constraints the routines build (`Constraint.holds val`) are evaluated with the SMT-LIB operators of
the family the comparison table selected -- `BitVec.ult/ule` for `BVULT/BVULE`, `BitVec.slt/sle` for
`BVSLT/BVSLE` -- against the cast constant `BitVec.ofInt w bound`; nothing in that semantics looks at
the goal.  `obj i m : Int` is what the routine reads from a model (`search_is_sat`: `constant_value()`,
resp. `bv_signed_value()` for a signed goal); hypothesis `GoalReads A val obj g gi` says exactly that
(`obj gi m = readObj g.dom (val gi m)`) and that the term has the goal's sort -- both consequences of
typing; the representability of objective values (`castOk`) is derived from it, no longer assumed.
That the operator family and the cast fit the goal's signedness is therefore proved
(`Proofs/C18Interval.atom_holds_eq`), not assumed: with `BVULT` in the signed row of the table the
proofs fail (see the `example` on signedness below).

The solver is an arbitrary oracle `o` with the single assumption `OracleSpec A val o`: every `solve`
call returns a model of the assertions and of the constraints the routine put on top iff one exists
(which one is up to the solver, and may change from call to call); it never raises -- a solver that
answers "unknown" in the middle of a search is outside the property's quantifier (exhaustive oracle)
and outside these theorems (the real `_optimize`/lexicographic code then leaves its levels pushed;
`pareto_optimize` restores them since the `try/finally` repair).  `Feas A val s.stack ex` is the
feasible set: assertions, whatever is on the solver's stack when the routine is entered, and the
assumptions `ex`; it may be infinite.  `fuel` bounds the number of loop iterations of the model;
outcome `.fuel` means "still running", every other outcome is what the Python routine returns / raises.

All theorems below carry the hypothesis `supported` (the goal's logic is a key of the table in
`_comparation_functions`) and are therefore named `…_partial`: for an Int objective whose term
mentions bit-vectors or arrays (finding F24b, not repaired) the routines raise `KeyError`
(`unsupported_goal_raises`), so the property as stated does not hold for those goals
(`search_restores_full_fails`).  Objective values are integers (bit-vectors through `toNat`/`toInt`);
real-valued objectives are covered only for MaxSMT with rational weights and the *linear* strategy,
through the common denominator (`maxsmt_real_linear_partial`, gap stated there).
-/
namespace PySMT.Props.C18
open PySMT.Opt PySMT.OptSpec

variable {M : Type} {A : M → Prop} {val : Nat → M → Val} {obj : Nat → M → Int} {o : Oracle M}

/-- `optimize` (linear or binary search; assumption based or push/pop based; minimisation or
    maximisation; Int, unsigned BV or signed BV) returns a model of the assertions whose cost is
    the value of the objective in that model and is the optimum over the whole feasible set.
    Missing w.r.t. the property: goals with `supported = false` (F24b). -/
theorem search_optimal_partial (hO : OracleSpec A val o) (g : Goal) (gi : Nat) (hsup : g.supported = true)
    (hG : GoalReads A val obj g gi)
    (mx : Mixin) (strat : Strat) (extra : List Constraint) (fuel : Nat) (s s' : Solver M) (m : M) (c : Int)
    (h : optimize o obj mx strat g gi extra fuel s = (.done (some (m, c)), s')) :
    Feas A val s.stack (effExtra mx extra) m ∧ c = obj gi m ∧
      IsOptimum (sense g.dir) (Feas A val s.stack (effExtra mx extra)) (obj gi) c := by
  have hs := optimize_spec (gi := gi) hO hsup hG mx strat extra fuel s
  rw [h] at hs
  rcases hs with hf | ⟨res, hres, _, _, _, _, hsome⟩
  · cases hf
  · cases hres
    obtain ⟨h1, h2, h3⟩ := hsome m c rfl
    exact ⟨h1, h2, ⟨m, h1, h2.symm⟩, fun m' hm' => (sense_le g _ _).2 (h3 m' hm')⟩

/-- "no solution" is reported exactly when the assertions (with the assumptions) are unsatisfiable.
    Missing: goals with `supported = false` (F24b). -/
theorem search_none_iff_partial (hO : OracleSpec A val o) (g : Goal) (gi : Nat) (hsup : g.supported = true)
    (hG : GoalReads A val obj g gi)
    (mx : Mixin) (strat : Strat) (extra : List Constraint) (fuel : Nat) (s s' : Solver M)
    (res : Option (M × Int)) (h : optimize o obj mx strat g gi extra fuel s = (.done res, s')) :
    res = none ↔ ¬ ∃ m, Feas A val s.stack (effExtra mx extra) m := by
  have hs := optimize_spec (gi := gi) hO hsup hG mx strat extra fuel s
  rw [h] at hs
  rcases hs with hf | ⟨res', hres, _, _, _, hnone, _⟩
  · cases hf
  · cases hres; exact hnone

/-- the assertion stack, the backtrack points and the "pop without push" flag are what they were
    before the call, for both mix-ins and both strategies.  Missing: `supported = false` (F24b). -/
theorem search_restores_partial (hO : OracleSpec A val o) (g : Goal) (gi : Nat) (hsup : g.supported = true)
    (hG : GoalReads A val obj g gi)
    (mx : Mixin) (strat : Strat) (extra : List Constraint) (fuel : Nat) (s s' : Solver M)
    (res : Option (M × Int)) (h : optimize o obj mx strat g gi extra fuel s = (.done res, s')) :
    s'.stack = s.stack ∧ s'.marks = s.marks ∧ s'.bad = s.bad := by
  have hs := optimize_spec (gi := gi) hO hsup hG mx strat extra fuel s
  rw [h] at hs
  rcases hs with hf | ⟨res', _, e1, e2, e3, _, _⟩
  · cases hf
  · exact ⟨e1, e2, e3⟩

/-- every bound handed to `mgr.Int` / `mgr.BV` / `mgr.SBV` during the search is representable:
    the search never stops with a cast error (nor with any other error).
    Missing: `supported = false` (F24b). -/
theorem casts_in_range_partial (hO : OracleSpec A val o) (g : Goal) (gi : Nat) (hsup : g.supported = true)
    (hG : GoalReads A val obj g gi)
    (mx : Mixin) (strat : Strat) (extra : List Constraint) (fuel : Nat) (s : Solver M) :
    (optimize o obj mx strat g gi extra fuel s).1 = .fuel ∨
      ∃ res, (optimize o obj mx strat g gi extra fuel s).1 = .done res := by
  rcases optimize_spec (gi := gi) hO hsup hG mx strat extra fuel s with hf | ⟨res, hres, _⟩
  · exact Or.inl hf
  · exact Or.inr ⟨res, hres⟩

/-- if the optimum is attained (or nothing is feasible) the search stops: from some amount of fuel
    on the model returns a result, for every oracle.  Missing: `supported = false` (F24b). -/
theorem search_terminates_partial (hO : OracleSpec A val o) (g : Goal) (gi : Nat) (hsup : g.supported = true)
    (hG : GoalReads A val obj g gi)
    (mx : Mixin) (strat : Strat) (extra : List Constraint) (s : Solver M)
    (hatt : (∃ m, Feas A val s.stack (effExtra mx extra) m) →
      OptimumAttained (sense g.dir) (Feas A val s.stack (effExtra mx extra)) (obj gi)) :
    ∃ N, ∀ fuel, fuel ≥ N → ∃ res, (optimize o obj mx strat g gi extra fuel s).1 = .done res := by
  obtain ⟨N, hN⟩ := optimize_terminates (gi := gi) hO hsup hG mx strat extra s (by
    intro hex
    obtain ⟨c, ⟨mo, hmo, hc⟩, hopt⟩ := hatt hex
    exact ⟨mo, fun m hm => by rw [hc]; exact (sense_le g _ _).1 (hopt m hm)⟩)
  refine ⟨N, fun fuel hge => ?_⟩
  rcases casts_in_range_partial hO g gi hsup hG mx strat extra fuel s with hf | h
  · exact absurd hf (hN fuel hge)
  · exact h

/-- MaxSMT with integer weights: `_optimize` turns the goal into the maximisation of
    `Σ (if clause then weight else 0)`; the returned cost is the weight of the soft clauses satisfied
    by the returned model and no feasible model satisfies a heavier set.
    Missing: soft clauses over bit-vectors/arrays (`supported = false`, F24b). -/
theorem maxsmt_opt_partial (hO : OracleSpec A val o) (soft : List ((M → Bool) × Int)) (gi : Nat)
    (hobj : ∀ m, obj gi m = maxsmtObj soft m) (hG : GoalReads A val obj ⟨.max, .int, true⟩ gi)
    (mx : Mixin) (strat : Strat) (fuel : Nat) (s s' : Solver M) (m : M) (c : Int)
    (h : optimize o obj mx strat ⟨.max, .int, true⟩ gi [] fuel s = (.done (some (m, c)), s')) :
    Feas A val s.stack [] m ∧ c = maxsmtObj soft m ∧ ∀ m', Feas A val s.stack [] m' → maxsmtObj soft m' ≤ c := by
  have := search_optimal_partial hO ⟨.max, .int, true⟩ gi rfl hG mx strat [] fuel s s' m c h
  rw [effExtra_nil] at this
  obtain ⟨h1, h2, _, h3⟩ := this
  refine ⟨h1, by rw [h2, hobj], fun m' hm' => ?_⟩
  have := h3 m' hm'
  simp only [sense, Sense.le] at this
  rw [← hobj]; exact this

/-- min-max goals (`MinMaxGoal`, objective `Max(terms)`): the returned cost is the largest term
    value in the returned model and every feasible model has some term at least that large.
    Missing: `supported = false` (F24b). -/
theorem minmax_opt_partial (hO : OracleSpec A val o) (t : M → Int) (ts : List (M → Int)) (gi : Nat) (dom : Dom)
    (hobj : ∀ m, obj gi m = maxOf t ts m) (hG : GoalReads A val obj ⟨.min, dom, true⟩ gi)
    (mx : Mixin) (strat : Strat) (fuel : Nat) (s s' : Solver M) (m : M) (c : Int)
    (h : optimize o obj mx strat ⟨.min, dom, true⟩ gi [] fuel s = (.done (some (m, c)), s')) :
    Feas A val s.stack [] m ∧ c = maxOf t ts m ∧ ∀ m', Feas A val s.stack [] m' → c ≤ maxOf t ts m' := by
  have := search_optimal_partial hO ⟨.min, dom, true⟩ gi rfl hG mx strat [] fuel s s' m c h
  rw [effExtra_nil] at this
  obtain ⟨h1, h2, _, h3⟩ := this
  refine ⟨h1, by rw [h2, hobj], fun m' hm' => ?_⟩
  have := h3 m' hm'
  simp only [sense, Sense.le] at this
  rw [← hobj]; exact this

/-- max-min goals (`MaxMinGoal`, objective `Min(terms)`).  Missing: `supported = false` (F24b). -/
theorem maxmin_opt_partial (hO : OracleSpec A val o) (t : M → Int) (ts : List (M → Int)) (gi : Nat) (dom : Dom)
    (hobj : ∀ m, obj gi m = minOf t ts m) (hG : GoalReads A val obj ⟨.max, dom, true⟩ gi)
    (mx : Mixin) (strat : Strat) (fuel : Nat) (s s' : Solver M) (m : M) (c : Int)
    (h : optimize o obj mx strat ⟨.max, dom, true⟩ gi [] fuel s = (.done (some (m, c)), s')) :
    Feas A val s.stack [] m ∧ c = minOf t ts m ∧ ∀ m', Feas A val s.stack [] m' → minOf t ts m' ≤ c := by
  have := search_optimal_partial hO ⟨.max, dom, true⟩ gi rfl hG mx strat [] fuel s s' m c h
  rw [effExtra_nil] at this
  obtain ⟨h1, h2, _, h3⟩ := this
  refine ⟨h1, by rw [h2, hobj], fun m' hm' => ?_⟩
  have := h3 m' hm'
  simp only [sense, Sense.le] at this
  rw [← hobj]; exact this

/-- `boxed_optimize`: solver restored; `None` exactly when there are goals and the assertions are
    unsatisfiable; otherwise one entry per goal, in order, each a feasible model with the optimum of
    that goal.  Missing: `supported = false` (F24b). -/
theorem boxed_opt_partial (hO : OracleSpec A val o) (mx : Mixin) (strat : Strat) (fuel : Nat)
    (goals : List (Nat × Goal)) (hok : GoalsOk A val obj goals) (s s' : Solver M)
    (res : Option (List (Nat × M × Int))) (h : boxed o obj mx strat fuel goals s = (.done res, s')) :
    s'.stack = s.stack ∧ s'.marks = s.marks ∧ s'.bad = s.bad ∧
    (res = none ↔ goals ≠ [] ∧ ¬ ∃ m, Feas A val s.stack [] m) ∧
    ∀ l, res = some l →
      All2 (fun (p : Nat × Goal) (q : Nat × M × Int) =>
        q.1 = p.1 ∧ Feas A val s.stack [] q.2.1 ∧ q.2.2 = obj p.1 q.2.1 ∧
        IsOptimum (sense p.2.dir) (Feas A val s.stack []) (obj p.1) q.2.2) goals l := by
  have hs := boxed_spec hO mx strat fuel goals s hok
  rw [h] at hs
  rcases hs with hf | ⟨res', hres, e1, e2, e3, e4, e5⟩
  · cases hf
  · cases hres; exact ⟨e1, e2, e3, e4, e5⟩

/-- `lexicographic_optimize` (as repaired for F24a): solver restored (in particular the level
    pushed by `_setup` is popped on success as well); `None` exactly when unsatisfiable; otherwise
    a feasible model whose costs are the goal values in that model and are the exact lexicographic
    optimum.  Missing: `supported = false` (F24b); the empty goal list (Python: `UnboundLocalError`). -/
theorem lexi_opt_partial (hO : OracleSpec A val o) (mx : Mixin) (strat : Strat) (fuel : Nat)
    (goals : List (Nat × Goal)) (hne : goals ≠ []) (hok : GoalsOk A val obj goals) (s s' : Solver M)
    (res : Option (M × List Int)) (h : lexicographic o obj mx strat fuel goals s = (.done res, s')) :
    s'.stack = s.stack ∧ s'.marks = s.marks ∧ s'.bad = s.bad ∧
    (res = none ↔ ¬ ∃ m, Feas A val s.stack [] m) ∧
    ∀ m vs, res = some (m, vs) →
      Feas A val s.stack [] m ∧ vs = goals.map (fun p => obj p.1 m) ∧
      IsLexOptimum (specGoals obj goals) (Feas A val s.stack []) vs := by
  have hs := lexi_spec hO mx strat fuel goals hne hok s
  rw [h] at hs
  rcases hs with hf | ⟨res', hres, e1, e2, e3, e4, e5⟩
  · cases hf
  · cases hres
    refine ⟨e1, e2, e3, e4, fun m vs hm => ?_⟩
    obtain ⟨g1, vs', g2, g3, g4⟩ := e5 m vs hm
    simp only [List.nil_append] at g2
    subst g2
    exact ⟨g1, g3, g4⟩

/-- `pareto_optimize`, consumed completely: solver restored; every yielded model is feasible and
    Pareto-optimal and is yielded with its own cost vector; no cost vector is yielded twice; every
    Pareto-optimal cost vector is yielded.  So the yielded cost vectors are exactly the Pareto front,
    each once.
    The statement is about runs that finish (`.done`); `pareto_terminates_partial` shows that they do
    whenever the feasible models have finitely many cost vectors (the routine cannot terminate on an
    infinite front).  Missing (hence `_partial`): `supported = false` (F24b); the empty goal list. -/
theorem pareto_front_partial (hO : OracleSpec A val o) (mx : Mixin) (goals : List (Nat × Goal)) (fuel : Nat)
    (hG : ∀ q ∈ goals, GoalReadsAll val obj q.2 q.1) (hsup : ∀ p ∈ goals, p.2.supported = true) (hne : goals ≠ []) (s s' : Solver M)
    (res : List (M × List Int)) (h : pareto o obj mx goals fuel s = (.done res, s')) :
    s'.stack = s.stack ∧ s'.marks = s.marks ∧ s'.bad = s.bad ∧
    (∀ q ∈ res, ParetoOptimal (specGoals obj goals) (Feas A val s.stack []) q.1 ∧
                q.2 = costs (specGoals obj goals) q.1) ∧
    (res.map Prod.snd).Pairwise (· ≠ ·) ∧
    (∀ m, ParetoOptimal (specGoals obj goals) (Feas A val s.stack []) m →
      costs (specGoals obj goals) m ∈ res.map Prod.snd) := by
  have hs := pareto_spec hO mx goals hG fuel hsup hne s
  rw [h] at hs
  rcases hs with hf | ⟨found, hres, e1, e2, e3, f1, f2, f3⟩
  · cases hf
  · cases hres
    have hc : ∀ p : M, (goals.map (fun (x : Nat × Goal) => obj x.1 p)) = costs (specGoals obj goals) p := by
      intro p; simp [costs, specGoals]
    refine ⟨e1, e2, e3, ?_, ?_, ?_⟩
    · intro q hq
      simp only [accOf, List.mem_map] at hq
      obtain ⟨p, hp, rfl⟩ := hq
      exact ⟨f1 p hp, hc p⟩
    · simp only [accOf, List.map_map]
      rw [List.pairwise_map]
      refine f2.imp ?_
      intro a b hab
      simpa [hc] using hab
    · intro m hm
      obtain ⟨p, hp, hpe⟩ := f3 m hm
      simp only [accOf, List.map_map, List.mem_map]
      exact ⟨p, hp, by simp [hc, hpe]⟩

/-- `boxed_optimize` returns (from some amount of fuel on the model is finished) when the optimum
    of every goal is attained.  Missing: `supported = false` (F24b). -/
theorem boxed_terminates_partial (hO : OracleSpec A val o) (mx : Mixin) (strat : Strat)
    (goals : List (Nat × Goal)) (hok : GoalsOk A val obj goals) (s : Solver M)
    (hatt : ∀ p ∈ goals, (∃ m, Feas A val s.stack [] m) →
      OptimumAttained (sense p.2.dir) (Feas A val s.stack []) (obj p.1)) :
    ∃ N, ∀ fuel, fuel ≥ N → ∃ res, (boxed o obj mx strat fuel goals s).1 = .done res := by
  obtain ⟨N, hN, hst⟩ := boxed_stable hO mx strat goals s hok (fun p hp => attained_of (hatt p hp))
  refine ⟨N, fun fuel hge => ?_⟩
  have h1 : (boxed o obj mx strat fuel goals s).1 ≠ .fuel := by
    have := hst fuel hge
    simp only at this hN
    rw [this]; exact hN
  rcases boxed_spec hO mx strat fuel goals s hok with hf | ⟨res, hres, _⟩
  · exact absurd hf h1
  · exact ⟨res, hres⟩

/-- `lexicographic_optimize` returns when the optimum of every goal is attained on every set of
    models that fixes the values of the earlier goals (always the case for finite domains).
    Missing: `supported = false` (F24b); the empty goal list. -/
theorem lexi_terminates_partial (hO : OracleSpec A val o) (mx : Mixin) (strat : Strat)
    (goals : List (Nat × Goal)) (hne : goals ≠ []) (hok : GoalsOk A val obj goals) (s : Solver M)
    (hatt : ∀ cd, ∀ p ∈ goals, (∃ m, Feas A val s.stack cd m) →
      OptimumAttained (sense p.2.dir) (Feas A val s.stack cd) (obj p.1)) :
    ∃ N, ∀ fuel, fuel ≥ N → ∃ res, (lexicographic o obj mx strat fuel goals s).1 = .done res := by
  obtain ⟨N, hN, hst⟩ := lexLoop_stable hO mx strat s.stack goals [] none [] s.push rfl hok
    (fun cd p hp => attained_of (hatt cd p hp))
  refine ⟨N, fun fuel hge => ?_⟩
  have h1 : (lexicographic o obj mx strat fuel goals s).1 ≠ .fuel := by
    have := hst fuel hge
    simp only at this hN
    unfold lexicographic
    rw [this]; exact hN
  rcases lexi_spec hO mx strat fuel goals hne hok s with hf | ⟨res, hres, _⟩
  · exact absurd hf h1
  · exact ⟨res, hres⟩

/-- `pareto_optimize` terminates when the feasible models have finitely many cost vectors (all in
    the list `L`; e.g. bit-vector or range-bounded objectives): with `L.length + 2` units of fuel or
    more the model has finished.  Missing: `supported = false` (F24b); the empty goal list. -/
theorem pareto_terminates_partial (hO : OracleSpec A val o) (mx : Mixin) (goals : List (Nat × Goal))
    (hG : ∀ q ∈ goals, GoalReadsAll val obj q.2 q.1) (hsup : ∀ p ∈ goals, p.2.supported = true) (hne : goals ≠ []) (s : Solver M) (L : List (List Int))
    (hL : ∀ m, Feas A val s.stack [] m → costs (specGoals obj goals) m ∈ L)
    (fuel : Nat) (hfuel : fuel ≥ L.length + 2) :
    ∃ res, (pareto o obj mx goals fuel s).1 = .done res := by
  have h1 := pareto_terminates hO mx goals hG hsup hne s L hL fuel hfuel
  rcases pareto_spec hO mx goals hG fuel hsup hne s with hf | ⟨found, hres, _⟩
  · exact absurd hf h1
  · exact ⟨_, hres⟩

/-- A Pareto generator that is abandoned after `k` solutions (`break`, `close()`, garbage collection:
    `GeneratorExit` at the `yield`; routine as repaired for F24d with `try/finally`): the solver is
    restored exactly as after a complete run, at most `max k 1` solutions were delivered, each is
    feasible and Pareto-optimal, and no cost vector was delivered twice.
    Missing: `supported = false` (F24b); the empty goal list. -/
theorem pareto_prefix_partial (hO : OracleSpec A val o) (mx : Mixin) (goals : List (Nat × Goal)) (fuel k : Nat)
    (hG : ∀ q ∈ goals, GoalReadsAll val obj q.2 q.1) (hsup : ∀ p ∈ goals, p.2.supported = true)
    (hne : goals ≠ []) (s s' : Solver M) (res : List (M × List Int))
    (h : paretoPrefix o obj mx goals fuel k s = (.done res, s')) :
    s'.stack = s.stack ∧ s'.marks = s.marks ∧ s'.bad = s.bad ∧ res.length ≤ max k 1 ∧
    (∀ q ∈ res, ParetoOptimal (specGoals obj goals) (Feas A val s.stack []) q.1 ∧
                q.2 = costs (specGoals obj goals) q.1) ∧
    (res.map Prod.snd).Pairwise (· ≠ ·) := by
  have hs := paretoPrefix_spec hO mx goals hG fuel k hsup hne s
  rw [h] at hs
  rcases hs with hf | ⟨ext, hres, e1, e2, e3, f1, f2, f3⟩
  · cases hf
  · simp only [List.nil_append] at hres f1 f2
    cases hres
    have hc : ∀ p : M, (goals.map (fun (x : Nat × Goal) => obj x.1 p)) = costs (specGoals obj goals) p := by
      intro p; simp [costs, specGoals]
    refine ⟨e1, e2, e3, by simpa [accOf] using f3, ?_, ?_⟩
    · intro q hq
      simp only [accOf, List.mem_map] at hq
      obtain ⟨p, hp, rfl⟩ := hq
      exact ⟨f1 p hp, hc p⟩
    · simp only [accOf, List.map_map]
      rw [List.pairwise_map]
      refine f2.imp ?_
      intro a b hab
      simpa [hc] using hab

/-- … and what was delivered before the generator was abandoned is a prefix of what the complete
    run delivers (the oracle answers being the same) -/
theorem pareto_prefix_of_front (mx : Mixin) (goals : List (Nat × Goal)) (fuel k : Nat) (s s' : Solver M)
    (res : List (M × List Int)) (h : pareto o obj mx goals fuel s = (.done res, s')) :
    ∃ rk sk, paretoPrefix o obj mx goals fuel k s = (.done rk, sk) ∧ rk <+: res :=
  paretoPrefix_prefix mx goals fuel k s s' res h

/-- The comparison table is sound, bit-vector semantics: the strict cut `op_strict(term, cast(b))`
    that `linear_search_cut` / `binary_search_cut` build for goal `g` -- operator family and cast
    taken from the row of `_comparation_functions` selected by the goal's sort and signedness,
    evaluated with `BitVec.ult/slt` on the raw model value against `BitVec.ofInt w b` -- holds exactly
    in the models whose objective value, read as the goal reads it, is strictly better than `b`,
    whenever `b` is representable.  (Full strength; for the non-strict `op_ns` of the Pareto routine
    see `Proofs/C18Interval.ns_atom_holds`.) -/
theorem table_cut_sound (g : Goal) (gi : Nat) (b : Int) (m : M)
    (hty : ValTyped g.dom (val gi m)) (hr : obj gi m = readObj g.dom (val gi m)) (hc : castOk g.dom b = true) :
    (Constraint.atom ⟨gi, g.dom, strictCmp g, b⟩).holds val m = true ↔ (sense g.dir).lt (obj gi m) b := by
  rw [strict_atom_holds val obj m g gi b hty hr hc, sense_lt]

/-- MaxSMT with rational weights (`MaxSMTGoal()` defaults to `real_weights=True`), *linear* strategy,
    through the common denominator: if `d > 0` and `softN` carries the integer weights `d * w`, then
    the model run on the scaled integer objective returns a feasible model that maximises the rational
    weight `Σ (if clause then w else 0)` of the satisfied soft clauses, and the returned cost is `d`
    times that weight.
    Missing (hence `_partial`): (a) the model manipulates the scaled integers whereas the code
    manipulates `Fraction`s; that the linear search commutes with the scaling (it only compares, and
    copies model values into bounds) is covered by the correspondence run (the harness scales the
    logged values by the same `d`), not by a proof; (b) the binary strategy on a real-typed objective
    (`Fraction((l+u)/2)` pivots) is not modelled -- on an attained optimum it never makes the interval
    empty, the property excludes it ("weights integer whenever bisection is used"); (c) F24b. -/
theorem maxsmt_real_linear_partial (hO : OracleSpec A val o) (d : Int) (hd : 0 < d)
    (softQ : List ((M → Bool) × Rat)) (softN : List ((M → Bool) × Int)) (hsc : Scaled d softQ softN)
    (gi : Nat) (hobj : ∀ m, obj gi m = maxsmtObj softN m) (hG : GoalReads A val obj ⟨.max, .int, true⟩ gi)
    (mx : Mixin) (fuel : Nat) (s s' : Solver M) (m : M) (c : Int)
    (h : optimize o obj mx .linear ⟨.max, .int, true⟩ gi [] fuel s = (.done (some (m, c)), s')) :
    Feas A val s.stack [] m ∧ (d : Rat) * maxsmtObjQ softQ m = (c : Rat) ∧
      ∀ m', Feas A val s.stack [] m' → maxsmtObjQ softQ m' ≤ maxsmtObjQ softQ m := by
  obtain ⟨h1, h2, h3⟩ := maxsmt_opt_partial hO softN gi hobj hG mx .linear fuel s s' m c h
  refine ⟨h1, by rw [scaled_sum d softQ softN hsc m, h2], fun m' hm' => ?_⟩
  have hle : ((maxsmtObj softN m' : Int) : Rat) ≤ ((maxsmtObj softN m : Int) : Rat) :=
    Rat.intCast_le_intCast.2 (by rw [← h2]; exact h3 m' hm')
  rw [← scaled_sum d softQ softN hsc m', ← scaled_sum d softQ softN hsc m] at hle
  exact Rat.le_of_mul_le_mul_left hle (by exact_mod_cast hd)

/-- the S-oracle `spec opt` of the driver (optimum of an explicit list of feasible objective
    values) returns an element of the list that no element improves on -/
theorem spec_opt_query_correct (d : Sense) (vs : List Int) (v : Int) (h : listOpt d vs = some v) :
    v ∈ vs ∧ ∀ w ∈ vs, d.le v w := listOpt_spec d vs v h

/-! ## What happens outside `supported` (finding F24b) -/

/-- a goal whose logic is not in the comparison table: `KeyError` after `_setup`, one level stays
    pushed -/
theorem unsupported_goal_raises (g : Goal) (gi : Nat) (hsup : g.supported = false)
    (mx : Mixin) (strat : Strat) (extra : List Constraint) (fuel : Nat) (s : Solver M) :
    optimize o obj mx strat g gi extra fuel s = (.keyErr, s.push) :=
  optimize_unsupported hsup mx strat extra fuel s

/-- the property's "leaves the assertion stack as it found it", without the `supported` hypothesis -/
def search_restores_full_statement : Prop :=
  ∀ (o : Oracle Unit) (g : Goal) (s : Solver Unit) (fuel : Nat),
    (optimize o (fun _ _ => 0) .sua .linear g 0 [] fuel s).2.marks = s.marks

/-- … does not hold (witness: any unsupported goal) -/
theorem search_restores_full_fails : ¬ search_restores_full_statement := by
  intro h
  have := h (fun _ _ => none) ⟨.min, .int, false⟩ {} 0
  simp [optimize, Solver.push] at this

/-! ## Non-vacuity: the hypotheses are satisfiable and the conclusions are about real runs -/

example : (match (optimize (exOracle (intVal fun _ m => m)) (fun _ m => m) .sua .binary ⟨.max, .int, true⟩ 0 [] 20 {}).1 with
    | .done (some (m, c)) => m == 5 && c == 5 | _ => false) = true := by decide

/-- unsigned 3-bit goal: models 0…5 read as 0…5, minimum 0 -/
example : (match (optimize (exOracle bv3Val) (fun i m => readObj (.ubv 3) (bv3Val i m)) .incr .linear
      ⟨.min, .ubv 3, true⟩ 0 [] 20 {}).1 with
    | .done (some (m, c)) => m == 0 && c == 0 | _ => false) = true := by decide

/-- signed 3-bit goal on the same bit patterns: 4 and 5 read as -4 and -3, minimum -4 (model 4);
    the cuts are `BVSLT(term, SBV(b, 3))`, evaluated with `BitVec.slt` -/
example : (match (optimize (exOracle bv3Val) (fun i m => readObj (.sbv 3) (bv3Val i m)) .sua .binary
      ⟨.min, .sbv 3, true⟩ 0 [] 20 {}).1 with
    | .done (some (m, c)) => m == 4 && c == -4 | _ => false) = true := by decide

/-- the signedness column is proof-relevant: on the value `0b111` the atom built with the unsigned
    family (`BVULT`, `BV` cast) and the one built with the signed family (`BVSLT`, `SBV` cast) disagree,
    and only the signed one agrees with the signed reading `-1 < 1` -/
example : (Atom.mk 0 (.ubv 3) .lt 1).holds (fun _ (_ : Unit) => Val.bv 3 7#3) () = false ∧
    (Atom.mk 0 (.sbv 3) .lt 1).holds (fun _ (_ : Unit) => Val.bv 3 7#3) () = true ∧
    readObj (.sbv 3) (Val.bv 3 7#3) = -1 := by decide

example : (match (lexicographic (exOracle (intVal fun i m => if i = 0 then m % 2 else m)) (fun i m => if i = 0 then m % 2 else m) .incr .binary 20
      [(0, ⟨.max, .int, true⟩), (1, ⟨.min, .int, true⟩)] {}).1 with
    | .done (some (m, vs)) => m == 1 && vs == [1, 1] | _ => false) = true := by decide

example : (match (pareto (exOracle (intVal fun i m => if i = 0 then m else (m - 3) * (m - 3))) (fun i m => if i = 0 then m else (m - 3) * (m - 3)) .sua
      [(0, ⟨.min, .int, true⟩), (1, ⟨.min, .int, true⟩)] 20 {}).1 with
    | .done l => l.map Prod.snd == [[0, 9], [1, 4], [2, 1], [3, 0]] | _ => false) = true := by decide

/-- the generator abandoned after two solutions: a prefix of the front, solver restored -/
example : (match paretoPrefix (exOracle (intVal fun i m => if i = 0 then m else (m - 3) * (m - 3))) (fun i m => if i = 0 then m else (m - 3) * (m - 3)) .incr
      [(0, ⟨.min, .int, true⟩), (1, ⟨.min, .int, true⟩)] 20 2 {} with
    | (.done l, s') => l.map Prod.snd == [[0, 9], [1, 4]] && s'.marks.isEmpty && s'.stack.isEmpty | _ => false) = true := by
  decide

/-- `Scaled` is inhabited by non-trivial weights: 1/2 and 3/4 over the common denominator 4 -/
example : Scaled (M := Unit) 4 [(fun _ => true, (1 / 2 : Rat)), (fun _ => false, (3 / 4 : Rat))]
    [(fun _ => true, 2), (fun _ => false, 3)] :=
  All2.cons ⟨rfl, by decide +kernel⟩ (All2.cons ⟨rfl, by decide +kernel⟩ All2.nil)

/-- `GoalReads` holds for the concrete goals above -/
example : GoalReads (fun m : Int => m ∈ ([0, 1, 2, 3, 4, 5] : List Int)) bv3Val
    (fun i m => readObj (.sbv 3) (bv3Val i m)) ⟨.min, .sbv 3, true⟩ 0 :=
  fun _ _ => ⟨⟨rfl, by decide⟩, rfl⟩

/-- the hypotheses of `search_optimal_partial` hold for a concrete signed bit-vector run (so the
    theorem says something about it) -/
example : ∃ m c s', optimize (exOracle bv3Val) (fun i m => readObj (.sbv 3) (bv3Val i m)) .sua .binary
      ⟨.min, .sbv 3, true⟩ 0 [] 20 {} = (.done (some (m, c)), s') ∧
    IsOptimum .min (Feas (fun m : Int => m ∈ ([0, 1, 2, 3, 4, 5] : List Int)) bv3Val [] [])
      (fun m => readObj (.sbv 3) (bv3Val 0 m)) c := by
  refine ⟨_, _, _, rfl, ?_⟩
  have hG : GoalReads (fun m : Int => m ∈ ([0, 1, 2, 3, 4, 5] : List Int)) bv3Val
      (fun i m => readObj (.sbv 3) (bv3Val i m)) ⟨.min, .sbv 3, true⟩ 0 :=
    fun _ _ => ⟨⟨rfl, by decide⟩, rfl⟩
  exact (search_optimal_partial (exOracle_spec _) ⟨.min, .sbv 3, true⟩ 0 rfl hG .sua .binary [] 20 {} _ _ _ rfl).2.2

end PySMT.Props.C18
