import PySMT.Proofs.C18Pareto
import PySMT.Proofs.C18Term
import PySMT.Proofs.C18ParetoTerm
import PySMT.Proofs.C18Spec
import PySMT.Proofs.C18Examples
/-!
# C18 — Optimisation returns the true optimum and restores the solver

Property theorems about the model `PySMT.Opt` (`Impl/Opt.lean`) of `pysmt/optimization/optimizer.py`.

Reading guide.  `M` is the type of models, `A m` says that `m` satisfies the user's assertions,
`obj i m : Int` is the value of the `i`-th goal term in `m` (`toNat`/`toInt` of a bit-vector value
according to the goal's signedness).  The solver is an arbitrary oracle `o` with the single
assumption `OracleSpec A obj o`: every `solve` call returns a model of the assertions and of the
constraints the routine put on top iff one exists (which one is up to the solver, and may change
from call to call).  `Feas A obj s.stack ex` is the feasible set: assertions, whatever is on the
solver's stack when the routine is entered, and the assumptions `ex`.  The feasible set may be
infinite.  `fuel` bounds the number of loop iterations of the model; outcome `.fuel` means "still
running", every other outcome is what the Python routine returns / raises.

All theorems below carry the hypothesis `supported` (the goal's logic is a key of the table in
`_comparation_functions`) and are therefore named `…_partial`: for an Int objective whose term
mentions bit-vectors or arrays (finding F24b, not repaired) the routines raise `KeyError`
(`unsupported_goal_raises`), so the property as stated does not hold for those goals
(`search_restores_full_fails`).
-/
namespace PySMT.Props.C18
open PySMT.Opt PySMT.OptSpec

variable {M : Type} {A : M → Prop} {obj : Nat → M → Int} {o : Oracle M}

/-- `optimize` (linear or binary search; assumption based or push/pop based; minimisation or
    maximisation; Int, unsigned BV or signed BV) returns a model of the assertions whose cost is
    the value of the objective in that model and is the optimum over the whole feasible set.
    Missing w.r.t. the property: goals with `supported = false` (F24b). -/
theorem search_optimal_partial (hO : OracleSpec A obj o) (g : Goal) (gi : Nat) (hsup : g.supported = true)
    (hDom : ∀ m, A m → castOk g.dom (obj gi m) = true)
    (mx : Mixin) (strat : Strat) (extra : List Constraint) (fuel : Nat) (s s' : Solver M) (m : M) (c : Int)
    (h : optimize o obj mx strat g gi extra fuel s = (.done (some (m, c)), s')) :
    Feas A obj s.stack (effExtra mx extra) m ∧ c = obj gi m ∧
      IsOptimum (sense g.dir) (Feas A obj s.stack (effExtra mx extra)) (obj gi) c := by
  have hs := optimize_spec (gi := gi) hO hsup hDom mx strat extra fuel s
  rw [h] at hs
  rcases hs with hf | ⟨res, hres, _, _, _, _, hsome⟩
  · cases hf
  · cases hres
    obtain ⟨h1, h2, h3⟩ := hsome m c rfl
    exact ⟨h1, h2, ⟨m, h1, h2.symm⟩, fun m' hm' => (sense_le g _ _).2 (h3 m' hm')⟩

/-- "no solution" is reported exactly when the assertions (with the assumptions) are unsatisfiable.
    Missing: goals with `supported = false` (F24b). -/
theorem search_none_iff_partial (hO : OracleSpec A obj o) (g : Goal) (gi : Nat) (hsup : g.supported = true)
    (hDom : ∀ m, A m → castOk g.dom (obj gi m) = true)
    (mx : Mixin) (strat : Strat) (extra : List Constraint) (fuel : Nat) (s s' : Solver M)
    (res : Option (M × Int)) (h : optimize o obj mx strat g gi extra fuel s = (.done res, s')) :
    res = none ↔ ¬ ∃ m, Feas A obj s.stack (effExtra mx extra) m := by
  have hs := optimize_spec (gi := gi) hO hsup hDom mx strat extra fuel s
  rw [h] at hs
  rcases hs with hf | ⟨res', hres, _, _, _, hnone, _⟩
  · cases hf
  · cases hres; exact hnone

/-- the assertion stack, the backtrack points and the "pop without push" flag are what they were
    before the call, for both mix-ins and both strategies.  Missing: `supported = false` (F24b). -/
theorem search_restores_partial (hO : OracleSpec A obj o) (g : Goal) (gi : Nat) (hsup : g.supported = true)
    (hDom : ∀ m, A m → castOk g.dom (obj gi m) = true)
    (mx : Mixin) (strat : Strat) (extra : List Constraint) (fuel : Nat) (s s' : Solver M)
    (res : Option (M × Int)) (h : optimize o obj mx strat g gi extra fuel s = (.done res, s')) :
    s'.stack = s.stack ∧ s'.marks = s.marks ∧ s'.bad = s.bad := by
  have hs := optimize_spec (gi := gi) hO hsup hDom mx strat extra fuel s
  rw [h] at hs
  rcases hs with hf | ⟨res', _, e1, e2, e3, _, _⟩
  · cases hf
  · exact ⟨e1, e2, e3⟩

/-- every bound handed to `mgr.Int` / `mgr.BV` / `mgr.SBV` during the search is representable:
    the search never stops with a cast error (nor with any other error).
    Missing: `supported = false` (F24b). -/
theorem casts_in_range_partial (hO : OracleSpec A obj o) (g : Goal) (gi : Nat) (hsup : g.supported = true)
    (hDom : ∀ m, A m → castOk g.dom (obj gi m) = true)
    (mx : Mixin) (strat : Strat) (extra : List Constraint) (fuel : Nat) (s : Solver M) :
    (optimize o obj mx strat g gi extra fuel s).1 = .fuel ∨
      ∃ res, (optimize o obj mx strat g gi extra fuel s).1 = .done res := by
  rcases optimize_spec (gi := gi) hO hsup hDom mx strat extra fuel s with hf | ⟨res, hres, _⟩
  · exact Or.inl hf
  · exact Or.inr ⟨res, hres⟩

/-- if the optimum is attained (or nothing is feasible) the search stops: from some amount of fuel
    on the model returns a result, for every oracle.  Missing: `supported = false` (F24b). -/
theorem search_terminates_partial (hO : OracleSpec A obj o) (g : Goal) (gi : Nat) (hsup : g.supported = true)
    (hDom : ∀ m, A m → castOk g.dom (obj gi m) = true)
    (mx : Mixin) (strat : Strat) (extra : List Constraint) (s : Solver M)
    (hatt : (∃ m, Feas A obj s.stack (effExtra mx extra) m) →
      OptimumAttained (sense g.dir) (Feas A obj s.stack (effExtra mx extra)) (obj gi)) :
    ∃ N, ∀ fuel, fuel ≥ N → ∃ res, (optimize o obj mx strat g gi extra fuel s).1 = .done res := by
  obtain ⟨N, hN⟩ := optimize_terminates (gi := gi) hO hsup hDom mx strat extra s (by
    intro hex
    obtain ⟨c, ⟨mo, hmo, hc⟩, hopt⟩ := hatt hex
    exact ⟨mo, fun m hm => by rw [hc]; exact (sense_le g _ _).1 (hopt m hm)⟩)
  refine ⟨N, fun fuel hge => ?_⟩
  rcases casts_in_range_partial hO g gi hsup hDom mx strat extra fuel s with hf | h
  · exact absurd hf (hN fuel hge)
  · exact h

/-- MaxSMT with integer weights: `_optimize` turns the goal into the maximisation of
    `Σ (if clause then weight else 0)`; the returned cost is the weight of the soft clauses satisfied
    by the returned model and no feasible model satisfies a heavier set.
    Missing: soft clauses over bit-vectors/arrays (`supported = false`, F24b). -/
theorem maxsmt_opt_partial (hO : OracleSpec A obj o) (soft : List ((M → Bool) × Int)) (gi : Nat)
    (hobj : ∀ m, obj gi m = maxsmtObj soft m)
    (mx : Mixin) (strat : Strat) (fuel : Nat) (s s' : Solver M) (m : M) (c : Int)
    (h : optimize o obj mx strat ⟨.max, .int, true⟩ gi [] fuel s = (.done (some (m, c)), s')) :
    Feas A obj s.stack [] m ∧ c = maxsmtObj soft m ∧ ∀ m', Feas A obj s.stack [] m' → maxsmtObj soft m' ≤ c := by
  have := search_optimal_partial hO ⟨.max, .int, true⟩ gi rfl (fun _ _ => rfl) mx strat [] fuel s s' m c h
  rw [effExtra_nil] at this
  obtain ⟨h1, h2, _, h3⟩ := this
  refine ⟨h1, by rw [h2, hobj], fun m' hm' => ?_⟩
  have := h3 m' hm'
  simp only [sense, Sense.le] at this
  rw [← hobj]; exact this

/-- min-max goals (`MinMaxGoal`, objective `Max(terms)`): the returned cost is the largest term
    value in the returned model and every feasible model has some term at least that large.
    Missing: `supported = false` (F24b). -/
theorem minmax_opt_partial (hO : OracleSpec A obj o) (t : M → Int) (ts : List (M → Int)) (gi : Nat) (dom : Dom)
    (hobj : ∀ m, obj gi m = maxOf t ts m) (hDom : ∀ m, A m → castOk dom (obj gi m) = true)
    (mx : Mixin) (strat : Strat) (fuel : Nat) (s s' : Solver M) (m : M) (c : Int)
    (h : optimize o obj mx strat ⟨.min, dom, true⟩ gi [] fuel s = (.done (some (m, c)), s')) :
    Feas A obj s.stack [] m ∧ c = maxOf t ts m ∧ ∀ m', Feas A obj s.stack [] m' → c ≤ maxOf t ts m' := by
  have := search_optimal_partial hO ⟨.min, dom, true⟩ gi rfl hDom mx strat [] fuel s s' m c h
  rw [effExtra_nil] at this
  obtain ⟨h1, h2, _, h3⟩ := this
  refine ⟨h1, by rw [h2, hobj], fun m' hm' => ?_⟩
  have := h3 m' hm'
  simp only [sense, Sense.le] at this
  rw [← hobj]; exact this

/-- max-min goals (`MaxMinGoal`, objective `Min(terms)`).  Missing: `supported = false` (F24b). -/
theorem maxmin_opt_partial (hO : OracleSpec A obj o) (t : M → Int) (ts : List (M → Int)) (gi : Nat) (dom : Dom)
    (hobj : ∀ m, obj gi m = minOf t ts m) (hDom : ∀ m, A m → castOk dom (obj gi m) = true)
    (mx : Mixin) (strat : Strat) (fuel : Nat) (s s' : Solver M) (m : M) (c : Int)
    (h : optimize o obj mx strat ⟨.max, dom, true⟩ gi [] fuel s = (.done (some (m, c)), s')) :
    Feas A obj s.stack [] m ∧ c = minOf t ts m ∧ ∀ m', Feas A obj s.stack [] m' → minOf t ts m' ≤ c := by
  have := search_optimal_partial hO ⟨.max, dom, true⟩ gi rfl hDom mx strat [] fuel s s' m c h
  rw [effExtra_nil] at this
  obtain ⟨h1, h2, _, h3⟩ := this
  refine ⟨h1, by rw [h2, hobj], fun m' hm' => ?_⟩
  have := h3 m' hm'
  simp only [sense, Sense.le] at this
  rw [← hobj]; exact this

/-- `boxed_optimize`: solver restored; `None` exactly when there are goals and the assertions are
    unsatisfiable; otherwise one entry per goal, in order, each a feasible model with the optimum of
    that goal.  Missing: `supported = false` (F24b). -/
theorem boxed_opt_partial (hO : OracleSpec A obj o) (mx : Mixin) (strat : Strat) (fuel : Nat)
    (goals : List (Nat × Goal)) (hok : GoalsOk A obj goals) (s s' : Solver M)
    (res : Option (List (Nat × M × Int))) (h : boxed o obj mx strat fuel goals s = (.done res, s')) :
    s'.stack = s.stack ∧ s'.marks = s.marks ∧ s'.bad = s.bad ∧
    (res = none ↔ goals ≠ [] ∧ ¬ ∃ m, Feas A obj s.stack [] m) ∧
    ∀ l, res = some l →
      All2 (fun (p : Nat × Goal) (q : Nat × M × Int) =>
        q.1 = p.1 ∧ Feas A obj s.stack [] q.2.1 ∧ q.2.2 = obj p.1 q.2.1 ∧
        IsOptimum (sense p.2.dir) (Feas A obj s.stack []) (obj p.1) q.2.2) goals l := by
  have hs := boxed_spec hO mx strat fuel goals s hok
  rw [h] at hs
  rcases hs with hf | ⟨res', hres, e1, e2, e3, e4, e5⟩
  · cases hf
  · cases hres; exact ⟨e1, e2, e3, e4, e5⟩

/-- `lexicographic_optimize` (as repaired for F24a): solver restored (in particular the level
    pushed by `_setup` is popped on success as well); `None` exactly when unsatisfiable; otherwise
    a feasible model whose costs are the goal values in that model and are the exact lexicographic
    optimum.  Missing: `supported = false` (F24b); the empty goal list (Python: `UnboundLocalError`). -/
theorem lexi_opt_partial (hO : OracleSpec A obj o) (mx : Mixin) (strat : Strat) (fuel : Nat)
    (goals : List (Nat × Goal)) (hne : goals ≠ []) (hok : GoalsOk A obj goals) (s s' : Solver M)
    (res : Option (M × List Int)) (h : lexicographic o obj mx strat fuel goals s = (.done res, s')) :
    s'.stack = s.stack ∧ s'.marks = s.marks ∧ s'.bad = s.bad ∧
    (res = none ↔ ¬ ∃ m, Feas A obj s.stack [] m) ∧
    ∀ m vs, res = some (m, vs) →
      Feas A obj s.stack [] m ∧ vs = goals.map (fun p => obj p.1 m) ∧
      IsLexOptimum (specGoals obj goals) (Feas A obj s.stack []) vs := by
  have hs := lexi_spec hO mx strat fuel goals hne hok s
  rw [h] at hs
  rcases hs with hf | ⟨res', hres, e1, e2, e3, e4, e5⟩
  · cases hf
  · cases hres
    refine ⟨e1, e2, e3, e4, fun m vs hm => ?_⟩
    obtain ⟨g1, vs', g2, g3, g4⟩ := e5 m vs hm
    simp only [List.nil_append] at g2
    subst g2
    exact ⟨g1, g3, g4⟩

/-- `pareto_optimize`, consumed completely: solver restored; every yielded model is feasible and
    Pareto-optimal and is yielded with its own cost vector; no cost vector is yielded twice; every
    Pareto-optimal cost vector is yielded.  So the yielded cost vectors are exactly the Pareto front,
    each once.
    The statement is about runs that finish (`.done`); `pareto_terminates_partial` shows that they do
    whenever the feasible models have finitely many cost vectors (the routine cannot terminate on an
    infinite front).  Missing (hence `_partial`): `supported = false` (F24b); the empty goal list. -/
theorem pareto_front_partial (hO : OracleSpec A obj o) (mx : Mixin) (goals : List (Nat × Goal)) (fuel : Nat)
    (hsup : ∀ p ∈ goals, p.2.supported = true) (hne : goals ≠ []) (s s' : Solver M)
    (res : List (M × List Int)) (h : pareto o obj mx goals fuel s = (.done res, s')) :
    s'.stack = s.stack ∧ s'.marks = s.marks ∧ s'.bad = s.bad ∧
    (∀ q ∈ res, ParetoOptimal (specGoals obj goals) (Feas A obj s.stack []) q.1 ∧
                q.2 = costs (specGoals obj goals) q.1) ∧
    (res.map Prod.snd).Pairwise (· ≠ ·) ∧
    (∀ m, ParetoOptimal (specGoals obj goals) (Feas A obj s.stack []) m →
      costs (specGoals obj goals) m ∈ res.map Prod.snd) := by
  have hs := pareto_spec hO mx goals fuel hsup hne s
  rw [h] at hs
  rcases hs with hf | ⟨found, hres, e1, e2, e3, f1, f2, f3⟩
  · cases hf
  · cases hres
    have hc : ∀ p : M, (goals.map (fun (x : Nat × Goal) => obj x.1 p)) = costs (specGoals obj goals) p := by
      intro p; simp [costs, specGoals]
    refine ⟨e1, e2, e3, ?_, ?_, ?_⟩
    · intro q hq
      simp only [accOf, List.mem_map] at hq
      obtain ⟨p, hp, rfl⟩ := hq
      exact ⟨f1 p hp, hc p⟩
    · simp only [accOf, List.map_map]
      rw [List.pairwise_map]
      refine f2.imp ?_
      intro a b hab
      simpa [hc] using hab
    · intro m hm
      obtain ⟨p, hp, hpe⟩ := f3 m hm
      simp only [accOf, List.map_map, List.mem_map]
      exact ⟨p, hp, by simp [hc, hpe]⟩

/-- `boxed_optimize` returns (from some amount of fuel on the model is finished) when the optimum
    of every goal is attained.  Missing: `supported = false` (F24b). -/
theorem boxed_terminates_partial (hO : OracleSpec A obj o) (mx : Mixin) (strat : Strat)
    (goals : List (Nat × Goal)) (hok : GoalsOk A obj goals) (s : Solver M)
    (hatt : ∀ p ∈ goals, (∃ m, Feas A obj s.stack [] m) →
      OptimumAttained (sense p.2.dir) (Feas A obj s.stack []) (obj p.1)) :
    ∃ N, ∀ fuel, fuel ≥ N → ∃ res, (boxed o obj mx strat fuel goals s).1 = .done res := by
  obtain ⟨N, hN, hst⟩ := boxed_stable hO mx strat goals s hok (fun p hp => attained_of (hatt p hp))
  refine ⟨N, fun fuel hge => ?_⟩
  have h1 : (boxed o obj mx strat fuel goals s).1 ≠ .fuel := by
    have := hst fuel hge
    simp only at this hN
    rw [this]; exact hN
  rcases boxed_spec hO mx strat fuel goals s hok with hf | ⟨res, hres, _⟩
  · exact absurd hf h1
  · exact ⟨res, hres⟩

/-- `lexicographic_optimize` returns when the optimum of every goal is attained on every set of
    models that fixes the values of the earlier goals (always the case for finite domains).
    Missing: `supported = false` (F24b); the empty goal list. -/
theorem lexi_terminates_partial (hO : OracleSpec A obj o) (mx : Mixin) (strat : Strat)
    (goals : List (Nat × Goal)) (hne : goals ≠ []) (hok : GoalsOk A obj goals) (s : Solver M)
    (hatt : ∀ cd, ∀ p ∈ goals, (∃ m, Feas A obj s.stack cd m) →
      OptimumAttained (sense p.2.dir) (Feas A obj s.stack cd) (obj p.1)) :
    ∃ N, ∀ fuel, fuel ≥ N → ∃ res, (lexicographic o obj mx strat fuel goals s).1 = .done res := by
  obtain ⟨N, hN, hst⟩ := lexLoop_stable hO mx strat s.stack goals [] none [] s.push rfl hok
    (fun cd p hp => attained_of (hatt cd p hp))
  refine ⟨N, fun fuel hge => ?_⟩
  have h1 : (lexicographic o obj mx strat fuel goals s).1 ≠ .fuel := by
    have := hst fuel hge
    simp only at this hN
    unfold lexicographic
    rw [this]; exact hN
  rcases lexi_spec hO mx strat fuel goals hne hok s with hf | ⟨res, hres, _⟩
  · exact absurd hf h1
  · exact ⟨res, hres⟩

/-- `pareto_optimize` terminates when the feasible models have finitely many cost vectors (all in
    the list `L`; e.g. bit-vector or range-bounded objectives): with `L.length + 2` units of fuel or
    more the model has finished.  Missing: `supported = false` (F24b); the empty goal list. -/
theorem pareto_terminates_partial (hO : OracleSpec A obj o) (mx : Mixin) (goals : List (Nat × Goal))
    (hsup : ∀ p ∈ goals, p.2.supported = true) (hne : goals ≠ []) (s : Solver M) (L : List (List Int))
    (hL : ∀ m, Feas A obj s.stack [] m → costs (specGoals obj goals) m ∈ L)
    (fuel : Nat) (hfuel : fuel ≥ L.length + 2) :
    ∃ res, (pareto o obj mx goals fuel s).1 = .done res := by
  have h1 := pareto_terminates hO mx goals hsup hne s L hL fuel hfuel
  rcases pareto_spec hO mx goals fuel hsup hne s with hf | ⟨found, hres, _⟩
  · exact absurd hf h1
  · exact ⟨_, hres⟩

/-- the S-oracle `spec opt` of the driver (optimum of an explicit list of feasible objective
    values) returns an element of the list that no element improves on -/
theorem spec_opt_query_correct (d : Sense) (vs : List Int) (v : Int) (h : listOpt d vs = some v) :
    v ∈ vs ∧ ∀ w ∈ vs, d.le v w := listOpt_spec d vs v h

/-! ## What happens outside `supported` (finding F24b) -/

/-- a goal whose logic is not in the comparison table: `KeyError` after `_setup`, one level stays
    pushed -/
theorem unsupported_goal_raises (g : Goal) (gi : Nat) (hsup : g.supported = false)
    (mx : Mixin) (strat : Strat) (extra : List Constraint) (fuel : Nat) (s : Solver M) :
    optimize o obj mx strat g gi extra fuel s = (.keyErr, s.push) :=
  optimize_unsupported hsup mx strat extra fuel s

/-- the property's "leaves the assertion stack as it found it", without the `supported` hypothesis -/
def search_restores_full_statement : Prop :=
  ∀ (o : Oracle Unit) (g : Goal) (s : Solver Unit) (fuel : Nat),
    (optimize o (fun _ _ => 0) .sua .linear g 0 [] fuel s).2.marks = s.marks

/-- … does not hold (witness: any unsupported goal) -/
theorem search_restores_full_fails : ¬ search_restores_full_statement := by
  intro h
  have := h (fun _ _ => none) ⟨.min, .int, false⟩ {} 0
  simp [optimize, Solver.push] at this

/-! ## Non-vacuity: the hypotheses are satisfiable and the conclusions are about real runs -/

example : (match (optimize (exOracle (fun _ m => m)) (fun _ m => m) .sua .binary ⟨.max, .int, true⟩ 0 [] 20 {}).1 with
    | .done (some (m, c)) => m == 5 && c == 5 | _ => false) = true := by decide

example : (match (optimize (exOracle (fun _ m => m)) (fun _ m => m) .incr .linear ⟨.min, .ubv 3, true⟩ 0 [] 20 {}).1 with
    | .done (some (m, c)) => m == 0 && c == 0 | _ => false) = true := by decide

example : (match (lexicographic (exOracle (fun i m => if i = 0 then m % 2 else m)) (fun i m => if i = 0 then m % 2 else m) .incr .binary 20
      [(0, ⟨.max, .int, true⟩), (1, ⟨.min, .int, true⟩)] {}).1 with
    | .done (some (m, vs)) => m == 1 && vs == [1, 1] | _ => false) = true := by decide

example : (match (pareto (exOracle (fun i m => if i = 0 then m else (m - 3) * (m - 3))) (fun i m => if i = 0 then m else (m - 3) * (m - 3)) .sua
      [(0, ⟨.min, .int, true⟩), (1, ⟨.min, .int, true⟩)] 20 {}).1 with
    | .done l => l.map Prod.snd == [[0, 9], [1, 4], [2, 1], [3, 0]] | _ => false) = true := by decide

/-- the hypotheses of `search_optimal_partial` hold for the concrete run above (so the theorem says
    something about it) -/
example : ∃ m c s', optimize (exOracle (fun _ m => m)) (fun _ m => m) .sua .binary ⟨.max, .int, true⟩ 0 [] 20 {} = (.done (some (m, c)), s') ∧
    IsOptimum .max (Feas (fun m : Int => m ∈ ([0, 1, 2, 3, 4, 5] : List Int)) (fun _ m => m) [] []) (fun m => m) c := by
  refine ⟨_, _, _, rfl, ?_⟩
  exact (search_optimal_partial (exOracle_spec _) ⟨.max, .int, true⟩ 0 rfl (fun _ _ => rfl) .sua .binary [] 20 {} _ _ _ rfl).2.2

end PySMT.Props.C18
