import PySMT.Impl.Opt
namespace PySMT.Props.C18
end PySMT.Props.C18
