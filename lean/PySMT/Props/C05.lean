import PySMT.Proofs.C05Spec
import PySMT.Proofs.C05Interp
import PySMT.Proofs.C05Compose
import PySMT.Proofs.WalkerInstSubst
/-!
# C05 — substitution: property theorems (obligations)

Model: `PySMT/Impl/Subst.lean` (`substMG`, `substMS`, `interpret`, `substitute`) over
`PySMT/Impl/SubstBuild.lean` (`rebuild` = `IdentityDagWalker` through the manager constructors).
Specification: `PySMT/Spec/Subst.lean` (`mgSpec`, `msSpec`, `NoCapture`, `updSyms`, `updFns`) and the
reference semantics `eval`.

What is a theorem about what: every statement below is about the hand-written model `substMG` /
`substMS` (a recursive function on trees); its agreement with `pysmt/substituter.py` is tested on every
run (harness K), not proved; that the one-shot memoised DAG walk of the code computes this recursive
function is `substitute_walk_eq_partial` below (re-exported from `Proofs/WalkerInstSubst.lean`).

Hypotheses used below (all decidable). That every term a `FormulaManager` builds satisfies them is
NOT proved here (it is the subject of C03/C04); the harness checks `Build.normal` on every generated
formula, and `subst_closed` shows that substitution preserves `wf`, `normal` and the type:
* `t.wf`      : well-typed with the constructors' arities (`Impl/WF.lean`);
* `normal t`  : the constructors' normal form (`And` has ≥ 2 arguments, no `Not(Not x)`, payload
                widths as the constructors compute them, …);
* `ConstKeys t` : the keys of every array value in `t` are constant nodes (Bool/Int/Real/BV/String
                constants) — what `Array(idx, default, {k: v …})` enforces for every index sort that is
                not itself an array sort. The only restriction left on array values: index sorts that are
                array sorts *with* assigned pairs (two distinct array-value constants can denote the same
                array) are outside the semantic theorems; `subst_type` needs no guard at all.
-/
namespace PySMT.C05
open PySMT.Subst PySMT.Build
open PySMT.SubstSpec (mgSpec msSpec appOf SMap NoCapture updSyms updFns upd Def)

/-! ## the two strategies (all terms, all term-keyed maps, all function interpretations, both
environment defaults)

What these two theorems say — and what they do not. `mgSpec` / `msSpec` (`Spec/Subst.lean`, which
imports nothing of the model) are parametric in the constructor layer `mk`; here `mk := Build.rebuild`,
the model of the `FormulaManager` constructors, and `below` / `find` / `appOf` are the specification's own
(three-line) versions of the restriction to keys without bound variables, the dictionary lookup and the
instantiation of an interpreted application. The content is therefore: **the post-order callbacks of the
walker** — children first, then MG looks the *original* node up and only otherwise rebuilds, MS rebuilds
and looks the *rebuilt* node up; a fresh walk with the reduced map under a binder; the interpretation
handler at an application — **compute the top-down "outermost key wins" recursion (MG), resp. the
bottom-up "rebuild, then replace the result if it is a key" recursion (MS), over the same constructor
layer.** They do not say anything about the constructor layer itself; what `Build.rebuild` is, is said
by `Build.rebuild_self` (the plain node on a normal node with unchanged children), `Build.rebuild_shape`
(in general the plain node over the new children or one of four documented normalisations) and tested
against the real constructors by K. -/

/-- `MGSubstituter`: post-order with lookup of the original node = outermost matching key first. -/
theorem substMG_eq_spec (envMs : Bool) (ι : IMap) (σ : Subst.TMap) (t : Term) :
    substMG envMs ι σ t = mgSpec rebuild (appOf rebuild envMs (defsOf ι)) σ t := by
  unfold substMG; rw [handlerOf_eq_appOf]; exact substG_mg_eq_spec _ t σ

/-- `MSSubstituter`: children first, then the rebuilt node is looked up. In both, every application of
an interpreted symbol is the instantiated body (`appOf`/`instantiate`). -/
theorem substMS_eq_spec (envMs : Bool) (ι : IMap) (σ : Subst.TMap) (t : Term) :
    substMS envMs ι σ t = msSpec rebuild (appOf rebuild envMs (defsOf ι)) σ t := by
  unfold substMS; rw [handlerOf_eq_appOf]; exact substG_ms_eq_spec _ t σ

/-- The constructor layer on unchanged children of a normal node is the plain node
(`IdentityDagWalker` is the identity there). -/
theorem rebuild_is_node_on_normal (op : Op) (p : Payload) (args : List Term) (h : normalNode op p args = true) :
    rebuild op p args = .node op args p := rebuild_self op p args h

/-- **The one-shot memoised walk computes the recursive model** (re-export of
`Walker.substitute_walk_eq_partial`): running the generic `DagWalker` model (work stack, memo, push
override at quantifiers) with the `Substituter` callbacks for the map `σ` returns `substG ms h σ t`
and leaves the walker idle, within `dagBound t` = 2·(edges of the DAG of `t`)+2 loop iterations and pushes (linear in the
DAG, not the tree). `_partial`: at a quantifier the nested fresh sub-substituter is taken to be
its own recursive model (the induction over the quantifier depth is not carried out). -/
theorem substitute_walk_eq_partial {M E : Type} [Walker.MemoLike M Term Term] [Walker.LawfulMemo M Term Term]
    (ms : Bool) (h : FnHandler) (σ : Subst.TMap) (inval shortcut : Bool) (fuel : Nat) (t : Term)
    (s : Walker.WState M Term)
    (hi : Walker.FoldIdle (fun n => n.op.isQuantifier) (substG ms h σ) s) (hfuel : Walker.dagBound t ≤ fuel) :
    let r := Walker.walk Walker.termGraph (fun n => n.op.isQuantifier)
               (fun _ => Walker.cbOf (E := E) (Walker.substCb ms h σ)) inval shortcut fuel t s
    r.1 = .ok (substG ms h σ t) ∧
    (r.2.iters ≤ s.iters + Walker.dagBound t ∧ r.2.pushes ≤ s.pushes + Walker.dagBound t) ∧
    Walker.FoldIdle (fun n => n.op.isQuantifier) (substG ms h σ) r.2 :=
  Walker.substitute_walk_eq_partial ms h σ inval shortcut fuel t s hi hfuel

/-! ## the substitution lemma -/

theorem handlerOf_nil (envMs : Bool) : handlerOf envMs [] = noInterp := rfl

/-- **Substitution lemma, `MGSubstituter`**: for every symbol-keyed type-correct map `σ`, every
interpretation `I` and every term `t` such that no free symbol of a replacement falls under a
quantifier binding it (`NoCapture`), the value of the result under `I` is the value of `t` under `I`
updated with the values of the replacement terms. (Array values: keys are constants, `ConstKeys`.) -/
theorem subst_lemma_mg (envMs : Bool) (t : Term) (σ : SMap) (I : Interp) (hI : I.WF)
    (hwf : t.wf = true) (hn : normal t = true) (ha : ConstKeys t = true) (hσ : SMapOK σ)
    (hnc : NoCapture σ t = true) :
    eval I (substMG envMs [] σ.toTMap t) = eval (updSyms I σ) t := by
  unfold substMG; rw [handlerOf_nil]
  exact subst_sem false t σ I hI hwf hn ha hσ hnc (fun e => by cases e)

/-- **Substitution lemma, `MSSubstituter`**. `_partial`: `MSSafe σ` — no replacement is the negation
of another key. Without it the statement is false for the real code and for the model alike:
`Not(a)[a ↦ Not(x), x ↦ y]` is rebuilt to `x`, which the most-specific strategy looks up again and
replaces by `y` (known finding F50; the harness reproduces it). `MSSafe` is sufficient, not
necessary: see the example `σ50` on `a ∧ x` below, where it fails and the conclusion holds. -/
theorem subst_lemma_ms_partial (envMs : Bool) (t : Term) (σ : SMap) (I : Interp) (hI : I.WF)
    (hwf : t.wf = true) (hn : normal t = true) (ha : ConstKeys t = true) (hσ : SMapOK σ)
    (hnc : NoCapture σ t = true) (hsafe : MSSafe σ) :
    eval I (substMS envMs [] σ.toTMap t) = eval (updSyms I σ) t := by
  unfold substMS; rw [handlerOf_nil]
  exact subst_sem true t σ I hI hwf hn ha hσ hnc (fun _ => hsafe)

/-- **Occurrences bound by a quantifier are never replaced**: a map whose keys are symbols that do
not occur free in `t` (they occur bound, or not at all) returns `t` itself — both strategies. -/
theorem bound_untouched (ms envMs : Bool) (t : Term) (σ : SMap) (hwt : t.wt = true) (hn : normal t = true)
    (hσ : ∀ kv ∈ σ, kv.1 ∉ t.fv) :
    (if ms then substMS envMs [] σ.toTMap t else substMG envMs [] σ.toTMap t) = t := by
  cases ms <;> simp only [substMS, substMG, handlerOf_nil, Bool.false_eq_true, if_false, if_true]
  · exact Subst.bound_untouched false t σ hwt hn hσ
  · exact Subst.bound_untouched true t σ hwt hn hσ

/-- more generally, for term keys: a map none of whose keys occurs in `t` at a position where its
free symbols are free returns `t` itself -/
theorem keys_not_free_untouched (ms envMs : Bool) (t : Term) (σ : Subst.TMap) (hn : normal t = true)
    (hσ : ∀ kv ∈ σ, occursFree kv.1 t = false) :
    (if ms then substMS envMs [] σ t else substMG envMs [] σ t) = t := by
  cases ms <;> simp only [substMS, substMG, handlerOf_nil, Bool.false_eq_true, if_false, if_true]
  · exact substG_unchanged false t σ hn hσ
  · exact substG_unchanged true t σ hn hσ

/-- the empty map is the identity (on the terms the manager builds) -/
theorem subst_empty (ms envMs : Bool) (t : Term) (hn : normal t = true) :
    (if ms then substMS envMs [] [] t else substMG envMs [] [] t) = t :=
  keys_not_free_untouched ms envMs t [] hn (fun _ h => by cases h)

/-! ## arbitrary sub-term keys: replacement of equals by equals -/

/-- interpretations that differ from `I` at most on the symbols in `B` -/
def AgreeOff (B : List Sym) (I J : Interp) : Prop :=
  (∀ s, s ∉ B → J.sym s = I.sym s) ∧ J.fn = I.fn ∧ J.dom = I.dom ∧ J.div0r = I.div0r ∧ J.div0i = I.div0i

/-- **Replacement of equals by equals** — the semantic half for arbitrary sub-term keys, both
strategies, no `NoCapture`, no `MSSafe`: if under every well-formed interpretation each key has the
value of its replacement, substituting does not change the value of the term.
Guards: `WfMap σ` (replacements well-formed, of the type of their key) and no key of `σ` is a key
constant of an array value of `t` (`arrKeys`; the real `Array()` raises when such a key becomes a
non-constant). -/
theorem subst_equals (ms envMs : Bool) (σ : Subst.TMap) (hσ : WfMap σ) (t : Term)
    (hwf : t.wf = true) (hn : normal t = true) (ha : ConstKeys t = true)
    (hk : ∀ k ∈ arrKeys t, ∀ kv ∈ σ, kv.1 ≠ k)
    (heq : ∀ J : Interp, J.WF → ∀ kv ∈ σ, eval J kv.1 = eval J kv.2) (I : Interp) (hI : I.WF) :
    eval I (if ms then substMS envMs [] σ t else substMG envMs [] σ t) = eval I t := by
  have := substG_equals ms (fun J => J.WF) (fun _ => True) (fun _ h => h)
    (fun J x v hJ _ hv => hJ.bind x v (hJ.dom_sort _ v hv)) t σ hσ hwf hn ha (fun _ _ => trivial) hk heq I hI
  cases ms <;> simpa [substMS, substMG, handlerOf_nil] using this

/-- the sharper form: the keys need the values of their replacements only under the interpretations
that arise while evaluating `t` under `I` — those that differ from `I` at most on the variables bound
in `t` -/
theorem subst_equals_local (ms envMs : Bool) (σ : Subst.TMap) (hσ : WfMap σ) (t : Term)
    (hwf : t.wf = true) (hn : normal t = true) (ha : ConstKeys t = true)
    (hk : ∀ k ∈ arrKeys t, ∀ kv ∈ σ, kv.1 ≠ k) (I : Interp) (hI : I.WF)
    (heq : ∀ J : Interp, J.WF → AgreeOff (bvars t) I J → ∀ kv ∈ σ, eval J kv.1 = eval J kv.2) :
    eval I (if ms then substMS envMs [] σ t else substMG envMs [] σ t) = eval I t := by
  have := substG_equals ms (fun J => J.WF ∧ AgreeOff (bvars t) I J) (fun x => x ∈ bvars t) (fun _ h => h.1)
    (fun J x v hJ hx hv => ⟨hJ.1.bind x v (hJ.1.dom_sort _ v hv), by
      obtain ⟨h1, h2, h3, h4, h5⟩ := hJ.2
      refine ⟨fun s hs => ?_, h2, h3, h4, h5⟩
      have : s ≠ x := fun e => hs (e ▸ hx)
      simp only [Interp.bind, this, if_false]
      exact h1 s hs⟩)
    t σ hσ hwf hn ha (fun _ h => h) hk (fun J hJ => heq J hJ.1 hJ.2) I
    ⟨hI, fun _ _ => rfl, rfl, rfl, rfl, rfl⟩
  cases ms <;> simpa [substMS, substMG, handlerOf_nil] using this

/-! ## the result satisfies the hypotheses again -/

/-- **Substitutions compose**: with well-formed, normal, type-correct replacements and well-formed
interpretations the result is again well-formed (`wf`), normal, and of the type of `t` — every term
(array values included), both strategies, both environment defaults. -/
theorem subst_closed (ms envMs : Bool) (ι : IMap) (hι : IMapOKAll ι) (σ : Subst.TMap) (hσ : WfMap σ)
    (hσn : NormalMap σ) (t : Term) (hwf : t.wf = true) (hn : normal t = true) :
    let r := if ms then substMS envMs ι σ t else substMG envMs ι σ t
    r.wf = true ∧ normal r = true ∧ r.typeOf = t.typeOf := by
  cases ms <;> simp only [substMS, substMG, Bool.false_eq_true, if_false, if_true]
  · exact substG_closed false envMs hι σ hσ hσn t hwf hn
  · exact substG_closed true envMs hι σ hσ hσn t hwf hn

/-- **Type preservation**: a type-correct term-keyed map (every value well-typed, of the type of
its key) and type-correct interpretations give a well-typed result of the type of `t` — every term
(array values included), both strategies, both environment defaults. -/
theorem subst_type (ms envMs : Bool) (ι : IMap) (hι : IMapOKAll ι) (σ : Subst.TMap) (hσ : TyMap σ) (t : Term)
    (hwt : t.wt = true) (hn : normal t = true) :
    let r := if ms then substMS envMs ι σ t else substMG envMs ι σ t
    r.wt = true ∧ r.typeOf = t.typeOf := by
  cases ms <;> simp only [substMS, substMG, Bool.false_eq_true, if_false, if_true]
  · exact substG_type false (handlerOf_typed envMs hι.ok) t σ hσ hwt hn
  · exact substG_type true (handlerOf_typed envMs hι.ok) t σ hσ hwt hn

/-- **Interpretation lemma** (combined with a symbol-keyed substitution), `MGSubstituter`: with
well-formed closed quantifier-free interpretations `ι`, the value of the result is the value of `t`
under `I` with the replaced symbols updated and every interpreted function symbol denoting its body.
Either environment default; under the `MSSubstituter` default (the bodies are instantiated
most-specifically) no formal parameter may be of sort Bool (`NoBoolFormals`, the F50 situation).
`_partial`: bodies quantifier-free (`FiOK.qf`: nothing of an actual argument can be captured). -/
theorem interp_lemma_partial (envMs : Bool) (ι : IMap) (hι : IMapOKAll ι) (henv : envMs = true → NoBoolFormals ι)
    (t : Term) (σ : SMap) (I : Interp) (hI : I.WF)
    (hwf : t.wf = true) (hn : normal t = true) (ha : ConstKeys t = true) (hσ : SMapOK σ)
    (hnc : NoCapture σ t = true) :
    eval I (substMG envMs ι σ.toTMap t) = eval (upd I σ (defsOf ι)) t :=
  subst_interp_sem envMs hι henv t σ I hI hwf hn ha hσ hnc

/-- **Interpretation lemma, `MSSubstituter`** (interpretations only, either environment default —
in particular the all-most-specific configuration `envMs = true`). Same `_partial` as above. -/
theorem interp_lemma_ms_partial (envMs : Bool) (ι : IMap) (hι : IMapOKAll ι) (henv : envMs = true → NoBoolFormals ι)
    (t : Term) (I : Interp) (hI : I.WF) (hwf : t.wf = true) (hn : normal t = true) (ha : ConstKeys t = true) :
    eval I (substMS envMs ι [] t) = eval (updFns I (defsOf ι)) t :=
  subst_interp_sem_ms envMs hι henv t I hI hwf hn ha

/-! ## non-vacuity: the hypotheses are satisfiable by non-trivial terms, maps and interpretations -/
section Examples

private def x : Sym := Sym.var "x" .int
private def y : Sym := Sym.var "y" .int
private def z : Sym := Sym.var "z" .int
private def pS : Sym := Sym.var "p" .bool
private def fS : Sym := ⟨"f", [.int, .int], .int⟩
private def aS : Sym := Sym.var "a" .int
private def bS : Sym := Sym.var "b" .int
/-- `(∀ x. x < f(y, x) ∧ p) ∧ ¬p` : a bound `x`, free `y`, `p`, an application, a negation -/
private def t0 : Term :=
  .mkAnd [.mkForall [x] (.mkAnd [.node .lt [.sym x, .app fS [.sym y, .sym x]] .none, .sym pS]), .mkNot (.sym pS)]
/-- `y ↦ z + 1, p ↦ ¬(z < 3)` : the second replacement meets `Not(p)` (double-negation collapse) -/
private def σ0 : SMap := [(y, .node .plus [.sym z, .int 1] .none), (pS, .mkNot (.node .lt [.sym z, .int 3] .none))]
/-- `f(a, b) = a + b` -/
private def ι0 : IMap := [(fS, ⟨[aS, bS], .node .plus [.sym aS, .sym bS] .none⟩)]

/-- `Array(Int, x){1 := y, 2 := 0}[z]` : an array value with assigned pairs whose values and default
are replaced (the pair `1 := y` is dropped by `y ↦ x`, the default changes with `x ↦ …`) -/
private def tA : Term :=
  .node .arraySelect [.node .arrayValue [.sym x, .int 1, .sym y, .int 2, .int 0] (.ty .int), .sym z] .none

private def σE : Subst.TMap := [(.mkAnd [.sym pS, .sym pS], .sym pS)]
private def tE : Term := .mkOr [.mkNot (.mkAnd [.sym pS, .sym pS]), .sym pS]

local macro "term_eval" : tactic => `(tactic| (
  simp only [Term.wf, Term.typeOf, Term.wt, normal, ConstKeys, pairsOf, List.tail, Op.isConstant, Term.fv, Term.fnames, normalNode, Op.shapeOK,
    Op.isQuantifier, Term.isQF, Term.subterms,
    Term.mkForall, Term.mkAnd, Term.mkNot, Term.var, Term.sym, Term.app, Term.int, Sym.var, List.map, List.all, List.filter,
    List.flatten, List.append, Term.op, Term.mkOr, t0, tA, tE, σE, σ0, ι0, x, y, z, pS, fS, aS, bS] <;>
  decide))

example : t0.wf = true ∧ normal t0 = true ∧ ConstKeys t0 = true := ⟨by term_eval, by term_eval, by term_eval⟩

example : NoCapture σ0 t0 = true := by
  simp [NoCapture.eq_def, Term.fv, Op.isQuantifier, SMap.drop, Term.mkForall, Term.mkAnd, Term.mkNot, Term.sym,
    Term.app, Term.int, Sym.var, t0, σ0, x, y, z, pS, fS]

/-- … whereas `y ↦ x + 1` is excluded by the proviso: `x` would be captured -/
example : NoCapture [(y, .node .plus [.sym x, .int 1] .none)] t0 = false := by
  simp [NoCapture.eq_def, Term.fv, Op.isQuantifier, SMap.drop, Term.mkForall, Term.mkAnd, Term.mkNot, Term.sym,
    Term.app, Term.int, Sym.var, t0, x, y, pS, fS]

example : SMapOK σ0 := by
  intro kv h
  simp only [σ0, List.mem_cons, List.not_mem_nil, or_false] at h
  rcases h with rfl | rfl
  · exact ⟨rfl, by term_eval, by term_eval⟩
  · exact ⟨rfl, by term_eval, by term_eval⟩

example : MSSafe σ0 := by
  intro kv h b pl e
  simp only [σ0, List.mem_cons, List.not_mem_nil, or_false] at h
  rcases h with rfl | rfl
  · simp [Term.sym] at e
  · simp only [Term.mkNot, Term.node.injEq, List.cons.injEq, and_true, true_and] at e
    obtain ⟨rfl, _⟩ := e
    simp [lookup, SMap.toTMap, σ0, Term.sym, y, pS]

example : IMapOKAll ι0 := by
  intro gf h
  simp only [ι0, List.mem_cons, List.not_mem_nil, or_false] at h
  subst h
  exact ⟨by term_eval, by term_eval, by term_eval, by term_eval, rfl, by simp [aS, bS, Sym.var], by simp [aS, bS, Sym.var],
    by simp [Term.fv, Term.sym], by term_eval, by term_eval⟩

example : tA.wf = true ∧ ConstKeys tA = true := ⟨by term_eval, by term_eval⟩
example : normal tA = true := by
  simp [normal, normalNode, pairsOf, unpairs, pyDict, dictInsert, tA, Term.sym, Term.int, x, y, z, Sym.var,
    isBvSameWidthOp]

example : NoBoolFormals ι0 := by
  intro gf h s hs
  simp only [ι0, List.mem_cons, List.not_mem_nil, or_false] at h
  subst h
  simp only [List.mem_cons, List.not_mem_nil, or_false] at hs
  rcases hs with rfl | rfl <;> simp [aS, bS, Sym.var]

/-- a well-formed interpretation exists -/
example : ∃ I : Interp, I.WF :=
  ⟨{ sym := fun s => s.ret.defaultVal, fn := fun f _ => f.ret.defaultVal, dom := fun t => [t.defaultVal],
     div0r := fun _ => 0, div0i := fun _ => 0 },
   by
    have hdef : ∀ t : Ty, t.defaultVal.hasSort t = true := by
      intro t
      induction t with
      | bool | int | real | str => rfl
      | bv w => simp [Ty.defaultVal, Val.hasSort, Nat.two_pow_pos]
      | array i e _ ihe => simp [Ty.defaultVal, Val.hasSort, ihe]
      | custom n => simp [Ty.defaultVal, Val.hasSort]
    exact ⟨fun s => hdef _, fun f _ => hdef _, fun t => by simp, fun t v hv => by simp at hv; subst hv; exact hdef t⟩⟩

private def a : Sym := Sym.var "a" .bool
private def xb : Sym := Sym.var "x" .bool
private def yb : Sym := Sym.var "y" .bool
private def σ50 : SMap := [(a, .mkNot (.sym xb)), (xb, .sym yb)]

/-- finding F50 on the model: for `Not(a)` and `{a ↦ Not(x), x ↦ y}` the most-general strategy returns
`x` (the value the substitution lemma predicts), the most-specific one `y`; `MSSafe σ50` fails -/
example : substMG false [] σ50.toTMap (.mkNot (.sym a)) = .sym xb ∧
    substMS false [] σ50.toTMap (.mkNot (.sym a)) = .sym yb := by
  constructor <;>
  simp [substMG, substMS, substG.eq_def, handlerOf_nil, build, rebuild, mkNotN, bodyMap, Op.isQuantifier, lookup,
    SMap.toTMap, σ50, Term.mkNot, Term.sym, a, xb, yb, Sym.var, isBvSameWidthOp]

example : ¬ MSSafe σ50 := by
  intro h
  have := h (a, .mkNot (.sym xb)) (by simp [σ50]) (.sym xb) .none rfl
  simp [lookup, SMap.toTMap, σ50, Term.sym, a, xb, Sym.var] at this

/-- `MSSafe` is sufficient, not necessary: `σ50` is not `MSSafe`, yet on `a ∧ x` (no negation above
`a`) the most-specific strategy computes the same term as the most-general one, and the substitution
lemma's conclusion holds -/
example : substMS false [] σ50.toTMap (.mkAnd [.sym a, .sym xb]) =
    substMG false [] σ50.toTMap (.mkAnd [.sym a, .sym xb]) := by
  simp [substMG, substMS, substG.eq_def, handlerOf_nil, build, rebuild, mkAndN, bodyMap, Op.isQuantifier, lookup,
    SMap.toTMap, σ50, Term.mkNot, Term.mkAnd, Term.sym, a, xb, yb, Sym.var, isBvSameWidthOp]

/-! replacement of equals by equals: `(p ∧ p) ↦ p` in `¬(p ∧ p) ∨ p` -/
example : tE.wf = true ∧ normal tE = true ∧ ConstKeys tE = true := ⟨by term_eval, by term_eval, by term_eval⟩
example : WfMap σE ∧ NormalMap σE := by
  constructor <;> intro kv h <;> simp only [σE, List.mem_cons, List.not_mem_nil, or_false] at h <;> subst h
  · exact ⟨by term_eval, by term_eval⟩
  · term_eval
example : ∀ k ∈ arrKeys tE, ∀ kv ∈ σE, kv.1 ≠ k := by
  intro k hk
  simp [arrKeys, tE, Term.mkOr, Term.mkNot, Term.mkAnd, Term.sym] at hk
example : ∀ J : Interp, J.WF → ∀ kv ∈ σE, eval J kv.1 = eval J kv.2 := by
  intro J hJ kv h
  simp only [σE, List.mem_cons, List.not_mem_nil, or_false] at h
  subst h
  have hs : (J.sym pS).hasSort .bool = true := hJ.sym pS
  simp only [Term.mkAnd, Term.sym]
  rw [eval_plain J .and _ _ (by decide) (by decide) rfl, eval_symbol]
  simp only [List.map_cons, List.map_nil, eval_symbol]
  cases hv : J.sym pS <;> rw [hv] at hs <;> simp [Val.hasSort] at hs
  rename_i b
  cases b <;> rfl
/-- … and the substitution acts: the most-general strategy gives `¬p ∨ p` -/
example : substMG false [] σE tE = .mkOr [.mkNot (.sym pS), .sym pS] := by
  simp [substMG, substG.eq_def, handlerOf_nil, build, rebuild, mkOrN, mkNotN, mkAndN, bodyMap, Op.isQuantifier, lookup,
    σE, tE, Term.mkNot, Term.mkAnd, Term.mkOr, Term.sym, pS, Sym.var, isBvSameWidthOp]

end Examples

end PySMT.C05
