import PySMT.Proofs.C05Spec
/-!
# C05 — substitution: property theorems (obligations)
-/
namespace PySMT.C05
open PySMT.Subst
open PySMT.SubstSpec (mgSpec msSpec appOf)

/-- With arbitrary sub-terms as keys and any supplied function interpretations, `MGSubstituter`
computes exactly the documented most-general replacement … -/
theorem substMG_eq_spec (envMs : Bool) (ι : IMap) (σ : Subst.TMap) (t : Term) :
    substMG envMs ι σ t = mgSpec (appOf envMs (defsOf ι)) σ t := by
  unfold substMG; rw [handlerOf_eq_appOf]; exact substG_mg_eq_spec _ t σ

/-- … and `MSSubstituter` exactly the documented most-specific replacement. -/
theorem substMS_eq_spec (envMs : Bool) (ι : IMap) (σ : Subst.TMap) (t : Term) :
    substMS envMs ι σ t = msSpec (appOf envMs (defsOf ι)) σ t := by
  unfold substMS; rw [handlerOf_eq_appOf]; exact substG_ms_eq_spec _ t σ

end PySMT.C05
