import PySMT.Proofs.C05Spec
import PySMT.Proofs.C05Interp
/-!
# C05 — substitution: property theorems (obligations)

Model: `PySMT/Impl/Subst.lean` (`substMG`, `substMS`, `interpret`, `substitute`) over
`PySMT/Impl/SubstBuild.lean` (`rebuild` = `IdentityDagWalker` through the manager constructors).
Specification: `PySMT/Spec/Subst.lean` (`mgSpec`, `msSpec`, `NoCapture`, `updSyms`, `updFns`) and the
reference semantics `eval`.

Hypotheses used below (all decidable, all satisfied by every term a `FormulaManager` builds — the
harness checks `Build.normal` on every generated formula):
* `t.wf`      : well-typed with the constructors' arities (`Impl/WF.lean`);
* `normal t`  : the constructors' normal form (`And` has ≥ 2 arguments, no `Not(Not x)`, payload
                widths as the constructors compute them, …);
* `ConstKeys t` : the keys of every array value in `t` are constant nodes (Bool/Int/Real/BV/String
                constants) — what `Array(idx, default, {k: v …})` enforces for every index sort that is
                not itself an array sort. The only restriction left on array values: index sorts that are
                array sorts *with* assigned pairs (two distinct array-value constants can denote the same
                array) are outside the semantic theorems; `subst_type` needs no guard at all.
-/
namespace PySMT.C05
open PySMT.Subst PySMT.Build
open PySMT.SubstSpec (mgSpec msSpec appOf SMap NoCapture updSyms updFns upd Def)

/-! ## the result is exactly the documented replacement (all terms, all term-keyed maps, all
function interpretations, both strategies, both environment defaults) -/

/-- `MGSubstituter` computes the most-general replacement: the outermost matching sub-term is replaced … -/
theorem substMG_eq_spec (envMs : Bool) (ι : IMap) (σ : Subst.TMap) (t : Term) :
    substMG envMs ι σ t = mgSpec (appOf envMs (defsOf ι)) σ t := by
  unfold substMG; rw [handlerOf_eq_appOf]; exact substG_mg_eq_spec _ t σ

/-- … and `MSSubstituter` the most-specific one: children first, then the rebuilt node is looked up.
In both, every application of an interpreted symbol is the instantiated body (`appOf`/`instantiate`). -/
theorem substMS_eq_spec (envMs : Bool) (ι : IMap) (σ : Subst.TMap) (t : Term) :
    substMS envMs ι σ t = msSpec (appOf envMs (defsOf ι)) σ t := by
  unfold substMS; rw [handlerOf_eq_appOf]; exact substG_ms_eq_spec _ t σ

/-! ## the substitution lemma -/

theorem handlerOf_nil (envMs : Bool) : handlerOf envMs [] = noInterp := rfl

/-- **Substitution lemma, `MGSubstituter`**: for every symbol-keyed type-correct map `σ`, every
interpretation `I` and every term `t` such that no free symbol of a replacement falls under a
quantifier binding it (`NoCapture`), the value of the result under `I` is the value of `t` under `I`
updated with the values of the replacement terms. (Array values: keys are constants, `ConstKeys`.) -/
theorem subst_lemma_mg (envMs : Bool) (t : Term) (σ : SMap) (I : Interp) (hI : I.WF)
    (hwf : t.wf = true) (hn : normal t = true) (ha : ConstKeys t = true) (hσ : SMapOK σ)
    (hnc : NoCapture σ t = true) :
    eval I (substMG envMs [] σ.toTMap t) = eval (updSyms I σ) t := by
  unfold substMG; rw [handlerOf_nil]
  exact subst_sem false t σ I hI hwf hn ha hσ hnc (fun e => by cases e)

/-- **Substitution lemma, `MSSubstituter`**. `_partial`: `MSSafe σ` — no replacement is the negation
of another key. Without it the statement is false for the real code and for the model alike:
`Not(a)[a ↦ Not(x), x ↦ y]` is rebuilt to `x`, which the most-specific strategy looks up again and
replaces by `y` (known finding F50; the harness reproduces it). -/
theorem subst_lemma_ms_partial (envMs : Bool) (t : Term) (σ : SMap) (I : Interp) (hI : I.WF)
    (hwf : t.wf = true) (hn : normal t = true) (ha : ConstKeys t = true) (hσ : SMapOK σ)
    (hnc : NoCapture σ t = true) (hsafe : MSSafe σ) :
    eval I (substMS envMs [] σ.toTMap t) = eval (updSyms I σ) t := by
  unfold substMS; rw [handlerOf_nil]
  exact subst_sem true t σ I hI hwf hn ha hσ hnc (fun _ => hsafe)

/-- **Occurrences bound by a quantifier are never replaced**: a map whose keys are symbols that do
not occur free in `t` (they occur bound, or not at all) returns `t` itself — both strategies. -/
theorem bound_untouched (ms envMs : Bool) (t : Term) (σ : SMap) (hwt : t.wt = true) (hn : normal t = true)
    (hσ : ∀ kv ∈ σ, kv.1 ∉ t.fv) :
    (if ms then substMS envMs [] σ.toTMap t else substMG envMs [] σ.toTMap t) = t := by
  cases ms <;> simp only [substMS, substMG, handlerOf_nil, Bool.false_eq_true, if_false, if_true]
  · exact Subst.bound_untouched false t σ hwt hn hσ
  · exact Subst.bound_untouched true t σ hwt hn hσ

/-- more generally, for term keys: a map none of whose keys occurs in `t` at a position where its
free symbols are free returns `t` itself -/
theorem keys_not_free_untouched (ms envMs : Bool) (t : Term) (σ : Subst.TMap) (hn : normal t = true)
    (hσ : ∀ kv ∈ σ, occursFree kv.1 t = false) :
    (if ms then substMS envMs [] σ t else substMG envMs [] σ t) = t := by
  cases ms <;> simp only [substMS, substMG, handlerOf_nil, Bool.false_eq_true, if_false, if_true]
  · exact substG_unchanged false t σ hn hσ
  · exact substG_unchanged true t σ hn hσ

/-- the empty map is the identity (on the terms the manager builds) -/
theorem subst_empty (ms envMs : Bool) (t : Term) (hn : normal t = true) :
    (if ms then substMS envMs [] [] t else substMG envMs [] [] t) = t :=
  keys_not_free_untouched ms envMs t [] hn (fun _ h => by cases h)

/-- **Type preservation**: a type-correct term-keyed map (every value well-typed, of the type of
its key) and type-correct interpretations give a well-typed result of the type of `t` — every term
(array values included), both strategies, both environment defaults. -/
theorem subst_type (ms envMs : Bool) (ι : IMap) (hι : IMapOKAll ι) (σ : Subst.TMap) (hσ : TyMap σ) (t : Term)
    (hwt : t.wt = true) (hn : normal t = true) :
    let r := if ms then substMS envMs ι σ t else substMG envMs ι σ t
    r.wt = true ∧ r.typeOf = t.typeOf := by
  cases ms <;> simp only [substMS, substMG, Bool.false_eq_true, if_false, if_true]
  · exact substG_type false (handlerOf_typed envMs hι.ok) t σ hσ hwt hn
  · exact substG_type true (handlerOf_typed envMs hι.ok) t σ hσ hwt hn

/-- **Interpretation lemma** (combined with a symbol-keyed substitution), `MGSubstituter`: with
well-formed closed quantifier-free interpretations `ι`, the value of the result is the value of `t`
under `I` with the replaced symbols updated and every interpreted function symbol denoting its body.
Either environment default; under the `MSSubstituter` default (the bodies are instantiated
most-specifically) no formal parameter may be of sort Bool (`NoBoolFormals`, the F50 situation).
`_partial`: bodies quantifier-free (`FiOK.qf`: nothing of an actual argument can be captured). -/
theorem interp_lemma_partial (envMs : Bool) (ι : IMap) (hι : IMapOKAll ι) (henv : envMs = true → NoBoolFormals ι)
    (t : Term) (σ : SMap) (I : Interp) (hI : I.WF)
    (hwf : t.wf = true) (hn : normal t = true) (ha : ConstKeys t = true) (hσ : SMapOK σ)
    (hnc : NoCapture σ t = true) :
    eval I (substMG envMs ι σ.toTMap t) = eval (upd I σ (defsOf ι)) t :=
  subst_interp_sem envMs hι henv t σ I hI hwf hn ha hσ hnc

/-- **Interpretation lemma, `MSSubstituter`** (interpretations only, either environment default —
in particular the all-most-specific configuration `envMs = true`). Same `_partial` as above. -/
theorem interp_lemma_ms_partial (envMs : Bool) (ι : IMap) (hι : IMapOKAll ι) (henv : envMs = true → NoBoolFormals ι)
    (t : Term) (I : Interp) (hI : I.WF) (hwf : t.wf = true) (hn : normal t = true) (ha : ConstKeys t = true) :
    eval I (substMS envMs ι [] t) = eval (updFns I (defsOf ι)) t :=
  subst_interp_sem_ms envMs hι henv t I hI hwf hn ha

/-! ## non-vacuity: the hypotheses are satisfiable by non-trivial terms, maps and interpretations -/
section Examples

private def x : Sym := Sym.var "x" .int
private def y : Sym := Sym.var "y" .int
private def z : Sym := Sym.var "z" .int
private def pS : Sym := Sym.var "p" .bool
private def fS : Sym := ⟨"f", [.int, .int], .int⟩
private def aS : Sym := Sym.var "a" .int
private def bS : Sym := Sym.var "b" .int
/-- `(∀ x. x < f(y, x) ∧ p) ∧ ¬p` : a bound `x`, free `y`, `p`, an application, a negation -/
private def t0 : Term :=
  .mkAnd [.mkForall [x] (.mkAnd [.node .lt [.sym x, .app fS [.sym y, .sym x]] .none, .sym pS]), .mkNot (.sym pS)]
/-- `y ↦ z + 1, p ↦ ¬(z < 3)` : the second replacement meets `Not(p)` (double-negation collapse) -/
private def σ0 : SMap := [(y, .node .plus [.sym z, .int 1] .none), (pS, .mkNot (.node .lt [.sym z, .int 3] .none))]
/-- `f(a, b) = a + b` -/
private def ι0 : IMap := [(fS, ⟨[aS, bS], .node .plus [.sym aS, .sym bS] .none⟩)]

/-- `Array(Int, x){1 := y, 2 := 0}[z]` : an array value with assigned pairs whose values and default
are replaced (the pair `1 := y` is dropped by `y ↦ x`, the default changes with `x ↦ …`) -/
private def tA : Term :=
  .node .arraySelect [.node .arrayValue [.sym x, .int 1, .sym y, .int 2, .int 0] (.ty .int), .sym z] .none

local macro "term_eval" : tactic => `(tactic| (
  simp only [Term.wf, Term.typeOf, Term.wt, normal, ConstKeys, pairsOf, List.tail, Op.isConstant, Term.fv, Term.fnames, normalNode, Op.shapeOK,
    Op.isQuantifier, Term.isQF, Term.subterms,
    Term.mkForall, Term.mkAnd, Term.mkNot, Term.var, Term.sym, Term.app, Term.int, Sym.var, List.map, List.all, List.filter,
    List.flatten, List.append, Term.op, t0, tA, σ0, ι0, x, y, z, pS, fS, aS, bS] <;>
  decide))

example : t0.wf = true ∧ normal t0 = true ∧ ConstKeys t0 = true := ⟨by term_eval, by term_eval, by term_eval⟩

example : NoCapture σ0 t0 = true := by
  simp [NoCapture.eq_def, Term.fv, Op.isQuantifier, SMap.drop, Term.mkForall, Term.mkAnd, Term.mkNot, Term.sym,
    Term.app, Term.int, Sym.var, t0, σ0, x, y, z, pS, fS]

/-- … whereas `y ↦ x + 1` is excluded by the proviso: `x` would be captured -/
example : NoCapture [(y, .node .plus [.sym x, .int 1] .none)] t0 = false := by
  simp [NoCapture.eq_def, Term.fv, Op.isQuantifier, SMap.drop, Term.mkForall, Term.mkAnd, Term.mkNot, Term.sym,
    Term.app, Term.int, Sym.var, t0, x, y, pS, fS]

example : SMapOK σ0 := by
  intro kv h
  simp only [σ0, List.mem_cons, List.not_mem_nil, or_false] at h
  rcases h with rfl | rfl
  · exact ⟨rfl, by term_eval, by term_eval⟩
  · exact ⟨rfl, by term_eval, by term_eval⟩

example : MSSafe σ0 := by
  intro kv h b pl e
  simp only [σ0, List.mem_cons, List.not_mem_nil, or_false] at h
  rcases h with rfl | rfl
  · simp [Term.sym] at e
  · simp only [Term.mkNot, Term.node.injEq, List.cons.injEq, and_true, true_and] at e
    obtain ⟨rfl, _⟩ := e
    simp [lookup, SMap.toTMap, σ0, Term.sym, y, pS]

example : IMapOKAll ι0 := by
  intro gf h
  simp only [ι0, List.mem_cons, List.not_mem_nil, or_false] at h
  subst h
  exact ⟨by term_eval, by term_eval, by term_eval, by term_eval, rfl, by simp [aS, bS, Sym.var], by simp [aS, bS, Sym.var],
    by simp [Term.fv, Term.sym], by term_eval, by term_eval⟩

example : tA.wf = true ∧ ConstKeys tA = true := ⟨by term_eval, by term_eval⟩
example : normal tA = true := by
  simp [normal, normalNode, pairsOf, unpairs, pyDict, dictInsert, tA, Term.sym, Term.int, x, y, z, Sym.var,
    isBvSameWidthOp]

example : NoBoolFormals ι0 := by
  intro gf h s hs
  simp only [ι0, List.mem_cons, List.not_mem_nil, or_false] at h
  subst h
  simp only [List.mem_cons, List.not_mem_nil, or_false] at hs
  rcases hs with rfl | rfl <;> simp [aS, bS, Sym.var]

/-- a well-formed interpretation exists -/
example : ∃ I : Interp, I.WF :=
  ⟨{ sym := fun s => s.ret.defaultVal, fn := fun f _ => f.ret.defaultVal, dom := fun t => [t.defaultVal],
     div0r := fun _ => 0, div0i := fun _ => 0 },
   by
    have hdef : ∀ t : Ty, t.defaultVal.hasSort t = true := by
      intro t
      induction t with
      | bool | int | real | str => rfl
      | bv w => simp [Ty.defaultVal, Val.hasSort, Nat.two_pow_pos]
      | array i e _ ihe => simp [Ty.defaultVal, Val.hasSort, ihe]
      | custom n => simp [Ty.defaultVal, Val.hasSort]
    exact ⟨fun s => hdef _, fun f _ => hdef _, fun t => by simp, fun t v hv => by simp at hv; subst hv; exact hdef t⟩⟩

private def a : Sym := Sym.var "a" .bool
private def xb : Sym := Sym.var "x" .bool
private def yb : Sym := Sym.var "y" .bool
private def σ50 : SMap := [(a, .mkNot (.sym xb)), (xb, .sym yb)]

/-- finding F50 on the model: for `Not(a)` and `{a ↦ Not(x), x ↦ y}` the most-general strategy returns
`x` (the value the substitution lemma predicts), the most-specific one `y`; `MSSafe σ50` fails -/
example : substMG false [] σ50.toTMap (.mkNot (.sym a)) = .sym xb ∧
    substMS false [] σ50.toTMap (.mkNot (.sym a)) = .sym yb := by
  constructor <;>
  simp [substMG, substMS, substG.eq_def, handlerOf_nil, build, rebuild, mkNotN, bodyMap, Op.isQuantifier, lookup,
    SMap.toTMap, σ50, Term.mkNot, Term.sym, a, xb, yb, Sym.var, isBvSameWidthOp]

example : ¬ MSSafe σ50 := by
  intro h
  have := h (a, .mkNot (.sym xb)) (by simp [σ50]) (.sym xb) .none rfl
  simp [lookup, SMap.toTMap, σ50, Term.sym, a, xb, Sym.var] at this

end Examples

end PySMT.C05
