import PySMT.Proofs.C02Model
import PySMT.Proofs.SimpFold
import PySMT.Proofs.C02Exact
/-!
# C02 — Model evaluation returns the exact value: what C01 gives, and fold completeness

Model: `PySMT.Model.getValue` (Impl/Model.lean) = `EagerModel.get_value`
(pysmt/solvers/eager.py:43-79): complete the assignment with the documented defaults,
substitute the constants, simplify, return the result if it is a constant; `PySMT.Model.satisfies`
= `Model.satisfies` (pysmt/solvers/solver.py:492-532) without solver argument.

Exactness (the property's first sentence): `ground_simp_const_partial`, `getValue_exact_partial`,
`satisfies_iff_partial`, `completion_exact_partial`, over the interpretation `interpOf σ` an
assignment stands for and the constant node `constOf v` of a scalar value (Proofs/C02Exact.lean).
Soundness for partial assignments: `noCompletion_sound_partial`, `getValue_sound_partial`.

All theorems are `_partial` for the same reason as in C01: they are stated on the fragment
`inFrag` of the simplifier model (Boolean/core, arithmetic, bit-vector, string and array families,
with the guards listed in Props/C01.lean) and on quantifier-free formulas `qf` (the
property's domain: ground-evaluable formulas) with scalar constants assigned to symbols
(`AsgOK`; array-valued assignments are outside the fragment). `fold_complete_partial` (all
arguments constants ⇒ every rule returns a constant: the part of C02 that C01 does not give)
is proved for every rule of these families (`FoldOK`, Proofs/SimpFold.lean, Proofs/SimpBVFold.lean,
Proofs/SimpStr.lean) except `arrayValue`: a constant array value is not a scalar constant, so terms
containing array values are outside `ground` (for `arraySelect` / `arrayStore` the statement holds
vacuously: no scalar constant has an array sort).
-/
namespace PySMT.C02
open PySMT PySMT.Model PySMT.Simplifier

/-- evaluation of a constant node is its payload (sanity anchor of the semantics) -/
theorem eval_const_int (I : Interp) (n : Int) : eval I (Term.int n) = .i n := eval_intc I n

/-- **without completion**: if `get_value(f, model_completion=False)` returns `c`, then `c` is a
constant of the type of `f` and it is the value of `f` under *every* well-formed interpretation
that extends the assignment and evaluates no division by zero in `f` — in particular under every
completion of a partial assignment. (partial: fragment `inFrag`, see header) -/
theorem noCompletion_sound_partial (σ : Asg) (hσ : AsgOK σ) (f c : Term) (τ : Ty) (hwf : f.wf = true)
    (hqf : qf f = true) (hfr : inFrag f = true) (hty : f.typeOf = some τ)
    (h : getValue false σ f = some c) :
    Build.isConstant c = true ∧ c.typeOf = some τ ∧
      ∀ I : Interp, I.WF → Extends I σ → div0 I f = false → eval I f = eval I c :=
  getValue_sound_aux σ hσ f τ hwf hqf hfr hty c (by simpa [getValue] using h)

/-- **with completion**: the value returned is the value of `f` under every well-formed
interpretation extending the *completed* assignment `σ'`, which keeps the given values and gives
the default constant of its sort to every other free symbol. (partial: fragment `inFrag`) -/
theorem getValue_sound_partial (σ : Asg) (hσ : AsgOK σ) (f c : Term) (τ : Ty) (hwf : f.wf = true)
    (hqf : qf f = true) (hfr : inFrag f = true) (hty : f.typeOf = some τ)
    (h : getValue true σ f = some c) :
    ∃ σ' : Asg, complete σ f.fv = some σ' ∧ AsgOK σ' ∧ (∀ s v, σ.get s = some v → σ'.get s = some v) ∧
      Build.isConstant c = true ∧ c.typeOf = some τ ∧
      ∀ I : Interp, I.WF → Extends I σ' → div0 I f = false → eval I f = eval I c := by
  simp only [getValue, if_true] at h
  cases hc : complete σ f.fv with
  | none => rw [hc] at h; cases h
  | some σ' =>
    rw [hc] at h
    obtain ⟨h1, h2⟩ := complete_ok f.fv σ σ' hσ hc
    obtain ⟨a, b, d⟩ := getValue_sound_aux σ' h1 f τ hwf hqf hfr hty c h
    exact ⟨σ', rfl, h1, h2, a, b, d⟩

/-- `get_value` with completion is `get_value` without completion on the completed assignment -/
theorem completion_defaults (σ σ' : Asg) (f : Term) (h : complete σ f.fv = some σ') :
    getValue true σ f = getValue false σ' f := by
  simp [getValue, h]

/-- **fold completeness**: a well-formed formula of the fragment without symbols, function
applications and quantifiers that evaluates no division by zero simplifies to a constant — every
rule, applied to constant arguments, returns a constant (`Div(3, 0)` is the only node that stays).
(partial: fragment `inFrag`) -/
theorem fold_complete_partial (t : Term) (τ : Ty) (hwf : t.wf = true) (hfr : inFrag t = true)
    (hty : t.typeOf = some τ) (hg : ground t = true) (I : Interp) (hI : I.WF) (hd : div0 I t = false) :
    (simp t).op.isConstant = true :=
  fold_complete t τ hwf hfr hty hg I hI hd

/-- rule level: every entry of the table (except symbols, applications and array values — an array value
with constant arguments stays an array value, not a scalar constant) maps constant arguments to a constant -/
theorem rule_folds (op : Op) (e : Simp.Entry) (h : ruleOf op = some e) (h1 : op ≠ .symbol) (h2 : op ≠ .function)
    (h3 : op ≠ .arrayValue) : Simp.FoldOK op e := ruleOf_fold' op e h h1 h2 h3

/-! ## exactness -/

/-- **a ground term simplifies to the constant it denotes**: for a well-formed term of the fragment
without symbols, applications, quantifiers and array values (`ground`; so its sort is scalar) that
evaluates no division by zero, `simp t` is a constant node, namely the constant node of the value of
`t` (by induction with `rule_folds` + soundness of `simp`). (partial: fragment `inFrag`; array
values are not scalar constants, see header) -/
theorem ground_simp_const_partial (t : Term) (τ : Ty) (hwf : t.wf = true) (hfr : inFrag t = true)
    (hty : t.typeOf = some τ) (hg : ground t = true) (I : Interp) (hI : I.WF) (hd : div0 I t = false) :
    (simp t).op.isConstant = true ∧ simp t = constOf (eval I t) := by
  have hc := fold_complete t τ hwf hfr hty hg I hI hd
  obtain ⟨⟨_, sw⟩, ss, _⟩ := simp_spec t hwf hfr τ hty
  refine ⟨hc, ?_⟩
  rw [← (ss I hI hd).1]
  exact const_constOf _ sw hc I

/-- **`get_value` is exact**: for a quantifier-free formula without UF applications (and without
array values: `evaluable`), a type-correct assignment `σ` of scalar constants that is total on the
free symbols of `f`, and no division by zero evaluated under the interpretation `interpOf σ` the
assignment stands for, `get_value` (with or without completion) returns exactly the constant node of
the value of `f`. (partial: fragment `inFrag` — no `pow`, no equality of arrays indexed by
bit-vectors wider than 8 bits, no array-indexed arrays — and no array values / array-valued
assignments) -/
theorem getValue_exact_partial (completion : Bool) (σ : Asg) (hσ : AsgOK σ) (f : Term) (τ : Ty)
    (hwf : f.wf = true) (hev : evaluable f = true) (hfr : inFrag f = true) (hty : f.typeOf = some τ)
    (htot : ∀ s ∈ f.fv, (σ.get s).isSome = true) (hd : div0 (interpOf σ) f = false) :
    getValue completion σ f = some (constOf (eval (interpOf σ) f)) := by
  obtain ⟨e, _, hc⟩ := exact_core σ hσ f τ hwf hev hfr hty htot hd
  have hcomp : (if completion then complete σ f.fv else some σ) = some σ := by
    cases completion
    · rfl
    · simp only [if_true]; exact complete_of_total f.fv σ htot
  rw [e] at hc
  simp only [getValue, hcomp, e, hc, if_true]

/-- **`satisfies`**: under the same hypotheses, for a Boolean formula the model reports that it
satisfies `f` iff the value of `f` is true (and it never raises). (partial: as above) -/
theorem satisfies_iff_partial (σ : Asg) (hσ : AsgOK σ) (f : Term) (hwf : f.wf = true) (hev : evaluable f = true)
    (hfr : inFrag f = true) (hty : f.typeOf = some .bool) (htot : ∀ s ∈ f.fv, (σ.get s).isSome = true)
    (hd : div0 (interpOf σ) f = false) :
    ∃ b, satisfies σ f = some b ∧ (b = true ↔ eval (interpOf σ) f = .b true) := by
  obtain ⟨e, _, _⟩ := exact_core σ hσ f .bool hwf hev hfr hty htot hd
  obtain ⟨v, hv⟩ := Val.hasSort_bool (eval_hasSort f hwf _ hty _ (interpOf_wf σ hσ))
  refine ⟨v, ?_, ?_⟩
  · simp only [satisfies, complete_of_total f.fv σ htot, e, hv, constOf]
    cases v <;> rfl
  · rw [hv]; cases v <;> simp

/-- **completion**: symbols of `f` absent from the assignment behave as the documented defaults.
`interpOf σ` gives every unassigned symbol the default value of its sort (false, 0, 0.0, the zero
bit-vector); if every unassigned free symbol of `f` has such a sort, `get_value` with completion
returns exactly the constant node of the value of `f` under it. (partial: as above) -/
theorem completion_exact_partial (σ : Asg) (hσ : AsgOK σ) (f : Term) (τ : Ty)
    (hwf : f.wf = true) (hev : evaluable f = true) (hfr : inFrag f = true) (hty : f.typeOf = some τ)
    (hmiss : ∀ s ∈ f.fv, σ.get s = none → s.params = [] ∧ (defaultOf s.ret).isSome = true)
    (hd : div0 (interpOf σ) f = false) :
    getValue true σ f = some (constOf (eval (interpOf σ) f)) ∧
      ∀ s, σ.get s = none → (interpOf σ).sym s = s.ret.defaultVal := by
  obtain ⟨σ', h1, h2, h3, h4, h5⟩ := complete_spec f.fv σ hmiss
  obtain ⟨hσ', _⟩ := complete_ok f.fv σ σ' hσ h1
  have hI : interpOf σ' = interpOf σ := interpOf_complete σ σ' f.fv h2 h3 h5
  obtain ⟨e, _, hc⟩ := exact_core σ' hσ' f τ hwf hev hfr hty h4 (by rw [hI]; exact hd)
  refine ⟨?_, fun s hs => by simp only [interpOf, hs]⟩
  rw [e, hI] at hc
  simp only [getValue, if_true, h1, e, hI, hc]

/-- the documented defaults -/
theorem defaults_table (w : Nat) :
    defaultOf .bool = some (Term.bool false) ∧ defaultOf .int = some (Term.int 0) ∧
    defaultOf .real = some (Term.real 0) ∧ defaultOf (.bv w) = some (Term.bvc 0 w) ∧
    Ty.bool.defaultVal = .b false ∧ Ty.int.defaultVal = .i 0 ∧ Ty.real.defaultVal = .r 0 ∧
    (Ty.bv w).defaultVal = .bv w 0 := ⟨rfl, rfl, rfl, rfl, rfl, rfl, rfl, rfl⟩

/-! ## non-vacuity -/

/-- the assignment `x ↦ 3` is admissible, and an interpretation extending it exists -/
example : AsgOK [(Sym.var "x" .int, Term.int 3)] ∧
    ∃ I : Interp, Extends I [(Sym.var "x" .int, Term.int 3)] := by
  constructor
  · intro s c h
    simp only [Asg.get] at h
    split at h
    · next hs => cases h; subst hs; exact ⟨wf_int 3, typeOf_int 3, rfl⟩
    · cases h
  · refine ⟨{ sym := fun _ => .i 3, fn := fun _ _ => .i 0, dom := fun _ => [], div0r := id, div0i := id }, ?_⟩
    intro s c h
    simp only [Asg.get] at h
    split at h
    · cases h; exact eval_intc _ 3
    · cases h

/-- the hypotheses of the exactness theorems are satisfiable: `x ≤ 3` under `x ↦ 3` -/
example : ∃ (σ : Asg) (f : Term), AsgOK σ ∧ f.wf = true ∧ evaluable f = true ∧ inFrag f = true ∧
    f.typeOf = some .bool ∧ (∀ s ∈ f.fv, (σ.get s).isSome = true) ∧ div0 (interpOf σ) f = false := by
  let xs : Sym := Sym.var "x" .int
  let x : Term := Term.var "x" .int
  let f : Term := .node .le [x, Term.int 3] .none
  let σ : Asg := [(xs, Term.int 3)]
  obtain ⟨wx, tx, fx⟩ : x.wf = true ∧ x.typeOf = some .int ∧ inFrag x = true := var_ok "x" .int
  have hty : f.typeOf = some .bool := Simp.BoolRules.typeOf_rel_mk (Or.inl rfl) _ (Or.inl ⟨tx, typeOf_int 3⟩)
  have hmem : ∀ a ∈ [x, Term.int 3], a = x ∨ a = Term.int 3 := by intro a ha; simpa using ha
  refine ⟨σ, f, ?_, ?_, ?_, ?_, hty, ?_, ?_⟩
  · intro s c h
    simp only [σ, Asg.get] at h
    split at h
    · next hs => cases h; subst hs; exact ⟨wf_int 3, typeOf_int 3, rfl⟩
    · cases h
  · exact wf_mk' (by intro a ha; rcases hmem a ha with rfl | rfl; exact wx; exact wf_int 3) rfl hty
  · show evaluable (.node .le [.node .symbol [] (.sym xs), .node .intConst [] (.i 3)] .none) = true
    rw [evaluable]
    simp only [List.map_cons, List.map_nil, List.all_cons, List.all_nil]
    rw [evaluable, evaluable]
    rfl
  · refine frag_node (e := Simp.BoolRules.walkLe) rfl rfl ?_
    intro a ha
    rcases hmem a ha with rfl | rfl
    · exact fx
    · exact frag_node (e := Simp.keep .intConst) rfl rfl (by simp)
  · intro s hs
    obtain ⟨a, ha, hs⟩ := (mem_fv_plain (by simp) (by simp) rfl).mp hs
    rcases hmem a ha with rfl | rfl
    · have : s = xs := by
        have e : x.fv = [xs] := by show (Term.node .symbol [] (.sym xs)).fv = _; rw [fv_symbol]
        rw [e] at hs; simpa using hs
      subst this
      simp [σ, Asg.get]
    · simp at hs
  · rw [div0_plain _ .le _ _ rfl (by simp)]
    simp only [List.any_cons, List.any_nil, Bool.or_false, div0_int]
    show div0 _ (Term.node .symbol [] (.sym xs)) = false
    rw [div0_plain _ .symbol _ _ rfl (by simp)]
    rfl

end PySMT.C02
