import PySMT.Proofs.C02Model
import PySMT.Proofs.SimpFold
import PySMT.Proofs.C02Exact
import PySMT.Proofs.C02Subst
import PySMT.Proofs.C02Total
import PySMT.Proofs.C02Array
/-!
# C02 — Model evaluation returns the exact value of any ground-evaluable formula

Two models of `EagerModel.get_value` (pysmt/solvers/eager.py:43-79) / `Model.satisfies`
(pysmt/solvers/solver.py:492-532, no solver argument), both in Impl/Model.lean:

* `getValue'` / `satisfies'` — **the code's own pipeline**: complete the assignment with the documented
  defaults, `substituter.substitute` = `MGSubstituter` = `Subst.substMG` (the model of C05: every node that is
  not replaced is *rebuilt* through the `FormulaManager` constructors — `Div(x, c)` → `Times(x, 1/c)`,
  `Not(Not x)` → `x`, `ToReal(3)` → `3.0`, bit-vector payloads recomputed, `Array(...)` re-normalised), then
  `simplify` = `Simplifier.simp` (the model of C01), then the `is_constant()` test. This is what the
  correspondence check compares with the real code end to end (driver `Drivers/C02.lean`).
* `getValue` / `satisfies` — the same with the symbols replaced in place (`substConst`, no rebuilding): the
  model the first version of these theorems was proved for; `getValue'_eq_getValue_partial` shows that the two
  return the same constant under the hypotheses of exactness.

Theorems (each for both models unless said otherwise; `'` = the code's pipeline):

* exactness (the property's first sentence), scalar sorts, result `constOf (eval (interpOf σ) f)`:
  `getValue_exact_partial` / `getValue'_exact_partial`, `satisfies_iff_partial` / `satisfies'_iff_partial`,
  `completion_exact_partial` / `completion'_exact_partial`, `satisfies_completion_partial` /
  `satisfies'_completion_partial` (partial assignment + completion), `ground_simp_const_partial`;
* soundness for partial assignments (the property's last sentence): `noCompletion_sound_partial` /
  `noCompletion'_sound_partial`, `getValue_sound_partial` / `getValue'_sound_partial`;
* without the per-formula division-by-zero proviso (`interpOf σ` maps `x / 0` to 0, so
  `C01.simp_sound_total_partial` applies; covers guarded divisions `ite(r = 0, 0, 1/r)`): whatever constant is
  returned is the exact one, and a raise implies a `div` node with zero divisor —
  `getValue_exact_nodiv_partial` / `getValue'_exact_nodiv_partial`, `satisfies_sound_nodiv_partial` /
  `satisfies'_sound_nodiv_partial`, `completion_exact_nodiv_partial`, `noCompletion'_sound_nodiv_partial`.
  That `get_value` *does answer* on a formula with a division by zero in an untaken branch is not proved
  (fold completeness is proved under `div0 = false` only);
* **the array family** (`'` only): assignments of constant array values to array-sorted symbols (`AsgWFA`),
  array values, `select`, `store`, comparable array equalities and results of an array sort —
  `noCompletion'_sound_array_partial`, `getValue'_exact_array_partial` (the answer is a constant `GConst` of
  the type of `f` with the value of `f`; an array-sorted answer is determined up to the order of its pairs,
  hence no `constOf`), `getValue'_exact_array_scalar_partial`, `satisfies'_array_partial`,
  `completion'_exact_array_partial`, `fold_complete_array_partial` (+ `Model.rule_foldA`);
* fold completeness (scalar): `fold_complete_partial`, `rule_folds`; `completion_defaults`, `defaults_table`.

Hypotheses: `f.wf` (type checker + constructor arities), `inFrag f` (every operator has a rule in the
simplifier model and meets its guard — **this is why every theorem is `_partial`**: no `pow`, no equality of
arrays indexed by bit-vectors wider than 8 bits, no arrays indexed by arrays), `evaluable f` / `evaluableA f`
(quantifier-free, no UF application; `evaluable` also excludes array values), for the primed theorems
`Build.normal f` and `Subst.ConstKeys f` (the normal form of the `FormulaManager` constructors, on which
rebuilding is defined; checked by the harness of C05 on every generated formula), the assignment well-formed
(`AsgOK` / `AsgWF` / `AsgWFA`: symbol ↦ constant of its sort) and, for exactness, total on the free symbols
or completable (`hmiss`), and `div0 (interpOf σ) f = false` (no `div` node of `f`, taken or not, has a zero
divisor).

**Not covered** (the stated gap): (a) in the array family — equalities between arrays whose index sort is
custom/array or whose element sort is an array (`walk_equals` leaves them to the solver and `get_value`
raises `PysmtTypeError`), bit-vector index sorts wider than 8 bits for array equality, arrays indexed by
arrays, completion of an unassigned *array-sorted* symbol (`_complete_model` raises "Unhandled type"); the
in-place model `getValue` has no array theorems; (b) assignments that are not symbol ↦ constant:
`EagerModel.assignment` is an arbitrary `Dict[FNode, FNode]`. Observed on the code (eager.py:34-52): a
non-constant *ground* value (`x ↦ 1 + 2`) is folded by the simplifier and behaves like its value; a value
with free symbols (`x ↦ y + 1`) makes `get_value` raise "Was expecting a constant" (values are not
substituted into, their symbols are not completed); a non-symbol key (`x + y ↦ 5`) is replaced as a term by
the most-general substituter while `satisfies` only looks up the free *symbols* (so `get_value(x + y = 5)` is
True and `satisfies(x + y = 5)` False with `x, y` completed to 0); a function-symbol key is rejected by
`substitute`. None of this is modelled: the property quantifies over assignments of constants to symbols;
(c) memoisation of completions in `completed_assignment` is not modelled (the default depends on the sort
only).
-/
namespace PySMT.C02
open PySMT PySMT.Model PySMT.Simplifier

/-- evaluation of a constant node is its payload (sanity anchor of the semantics) -/
theorem eval_const_int (I : Interp) (n : Int) : eval I (Term.int n) = .i n := eval_intc I n

/-- **without completion**: if `get_value(f, model_completion=False)` returns `c`, then `c` is a
constant of the type of `f` and it is the value of `f` under *every* well-formed interpretation
that extends the assignment and evaluates no division by zero in `f` — in particular under every
completion of a partial assignment. (partial: fragment `inFrag`, see header) -/
theorem noCompletion_sound_partial (σ : Asg) (hσ : AsgOK σ) (f c : Term) (τ : Ty) (hwf : f.wf = true)
    (hqf : qf f = true) (hfr : inFrag f = true) (hty : f.typeOf = some τ)
    (h : getValue false σ f = some c) :
    Build.isConstant c = true ∧ c.typeOf = some τ ∧
      ∀ I : Interp, I.WF → Extends I σ → div0 I f = false → eval I f = eval I c :=
  getValue_sound_aux σ hσ f τ hwf hqf hfr hty c (by simpa [getValue] using h)

/-- **with completion**: the value returned is the value of `f` under every well-formed
interpretation extending the *completed* assignment `σ'`, which keeps the given values and gives
the default constant of its sort to every other free symbol. (partial: fragment `inFrag`) -/
theorem getValue_sound_partial (σ : Asg) (hσ : AsgOK σ) (f c : Term) (τ : Ty) (hwf : f.wf = true)
    (hqf : qf f = true) (hfr : inFrag f = true) (hty : f.typeOf = some τ)
    (h : getValue true σ f = some c) :
    ∃ σ' : Asg, complete σ f.fv = some σ' ∧ AsgOK σ' ∧ (∀ s v, σ.get s = some v → σ'.get s = some v) ∧
      Build.isConstant c = true ∧ c.typeOf = some τ ∧
      ∀ I : Interp, I.WF → Extends I σ' → div0 I f = false → eval I f = eval I c := by
  simp only [getValue, if_true] at h
  cases hc : complete σ f.fv with
  | none => rw [hc] at h; cases h
  | some σ' =>
    rw [hc] at h
    obtain ⟨h1, h2⟩ := complete_ok f.fv σ σ' hσ hc
    obtain ⟨a, b, d⟩ := getValue_sound_aux σ' h1 f τ hwf hqf hfr hty c h
    exact ⟨σ', rfl, h1, h2, a, b, d⟩

/-- `get_value` with completion is `get_value` without completion on the completed assignment -/
theorem completion_defaults (σ σ' : Asg) (f : Term) (h : complete σ f.fv = some σ') :
    getValue true σ f = getValue false σ' f := by
  simp [getValue, h]

/-- **fold completeness**: a well-formed formula of the fragment without symbols, function
applications and quantifiers that evaluates no division by zero simplifies to a constant — every
rule, applied to constant arguments, returns a constant (`Div(3, 0)` is the only node that stays).
(partial: fragment `inFrag`) -/
theorem fold_complete_partial (t : Term) (τ : Ty) (hwf : t.wf = true) (hfr : inFrag t = true)
    (hty : t.typeOf = some τ) (hg : ground t = true) (I : Interp) (hI : I.WF) (hd : div0 I t = false) :
    (simp t).op.isConstant = true :=
  fold_complete t τ hwf hfr hty hg I hI hd

/-- rule level: every entry of the table (except symbols, applications and array values — an array value
with constant arguments stays an array value, not a scalar constant) maps constant arguments to a constant -/
theorem rule_folds (op : Op) (e : Simp.Entry) (h : ruleOf op = some e) (h1 : op ≠ .symbol) (h2 : op ≠ .function)
    (h3 : op ≠ .arrayValue) : Simp.FoldOK op e := ruleOf_fold' op e h h1 h2 h3

/-! ## exactness -/

/-- **a ground term simplifies to the constant it denotes**: for a well-formed term of the fragment
without symbols, applications, quantifiers and array values (`ground`; so its sort is scalar) that
evaluates no division by zero, `simp t` is a constant node, namely the constant node of the value of
`t` (by induction with `rule_folds` + soundness of `simp`). (partial: fragment `inFrag`; array
values are not scalar constants, see header) -/
theorem ground_simp_const_partial (t : Term) (τ : Ty) (hwf : t.wf = true) (hfr : inFrag t = true)
    (hty : t.typeOf = some τ) (hg : ground t = true) (I : Interp) (hI : I.WF) (hd : div0 I t = false) :
    (simp t).op.isConstant = true ∧ simp t = constOf (eval I t) := by
  have hc := fold_complete t τ hwf hfr hty hg I hI hd
  obtain ⟨⟨_, sw⟩, ss, _⟩ := simp_spec t hwf hfr τ hty
  refine ⟨hc, ?_⟩
  rw [← (ss I hI hd).1]
  exact const_constOf _ sw hc I

/-- **`get_value` is exact**: for a quantifier-free formula without UF applications (and without
array values: `evaluable`), a type-correct assignment `σ` of scalar constants that is total on the
free symbols of `f`, and no division by zero evaluated under the interpretation `interpOf σ` the
assignment stands for, `get_value` (with or without completion) returns exactly the constant node of
the value of `f`. (partial: fragment `inFrag` — no `pow`, no equality of arrays indexed by
bit-vectors wider than 8 bits, no array-indexed arrays — and no array values / array-valued
assignments) -/
theorem getValue_exact_partial (completion : Bool) (σ : Asg) (hσ : AsgOK σ) (f : Term) (τ : Ty)
    (hwf : f.wf = true) (hev : evaluable f = true) (hfr : inFrag f = true) (hty : f.typeOf = some τ)
    (htot : ∀ s ∈ f.fv, (σ.get s).isSome = true) (hd : div0 (interpOf σ) f = false) :
    getValue completion σ f = some (constOf (eval (interpOf σ) f)) := by
  obtain ⟨e, _, hc⟩ := exact_core σ hσ f τ hwf hev hfr hty htot hd
  have hcomp : (if completion then complete σ f.fv else some σ) = some σ := by
    cases completion
    · rfl
    · simp only [if_true]; exact complete_of_total f.fv σ htot
  rw [e] at hc
  simp only [getValue, hcomp, e, hc, if_true]

/-- **`satisfies`**: under the same hypotheses, for a Boolean formula the model reports that it
satisfies `f` iff the value of `f` is true (and it never raises). (partial: as above) -/
theorem satisfies_iff_partial (σ : Asg) (hσ : AsgOK σ) (f : Term) (hwf : f.wf = true) (hev : evaluable f = true)
    (hfr : inFrag f = true) (hty : f.typeOf = some .bool) (htot : ∀ s ∈ f.fv, (σ.get s).isSome = true)
    (hd : div0 (interpOf σ) f = false) :
    ∃ b, satisfies σ f = some b ∧ (b = true ↔ eval (interpOf σ) f = .b true) := by
  obtain ⟨e, _, _⟩ := exact_core σ hσ f .bool hwf hev hfr hty htot hd
  obtain ⟨v, hv⟩ := Val.hasSort_bool (eval_hasSort f hwf _ hty _ (interpOf_wf σ hσ))
  refine ⟨v, ?_, ?_⟩
  · simp only [satisfies, complete_of_total f.fv σ htot, e, hv, constOf]
    cases v <;> rfl
  · rw [hv]; cases v <;> simp

/-- **completion**: symbols of `f` absent from the assignment behave as the documented defaults.
`interpOf σ` gives every unassigned symbol the default value of its sort (false, 0, 0.0, the zero
bit-vector); if every unassigned free symbol of `f` has such a sort, `get_value` with completion
returns exactly the constant node of the value of `f` under it. (partial: as above) -/
theorem completion_exact_partial (σ : Asg) (hσ : AsgOK σ) (f : Term) (τ : Ty)
    (hwf : f.wf = true) (hev : evaluable f = true) (hfr : inFrag f = true) (hty : f.typeOf = some τ)
    (hmiss : ∀ s ∈ f.fv, σ.get s = none → s.params = [] ∧ (defaultOf s.ret).isSome = true)
    (hd : div0 (interpOf σ) f = false) :
    getValue true σ f = some (constOf (eval (interpOf σ) f)) ∧
      ∀ s, σ.get s = none → (interpOf σ).sym s = s.ret.defaultVal := by
  obtain ⟨σ', h1, h2, h3, h4, h5⟩ := complete_spec f.fv σ hmiss
  obtain ⟨hσ', _⟩ := complete_ok f.fv σ σ' hσ h1
  have hI : interpOf σ' = interpOf σ := interpOf_complete σ σ' f.fv h2 h3 h5
  obtain ⟨e, _, hc⟩ := exact_core σ' hσ' f τ hwf hev hfr hty h4 (by rw [hI]; exact hd)
  refine ⟨?_, fun s hs => by simp only [interpOf, hs]⟩
  rw [e, hI] at hc
  simp only [getValue, if_true, h1, e, hI, hc]

/-- **`satisfies` under a partial assignment**: symbols of `f` absent from the assignment are completed
with the documented defaults (`satisfies` asks `get_value` with completion for every free symbol); if
every unassigned free symbol has a sort with a default, the model reports that it satisfies `f` iff the
value of `f` under `interpOf σ` — which gives these defaults to the unassigned symbols — is true, and it
does not raise. (partial: as above) -/
theorem satisfies_completion_partial (σ : Asg) (hσ : AsgOK σ) (f : Term) (hwf : f.wf = true)
    (hev : evaluable f = true) (hfr : inFrag f = true) (hty : f.typeOf = some .bool)
    (hmiss : ∀ s ∈ f.fv, σ.get s = none → s.params = [] ∧ (defaultOf s.ret).isSome = true)
    (hd : div0 (interpOf σ) f = false) :
    ∃ b, satisfies σ f = some b ∧ (b = true ↔ eval (interpOf σ) f = .b true) := by
  obtain ⟨σ', h1, e, _⟩ := completion_exact σ hσ f .bool hwf hev hfr hty hmiss hd
  obtain ⟨v, hv⟩ := Val.hasSort_bool (eval_hasSort f hwf _ hty _ (interpOf_wf σ hσ))
  refine ⟨v, ?_, ?_⟩
  · simp only [satisfies, h1, e, hv, constOf]
    cases v <;> rfl
  · rw [hv]; cases v <;> simp

/-! ## the same theorems for the code's own substitution step

`getValue'` / `satisfies'` (Impl/Model.lean) substitute with `Subst.substMG`, the model of
`MGSubstituter` proved against its specification in C05: every node that is not replaced is **rebuilt**
through the `FormulaManager` constructors (`Div(x, c)` → `Times(x, 1/c)`, `Not(Not x)` → `x`, `ToReal(3)` →
`3.0`, bit-vector payloads recomputed, `Array(...)` re-normalised). This is what `EagerModel.get_value`
runs (`self.environment.substituter.substitute`), and what the correspondence check compares end to end.
Additional hypotheses: `Build.normal f` (+ `Subst.ConstKeys f` where array values may occur) — the normal
form every `FormulaManager`-built formula has and on which rebuilding is defined — and the assignment is
well-formed binding by binding (`AsgWF`; a `dict` has one binding per key). -/

/-- `get_value(f, model_completion=False)` with the code's substitution step is sound for partial
assignments (cf. `noCompletion_sound_partial`). (partial: fragment `inFrag`) -/
theorem noCompletion'_sound_partial (σ : Asg) (hσ : AsgWF σ) (f c : Term) (τ : Ty) (hwf : f.wf = true)
    (hqf : qf f = true) (hfr : inFrag f = true) (hn : Build.normal f = true) (hck : Subst.ConstKeys f = true)
    (hty : f.typeOf = some τ) (h : getValue' false σ f = some c) :
    Build.isConstant c = true ∧ c.typeOf = some τ ∧
      ∀ I : Interp, I.WF → Extends I σ → div0 I f = false → eval I f = eval I c :=
  getValue'_sound_aux σ hσ f τ hwf hqf hfr hn hck hty c (by simpa [getValue'] using h)

/-- `get_value(f)` (with completion) with the code's substitution step is sound (cf.
`getValue_sound_partial`). (partial: fragment `inFrag`) -/
theorem getValue'_sound_partial (σ : Asg) (hσ : AsgWF σ) (f c : Term) (τ : Ty) (hwf : f.wf = true)
    (hqf : qf f = true) (hfr : inFrag f = true) (hn : Build.normal f = true) (hck : Subst.ConstKeys f = true)
    (hty : f.typeOf = some τ) (h : getValue' true σ f = some c) :
    ∃ σ' : Asg, complete σ f.fv = some σ' ∧ AsgWF σ' ∧ (∀ s v, σ.get s = some v → σ'.get s = some v) ∧
      Build.isConstant c = true ∧ c.typeOf = some τ ∧
      ∀ I : Interp, I.WF → Extends I σ' → div0 I f = false → eval I f = eval I c := by
  simp only [getValue', if_true] at h
  cases hc : complete σ f.fv with
  | none => rw [hc] at h; cases h
  | some σ' =>
    rw [hc] at h
    have h1 := complete_wf f.fv σ σ' hσ hc
    obtain ⟨_, h2⟩ := complete_ok f.fv σ σ' hσ.ok hc
    obtain ⟨a, b, d⟩ := getValue'_sound_aux σ' h1 f τ hwf hqf hfr hn hck hty c h
    exact ⟨σ', rfl, h1, h2, a, b, d⟩

/-- **`get_value` is exact, with the code's substitution step**: same statement as
`getValue_exact_partial` for `getValue'`. (partial: as `getValue_exact_partial`) -/
theorem getValue'_exact_partial (completion : Bool) (σ : Asg) (hσ : AsgWF σ) (f : Term) (τ : Ty)
    (hwf : f.wf = true) (hev : evaluable f = true) (hfr : inFrag f = true) (hn : Build.normal f = true)
    (hty : f.typeOf = some τ) (htot : ∀ s ∈ f.fv, (σ.get s).isSome = true) (hd : div0 (interpOf σ) f = false) :
    getValue' completion σ f = some (constOf (eval (interpOf σ) f)) :=
  getValue'_exact completion σ hσ f τ hwf hev hfr hn hty htot hd

/-- the two models of `get_value` agree under the hypotheses of exactness: rebuilding the nodes during
the substitution does not change the constant returned -/
theorem getValue'_eq_getValue_partial (completion : Bool) (σ : Asg) (hσ : AsgWF σ) (f : Term) (τ : Ty)
    (hwf : f.wf = true) (hev : evaluable f = true) (hfr : inFrag f = true) (hn : Build.normal f = true)
    (hty : f.typeOf = some τ) (htot : ∀ s ∈ f.fv, (σ.get s).isSome = true) (hd : div0 (interpOf σ) f = false) :
    getValue' completion σ f = getValue completion σ f := by
  rw [getValue'_exact completion σ hσ f τ hwf hev hfr hn hty htot hd,
    getValue_exact_partial completion σ hσ.ok f τ hwf hev hfr hty htot hd]

/-- **`satisfies`, with the code's substitution step** (total assignment). (partial: as above) -/
theorem satisfies'_iff_partial (σ : Asg) (hσ : AsgWF σ) (f : Term) (hwf : f.wf = true) (hev : evaluable f = true)
    (hfr : inFrag f = true) (hn : Build.normal f = true) (hty : f.typeOf = some .bool)
    (htot : ∀ s ∈ f.fv, (σ.get s).isSome = true) (hd : div0 (interpOf σ) f = false) :
    ∃ b, satisfies' σ f = some b ∧ (b = true ↔ eval (interpOf σ) f = .b true) := by
  obtain ⟨e, _, _⟩ := exact_core' σ hσ f .bool hwf hev hfr hn hty htot hd
  obtain ⟨v, hv⟩ := Val.hasSort_bool (eval_hasSort f hwf _ hty _ (interpOf_wf σ hσ.ok))
  refine ⟨v, ?_, ?_⟩
  · simp only [satisfies', complete_of_total f.fv σ htot, e, hv, constOf]
    cases v <;> rfl
  · rw [hv]; cases v <;> simp

/-- **completion, with the code's substitution step**. (partial: as above) -/
theorem completion'_exact_partial (σ : Asg) (hσ : AsgWF σ) (f : Term) (τ : Ty)
    (hwf : f.wf = true) (hev : evaluable f = true) (hfr : inFrag f = true) (hn : Build.normal f = true)
    (hty : f.typeOf = some τ)
    (hmiss : ∀ s ∈ f.fv, σ.get s = none → s.params = [] ∧ (defaultOf s.ret).isSome = true)
    (hd : div0 (interpOf σ) f = false) :
    getValue' true σ f = some (constOf (eval (interpOf σ) f)) ∧
      ∀ s, σ.get s = none → (interpOf σ).sym s = s.ret.defaultVal := by
  obtain ⟨σ', h1, e, hc⟩ := completion'_exact σ hσ f τ hwf hev hfr hn hty hmiss hd
  refine ⟨?_, fun s hs => by simp only [interpOf, hs]⟩
  rw [e] at hc
  simp only [getValue', if_true, h1, e, hc]

/-- **`satisfies'` under a partial assignment** (completion with the documented defaults). (partial: as above) -/
theorem satisfies'_completion_partial (σ : Asg) (hσ : AsgWF σ) (f : Term) (hwf : f.wf = true)
    (hev : evaluable f = true) (hfr : inFrag f = true) (hn : Build.normal f = true) (hty : f.typeOf = some .bool)
    (hmiss : ∀ s ∈ f.fv, σ.get s = none → s.params = [] ∧ (defaultOf s.ret).isSome = true)
    (hd : div0 (interpOf σ) f = false) :
    ∃ b, satisfies' σ f = some b ∧ (b = true ↔ eval (interpOf σ) f = .b true) := by
  obtain ⟨σ', h1, e, _⟩ := completion'_exact σ hσ f .bool hwf hev hfr hn hty hmiss hd
  obtain ⟨v, hv⟩ := Val.hasSort_bool (eval_hasSort f hwf _ hty _ (interpOf_wf σ hσ.ok))
  refine ⟨v, ?_, ?_⟩
  · simp only [satisfies', h1, e, hv, constOf]
    cases v <;> rfl
  · rw [hv]; cases v <;> simp

/-- the documented defaults -/
theorem defaults_table (w : Nat) :
    defaultOf .bool = some (Term.bool false) ∧ defaultOf .int = some (Term.int 0) ∧
    defaultOf .real = some (Term.real 0) ∧ defaultOf (.bv w) = some (Term.bvc 0 w) ∧
    Ty.bool.defaultVal = .b false ∧ Ty.int.defaultVal = .i 0 ∧ Ty.real.defaultVal = .r 0 ∧
    (Ty.bv w).defaultVal = .bv w 0 := ⟨rfl, rfl, rfl, rfl, rfl, rfl, rfl, rfl⟩

/-! ## without the per-formula proviso

`interpOf σ` maps `x / 0` to 0, so the soundness of `simp` without proviso
(`C01.simp_sound_total_partial`) applies. Exactness itself cannot drop the proviso: an *unguarded*
division by zero is not folded (`3 / x` at `x ↦ 0`: `get_value` raises `PysmtTypeError`, reproduced
on the code), while a *guarded* one disappears (`ite(r = 0, 0, 1/r)` at `r ↦ 0` evaluates to 0).
What holds without any condition on divisions: whatever constant is returned is the exact one, and
a raise implies that some `div` node of `f` has a zero divisor. -/

/-- **no proviso**: for a quantifier-free, UF-free, array-value-free `f` of scalar sort and a total
type-correct assignment of scalar constants, `get_value` either returns exactly the constant node
of the value of `f` under `interpOf σ` (divisions by zero, guarded or not, allowed), or raises —
and it raises only if some `div` node of `f` has a divisor that evaluates to zero.
(partial: fragment `inFrag`, see header) -/
theorem getValue_exact_nodiv_partial (completion : Bool) (σ : Asg) (hσ : AsgOK σ) (f : Term) (τ : Ty)
    (hwf : f.wf = true) (hev : evaluable f = true) (hfr : inFrag f = true) (hty : f.typeOf = some τ)
    (hna : ∀ i e, τ ≠ .array i e) (htot : ∀ s ∈ f.fv, (σ.get s).isSome = true) :
    (∀ c, getValue completion σ f = some c → c = constOf (eval (interpOf σ) f)) ∧
    (getValue completion σ f = none → div0 (interpOf σ) f = true) := by
  have hcomp : (if completion then complete σ f.fv else some σ) = some σ := by
    cases completion
    · rfl
    · simp only [if_true]; exact complete_of_total f.fv σ htot
  constructor
  · intro c h
    simp only [getValue, hcomp] at h
    split at h
    · next hc =>
      cases h
      exact const_of_simp_subst σ hσ f τ hwf hev hfr hty hc hna
    · cases h
  · intro h
    cases hd : div0 (interpOf σ) f with
    | true => rfl
    | false =>
      rw [getValue_exact_partial completion σ hσ f τ hwf hev hfr hty htot hd] at h
      cases h

/-- **no proviso, `satisfies`**: if the model reports that it satisfies the Boolean formula `f`, the
value of `f` under `interpOf σ` is true — whatever divisions by zero `f` contains. (The converse needs
the proviso, `satisfies_iff_partial`: `0 ≤ 3 / x` at `x ↦ 0` is true under `interpOf σ` but is not
folded, and `satisfies` answers False.) (partial: fragment `inFrag`) -/
theorem satisfies_sound_nodiv_partial (σ : Asg) (hσ : AsgOK σ) (f : Term) (hwf : f.wf = true)
    (hev : evaluable f = true) (hfr : inFrag f = true) (hty : f.typeOf = some .bool)
    (htot : ∀ s ∈ f.fv, (σ.get s).isSome = true) (h : satisfies σ f = some true) :
    eval (interpOf σ) f = .b true := by
  simp only [satisfies, complete_of_total f.fv σ htot, Option.some.injEq] at h
  have e := (simp_subst_eval σ hσ f .bool hwf hev hfr hty).1
  rw [← e, isTrue_iff.mp h]
  exact eval_boolc _ true

/-- **no proviso, completion**: the same with missing symbols completed by the documented defaults
(`interpOf σ` already gives them the default values). (partial: fragment `inFrag`) -/
theorem completion_exact_nodiv_partial (σ : Asg) (hσ : AsgOK σ) (f : Term) (τ : Ty)
    (hwf : f.wf = true) (hev : evaluable f = true) (hfr : inFrag f = true) (hty : f.typeOf = some τ)
    (hna : ∀ i e, τ ≠ .array i e)
    (hmiss : ∀ s ∈ f.fv, σ.get s = none → s.params = [] ∧ (defaultOf s.ret).isSome = true) :
    (∀ c, getValue true σ f = some c → c = constOf (eval (interpOf σ) f)) ∧
    (getValue true σ f = none → div0 (interpOf σ) f = true) := by
  obtain ⟨σ', h1, h2, h3, h4, h5⟩ := complete_spec f.fv σ hmiss
  obtain ⟨hσ', _⟩ := complete_ok f.fv σ σ' hσ h1
  have hI : interpOf σ' = interpOf σ := interpOf_complete σ σ' f.fv h2 h3 h5
  have key := getValue_exact_nodiv_partial false σ' hσ' f τ hwf hev hfr hty hna h4
  have hgv : getValue true σ f = getValue false σ' f := completion_defaults σ σ' f h1
  rw [hgv, ← hI]
  exact key

/-- **no proviso, the code's substitution step**: the counterpart of `getValue_exact_nodiv_partial` for
`getValue'`. (partial: fragment `inFrag`) -/
theorem getValue'_exact_nodiv_partial (completion : Bool) (σ : Asg) (hσ : AsgWF σ) (f : Term) (τ : Ty)
    (hwf : f.wf = true) (hev : evaluable f = true) (hfr : inFrag f = true) (hn : Build.normal f = true)
    (hty : f.typeOf = some τ) (hτ : τ.scalar = true) (htot : ∀ s ∈ f.fv, (σ.get s).isSome = true) :
    (∀ c, getValue' completion σ f = some c → c = constOf (eval (interpOf σ) f)) ∧
    (getValue' completion σ f = none → div0 (interpOf σ) f = true) := by
  have hcomp : (if completion then complete σ f.fv else some σ) = some σ := by
    cases completion
    · rfl
    · simp only [if_true]; exact complete_of_total f.fv σ htot
  constructor
  · intro c h
    simp only [getValue', hcomp] at h
    split at h
    · next hc =>
      cases h
      exact const_of_simp_substAsg σ hσ f τ hwf (evaluable_qf f hev) hfr hn (constKeys_evaluable f hev) hty hc hτ
    · cases h
  · intro h
    cases hd : div0 (interpOf σ) f with
    | true => rfl
    | false =>
      rw [getValue'_exact completion σ hσ f τ hwf hev hfr hn hty htot hd] at h
      cases h

/-- **no proviso, `satisfies'`**: if the model reports that it satisfies `f`, the value of `f` under
`interpOf σ` is true, whatever divisions by zero `f` contains. (partial: fragment `inFrag`) -/
theorem satisfies'_sound_nodiv_partial (σ : Asg) (hσ : AsgWF σ) (f : Term) (hwf : f.wf = true)
    (hev : evaluable f = true) (hfr : inFrag f = true) (hn : Build.normal f = true) (hty : f.typeOf = some .bool)
    (htot : ∀ s ∈ f.fv, (σ.get s).isSome = true) (h : satisfies' σ f = some true) :
    eval (interpOf σ) f = .b true := by
  simp only [satisfies', complete_of_total f.fv σ htot, Option.some.injEq] at h
  have e := (simp_substAsg_eval σ hσ f .bool hwf (evaluable_qf f hev) hfr hn (constKeys_evaluable f hev) hty).1
  rw [← e, isTrue_iff.mp h]
  exact eval_boolc _ true

/-- **no proviso, partial assignments, no completion** (`get_value(f, model_completion=False)` with the
code's substitution step): a returned constant is the value of `f` under every well-formed interpretation
that extends the assignment and whose division-by-zero functions map 0 to 0 — no condition on the
divisions of `f`. Array values may occur in `f` (`qf`, not `evaluable`). (partial: fragment `inFrag`) -/
theorem noCompletion'_sound_nodiv_partial (σ : Asg) (hσ : AsgWF σ) (f c : Term) (τ : Ty) (hwf : f.wf = true)
    (hqf : qf f = true) (hfr : inFrag f = true) (hn : Build.normal f = true) (hck : Subst.ConstKeys f = true)
    (hty : f.typeOf = some τ) (h : getValue' false σ f = some c) :
    ∀ I : Interp, I.WF → I.div0r 0 = 0 → I.div0i 0 = 0 → Extends I σ → eval I f = eval I c :=
  fun I hI h0r h0i hext =>
    getValue'_sound_total_aux σ hσ f τ hwf hqf hfr hn hck hty c (by simpa [getValue'] using h) I hI ⟨h0r, h0i⟩ hext

/-! ## the array family: array-valued assignments, array values, `select`, `store`, array results

`GConst c` (Proofs/C02Array.lean): `c` is a constant in the sense of `FNode.is_constant()` — a scalar
constant node or an array value all of whose children are such constants — with the invariant of
`FormulaManager.Array` (keys pairwise distinct scalar constant nodes). `AsgWFA σ`: every binding maps a symbol
to such a constant of its sort (array-sorted symbols get constant array values). `evaluableA f`:
quantifier-free, no UF application, and every equality between array-sorted terms is one `walk_equals`
compares (index sort Bool / BV / Int / Real / String, element sort not an array: `eqOK`; for the other array
sorts `get_value` raises on the equality of two distinct constant arrays). The result `c` of an array sort is
determined up to the order of its (key, value) pairs (`FormulaManager.Array` orders them by `id()`); the
theorems therefore characterise it by its value instead of `constOf`. -/

/-- **soundness with arrays** (`get_value(f, model_completion=False)`, the code's substitution step): for an
assignment of constants of every sort — possibly partial — a returned `c` is a constant of the type of `f`
and the value of `f` under every well-formed interpretation that extends the assignment, provided no division
by zero is evaluated or the division-by-zero functions map 0 to 0. `f` may contain array values, `select`,
`store` and have an array sort. (partial: fragment `inFrag`) -/
theorem noCompletion'_sound_array_partial (σ : Asg) (hσ : AsgWFA σ) (f c : Term) (τ : Ty) (hwf : f.wf = true)
    (hqf : qf f = true) (hfr : inFrag f = true) (hn : Build.normal f = true) (hck : Subst.ConstKeys f = true)
    (hty : f.typeOf = some τ) (h : getValue' false σ f = some c) :
    Build.isConstant c = true ∧ c.typeOf = some τ ∧
      (∀ I : Interp, I.WF → Extends I σ → div0 I f = false → eval I f = eval I c) ∧
      (∀ I : Interp, I.WF → I.div0r 0 = 0 ∧ I.div0i 0 = 0 → Extends I σ → eval I f = eval I c) :=
  getValue'_soundA σ hσ f τ hwf hqf hfr hn hck hty c (by simpa [getValue'] using h)

/-- **`get_value` is exact, arrays included**: for an `evaluableA` formula of any sort (Array included) in the
constructors' normal form, an assignment of constants of every sort that is total on the free symbols of `f`,
and no division by zero evaluated, `get_value` (either completion mode) answers, the answer is a constant
(`GConst`) of the type of `f`, and it has the value of `f`. For a scalar sort this is `getValue'_exact_partial`
(the answer is `constOf` of the value). (partial: fragment `inFrag` — array equality over bit-vector indices
wider than 8 bits and arrays indexed by arrays are outside) -/
theorem getValue'_exact_array_partial (completion : Bool) (σ : Asg) (hσ : AsgWFA σ) (f : Term) (τ : Ty)
    (hwf : f.wf = true) (hev : evaluableA f = true) (hfr : inFrag f = true) (hn : Build.normal f = true)
    (hck : Subst.ConstKeys f = true) (hty : f.typeOf = some τ)
    (htot : ∀ s ∈ f.fv, (σ.get s).isSome = true) (hd : div0 (interpOf σ) f = false) :
    ∃ c, getValue' completion σ f = some c ∧ GConst c = true ∧ c.wf = true ∧ c.typeOf = some τ ∧
      eval (interpOf σ) c = eval (interpOf σ) f :=
  getValue'_exactA completion σ hσ f τ hwf hev hfr hn hck hty htot hd

/-- … and a constant of a scalar sort is the constant node of its value -/
theorem getValue'_exact_array_scalar_partial (completion : Bool) (σ : Asg) (hσ : AsgWFA σ) (f : Term) (τ : Ty)
    (hwf : f.wf = true) (hev : evaluableA f = true) (hfr : inFrag f = true) (hn : Build.normal f = true)
    (hck : Subst.ConstKeys f = true) (hty : f.typeOf = some τ) (hτ : τ.scalar = true)
    (htot : ∀ s ∈ f.fv, (σ.get s).isSome = true) (hd : div0 (interpOf σ) f = false) :
    getValue' completion σ f = some (constOf (eval (interpOf σ) f)) := by
  obtain ⟨c, h1, h2, h3, h4, h5⟩ := getValue'_exactA completion σ hσ f τ hwf hev hfr hn hck hty htot hd
  rw [h1, ← h5, ← const_constOf c h3 (gconst_scalar h2 h4 hτ) _]

/-- **`satisfies` with arrays**: a Boolean formula over arrays (`select`, `store`, array values, comparable
array equalities) and an assignment total on its free symbols. (partial: as above) -/
theorem satisfies'_array_partial (σ : Asg) (hσ : AsgWFA σ) (f : Term) (hwf : f.wf = true)
    (hev : evaluableA f = true) (hfr : inFrag f = true) (hn : Build.normal f = true)
    (hck : Subst.ConstKeys f = true) (hty : f.typeOf = some .bool)
    (htot : ∀ s ∈ f.fv, (σ.get s).isSome = true) (hd : div0 (interpOf σ) f = false) :
    ∃ b, satisfies' σ f = some b ∧ (b = true ↔ eval (interpOf σ) f = .b true) := by
  obtain ⟨hc, sw, sty, se⟩ := exact_coreA σ hσ f .bool hwf hev hfr hn hck hty htot hd
  obtain ⟨v, hv⟩ := const_bool sw (gconst_scalar hc sty rfl) sty
  refine ⟨v, ?_, ?_⟩
  · simp only [satisfies', complete_of_total f.fv σ htot, hv]
    cases v <;> rfl
  · rw [← se, hv, eval_boolc]; cases v <;> simp

/-- **completion with arrays**: unassigned free symbols of a sort with a documented default (Bool, Int, Real,
BV; an unassigned array-sorted symbol makes `get_value` raise "Unhandled type") behave as the defaults.
(partial: as above) -/
theorem completion'_exact_array_partial (σ : Asg) (hσ : AsgWFA σ) (f : Term) (τ : Ty) (hwf : f.wf = true)
    (hev : evaluableA f = true) (hfr : inFrag f = true) (hn : Build.normal f = true)
    (hck : Subst.ConstKeys f = true) (hty : f.typeOf = some τ)
    (hmiss : ∀ s ∈ f.fv, σ.get s = none → s.params = [] ∧ (defaultOf s.ret).isSome = true)
    (hd : div0 (interpOf σ) f = false) :
    ∃ c, getValue' true σ f = some c ∧ GConst c = true ∧ c.wf = true ∧ c.typeOf = some τ ∧
      eval (interpOf σ) c = eval (interpOf σ) f := by
  obtain ⟨σ', c, h1, h2, h3, h4, h5, h6⟩ := completion'_exactA σ hσ f τ hwf hev hfr hn hck hty hmiss hd
  refine ⟨c, ?_, h3, h4, h5, h6⟩
  simp only [getValue', if_true, h1, h2, gconst_isConstant _ h3]

/-- **fold completeness with arrays**: a ground term (`groundA`: array values with pairwise distinct constant
keys allowed) that evaluates no division by zero simplifies to a constant (`GConst`). Rule level:
`Model.rule_foldA` — every rule maps `GConst` arguments to a `GConst`, `select` / `store` / `arrayValue`
included. (partial: fragment `inFrag`) -/
theorem fold_complete_array_partial (t : Term) (τ : Ty) (hwf : t.wf = true) (hfr : inFrag t = true)
    (hty : t.typeOf = some τ) (hg : groundA t = true) (I : Interp) (hI : I.WF) (hd : div0 I t = false) :
    GConst (simp t) = true :=
  foldA t τ hwf hfr hty hg I hI hd

/-! ## non-vacuity -/

/-- the assignment `x ↦ 3` is admissible, and an interpretation extending it exists -/
example : AsgOK [(Sym.var "x" .int, Term.int 3)] ∧
    ∃ I : Interp, Extends I [(Sym.var "x" .int, Term.int 3)] := by
  constructor
  · intro s c h
    simp only [Asg.get] at h
    split at h
    · next hs => cases h; subst hs; exact ⟨wf_int 3, typeOf_int 3, rfl⟩
    · cases h
  · refine ⟨{ sym := fun _ => .i 3, fn := fun _ _ => .i 0, dom := fun _ => [], div0r := id, div0i := id }, ?_⟩
    intro s c h
    simp only [Asg.get] at h
    split at h
    · cases h; exact eval_intc _ 3
    · cases h

/-- the hypotheses of the exactness theorems are satisfiable: `x ≤ 3` under `x ↦ 3` -/
example : ∃ (σ : Asg) (f : Term), AsgOK σ ∧ f.wf = true ∧ evaluable f = true ∧ inFrag f = true ∧
    f.typeOf = some .bool ∧ (∀ s ∈ f.fv, (σ.get s).isSome = true) ∧ div0 (interpOf σ) f = false := by
  let xs : Sym := Sym.var "x" .int
  let x : Term := Term.var "x" .int
  let f : Term := .node .le [x, Term.int 3] .none
  let σ : Asg := [(xs, Term.int 3)]
  obtain ⟨wx, tx, fx⟩ : x.wf = true ∧ x.typeOf = some .int ∧ inFrag x = true := var_ok "x" .int
  have hty : f.typeOf = some .bool := Simp.BoolRules.typeOf_rel_mk (Or.inl rfl) _ (Or.inl ⟨tx, typeOf_int 3⟩)
  have hmem : ∀ a ∈ [x, Term.int 3], a = x ∨ a = Term.int 3 := by intro a ha; simpa using ha
  refine ⟨σ, f, ?_, ?_, ?_, ?_, hty, ?_, ?_⟩
  · intro s c h
    simp only [σ, Asg.get] at h
    split at h
    · next hs => cases h; subst hs; exact ⟨wf_int 3, typeOf_int 3, rfl⟩
    · cases h
  · exact wf_mk' (by intro a ha; rcases hmem a ha with rfl | rfl; exact wx; exact wf_int 3) rfl hty
  · show evaluable (.node .le [.node .symbol [] (.sym xs), .node .intConst [] (.i 3)] .none) = true
    rw [evaluable]
    simp only [List.map_cons, List.map_nil, List.all_cons, List.all_nil]
    rw [evaluable, evaluable]
    rfl
  · refine frag_node (e := Simp.BoolRules.walkLe) rfl rfl ?_
    intro a ha
    rcases hmem a ha with rfl | rfl
    · exact fx
    · exact frag_node (e := Simp.keep .intConst) rfl rfl (by simp)
  · intro s hs
    obtain ⟨a, ha, hs⟩ := (mem_fv_plain (by simp) (by simp) rfl).mp hs
    rcases hmem a ha with rfl | rfl
    · have : s = xs := by
        have e : x.fv = [xs] := by show (Term.node .symbol [] (.sym xs)).fv = _; rw [fv_symbol]
        rw [e] at hs; simpa using hs
      subst this
      simp [σ, Asg.get]
    · simp at hs
  · rw [div0_plain _ .le _ _ rfl (by simp)]
    simp only [List.any_cons, List.any_nil, Bool.or_false, div0_int]
    show div0 _ (Term.node .symbol [] (.sym xs)) = false
    rw [div0_plain _ .symbol _ _ rfl (by simp)]
    rfl

/-- … and so are the additional hypotheses of the primed theorems: the assignment `x ↦ 3` is well-formed
binding by binding and `x ≤ 3` is in the constructors' normal form (and has constant array keys) -/
example : AsgWF [(Sym.var "x" .int, Term.int 3)] ∧
    Build.normal (.node .le [Term.var "x" .int, Term.int 3] .none) = true ∧
    Subst.ConstKeys (.node .le [Term.var "x" .int, Term.int 3] .none) = true := by
  refine ⟨?_, ?_, ?_⟩
  · intro kv hkv
    simp only [List.mem_singleton] at hkv
    subst hkv
    exact ⟨rfl, wf_int 3, typeOf_int 3, rfl⟩
  · simp [Build.normal, Build.normalNode, Build.isBvSameWidthOp, Term.var, Term.sym, Term.int]
  · simp [Subst.ConstKeys, Term.var, Term.sym, Term.int]

/-- the hypotheses of the array theorems are satisfiable: `Select(a, 1)` under `a ↦ Array(Int, 0, {1: 5})` -/
example : ∃ (σ : Asg) (f : Term), AsgWFA σ ∧ f.wf = true ∧ evaluableA f = true ∧ inFrag f = true ∧
    Build.normal f = true ∧ Subst.ConstKeys f = true ∧ f.typeOf = some .int ∧
    (∀ s ∈ f.fv, (σ.get s).isSome = true) ∧ div0 (interpOf σ) f = false := by
  let aty : Ty := .array .int .int
  let as : Sym := Sym.var "a" aty
  let a : Term := Term.var "a" aty
  let av : Term := .node .arrayValue [Term.int 0, Term.int 1, Term.int 5] (.ty .int)
  let f : Term := .node .arraySelect [a, Term.int 1] .none
  let σ : Asg := [(as, av)]
  obtain ⟨wa, ta, fa⟩ : a.wf = true ∧ a.typeOf = some aty ∧ inFrag a = true := var_ok "a" aty
  have fint : ∀ n, inFrag (Term.int n) = true := fun n => frag_node (e := Simp.keep .intConst) rfl rfl (by simp)
  have tav : av.typeOf = some aty := by
    show (Term.node .arrayValue [Term.int 0, Term.int 1, Term.int 5] (.ty .int)).typeOf = _
    rw [typeOf_node]; simp only [List.map_cons, List.map_nil, typeOf_int]; rfl
  have wav : av.wf = true :=
    wf_mk' (by intro x hx; simp at hx; rcases hx with rfl | rfl | rfl <;> exact wf_int _) rfl tav
  have fav : inFrag av = true :=
    frag_node (e := { rule := Simp.ArrayRules.walkArrayValue, guard := Simp.ArrayRules.valueGuard }) rfl rfl
      (by intro x hx; simp at hx; rcases hx with rfl | rfl | rfl <;> exact fint _)
  have gav : GConst av = true := by
    simp [av, GConst, Build.pairs, Simp.ArrayRules.noDup, Term.int, Op.isConstant, Term.op]
  have hty : f.typeOf = some .int := by
    show (Term.node .arraySelect [a, Term.int 1] .none).typeOf = _
    rw [typeOf_node]; simp only [List.map_cons, List.map_nil, typeOf_int, ta]; rfl
  have hmem : ∀ x ∈ [a, Term.int 1], x = a ∨ x = Term.int 1 := by intro x hx; simpa using hx
  refine ⟨σ, f, ?_, ?_, ?_, ?_, ?_, ?_, hty, ?_, ?_⟩
  · intro kv hkv
    simp only [σ, List.mem_singleton] at hkv
    subst hkv
    exact ⟨rfl, wav, tav, gav, fav⟩
  · exact wf_mk' (by intro x hx; rcases hmem x hx with rfl | rfl; exact wa; exact wf_int 1) rfl hty
  · simp [f, a, evaluableA, Term.var, Term.sym, Term.int, Op.isQuantifier]
  · refine frag_node (e := { rule := Simp.ArrayRules.walkArraySelect, guard := Simp.ArrayRules.arrayGuard }) rfl ?_ ?_
    · simp only [List.map_cons, List.map_nil, ta]; rfl
    · intro x hx; rcases hmem x hx with rfl | rfl; exact fa; exact fint _
  · simp [f, a, Build.normal, Build.normalNode, Build.isBvSameWidthOp, Term.var, Term.sym, Term.int]
  · simp [f, a, Subst.ConstKeys, Term.var, Term.sym, Term.int]
  · intro s hs
    obtain ⟨x, hx, hs⟩ := (mem_fv_plain (by simp) (by simp) rfl).mp hs
    rcases hmem x hx with rfl | rfl
    · have : s = as := by
        have e : a.fv = [as] := by show (Term.node .symbol [] (.sym as)).fv = _; rw [fv_symbol]
        rw [e] at hs; simpa using hs
      subst this
      simp [σ, Asg.get]
    · simp at hs
  · rw [div0_plain _ .arraySelect _ _ rfl (by simp)]
    simp only [List.any_cons, List.any_nil, Bool.or_false, div0_int]
    show div0 _ (Term.node .symbol [] (.sym as)) = false
    rw [div0_plain _ .symbol _ _ rfl (by simp)]
    rfl

end PySMT.C02
