import PySMT.Proofs.C02Model
import PySMT.Proofs.SimpFold
/-!
# C02 — Model evaluation returns the exact value: what C01 gives, and fold completeness

Model: `PySMT.Model.getValue` (Impl/Model.lean) = `EagerModel.get_value`
(pysmt/solvers/eager.py:43-79): complete the assignment with the documented defaults,
substitute the constants, simplify, return the result if it is a constant.

All theorems are `_partial` for the same reason as in C01: they are stated on the fragment
`inFrag` of the simplifier model (Boolean/core, arithmetic, bit-vector, string and array families,
with the guards listed in Props/C01.lean) and on quantifier-free formulas `qf` (the
property's domain: ground-evaluable formulas) with scalar constants assigned to symbols
(`AsgOK`; array-valued assignments are outside the fragment). `fold_complete_partial` (all
arguments constants ⇒ every rule returns a constant: the part of C02 that C01 does not give)
is proved for every rule of these families (`FoldOK`, Proofs/SimpFold.lean, Proofs/SimpBVFold.lean,
Proofs/SimpStr.lean) except `arrayValue`: a constant array value is not a scalar constant, so terms
containing array values are outside `ground` (for `arraySelect` / `arrayStore` the statement holds
vacuously: no scalar constant has an array sort).
-/
namespace PySMT.C02
open PySMT PySMT.Model PySMT.Simplifier

/-- evaluation of a constant node is its payload (sanity anchor of the semantics) -/
theorem eval_const_int (I : Interp) (n : Int) : eval I (Term.int n) = .i n := eval_intc I n

/-- **without completion**: if `get_value(f, model_completion=False)` returns `c`, then `c` is a
constant of the type of `f` and it is the value of `f` under *every* well-formed interpretation
that extends the assignment and evaluates no division by zero in `f` — in particular under every
completion of a partial assignment. (partial: fragment `inFrag`, see header) -/
theorem noCompletion_sound_partial (σ : Asg) (hσ : AsgOK σ) (f c : Term) (τ : Ty) (hwf : f.wf = true)
    (hqf : qf f = true) (hfr : inFrag f = true) (hty : f.typeOf = some τ)
    (h : getValue false σ f = some c) :
    Build.isConstant c = true ∧ c.typeOf = some τ ∧
      ∀ I : Interp, I.WF → Extends I σ → div0 I f = false → eval I f = eval I c :=
  getValue_sound_aux σ hσ f τ hwf hqf hfr hty c (by simpa [getValue] using h)

/-- **with completion**: the value returned is the value of `f` under every well-formed
interpretation extending the *completed* assignment `σ'`, which keeps the given values and gives
the default constant of its sort to every other free symbol. (partial: fragment `inFrag`) -/
theorem getValue_sound_partial (σ : Asg) (hσ : AsgOK σ) (f c : Term) (τ : Ty) (hwf : f.wf = true)
    (hqf : qf f = true) (hfr : inFrag f = true) (hty : f.typeOf = some τ)
    (h : getValue true σ f = some c) :
    ∃ σ' : Asg, complete σ f.fv = some σ' ∧ AsgOK σ' ∧ (∀ s v, σ.get s = some v → σ'.get s = some v) ∧
      Build.isConstant c = true ∧ c.typeOf = some τ ∧
      ∀ I : Interp, I.WF → Extends I σ' → div0 I f = false → eval I f = eval I c := by
  simp only [getValue, if_true] at h
  cases hc : complete σ f.fv with
  | none => rw [hc] at h; cases h
  | some σ' =>
    rw [hc] at h
    obtain ⟨h1, h2⟩ := complete_ok f.fv σ σ' hσ hc
    obtain ⟨a, b, d⟩ := getValue_sound_aux σ' h1 f τ hwf hqf hfr hty c h
    exact ⟨σ', rfl, h1, h2, a, b, d⟩

/-- `get_value` with completion is `get_value` without completion on the completed assignment -/
theorem completion_defaults (σ σ' : Asg) (f : Term) (h : complete σ f.fv = some σ') :
    getValue true σ f = getValue false σ' f := by
  simp [getValue, h]

/-- **fold completeness**: a well-formed formula of the fragment without symbols, function
applications and quantifiers that evaluates no division by zero simplifies to a constant — every
rule, applied to constant arguments, returns a constant (`Div(3, 0)` is the only node that stays).
(partial: fragment `inFrag`) -/
theorem fold_complete_partial (t : Term) (τ : Ty) (hwf : t.wf = true) (hfr : inFrag t = true)
    (hty : t.typeOf = some τ) (hg : ground t = true) (I : Interp) (hI : I.WF) (hd : div0 I t = false) :
    (simp t).op.isConstant = true :=
  fold_complete t τ hwf hfr hty hg I hI hd

/-- rule level: every entry of the table (except symbols, applications and array values — an array value
with constant arguments stays an array value, not a scalar constant) maps constant arguments to a constant -/
theorem rule_folds (op : Op) (e : Simp.Entry) (h : ruleOf op = some e) (h1 : op ≠ .symbol) (h2 : op ≠ .function)
    (h3 : op ≠ .arrayValue) : Simp.FoldOK op e := ruleOf_fold' op e h h1 h2 h3

/-! ## non-vacuity -/

/-- the assignment `x ↦ 3` is admissible, and an interpretation extending it exists -/
example : AsgOK [(Sym.var "x" .int, Term.int 3)] ∧
    ∃ I : Interp, Extends I [(Sym.var "x" .int, Term.int 3)] := by
  constructor
  · intro s c h
    simp only [Asg.get] at h
    split at h
    · next hs => cases h; subst hs; exact ⟨wf_int 3, typeOf_int 3, rfl⟩
    · cases h
  · refine ⟨{ sym := fun _ => .i 3, fn := fun _ _ => .i 0, dom := fun _ => [], div0r := id, div0i := id }, ?_⟩
    intro s c h
    simp only [Asg.get] at h
    split at h
    · cases h; exact eval_intc _ 3
    · cases h

end PySMT.C02
