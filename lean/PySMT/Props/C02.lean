import PySMT.Core.Eval
import PySMT.Core.TypeOf
/-! C02 property theorems (under construction: see DESIGN §5 C02). -/
namespace PySMT.C02

/-- evaluation of a constant node is its payload (sanity anchor of the semantics) -/
theorem eval_const_int (I : Interp) (n : Int) : eval I (Term.int n) = .i n := by
  simp [eval, Term.evalF, Term.int, evalNode, evalOp]

end PySMT.C02
