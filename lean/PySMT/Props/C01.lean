import PySMT.Core.Eval
import PySMT.Core.TypeOf
/-! C01 property theorems (stub, replaced when the model is assembled). -/
namespace PySMT.C01
theorem stub_partial : True := trivial
end PySMT.C01
