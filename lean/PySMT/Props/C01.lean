import PySMT.Proofs.SimpMain
import PySMT.Proofs.SimpPerm
import PySMT.Proofs.SimpOrder
/-!
# C01 — Simplification preserves type and meaning

Property (fixed text): *For every well-typed formula, the simplified formula has the same
type and, under every interpretation of the free symbols (and every non-empty
quantification domain), the same value as the original. It never mentions a symbol that is
not free in the original.* Interpretations under which an Int/Real division by zero is
evaluated are left unconstrained (`div0 I t`).

Model: `PySMT.Simplifier.simp` (Impl/Simplifier.lean), one Lean rule per `walk_*` method
(Impl/Simp/*.lean), tied to `/repo` on every run by the correspondence check of
`harness/props/c01.py`. Reference semantics: `PySMT.eval` (Core/Eval.lean).

Hypotheses of the theorems:
* `t.wf` — `t` is accepted by the type checker **and** every node has the arity / payload
  shape its `FormulaManager` constructor gives it (`Impl/WF.lean`). The type checker alone
  does not check arities (`Plus()` "has type" Real), and the reference semantics is type-sound
  only with them; every formula built by pySMT's constructors is `wf`.
* `inFrag t` — every operator of `t` has an entry in `Simplifier.ruleOf` and meets the entry's
  guard. **This is why the four main theorems are `_partial`**: at present the table holds
  the Boolean/core family (and, or, not, iff, implies, ite, equals, le, lt,
  forall, exists, function, toreal, symbols, constants) and the arithmetic family (plus,
  times, minus, div) and the bit-vector family (all 27 `walk_bv_*` rules, every width; `zext` /
  `sext` on the nodes whose width payload is operand width + step, as the constructors build
  them: `BVRules.extGuard`), the string family (all 11 `walk_str_*` / `walk_int_to_str` rules) and
  the array family (`walk_array_select`, `walk_array_store`, `walk_array_value` on arrays whose index
  sort is not itself an array sort: `ArrayRules.arrayGuard`, `valueGuard`). Missing: `Equals` between
  array-sorted terms whose index sort is a bit-vector sort wider than 8 bits (with non-array elements;
  `Simplifier.equalsGuard`: the comparison of two constant array values is proved over Int, Real, String,
  Bool and BV≤8 indices — beyond that the canonical array values of the reference semantics are not
  extensional when all `2^w` indices are assigned), arrays indexed by arrays, and `pow` / algebraic constants, which have no
  semantics (known finding F05). The array rules of the model test the invariant of `ARRAY_VALUE` nodes
  (keys are pairwise distinct constants, guaranteed by `FormulaManager.Array` but not part of `Term.wf`;
  see Impl/Simp/Array.lean). The statements themselves need no change when the table grows.
-/
namespace PySMT.C01
open PySMT PySMT.Simp PySMT.Simplifier

/-- type preservation (partial: fragment `inFrag`, see the header) -/
theorem simp_type_partial (t : Term) (τ : Ty) (hwf : t.wf = true) (hfr : inFrag t = true)
    (hty : t.typeOf = some τ) : (simp t).typeOf = some τ :=
  (simp_spec t hwf hfr τ hty).1.1

/-- the simplified formula is well-formed again (partial: fragment `inFrag`) -/
theorem simp_wf_partial (t : Term) (τ : Ty) (hwf : t.wf = true) (hfr : inFrag t = true)
    (hty : t.typeOf = some τ) : (simp t).wf = true :=
  (simp_spec t hwf hfr τ hty).1.2

/-- same value under every well-formed interpretation (every sort-respecting valuation of the
free symbols and functions, every non-empty quantification domain, every choice of the
division-by-zero functions) that evaluates no division by zero in `t`
(partial: fragment `inFrag`) -/
theorem simp_sound_partial (t : Term) (τ : Ty) (hwf : t.wf = true) (hfr : inFrag t = true)
    (hty : t.typeOf = some τ) (I : Interp) (hI : I.WF) (hd : div0 I t = false) :
    eval I (simp t) = eval I t :=
  ((simp_spec t hwf hfr τ hty).2.1 I hI hd).1

/-- simplification never introduces an evaluated division by zero (partial: fragment `inFrag`) -/
theorem simp_div0_partial (t : Term) (τ : Ty) (hwf : t.wf = true) (hfr : inFrag t = true)
    (hty : t.typeOf = some τ) (I : Interp) (hI : I.WF) (hd : div0 I t = false) :
    div0 I (simp t) = false :=
  ((simp_spec t hwf hfr τ hty).2.1 I hI hd).2

/-- the simplified formula mentions only symbols free in the original (partial: fragment `inFrag`) -/
theorem simp_fv_subset_partial (t : Term) (τ : Ty) (hwf : t.wf = true) (hfr : inFrag t = true)
    (hty : t.typeOf = some τ) : ∀ s ∈ (simp t).fv, s ∈ t.fv :=
  (simp_spec t hwf hfr τ hty).2.2

/-- every entry of the rule table is locally correct **for arbitrary well-formed simplified
arguments**. The implementation's argument order of products depends on node ids; since this
holds for every argument list, the implementation's own sequence of rule applications (checked
call by call by K1) is covered, not only the order `simp` fixes. -/
theorem rule_ok (op : Op) (e : Entry) (h : ruleOf op = some e) : RuleOK op e := ruleOf_ok op e h

/-- the assembled statement for any rule table whose entries are locally correct: adding a rule
family cannot break the assembly -/
theorem simpWith_correct (tbl : Op → Option Entry) (hok : ∀ op e, tbl op = some e → RuleOK op e)
    (t : Term) (τ : Ty) (hwf : t.wf = true) (hfr : inFragWith tbl t = true) (hty : t.typeOf = some τ) :
    ((simpWith tbl t).typeOf = some τ ∧ (simpWith tbl t).wf = true) ∧
    (∀ I : Interp, I.WF → div0 I t = false →
      eval I (simpWith tbl t) = eval I t ∧ div0 I (simpWith tbl t) = false) ∧
    (∀ s ∈ (simpWith tbl t).fv, s ∈ t.fv) :=
  simpWith_spec tbl hok t hwf hfr τ hty

/-- **whatever order the implementation gives** the arguments of the `and`/`or`/`times` nodes
its rules return (set iteration order, node-id order): for every re-ordering `ρ` applied after
every rule application, type, well-formedness, value (under the proviso) and free symbols are
preserved. `ρ = id` is `simp`. (partial: fragment `inFrag`) -/
theorem simp_any_order_partial (ρ : Term → Term) (hρ : ∀ r, PermTop r (ρ r))
    (t : Term) (τ : Ty) (hwf : t.wf = true) (hfr : inFrag t = true) (hty : t.typeOf = some τ) :
    ((simpWithR ruleOf ρ t).typeOf = some τ ∧ (simpWithR ruleOf ρ t).wf = true) ∧
    (∀ I : Interp, I.WF → div0 I t = false →
      eval I (simpWithR ruleOf ρ t) = eval I t ∧ div0 I (simpWithR ruleOf ρ t) = false) ∧
    (∀ s ∈ (simpWithR ruleOf ρ t).fv, s ∈ t.fv) :=
  simpWithR_spec ruleOf ruleOf_ok ρ hρ t hwf hfr τ hty

/-- type soundness of the reference semantics on well-formed terms (all 66 operators) -/
theorem eval_sort (t : Term) (τ : Ty) (hwf : t.wf = true) (hty : t.typeOf = some τ) (I : Interp) (hI : I.WF) :
    (eval I t).hasSort τ = true := eval_hasSort t hwf τ hty I hI

/-- the correspondence check compares modulo the order of `and` arguments -/
theorem perm_and (I : Interp) (l₁ l₂ : List Term) (p : Payload) (h : l₁.Perm l₂) :
    eval I (.node .and l₁ p) = eval I (.node .and l₂ p) := eval_perm_and I l₁ l₂ p h

/-- … of `or` arguments -/
theorem perm_or (I : Interp) (l₁ l₂ : List Term) (p : Payload) (h : l₁.Perm l₂) :
    eval I (.node .or l₁ p) = eval I (.node .or l₂ p) := eval_perm_or I l₁ l₂ p h

/-- … and of `times` arguments -/
theorem perm_times (I : Interp) (hI : I.WF) (l₁ l₂ : List Term) (p : Payload) (h : l₁.Perm l₂)
    (hwf : (Term.node .times l₁ p).wf = true) :
    eval I (.node .times l₁ p) = eval I (.node .times l₂ p) ∧ (Term.node .times l₂ p).wf = true :=
  ⟨eval_perm_times I hI h hwf, wf_perm_times h hwf⟩

/-- the operators that have a rule so far (what `inFrag` admits, up to the guards of `equals`, of the array
operators — index sort not an array sort — and of `bvZext`/`bvSext`) -/
theorem fragment_ops (op : Op) : (ruleOf op).isSome = true ↔
    op ∈ [.and, .or, .not, .iff, .implies, .ite, .equals, .le, .lt, .forall_, .exists_, .function, .toReal,
          .symbol, .boolConst, .intConst, .realConst, .strConst, .bvConst, .plus, .times, .minus, .div,
          .strLength, .strConcat, .strCharAt, .strContains, .strIndexOf, .strReplace, .strSubstr, .strPrefixOf,
          .strSuffixOf, .strToInt, .intToStr, .arraySelect, .arrayStore, .arrayValue,
          .bvAnd, .bvOr, .bvXor, .bvNot, .bvNeg, .bvAdd, .bvSub, .bvMul, .bvUdiv, .bvUrem, .bvSdiv, .bvSrem,
          .bvLshl, .bvLshr, .bvAshr, .bvUlt, .bvUle, .bvSlt, .bvSle, .bvComp, .bvConcat, .bvExtract, .bvRol,
          .bvRor, .bvZext, .bvSext, .bvToNatural] := by
  cases op <;> simp [ruleOf]

/-! ## non-vacuity: concrete non-trivial terms meeting the hypotheses -/
section Examples

private def p : Term := Term.var "p" .bool
private def x : Term := Term.var "x" .int
private def y : Term := Term.var "y" .int

/-- `p ∧ ¬p` : a Boolean term on which `walk_and` finds complementary literals -/
private def t1 : Term := .node .and [p, .node .not [p] .none] .none

example : t1.wf = true ∧ inFrag t1 = true ∧ t1.typeOf = some .bool := by
  obtain ⟨w, ty, fr⟩ : p.wf = true ∧ p.typeOf = some .bool ∧ inFrag p = true := var_ok "p" .bool
  have tyn : (Term.node .not [p] .none).typeOf = some .bool := typeOf_not_iff.mpr ⟨rfl, by simpa using ty⟩
  have wn : (Term.node .not [p] .none).wf = true := wf_mk' (by simpa using w) rfl tyn
  have ty1 : t1.typeOf = some .bool :=
    typeOf_and_iff.mpr ⟨rfl, by intro a ha; simp at ha; rcases ha with rfl | rfl <;> assumption⟩
  refine ⟨wf_mk' (by intro a ha; simp at ha; rcases ha with rfl | rfl <;> assumption) rfl ty1, ?_, ty1⟩
  refine frag_node (e := BoolRules.walkAnd) rfl rfl ?_
  intro a ha; simp at ha
  rcases ha with rfl | rfl
  · exact fr
  · exact frag_node (e := BoolRules.walkNot) rfl rfl (by intro a ha; simp at ha; subst ha; exact fr)

/-- `∀ z x. 0 ≤ x - y` : a quantifier with an unused variable over an arithmetic atom that
`walk_le` rewrites -/
private def t2 : Term :=
  .node .forall_ [.node .le [Term.int 0, .node .minus [x, y] .none] .none]
    (.qvars [Sym.var "z" .int, Sym.var "x" .int])

example : t2.wf = true ∧ inFrag t2 = true ∧ t2.typeOf = some .bool := by
  obtain ⟨wx, tx, fx⟩ : x.wf = true ∧ x.typeOf = some .int ∧ inFrag x = true := var_ok "x" .int
  obtain ⟨wy, ty, fy⟩ : y.wf = true ∧ y.typeOf = some .int ∧ inFrag y = true := var_ok "y" .int
  have tm : (Term.node .minus [x, y] .none).typeOf = some .int := by
    rw [typeOf_node]; simp only [List.map_cons, List.map_nil]; rw [show x.typeOf = _ from tx, show y.typeOf = _ from ty]; rfl
  have wm : (Term.node .minus [x, y] .none).wf = true :=
    wf_mk' (by intro a ha; simp at ha; rcases ha with rfl | rfl <;> assumption) rfl tm
  have tl : (Term.node .le [Term.int 0, .node .minus [x, y] .none] .none).typeOf = some .bool :=
    BoolRules.typeOf_rel_mk (Or.inl rfl) _ (Or.inl ⟨typeOf_int 0, tm⟩)
  have wl : (Term.node .le [Term.int 0, .node .minus [x, y] .none] .none).wf = true :=
    wf_mk' (by intro a ha; simp at ha; rcases ha with rfl | rfl; exact wf_int 0; exact wm) rfl tl
  have t2ty : t2.typeOf = some .bool := by
    rw [t2, typeOf_node]; simp only [List.map_cons, List.map_nil, tl]; rfl
  refine ⟨wf_mk' (by intro a ha; simp at ha; subst ha; exact wl) rfl t2ty, ?_, t2ty⟩
  refine frag_node (e := BoolRules.walkForall) rfl rfl ?_
  intro a ha; simp at ha; subst ha
  refine frag_node (e := BoolRules.walkLe) rfl rfl ?_
  intro a ha; simp at ha
  rcases ha with rfl | rfl
  · exact frag_node (e := keep .intConst) rfl rfl (by simp)
  · refine frag_node (e := ArithRules.walkMinus) rfl rfl ?_
    intro a ha; simp at ha
    rcases ha with rfl | rfl <;> assumption

/-- `Select(Array(Int, 0, {1: 5}), 1)` : an array value (scalar index sort: the guards of the array
entries hold) on which `walk_array_select` looks the index up -/
private def av : Term := .node .arrayValue [Term.int 0, Term.int 1, Term.int 5] (.ty .int)
private def t3 : Term := .node .arraySelect [av, Term.int 1] .none
/-- `str.len("ab" ++ s)` : string operators over a symbol -/
private def t4 : Term := .node .strLength [.node .strConcat [Term.str "ab", Term.var "s" .str] .none] .none

example : t3.wf = true ∧ inFrag t3 = true ∧ t3.typeOf = some .int := by
  have tav : av.typeOf = some (.array .int .int) := by
    rw [av, typeOf_node]; simp only [List.map_cons, List.map_nil, typeOf_int]; rfl
  have wav : av.wf = true :=
    wf_mk' (by intro a ha; simp at ha; rcases ha with rfl | rfl | rfl <;> exact wf_int _) rfl tav
  have fint : ∀ n, inFrag (Term.int n) = true := fun n => frag_node (e := keep .intConst) rfl rfl (by simp)
  have fav : inFrag av = true :=
    frag_node (e := { rule := ArrayRules.walkArrayValue, guard := ArrayRules.valueGuard }) rfl rfl
      (by intro a ha; simp at ha; rcases ha with rfl | rfl | rfl <;> exact fint _)
  have t3ty : t3.typeOf = some .int := by
    rw [t3, typeOf_node]; simp only [List.map_cons, List.map_nil, typeOf_int, tav]; rfl
  refine ⟨wf_mk' (by intro a ha; simp at ha; rcases ha with rfl | rfl; exact wav; exact wf_int _) rfl t3ty, ?_, t3ty⟩
  refine frag_node (e := { rule := ArrayRules.walkArraySelect, guard := ArrayRules.arrayGuard }) rfl ?_ ?_
  · simp only [List.map_cons, List.map_nil, tav]; rfl
  · intro a ha; simp at ha; rcases ha with rfl | rfl; exact fav; exact fint _

example : t4.wf = true ∧ inFrag t4 = true ∧ t4.typeOf = some .int := by
  obtain ⟨ws, ts, fs⟩ : (Term.var "s" .str).wf = true ∧ (Term.var "s" .str).typeOf = some .str ∧
      inFrag (Term.var "s" .str) = true := var_ok "s" .str
  have tc : (Term.node .strConcat [Term.str "ab", Term.var "s" .str] .none).typeOf = some .str := by
    rw [typeOf_node]; simp only [List.map_cons, List.map_nil, StrRules.typeOf_strc, ts]; rfl
  have wc : (Term.node .strConcat [Term.str "ab", Term.var "s" .str] .none).wf = true :=
    wf_mk' (by intro a ha; simp at ha; rcases ha with rfl | rfl; exact StrRules.wf_strc _; exact ws) rfl tc
  have t4ty : t4.typeOf = some .int := by
    rw [t4, typeOf_node]; simp only [List.map_cons, List.map_nil, tc]; rfl
  refine ⟨wf_mk' (by intro a ha; simp at ha; subst ha; exact wc) rfl t4ty, ?_, t4ty⟩
  refine frag_node (e := StrRules.walkStrLength) rfl rfl ?_
  intro a ha; simp at ha; subst ha
  refine frag_node (e := StrRules.walkStrConcat) rfl rfl ?_
  intro a ha; simp at ha
  rcases ha with rfl | rfl
  · exact frag_node (e := keep .strConst) rfl rfl (by simp)
  · exact fs
/-- a well-formed interpretation exists (so the quantifier over interpretations is not empty) -/
example : ∃ I : Interp, I.WF :=
  ⟨{ sym := fun s => s.ret.defaultVal, fn := fun f _ => f.ret.defaultVal, dom := fun t => [t.defaultVal],
     div0r := fun _ => 0, div0i := fun _ => 0 },
   by
    have hdef : ∀ t : Ty, t.defaultVal.hasSort t = true := by
      intro t
      induction t with
      | bool | int | real | str => rfl
      | bv w => simp [Ty.defaultVal, Val.hasSort]
      | array i e _ ihe => simp [Ty.defaultVal, Val.hasSort, ihe]
      | custom n => simp [Ty.defaultVal, Val.hasSort]
    exact ⟨fun s => hdef _, fun f _ => hdef _, fun t => by simp, fun t v hv => by simp at hv; subst hv; exact hdef t⟩⟩

end Examples
end PySMT.C01
