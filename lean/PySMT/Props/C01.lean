import PySMT.Proofs.SimpMain
import PySMT.Proofs.SimpPerm
import PySMT.Proofs.SimpOrder
import PySMT.Proofs.SimpTotal
/-!
# C01 — Simplification preserves type and meaning

Property (fixed text): *For every well-typed formula, the simplified formula has the same
type and, under every interpretation of the free symbols (and every non-empty
quantification domain), the same value as the original. It never mentions a symbol that is
not free in the original.* Interpretations under which an Int/Real division by zero is
evaluated are left unconstrained (`div0 I t`).

What "every interpretation" means here (read this before the theorems):
* `Interp.dom : Ty → List Val` — a quantification domain is a **finite list**; the theorems hold for
  every non-empty *finite* domain per sort. The standard structure with all integers / reals as the
  range of a quantifier is **not** an `Interp`: nothing is claimed for it (the quantifier rules use the
  domain only through its non-emptiness, so the step to a `Prop`-valued domain is small, but it is
  not done).
* array-sorted symbols range over **finitely supported** arrays (store chains on a constant array,
  `Core/Val.lean`), not over arbitrary functions.
* the division-by-zero proviso has two proved readings. (a) `div0 I t = false`: no `div` node of `t`
  has a divisor that evaluates to zero — *also in branches that are not taken* (`div0` is the
  disjunction over all arguments of `ite`/`and`/`or`), so `ite(r = 0, 0, 1/r)` at `r = 0` is excluded;
  then value and proviso are preserved for **every** choice of the division-by-zero functions
  (`simp_sound_partial`, `simp_div0_partial`). (b) no condition on the term at all, but the
  division-by-zero functions map 0 to 0 (`Interp.Tot`): `simp_sound_total_partial`. The only rule
  that is unsound under the total SMT-LIB reading `x / 0 = f(x)` with arbitrary `f` is
  `0 / x ↦ 0` (`walk_div`), which needs exactly `f(0) = 0`; (b) covers guarded divisions.
* orders the implementation does not determine: arguments of `and`/`or` results (Python `set`),
  of `times` results (sorted by node id) and the bound variables of quantifier results
  (`ForAll(set, body)`) are covered by `simp_any_order_partial`. **Not covered**: the order of the
  (key, value) pairs of an array-value result (`FormulaManager.Array` sorts them by `id()`; the model
  keeps dictionary order and the correspondence check compares modulo that order, but there is no
  Lean lemma that `eval` of an array value is invariant under permuting its pairs).

Model: `PySMT.Simplifier.simp` (Impl/Simplifier.lean), one Lean rule per `walk_*` method
(Impl/Simp/*.lean), tied to `/repo` on every run by the correspondence check of
`harness/props/c01.py`. Reference semantics: `PySMT.eval` (Core/Eval.lean).

Hypotheses of the theorems:
* `t.wf` — `t` is accepted by the type checker **and** every node has the arity / payload
  shape its `FormulaManager` constructor gives it (`Impl/WF.lean`). The type checker alone
  does not check arities (`Plus()` "has type" Real), and the reference semantics is type-sound
  only with them; every formula built by pySMT's constructors is `wf`.
* `inFrag t` — every operator of `t` has an entry in `Simplifier.ruleOf` and meets the entry's
  guard. **This is why the four main theorems are `_partial`**: at present the table holds
  the Boolean/core family (and, or, not, iff, implies, ite, equals, le, lt,
  forall, exists, function, toreal, symbols, constants) and the arithmetic family (plus,
  times, minus, div) and the bit-vector family (all 27 `walk_bv_*` rules, every width; `zext` /
  `sext` on the nodes whose width payload is operand width + step, as the constructors build
  them: `BVRules.extGuard`), the string family (all 11 `walk_str_*` / `walk_int_to_str` rules) and
  the array family (`walk_array_select`, `walk_array_store`, `walk_array_value` on arrays whose index
  sort is not itself an array sort: `ArrayRules.arrayGuard`, `valueGuard`). Missing: `Equals` between
  array-sorted terms whose index sort is a bit-vector sort wider than 8 bits (with non-array elements;
  `Simplifier.equalsGuard`: the comparison of two constant array values is proved over Int, Real, String,
  Bool and BV≤8 indices — beyond that the canonical array values of the reference semantics are not
  extensional when all `2^w` indices are assigned), arrays indexed by arrays, and `pow` / algebraic constants, which have no
  semantics (known finding F05). The array rules of the model test the invariant of `ARRAY_VALUE` nodes
  (keys are pairwise distinct constants, guaranteed by `FormulaManager.Array` but not part of `Term.wf`;
  see Impl/Simp/Array.lean). The statements themselves need no change when the table grows.
-/
namespace PySMT.C01
open PySMT PySMT.Simp PySMT.Simplifier

/-- type preservation (partial: fragment `inFrag`, see the header) -/
theorem simp_type_partial (t : Term) (τ : Ty) (hwf : t.wf = true) (hfr : inFrag t = true)
    (hty : t.typeOf = some τ) : (simp t).typeOf = some τ :=
  (simp_spec t hwf hfr τ hty).1.1

/-- the simplified formula is well-formed again (partial: fragment `inFrag`) -/
theorem simp_wf_partial (t : Term) (τ : Ty) (hwf : t.wf = true) (hfr : inFrag t = true)
    (hty : t.typeOf = some τ) : (simp t).wf = true :=
  (simp_spec t hwf hfr τ hty).1.2

/-- same value under every well-formed interpretation (every sort-respecting valuation of the
free symbols and functions over finitely supported arrays, every non-empty *finite* quantification
domain, every choice of the division-by-zero functions) under which no `div` node of `t` — taken or
not — has a zero divisor (partial: fragment `inFrag`) -/
theorem simp_sound_partial (t : Term) (τ : Ty) (hwf : t.wf = true) (hfr : inFrag t = true)
    (hty : t.typeOf = some τ) (I : Interp) (hI : I.WF) (hd : div0 I t = false) :
    eval I (simp t) = eval I t :=
  ((simp_spec t hwf hfr τ hty).2.1 I hI hd).1

/-- **no hypothesis on divisions by zero**: under every well-formed interpretation whose
division-by-zero functions map 0 to 0 the simplified formula has the value of the original, whatever
divisions by zero `t` contains (guarded, unguarded, in taken or untaken branches). The deviation of the
simplifier from the total SMT-LIB semantics is exactly the rule `0 / x ↦ 0`.
(partial: fragment `inFrag`) -/
theorem simp_sound_total_partial (t : Term) (τ : Ty) (hwf : t.wf = true) (hfr : inFrag t = true)
    (hty : t.typeOf = some τ) (I : Interp) (hI : I.WF) (h0r : I.div0r 0 = 0) (h0i : I.div0i 0 = 0) :
    eval I (simp t) = eval I t :=
  simpWith_total ruleOf ruleOf_ok t hwf hfr τ hty I hI ⟨h0r, h0i⟩

/-- the two readings of the proviso combined: the value is preserved as soon as no `div` node has
a zero divisor **or** the division-by-zero functions map 0 to 0 (partial: fragment `inFrag`) -/
theorem simp_sound_combined_partial (t : Term) (τ : Ty) (hwf : t.wf = true) (hfr : inFrag t = true)
    (hty : t.typeOf = some τ) (I : Interp) (hI : I.WF)
    (h : div0 I t = false ∨ (I.div0r 0 = 0 ∧ I.div0i 0 = 0)) : eval I (simp t) = eval I t := by
  rcases h with hd | ⟨h0r, h0i⟩
  · exact ((simp_spec t hwf hfr τ hty).2.1 I hI hd).1
  · exact simpWith_total ruleOf ruleOf_ok t hwf hfr τ hty I hI ⟨h0r, h0i⟩

/-- simplification never introduces an evaluated division by zero (partial: fragment `inFrag`) -/
theorem simp_div0_partial (t : Term) (τ : Ty) (hwf : t.wf = true) (hfr : inFrag t = true)
    (hty : t.typeOf = some τ) (I : Interp) (hI : I.WF) (hd : div0 I t = false) :
    div0 I (simp t) = false :=
  ((simp_spec t hwf hfr τ hty).2.1 I hI hd).2

/-- the simplified formula mentions only symbols free in the original (partial: fragment `inFrag`) -/
theorem simp_fv_subset_partial (t : Term) (τ : Ty) (hwf : t.wf = true) (hfr : inFrag t = true)
    (hty : t.typeOf = some τ) : ∀ s ∈ (simp t).fv, s ∈ t.fv :=
  (simp_spec t hwf hfr τ hty).2.2

/-- every entry of the rule table is locally correct **for arbitrary well-formed simplified
arguments**. The implementation's argument order of products depends on node ids; since this
holds for every argument list, the implementation's own sequence of rule applications (checked
call by call by K1) is covered, not only the order `simp` fixes. `RuleOK` has four components:
type, sound (under `div0 = false`), total (under `Interp.Tot`, no proviso), fv. -/
theorem rule_ok (op : Op) (e : Entry) (h : ruleOf op = some e) : RuleOK op e := ruleOf_ok op e h

/-- the assembled statement for any rule table whose entries are locally correct: adding a rule
family cannot break the assembly -/
theorem simpWith_correct (tbl : Op → Option Entry) (hok : ∀ op e, tbl op = some e → RuleOK op e)
    (t : Term) (τ : Ty) (hwf : t.wf = true) (hfr : inFragWith tbl t = true) (hty : t.typeOf = some τ) :
    ((simpWith tbl t).typeOf = some τ ∧ (simpWith tbl t).wf = true) ∧
    (∀ I : Interp, I.WF → div0 I t = false →
      eval I (simpWith tbl t) = eval I t ∧ div0 I (simpWith tbl t) = false) ∧
    (∀ s ∈ (simpWith tbl t).fv, s ∈ t.fv) :=
  simpWith_spec tbl hok t hwf hfr τ hty

/-- **whatever order the implementation gives** the arguments of the `and`/`or`/`times` nodes and
the bound variables of the quantifier nodes its rules return (set iteration order, node-id order;
`PermTop`): for every re-ordering `ρ` applied after every rule application, type, well-formedness,
value (under either reading of the proviso) and free symbols are preserved. `ρ = id` is `simp`.
Not covered: the order of the pairs of an array-value result (see header).
(partial: fragment `inFrag`) -/
theorem simp_any_order_partial (ρ : Term → Term) (hρ : ∀ r, PermTop r (ρ r))
    (t : Term) (τ : Ty) (hwf : t.wf = true) (hfr : inFrag t = true) (hty : t.typeOf = some τ) :
    ((simpWithR ruleOf ρ t).typeOf = some τ ∧ (simpWithR ruleOf ρ t).wf = true) ∧
    (∀ I : Interp, I.WF → div0 I t = false →
      eval I (simpWithR ruleOf ρ t) = eval I t ∧ div0 I (simpWithR ruleOf ρ t) = false) ∧
    (∀ s ∈ (simpWithR ruleOf ρ t).fv, s ∈ t.fv) ∧
    (∀ I : Interp, I.WF → I.Tot → eval I (simpWithR ruleOf ρ t) = eval I t) :=
  simpWithR_spec ruleOf ruleOf_ok ρ hρ t hwf hfr τ hty

/-- quantifier evaluation does not depend on the order of the bound variables (repetitions allowed) -/
theorem perm_qvars (all : Bool) (k : Interp → Bool) (vs vs' : List Sym) (h : vs.Perm vs') (I : Interp) :
    I.quant all vs k = I.quant all vs' k := quant_perm all k h I

/-- type soundness of the reference semantics on well-formed terms (all 66 operators) -/
theorem eval_sort (t : Term) (τ : Ty) (hwf : t.wf = true) (hty : t.typeOf = some τ) (I : Interp) (hI : I.WF) :
    (eval I t).hasSort τ = true := eval_hasSort t hwf τ hty I hI

/-- the correspondence check compares modulo the order of `and` arguments -/
theorem perm_and (I : Interp) (l₁ l₂ : List Term) (p : Payload) (h : l₁.Perm l₂) :
    eval I (.node .and l₁ p) = eval I (.node .and l₂ p) := eval_perm_and I l₁ l₂ p h

/-- … of `or` arguments -/
theorem perm_or (I : Interp) (l₁ l₂ : List Term) (p : Payload) (h : l₁.Perm l₂) :
    eval I (.node .or l₁ p) = eval I (.node .or l₂ p) := eval_perm_or I l₁ l₂ p h

/-- … and of `times` arguments -/
theorem perm_times (I : Interp) (hI : I.WF) (l₁ l₂ : List Term) (p : Payload) (h : l₁.Perm l₂)
    (hwf : (Term.node .times l₁ p).wf = true) :
    eval I (.node .times l₁ p) = eval I (.node .times l₂ p) ∧ (Term.node .times l₂ p).wf = true :=
  ⟨eval_perm_times I hI h hwf, wf_perm_times h hwf⟩

/-- the operators that have a rule so far (what `inFrag` admits, up to the guards of `equals`, of the array
operators — index sort not an array sort — and of `bvZext`/`bvSext`) -/
theorem fragment_ops (op : Op) : (ruleOf op).isSome = true ↔
    op ∈ [.and, .or, .not, .iff, .implies, .ite, .equals, .le, .lt, .forall_, .exists_, .function, .toReal,
          .symbol, .boolConst, .intConst, .realConst, .strConst, .bvConst, .plus, .times, .minus, .div,
          .strLength, .strConcat, .strCharAt, .strContains, .strIndexOf, .strReplace, .strSubstr, .strPrefixOf,
          .strSuffixOf, .strToInt, .intToStr, .arraySelect, .arrayStore, .arrayValue,
          .bvAnd, .bvOr, .bvXor, .bvNot, .bvNeg, .bvAdd, .bvSub, .bvMul, .bvUdiv, .bvUrem, .bvSdiv, .bvSrem,
          .bvLshl, .bvLshr, .bvAshr, .bvUlt, .bvUle, .bvSlt, .bvSle, .bvComp, .bvConcat, .bvExtract, .bvRol,
          .bvRor, .bvZext, .bvSext, .bvToNatural] := by
  cases op <;> simp [ruleOf]

/-! ## non-vacuity: concrete non-trivial terms meeting the hypotheses -/
section Examples

private def p : Term := Term.var "p" .bool
private def x : Term := Term.var "x" .int
private def y : Term := Term.var "y" .int

/-- `p ∧ ¬p` : a Boolean term on which `walk_and` finds complementary literals -/
private def t1 : Term := .node .and [p, .node .not [p] .none] .none

example : t1.wf = true ∧ inFrag t1 = true ∧ t1.typeOf = some .bool := by
  obtain ⟨w, ty, fr⟩ : p.wf = true ∧ p.typeOf = some .bool ∧ inFrag p = true := var_ok "p" .bool
  have tyn : (Term.node .not [p] .none).typeOf = some .bool := typeOf_not_iff.mpr ⟨rfl, by simpa using ty⟩
  have wn : (Term.node .not [p] .none).wf = true := wf_mk' (by simpa using w) rfl tyn
  have ty1 : t1.typeOf = some .bool :=
    typeOf_and_iff.mpr ⟨rfl, by intro a ha; simp at ha; rcases ha with rfl | rfl <;> assumption⟩
  refine ⟨wf_mk' (by intro a ha; simp at ha; rcases ha with rfl | rfl <;> assumption) rfl ty1, ?_, ty1⟩
  refine frag_node (e := BoolRules.walkAnd) rfl rfl ?_
  intro a ha; simp at ha
  rcases ha with rfl | rfl
  · exact fr
  · exact frag_node (e := BoolRules.walkNot) rfl rfl (by intro a ha; simp at ha; subst ha; exact fr)

/-- `∀ z x. 0 ≤ x - y` : a quantifier with an unused variable over an arithmetic atom that
`walk_le` rewrites -/
private def t2 : Term :=
  .node .forall_ [.node .le [Term.int 0, .node .minus [x, y] .none] .none]
    (.qvars [Sym.var "z" .int, Sym.var "x" .int])

example : t2.wf = true ∧ inFrag t2 = true ∧ t2.typeOf = some .bool := by
  obtain ⟨wx, tx, fx⟩ : x.wf = true ∧ x.typeOf = some .int ∧ inFrag x = true := var_ok "x" .int
  obtain ⟨wy, ty, fy⟩ : y.wf = true ∧ y.typeOf = some .int ∧ inFrag y = true := var_ok "y" .int
  have tm : (Term.node .minus [x, y] .none).typeOf = some .int := by
    rw [typeOf_node]; simp only [List.map_cons, List.map_nil]; rw [show x.typeOf = _ from tx, show y.typeOf = _ from ty]; rfl
  have wm : (Term.node .minus [x, y] .none).wf = true :=
    wf_mk' (by intro a ha; simp at ha; rcases ha with rfl | rfl <;> assumption) rfl tm
  have tl : (Term.node .le [Term.int 0, .node .minus [x, y] .none] .none).typeOf = some .bool :=
    BoolRules.typeOf_rel_mk (Or.inl rfl) _ (Or.inl ⟨typeOf_int 0, tm⟩)
  have wl : (Term.node .le [Term.int 0, .node .minus [x, y] .none] .none).wf = true :=
    wf_mk' (by intro a ha; simp at ha; rcases ha with rfl | rfl; exact wf_int 0; exact wm) rfl tl
  have t2ty : t2.typeOf = some .bool := by
    rw [t2, typeOf_node]; simp only [List.map_cons, List.map_nil, tl]; rfl
  refine ⟨wf_mk' (by intro a ha; simp at ha; subst ha; exact wl) rfl t2ty, ?_, t2ty⟩
  refine frag_node (e := BoolRules.walkForall) rfl rfl ?_
  intro a ha; simp at ha; subst ha
  refine frag_node (e := BoolRules.walkLe) rfl rfl ?_
  intro a ha; simp at ha
  rcases ha with rfl | rfl
  · exact frag_node (e := keep .intConst) rfl rfl (by simp)
  · refine frag_node (e := ArithRules.walkMinus) rfl rfl ?_
    intro a ha; simp at ha
    rcases ha with rfl | rfl <;> assumption

/-- `Select(Array(Int, 0, {1: 5}), 1)` : an array value (scalar index sort: the guards of the array
entries hold) on which `walk_array_select` looks the index up -/
private def av : Term := .node .arrayValue [Term.int 0, Term.int 1, Term.int 5] (.ty .int)
private def t3 : Term := .node .arraySelect [av, Term.int 1] .none
/-- `str.len("ab" ++ s)` : string operators over a symbol -/
private def t4 : Term := .node .strLength [.node .strConcat [Term.str "ab", Term.var "s" .str] .none] .none

example : t3.wf = true ∧ inFrag t3 = true ∧ t3.typeOf = some .int := by
  have tav : av.typeOf = some (.array .int .int) := by
    rw [av, typeOf_node]; simp only [List.map_cons, List.map_nil, typeOf_int]; rfl
  have wav : av.wf = true :=
    wf_mk' (by intro a ha; simp at ha; rcases ha with rfl | rfl | rfl <;> exact wf_int _) rfl tav
  have fint : ∀ n, inFrag (Term.int n) = true := fun n => frag_node (e := keep .intConst) rfl rfl (by simp)
  have fav : inFrag av = true :=
    frag_node (e := { rule := ArrayRules.walkArrayValue, guard := ArrayRules.valueGuard }) rfl rfl
      (by intro a ha; simp at ha; rcases ha with rfl | rfl | rfl <;> exact fint _)
  have t3ty : t3.typeOf = some .int := by
    rw [t3, typeOf_node]; simp only [List.map_cons, List.map_nil, typeOf_int, tav]; rfl
  refine ⟨wf_mk' (by intro a ha; simp at ha; rcases ha with rfl | rfl; exact wav; exact wf_int _) rfl t3ty, ?_, t3ty⟩
  refine frag_node (e := { rule := ArrayRules.walkArraySelect, guard := ArrayRules.arrayGuard }) rfl ?_ ?_
  · simp only [List.map_cons, List.map_nil, tav]; rfl
  · intro a ha; simp at ha; rcases ha with rfl | rfl; exact fav; exact fint _

example : t4.wf = true ∧ inFrag t4 = true ∧ t4.typeOf = some .int := by
  obtain ⟨ws, ts, fs⟩ : (Term.var "s" .str).wf = true ∧ (Term.var "s" .str).typeOf = some .str ∧
      inFrag (Term.var "s" .str) = true := var_ok "s" .str
  have tc : (Term.node .strConcat [Term.str "ab", Term.var "s" .str] .none).typeOf = some .str := by
    rw [typeOf_node]; simp only [List.map_cons, List.map_nil, StrRules.typeOf_strc, ts]; rfl
  have wc : (Term.node .strConcat [Term.str "ab", Term.var "s" .str] .none).wf = true :=
    wf_mk' (by intro a ha; simp at ha; rcases ha with rfl | rfl; exact StrRules.wf_strc _; exact ws) rfl tc
  have t4ty : t4.typeOf = some .int := by
    rw [t4, typeOf_node]; simp only [List.map_cons, List.map_nil, tc]; rfl
  refine ⟨wf_mk' (by intro a ha; simp at ha; subst ha; exact wc) rfl t4ty, ?_, t4ty⟩
  refine frag_node (e := StrRules.walkStrLength) rfl rfl ?_
  intro a ha; simp at ha; subst ha
  refine frag_node (e := StrRules.walkStrConcat) rfl rfl ?_
  intro a ha; simp at ha
  rcases ha with rfl | rfl
  · exact frag_node (e := keep .strConst) rfl rfl (by simp)
  · exact fs
/-- `b + 0` over 4-bit vectors: a bit-vector term on which `walk_bv_add` fires -/
private def bv4 : Term := Term.var "b" (.bv 4)
private def t5 : Term := .node .bvAdd [bv4, Term.bvc 0 4] (.ints [4])

example : t5.wf = true ∧ inFrag t5 = true ∧ t5.typeOf = some (.bv 4) := by
  obtain ⟨wb, tb, fb⟩ : bv4.wf = true ∧ bv4.typeOf = some (.bv 4) ∧ inFrag bv4 = true := var_ok "b" (.bv 4)
  have wc : (Term.bvc 0 4).wf = true := BVRules.wf_bvc (by decide)
  have tc := BVRules.typeOf_bvc 0 4
  have t5ty : t5.typeOf = some (.bv 4) := by
    rw [t5, typeOf_node]; simp only [List.map_cons, List.map_nil, tc]
    rw [show bv4.typeOf = _ from tb]; rfl
  refine ⟨wf_mk' (by intro a ha; simp at ha; rcases ha with rfl | rfl <;> assumption) rfl t5ty, ?_, t5ty⟩
  refine frag_node (e := BVRules.walkBvAdd) rfl rfl ?_
  intro a ha; simp at ha
  rcases ha with rfl | rfl
  · exact fb
  · exact frag_node (e := keep .bvConst) rfl rfl (by simp)

/-- `∃ z. x / z = y` : a quantified formula containing a division whose divisor is the bound
variable (so `div0` holds under every interpretation whose Int domain contains 0, and only
`simp_sound_total_partial` speaks about it there) -/
private def t6 : Term :=
  .node .exists_ [.node .equals [.node .div [x, Term.var "z" .int] .none, y] .none] (.qvars [Sym.var "z" .int])

example : t6.wf = true ∧ inFrag t6 = true ∧ t6.typeOf = some .bool := by
  obtain ⟨wx, tx, fx⟩ : x.wf = true ∧ x.typeOf = some .int ∧ inFrag x = true := var_ok "x" .int
  obtain ⟨wy, ty, fy⟩ : y.wf = true ∧ y.typeOf = some .int ∧ inFrag y = true := var_ok "y" .int
  obtain ⟨wz, tz, fz⟩ := var_ok "z" .int
  have td : (Term.node .div [x, Term.var "z" .int] .none).typeOf = some .int := by
    rw [typeOf_node]; simp only [List.map_cons, List.map_nil, tz]; rw [show x.typeOf = _ from tx]; rfl
  have wd : (Term.node .div [x, Term.var "z" .int] .none).wf = true :=
    wf_mk' (by intro a ha; simp at ha; rcases ha with rfl | rfl <;> assumption) rfl td
  have te : (Term.node .equals [.node .div [x, Term.var "z" .int] .none, y] .none).typeOf = some .bool := by
    rw [typeOf_node]; simp only [List.map_cons, List.map_nil, td]; rw [show y.typeOf = _ from ty]; rfl
  have we : (Term.node .equals [.node .div [x, Term.var "z" .int] .none, y] .none).wf = true :=
    wf_mk' (by intro a ha; simp at ha; rcases ha with rfl | rfl <;> assumption) rfl te
  have t6ty : t6.typeOf = some .bool := by
    rw [t6, typeOf_node]; simp only [List.map_cons, List.map_nil, te]; rfl
  refine ⟨wf_mk' (by intro a ha; simp at ha; subst ha; exact we) rfl t6ty, ?_, t6ty⟩
  refine frag_node (e := BoolRules.walkExists) rfl rfl ?_
  intro a ha; simp at ha; subst ha
  refine frag_node (e := { rule := BoolRules.walkEquals, guard := equalsGuard }) rfl ?_ ?_
  · simp only [List.map_cons, List.map_nil, td]; rfl
  · intro a ha; simp at ha
    rcases ha with rfl | rfl
    · refine frag_node (e := ArithRules.walkDiv) rfl rfl ?_
      intro a ha; simp at ha
      rcases ha with rfl | rfl <;> assumption
    · exact fy

/-- a re-ordering that is not the identity is admissible: swapping the two bound variables of a
quantifier (the case of `ForAll(set, body)`) -/
example (b : Term) (u v : Sym) :
    PermTop (.node .forall_ [b] (.qvars [u, v])) (.node .forall_ [b] (.qvars [v, u])) :=
  Or.inr (Or.inr ⟨.forall_, b, [u, v], [v, u], rfl, rfl, rfl, List.Perm.swap v u []⟩)

/-- a well-formed interpretation whose division-by-zero functions map 0 to 0 exists -/
example : ∃ I : Interp, I.WF ∧ I.div0r 0 = 0 ∧ I.div0i 0 = 0 :=
  ⟨{ sym := fun s => s.ret.defaultVal, fn := fun f _ => f.ret.defaultVal, dom := fun t => [t.defaultVal],
     div0r := fun _ => 0, div0i := fun _ => 0 },
   by
    have hdef : ∀ t : Ty, t.defaultVal.hasSort t = true := by
      intro t
      induction t with
      | bool | int | real | str => rfl
      | bv w => simp [Ty.defaultVal, Val.hasSort]
      | array i e _ ihe => simp [Ty.defaultVal, Val.hasSort, ihe]
      | custom n => simp [Ty.defaultVal, Val.hasSort]
    exact ⟨⟨fun s => hdef _, fun f _ => hdef _, fun t => by simp, fun t v hv => by simp at hv; subst hv; exact hdef t⟩,
      rfl, rfl⟩⟩

end Examples
end PySMT.C01
