import PySMT.Proofs.C11Main
import PySMT.Proofs.C11Simp
import PySMT.Proofs.C11Stable
/-!
# C11 — CNF conversions and Ackermannization: advertised form and model-by-model equisatisfiability

Models: `Impl/Rewritings/{CNF,PolCNF,Ackermann}.lean` (the code after the repairs F33, F50, F52, F19, F20).
`complete` + `sound` are the two halves of the equisatisfiability part of the property: every interpretation
satisfying the input extends on the fresh symbols to one satisfying the output (`ext u I` / `extA u I` agree with
`I` on the input's symbols and are well-formed when `I` is), and every interpretation satisfying the output
satisfies the input (for Ackermannization: with the eliminated functions read off the fresh constants, `recover`,
again a well-formed interpretation).

What is proved at full strength, and what is conditional:

* **Ackermannization** (`ack_shape`, `ack_complete`, `ack_sound`): full, for `t.wf`, quantifier-free `t`, with the
  fresh-constant hypotheses `ConstsFresh` / `KeyTyped` discharged for the model of `new_fresh_symbol` in ANY manager
  state that knows the input's symbols (`consts_fresh_in`).
* **CNF equisatisfiability for an abstract simplifier** (`cnf_*`, `polCnf_*`): the CNFizers negate literals with
  `Not(a).simplify()`; the simplifier is the parameter `E.simp` with hypotheses `SimpSound` / `SimpSym` /
  `SimpShape`.  `SimpSound` quantifies over ALL terms, which the real simplifier does not satisfy (division by zero,
  terms outside C01's fragment): these generic theorems are instantiable with `id` only (`example`s) — their
  content is the Tseitin / polarity argument and the top-level clean-up.  The freshness hypotheses `KeysFresh`
  (on the Boolean skeleton `boolNodes t`) / `KeyBool` are discharged for both converters' own supplies in any
  manager state that knows the input's symbols (`keys_fresh_in`, `keys_fresh_pol_in`).
* **CNF with the real simplifier model** (`*_simp_partial`): `_partial` because they assume the side conditions
  `SimpSide` (every term handed to the simplifier — a computable list `simpArgs key t`, which contains simplifier
  OUTPUTS since a negated literal is negated again by the parent node — is a definition symbol or a `wf` Boolean
  term of C01's fragment over the input's symbols without evaluated division by zero) and, for the shape,
  `ShapeSide` (atoms handed to the simplifier come back as literals or constants).  They are discharged
  structurally only for inputs whose atoms are fixed points of the simplifier (`simp_side_of_stable`:
  `t.wf`, Boolean, quantifier-free, every atom `a` at a Boolean position in C01's fragment with `simp a = a` and
  `div0 I a = false`).  Missing for the general discharge: that `simp` maps an atom of the fragment to a
  literal-or-constant of the fragment (C01 exports no `inFrag (simp t)`), which is false for the shape half on
  Boolean array reads (known finding F51).
* `t.wf`: the term is built by the `FormulaManager` constructors (arity + type check, `Impl/WF.lean`).

Not covered by a theorem: a second `convert` / `do_ackermannization` on the SAME object (its tables persist).  On the
real code the later results are still equisatisfiable (the extra consistency constraints of an `Ackermannizer`
only mention fresh constants; a CNFizer returns the same clauses up to the names of the definition variables);
this is checked by S on every run (stream `reuse`), K compares the CNF results, the Ackermann ones are S-only.

Definitions outside `Core`/`Spec` the statements rely on: `CNF.shapeClauses`, `shapeFormula`, `isLitS`, `isAtomS`,
`Ackermann.noApp` (Impl, specification side); `KeysFresh`, `ConstsFresh`, `KeyBool`, `KeyTyped`, `Knows`, `ext`,
`extA`, `recover`, `withFns`, `SameOn`, `SimpSound`, `SimpSym`, `SimpShape`, `SimpSide`, `ShapeSide`, `simpArgs`,
`AtomsStable` (Proofs/C11*.lean).
-/
namespace PySMT.C11
open PySMT.CNF PySMT.Ackermann
open PySMT.C11.Proofs (KeysFresh ConstsFresh Knows var_wf node_wf allTrue allTrue_wf)

/-! ### CNFizer (abstract simplifier) -/

/-- clause set and `convert_as_formula` have the advertised form -/
theorem cnf_shape (E : CNF.Env) (hσ : SimpShape E.simp) (hkb : KeyBool E) (t : Term) (hwf : t.wf = true)
    (hty : t.typeOf = some .bool) (R : List Clause) (hR : CNF.convert E t = some R) :
    shapeClauses R = true ∧ shapeFormula (formulaOf R) = true :=
  Proofs.cnf_shape E hσ hkb t hwf hty R hR

theorem cnf_complete (E : CNF.Env) (u : Sym → Option Term) (t : Term) (I : Interp) (R : List Clause)
    (hkeys : KeysFresh E u t) (hσ : SimpSound E.simp t I) (hR : CNF.convert E t = some R)
    (hI : eval I t = .b true) :
    eval (ext u I) (formulaOf R) = .b true ∧ SameOn t I (ext u I) ∧ (I.WF → (ext u I).WF) :=
  Proofs.cnf_complete E u t I R hkeys hσ hR hI

theorem cnf_sound (E : CNF.Env) (u : Sym → Option Term) (t : Term) (J : Interp) (R : List Clause)
    (hkeys : KeysFresh E u t) (hs : SimpSym E.simp) (hσ : SimpSound E.simp t J)
    (hR : CNF.convert E t = some R) (hJ : eval J (formulaOf R) = .b true) : eval J t = .b true :=
  Proofs.cnf_sound E u t J R hkeys hs hσ hR hJ

/-! ### PolarityCNFizer (abstract simplifier) -/

theorem polCnf_shape (E : CNF.Env) (hσ : SimpShape E.simp) (hkb : KeyBool E) (t : Term) (hwf : t.wf = true)
    (hqf : t.isQF = true) (hty : t.typeOf = some .bool) (R : List Clause)
    (hR : PolCNF.convert E t = some R) : shapeClauses R = true ∧ shapeFormula (formulaOf R) = true :=
  Proofs.polCnf_shape E hσ hkb t hwf hqf hty R hR

theorem polCnf_complete (E : CNF.Env) (u : Sym → Option Term) (t : Term) (I : Interp) (R : List Clause)
    (hkeys : KeysFresh E u t) (hσ : SimpSound E.simp t I) (hR : PolCNF.convert E t = some R)
    (hI : eval I t = .b true) :
    eval (ext u I) (formulaOf R) = .b true ∧ SameOn t I (ext u I) ∧ (I.WF → (ext u I).WF) :=
  Proofs.polCnf_complete E u t I R hkeys hσ hR hI

theorem polCnf_sound (E : CNF.Env) (u : Sym → Option Term) (t : Term) (J : Interp) (R : List Clause)
    (hkeys : KeysFresh E u t) (hs : SimpSym E.simp) (hσ : SimpSound E.simp t J)
    (hR : PolCNF.convert E t = some R) (hJ : eval J (formulaOf R) = .b true) : eval J t = .b true :=
  Proofs.polCnf_sound E u t J R hkeys hs hσ hR hJ

/-! ### the CNF theorems with the real simplifier model `PySMT.Simplifier.simp` (C01) in place of the parameter

`_partial`: they assume `SimpSide` / `ShapeSide` (see the header); full statement = the same without these two
hypotheses for every `t.wf` Boolean quantifier-free `t` in C01's fragment under interpretations evaluating no
division by zero. -/

theorem cnf_sound_simp_partial (key : Term → Sym) (u : Sym → Option Term) (t : Term) (J : Interp) (R : List Clause)
    (hkeys : KeysFresh ⟨key, Simplifier.simp⟩ u t) (hJ : J.WF) (hside : Proofs.SimpSide key t J)
    (hR : CNF.convert ⟨key, Simplifier.simp⟩ t = some R) (h : eval J (formulaOf R) = .b true) :
    eval J t = .b true :=
  Proofs.cnf_sound_simp key u t J R hkeys hJ hside hR h

theorem cnf_complete_simp_partial (key : Term → Sym) (u : Sym → Option Term) (t : Term) (I : Interp)
    (R : List Clause)
    (hkeys : KeysFresh ⟨key, Simplifier.simp⟩ u t) (hI : I.WF) (hside : Proofs.SimpSide key t I)
    (hR : CNF.convert ⟨key, Simplifier.simp⟩ t = some R) (ht : eval I t = .b true) :
    eval (ext u I) (formulaOf R) = .b true ∧ SameOn t I (ext u I) ∧ (ext u I).WF :=
  Proofs.cnf_complete_simp key u t I R hkeys hI hside hR ht

theorem polCnf_sound_simp_partial (key : Term → Sym) (u : Sym → Option Term) (t : Term) (J : Interp)
    (R : List Clause)
    (hkeys : KeysFresh ⟨key, Simplifier.simp⟩ u t) (hJ : J.WF) (hside : Proofs.SimpSide key t J)
    (hR : PolCNF.convert ⟨key, Simplifier.simp⟩ t = some R) (h : eval J (formulaOf R) = .b true) :
    eval J t = .b true :=
  Proofs.polCnf_sound_simp key u t J R hkeys hJ hside hR h

theorem polCnf_complete_simp_partial (key : Term → Sym) (u : Sym → Option Term) (t : Term) (I : Interp)
    (R : List Clause)
    (hkeys : KeysFresh ⟨key, Simplifier.simp⟩ u t) (hI : I.WF) (hside : Proofs.SimpSide key t I)
    (hR : PolCNF.convert ⟨key, Simplifier.simp⟩ t = some R) (ht : eval I t = .b true) :
    eval (ext u I) (formulaOf R) = .b true ∧ SameOn t I (ext u I) ∧ (ext u I).WF :=
  Proofs.polCnf_complete_simp key u t I R hkeys hI hside hR ht

theorem cnf_shape_simp_partial (key : Term → Sym) (hkb : ∀ h, (key h).params = [] ∧ (key h).ret = .bool)
    (t : Term) (hwf : t.wf = true) (hty : t.typeOf = some .bool) (hside : Proofs.ShapeSide key t)
    (R : List Clause) (hR : CNF.convert ⟨key, Simplifier.simp⟩ t = some R) :
    shapeClauses R = true ∧ shapeFormula (formulaOf R) = true :=
  Proofs.cnf_shape_simp key hkb t hwf hty hside R hR

theorem polCnf_shape_simp_partial (key : Term → Sym) (hkb : ∀ h, (key h).params = [] ∧ (key h).ret = .bool)
    (t : Term) (hwf : t.wf = true) (hqf : t.isQF = true) (hty : t.typeOf = some .bool)
    (hside : Proofs.ShapeSide key t) (R : List Clause)
    (hR : PolCNF.convert ⟨key, Simplifier.simp⟩ t = some R) :
    shapeClauses R = true ∧ shapeFormula (formulaOf R) = true :=
  Proofs.polCnf_shape_simp key hkb t hwf hqf hty hside R hR

/-- **Structural discharge of both side conditions for inputs whose atoms are fixed points of the simplifier**
(`atomsB t`: the atoms of `t` at Boolean positions): the conditions are on the atoms alone.  With it the
`*_simp_partial` theorems apply, e.g., to every input whose atoms were simplified beforehand and are in C01's
fragment. -/
theorem simp_side_of_stable (key : Term → Sym) (t : Term) (I : Interp) (hst : Proofs.AtomsStable t)
    (hat : ∀ a ∈ Proofs.atomsB t, a.wf = true ∧ Simplifier.inFrag a = true ∧ a.typeOf = some .bool ∧
      (∀ s ∈ a.fv, s ∈ t.fv) ∧ div0 I a = false) :
    Proofs.SimpSide key t I ∧ Proofs.ShapeSide key t :=
  ⟨Proofs.simpSide_of_stable key t I hst hat, Proofs.shapeSide_of_stable key t hst⟩

/-! ### Ackermannization -/

theorem ack_shape (E : Ackermann.Env) (t : Term) : noApp (ack E t) = true :=
  Proofs.ack_shape E t

theorem ack_complete (E : Ackermann.Env) (u : Sym → Option Term) (t : Term) (I : Interp)
    (hwf : t.wf = true) (hqf : t.isQF = true) (hI : I.WF) (hconsts : ConstsFresh E u t)
    (ht : eval I t = .b true) :
    eval (extA u I) (ack E t) = .b true ∧ SameOn t I (extA u I) ∧ (extA u I).WF :=
  Proofs.ack_complete E u t I hwf hqf hI hconsts ht

theorem ack_sound (E : Ackermann.Env) (t : Term) (J : Interp)
    (hwf : t.wf = true) (hqf : t.isQF = true) (hJ : J.WF) (htyped : KeyTyped E t)
    (h : eval J (ack E t) = .b true) :
    eval (withFns J (recover E t J)) t = .b true ∧ (withFns J (recover E t J)).WF :=
  Proofs.ack_sound E t J hwf hqf hJ htyped h

/-! ### the fresh-symbol supply (model of `FormulaManager.new_fresh_symbol`), any manager state `s` that knows the
symbols of the input (`Knows s t`: other symbols may be known, the counter may have any value) -/

theorem keys_fresh_in (σ : Term → Term) (s : Supply) (t : Term) (hs : Knows s t) :
    KeysFresh (CNF.envIn σ s t) (unkey (CNF.keyTableIn s t)) t ∧ KeyBool (CNF.envIn σ s t) :=
  ⟨Proofs.keysFresh_in σ s t hs, Proofs.keyBool_in σ s t⟩

/-- the polarity converter's own supply: only the Boolean skeleton receives definition variables -/
theorem keys_fresh_pol_in (σ : Term → Term) (s : Supply) (t : Term) (hs : Knows s t) :
    KeysFresh (PolCNF.envIn σ s t) (unkey (PolCNF.keyTableIn s t)) t ∧ KeyBool (PolCNF.envIn σ s t) :=
  ⟨Proofs.keysFresh_pol_in σ s t hs, Proofs.keyBool_pol_in σ s t⟩

theorem consts_fresh_in (s : Supply) (t : Term) (hs : Knows s t) :
    ConstsFresh (Ackermann.envIn s t) (unkey (constTableIn s t)) t :=
  Proofs.constsFresh_in s t hs

/-- the instances the driver uses (a manager that knows exactly the symbols of the input, counter 0) -/
theorem keys_fresh (σ : Term → Term) (t : Term) : KeysFresh (CNF.stdEnv σ t) (unkey (keyTable t)) t :=
  Proofs.keysFresh_std σ t

theorem keys_fresh_pol (σ : Term → Term) (t : Term) :
    KeysFresh (PolCNF.stdEnv σ t) (unkey (PolCNF.keyTable t)) t :=
  Proofs.keysFresh_pol_std σ t

theorem consts_fresh (t : Term) : ConstsFresh (Ackermann.stdEnv t) (unkey (constTable t)) t :=
  Proofs.constsFresh_std t

/-! ### what K's canonicalisation forgets is semantically irrelevant -/

theorem canon_eq_symm (I : Interp) (a b : Term) (p : Payload) :
    eval I (.node .equals [a, b] p) = eval I (.node .equals [b, a] p) := eval_eq_symm I a b p

theorem canon_iff_symm (I : Interp) (a b : Term) (p : Payload) :
    eval I (.node .iff [a, b] p) = eval I (.node .iff [b, a] p) := eval_iff_symm I a b p

theorem canon_clause_set (I : Interp) (cs : List Clause) : holdsAll I (norm cs) ↔ holdsAll I cs :=
  holdsAll_norm I cs

/-! ### non-vacuity -/

-- the hypotheses about the simplifier are satisfiable
example (t : Term) (I : Interp) : SimpSound id t I := simpSound_id t I
example : SimpSym id := simpSym_id
example : SimpShape id := simpShape_id

section examples
def p : Term := Term.var "p" .bool
def q : Term := Term.var "q" .bool
def x : Term := Term.var "x" .int
def f : Sym := ⟨"f", [.int], .int⟩
/-- `p ∧ (q ∨ ¬p)` -/
def t0 : Term := .node .and [p, .node .or [q, .node .not [p] .none] .none] .none
/-- `f(f(x)) = f(x)` -/
def t1 : Term :=
  .node .equals [.node .function [.node .function [x] (.sym f)] (.sym f), .node .function [x] (.sym f)] .none

-- the inputs of the examples are well-formed and quantifier-free
example : t0.wf = true := by
  have hp : p.wf = true ∧ p.typeOf = some .bool := var_wf "p" .bool
  have hq : q.wf = true ∧ q.typeOf = some .bool := var_wf "q" .bool
  have hnp := node_wf (op := .not) (args := [p]) (p := .none) (τ := .bool) (by simpa using hp.1) rfl
    (by simp only [List.map_cons, List.map_nil, hp.2]; rfl)
  have hor := node_wf (op := .or) (args := [q, .node .not [p] .none]) (p := .none) (τ := .bool)
    (by intro a ha; simp at ha; rcases ha with rfl | rfl; exact hq.1; exact hnp.1) rfl
    (by simp only [List.map_cons, List.map_nil, hq.2, hnp.2]; rfl)
  exact (node_wf (op := .and) (args := [p, .node .or [q, .node .not [p] .none] .none]) (p := .none) (τ := .bool)
    (by intro a ha; simp at ha; rcases ha with rfl | rfl; exact hp.1; exact hor.1) rfl
    (by simp only [List.map_cons, List.map_nil, hp.2, hor.2]; rfl)).1

example : t1.wf = true := by
  have hx : x.wf = true ∧ x.typeOf = some .int := var_wf "x" .int
  have hfx := node_wf (op := .function) (args := [x]) (p := .sym f) (τ := .int) (by simpa using hx.1) rfl
    (by simp only [List.map_cons, List.map_nil, hx.2]; rfl)
  have hffx := node_wf (op := .function) (args := [.node .function [x] (.sym f)]) (p := .sym f) (τ := .int)
    (by simpa using hfx.1) rfl (by simp only [List.map_cons, List.map_nil, hfx.2]; rfl)
  exact (node_wf (op := .equals)
    (args := [.node .function [.node .function [x] (.sym f)] (.sym f), .node .function [x] (.sym f)])
    (p := .none) (τ := .bool)
    (by intro a ha; simp at ha; rcases ha with rfl | rfl; exact hffx.1; exact hfx.1) rfl
    (by simp only [List.map_cons, List.map_nil, hffx.2, hfx.2]; rfl)).1

example : t0.isQF = true ∧ t1.isQF = true := by
  simp [t0, t1, p, q, x, Term.isQF, Term.subterms, Term.var, Term.sym, Term.op, Op.isQuantifier]

-- both conversions answer on `t0` (for every environment) …
example (E : CNF.Env) : (CNF.convert E t0).isSome = true ∧ (PolCNF.convert E t0).isSome = true := by
  simp [CNF.convert, PolCNF.convert, PolCNF.boolQuant, CNF.ph, t0, p, q, Term.isQF, Term.subterms, Term.var,
    Term.sym, Term.op, Op.isQuantifier]

-- … from two definitions with six definitional clauses (three under the root polarity),
example (E : CNF.Env) : (CNF.enc E t0).2.length = 6 ∧ (PolCNF.encP E t0 true).2.length = 3 := by
  simp [CNF.enc, PolCNF.encP, t0, p, q, Term.var, Term.sym, isTrueC, isFalseC]

-- a well-formed interpretation satisfies `t0` (the hypothesis `eval I t = .b true` of `*_complete`),
example : allTrue.WF ∧ eval allTrue t0 = .b true := by
  refine ⟨allTrue_wf, (tv_iff _ _).mp ?_⟩
  simp [t0, p, q, tv_and, tv_or, tv_not, Term.var, tv_sym, allTrue, Sym.var]

-- the side conditions of the `*_simp` theorems hold on `t0` (whatever the key function and interpretation):
-- the simplifier only sees symbols there
example (key : Term → Sym) (I : Interp) : Proofs.SimpSide key t0 I ∧ Proofs.ShapeSide key t0 := by
  have hsym : ∀ s : Sym, Simplifier.simp (Term.node .symbol [] (.sym s)) = Term.node .symbol [] (.sym s) :=
    Proofs.simp_sym
  have hs : ∀ x ∈ Proofs.simpArgs key t0, ∃ s, x = Term.sym s := by
    simp [hsym, Proofs.simpArgs, Proofs.negCalls, Proofs.negArg, CNF.enc, t0, p, q, Term.var, Term.sym, isTrueC, isFalseC,
      CNF.negLit, CNF.simpNot, Term.mkNot]
  constructor
  · intro x hx; exact Or.inl (hs x hx)
  · intro x hx hat
    obtain ⟨s, rfl⟩ := hs x hx
    rw [Proofs.simp_sym]
    rcases hat with h | h
    · exact Or.inl (isLitS_of_atom h)
    · exact Or.inr h

-- … and, through `simp_side_of_stable`, on an input with a theory atom: `p ∧ ¬(x < 1)`
def a2 : Term := .node .lt [x, Term.int 1] .none
def t2 : Term := .node .and [p, .node .not [a2] .none] .none

example (key : Term → Sym) (I : Interp) : Proofs.SimpSide key t2 I ∧ Proofs.ShapeSide key t2 := by
  have hat : Proofs.atomsB t2 = [p, a2] := by
    simp [Proofs.atomsB, t2, p, a2, x, Term.var, Term.sym, Term.int]
  have hp : p.wf = true ∧ p.typeOf = some .bool := var_wf "p" .bool
  have hx : x.wf = true ∧ x.typeOf = some .int := var_wf "x" .int
  have h1 : (Term.int 1).wf = true ∧ (Term.int 1).typeOf = some .int :=
    node_wf (op := .intConst) (args := []) (p := .i 1) (by simp) rfl rfl
  have ha := node_wf (op := .lt) (args := [x, Term.int 1]) (p := .none) (τ := .bool)
    (by intro a ha; simp at ha; rcases ha with rfl | rfl; exact hx.1; exact h1.1) rfl
    (by simp only [List.map_cons, List.map_nil, hx.2, h1.2]; rfl)
  apply simp_side_of_stable
  · intro a ha'
    rw [hat] at ha'
    simp only [List.mem_cons, List.mem_nil_iff, or_false] at ha'
    rcases ha' with rfl | rfl
    · exact Proofs.simp_sym _
    · simp [Simplifier.simp, Simplifier.simpWith, Simplifier.ruleOf, a2, x, Term.var, Term.sym, Term.int, Simp.keep,
        Simp.BoolRules.walkLt, Simp.BoolRules.numVal, Build.lt_, Build.isIntConst, Build.isRealConst]
  · intro a ha'
    rw [hat] at ha'
    simp only [List.mem_cons, List.mem_nil_iff, or_false] at ha'
    rcases ha' with rfl | rfl
    · refine ⟨hp.1, ?_, hp.2, ?_, ?_⟩
      · simp [Simplifier.inFrag, Simplifier.inFragWith, Simplifier.ruleOf, p, Term.var, Term.sym]
      · simp [t2, p, a2, x, Term.fv, Term.var, Term.sym, Term.int]
      · simp [div0, Term.div0F, p, Term.var, Term.sym, div0Node]
    · refine ⟨ha.1, ?_, ha.2, ?_, ?_⟩
      · simp [Simplifier.inFrag, Simplifier.inFragWith, Simplifier.ruleOf, a2, x, Term.var, Term.sym, Term.int]
      · simp [t2, p, a2, x, Term.fv, Term.var, Term.sym, Term.int]
      · simp [div0, Term.div0F, a2, x, Term.var, Term.sym, Term.int, div0Node]

-- Ackermannization of `t1` sees three applications and emits the consistency constraint of the
-- two applications of `f`
example (E : Ackermann.Env) : (apps t1).length = 3 ∧ (Ackermann.implications E t1).length = 1 := by
  simp [Ackermann.implications, appsD, apps, t1, x, Term.var, Term.sym, dedup, pairs, sameFn, Term.payload, f]
end examples

end PySMT.C11
