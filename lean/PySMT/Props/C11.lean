import PySMT.Proofs.C11Main
import PySMT.Proofs.C11Simp
/-!
# C11 — CNF conversions and Ackermannization: advertised form and model-by-model equisatisfiability

Models: `Impl/Rewritings/{CNF,PolCNF,Ackermann}.lean` (the code after the repairs F33, F50, F52, F19, F20).
`complete` + `sound` are the two halves of the property: every interpretation satisfying the input
extends on the fresh symbols to one satisfying the output (`ext u I` / `extA u I` agree with `I` on
the input's symbols: second conjunct), and every interpretation satisfying the output satisfies the
input (for Ackermannization: with the eliminated functions read off the fresh constants, `recover`).

Hypotheses, all of them discharged for the models' own fresh-symbol supply by `*_std` / `keys_fresh`:
* `KeysFresh` / `ConstsFresh`: the definition symbols (fresh constants) are pairwise distinct on the
  sub-formulas (applications) that receive one and do not occur in the input — proved for the model
  of `FormulaManager.new_fresh_symbol` (`keys_fresh`, `consts_fresh`); K checks it on every run for
  the real manager.
* `SimpSound`, `SimpSym`, `SimpShape`: what the CNFizers need from `FNode.simplify`, which they use to
  negate literals (C01: truth value preserved under every interpretation that agrees with the given
  one on the input's symbols; symbols are their own simplification; an atom simplifies to a literal
  or a constant).  `id` satisfies all three (`example`s below).
* `t.wf`: the term is built by the `FormulaManager` constructors (arity + type check, `Impl/WF.lean`);
  only the shape theorems and Ackermannization need it.  The CNF equisatisfiability theorems hold for
  every term on which `convert` answers.
-/
namespace PySMT.C11
open PySMT.CNF PySMT.Ackermann
open PySMT.C11.Proofs (KeysFresh ConstsFresh var_wf node_wf allTrue allTrue_wf)

/-! ### CNFizer -/

theorem cnf_shape (E : CNF.Env) (hσ : SimpShape E.simp) (t : Term) (hwf : t.wf = true) (R : List Clause)
    (hR : CNF.convert E t = some R) : shapeClauses R = true :=
  Proofs.cnf_shape E hσ t hwf R hR

theorem cnf_complete (E : CNF.Env) (u : Sym → Option Term) (t : Term) (I : Interp) (R : List Clause)
    (hkeys : KeysFresh E u t) (hσ : SimpSound E.simp t I) (hR : CNF.convert E t = some R)
    (hI : eval I t = .b true) :
    eval (ext u I) (formulaOf R) = .b true ∧ SameOn t I (ext u I) :=
  Proofs.cnf_complete E u t I R hkeys hσ hR hI

theorem cnf_sound (E : CNF.Env) (u : Sym → Option Term) (t : Term) (J : Interp) (R : List Clause)
    (hkeys : KeysFresh E u t) (hs : SimpSym E.simp) (hσ : SimpSound E.simp t J)
    (hR : CNF.convert E t = some R) (hJ : eval J (formulaOf R) = .b true) : eval J t = .b true :=
  Proofs.cnf_sound E u t J R hkeys hs hσ hR hJ

/-! ### PolarityCNFizer -/

theorem polCnf_shape (E : CNF.Env) (hσ : SimpShape E.simp) (t : Term) (hwf : t.wf = true)
    (hqf : t.isQF = true) (R : List Clause) (hR : PolCNF.convert E t = some R) : shapeClauses R = true :=
  Proofs.polCnf_shape E hσ t hwf hqf R hR

theorem polCnf_complete (E : CNF.Env) (u : Sym → Option Term) (t : Term) (I : Interp) (R : List Clause)
    (hkeys : KeysFresh E u t) (hσ : SimpSound E.simp t I) (hR : PolCNF.convert E t = some R)
    (hI : eval I t = .b true) :
    eval (ext u I) (formulaOf R) = .b true ∧ SameOn t I (ext u I) :=
  Proofs.polCnf_complete E u t I R hkeys hσ hR hI

theorem polCnf_sound (E : CNF.Env) (u : Sym → Option Term) (t : Term) (J : Interp) (R : List Clause)
    (hkeys : KeysFresh E u t) (hs : SimpSym E.simp) (hσ : SimpSound E.simp t J)
    (hR : PolCNF.convert E t = some R) (hJ : eval J (formulaOf R) = .b true) : eval J t = .b true :=
  Proofs.polCnf_sound E u t J R hkeys hs hσ hR hJ

/-! ### the CNF theorems with the real simplifier model `PySMT.Simplifier.simp` (C01) in place of the parameter

`SimpSide key t I` (exact side condition, `Proofs/C11Simp.lean`): every term of `simpArgs key t` — the terms the
CNFizer hands to `simplify` when it negates a literal, a computable list — is a definition symbol, or a `wf`
Boolean term of C01's fragment `inFrag` whose symbols are symbols of `t` and in which `I` evaluates no division
by zero.  For inputs whose atoms are already simplified these are the atoms of `t` at Boolean positions.
`ShapeSide`: atoms handed to the simplifier come back as literals or constants (fails only as in finding F51). -/

theorem cnf_sound_simp (key : Term → Sym) (u : Sym → Option Term) (t : Term) (J : Interp) (R : List Clause)
    (hkeys : KeysFresh ⟨key, Simplifier.simp⟩ u t) (hJ : J.WF) (hside : Proofs.SimpSide key t J)
    (hR : CNF.convert ⟨key, Simplifier.simp⟩ t = some R) (h : eval J (formulaOf R) = .b true) :
    eval J t = .b true :=
  Proofs.cnf_sound_simp key u t J R hkeys hJ hside hR h

theorem cnf_complete_simp (key : Term → Sym) (u : Sym → Option Term) (t : Term) (I : Interp) (R : List Clause)
    (hkeys : KeysFresh ⟨key, Simplifier.simp⟩ u t) (hI : I.WF) (hside : Proofs.SimpSide key t I)
    (hR : CNF.convert ⟨key, Simplifier.simp⟩ t = some R) (ht : eval I t = .b true) :
    eval (ext u I) (formulaOf R) = .b true ∧ SameOn t I (ext u I) :=
  Proofs.cnf_complete_simp key u t I R hkeys hI hside hR ht

theorem polCnf_sound_simp (key : Term → Sym) (u : Sym → Option Term) (t : Term) (J : Interp) (R : List Clause)
    (hkeys : KeysFresh ⟨key, Simplifier.simp⟩ u t) (hJ : J.WF) (hside : Proofs.SimpSide key t J)
    (hR : PolCNF.convert ⟨key, Simplifier.simp⟩ t = some R) (h : eval J (formulaOf R) = .b true) :
    eval J t = .b true :=
  Proofs.polCnf_sound_simp key u t J R hkeys hJ hside hR h

theorem polCnf_complete_simp (key : Term → Sym) (u : Sym → Option Term) (t : Term) (I : Interp) (R : List Clause)
    (hkeys : KeysFresh ⟨key, Simplifier.simp⟩ u t) (hI : I.WF) (hside : Proofs.SimpSide key t I)
    (hR : PolCNF.convert ⟨key, Simplifier.simp⟩ t = some R) (ht : eval I t = .b true) :
    eval (ext u I) (formulaOf R) = .b true ∧ SameOn t I (ext u I) :=
  Proofs.polCnf_complete_simp key u t I R hkeys hI hside hR ht

theorem cnf_shape_simp (key : Term → Sym) (t : Term) (hwf : t.wf = true) (hside : Proofs.ShapeSide key t)
    (R : List Clause) (hR : CNF.convert ⟨key, Simplifier.simp⟩ t = some R) : shapeClauses R = true :=
  Proofs.cnf_shape_simp key t hwf hside R hR

theorem polCnf_shape_simp (key : Term → Sym) (t : Term) (hwf : t.wf = true) (hqf : t.isQF = true)
    (hside : Proofs.ShapeSide key t) (R : List Clause)
    (hR : PolCNF.convert ⟨key, Simplifier.simp⟩ t = some R) : shapeClauses R = true :=
  Proofs.polCnf_shape_simp key t hwf hqf hside R hR

/-! ### Ackermannization -/

theorem ack_shape (E : Ackermann.Env) (t : Term) : noApp (ack E t) = true :=
  Proofs.ack_shape E t

theorem ack_complete (E : Ackermann.Env) (u : Sym → Option Term) (t : Term) (I : Interp)
    (hwf : t.wf = true) (hqf : t.isQF = true) (hI : I.WF) (hconsts : ConstsFresh E u t)
    (ht : eval I t = .b true) :
    eval (extA u I) (ack E t) = .b true ∧ SameOn t I (extA u I) :=
  Proofs.ack_complete E u t I hwf hqf hI hconsts ht

theorem ack_sound (E : Ackermann.Env) (t : Term) (J : Interp)
    (hwf : t.wf = true) (hqf : t.isQF = true) (hJ : J.WF) (htyped : KeyTyped E t)
    (h : eval J (ack E t) = .b true) :
    eval (withFns J (recover E t J)) t = .b true :=
  Proofs.ack_sound E t J hwf hqf hJ htyped h

/-! ### the fresh-symbol supply (model of `FormulaManager.new_fresh_symbol`) -/

theorem keys_fresh (σ : Term → Term) (t : Term) : KeysFresh (CNF.stdEnv σ t) (unkey (keyTable t)) t :=
  Proofs.keysFresh_std σ t

theorem consts_fresh (t : Term) : ConstsFresh (Ackermann.stdEnv t) (unkey (constTable t)) t :=
  Proofs.constsFresh_std t

/-! ### what K's canonicalisation forgets is semantically irrelevant -/

theorem canon_eq_symm (I : Interp) (a b : Term) (p : Payload) :
    eval I (.node .equals [a, b] p) = eval I (.node .equals [b, a] p) := eval_eq_symm I a b p

theorem canon_iff_symm (I : Interp) (a b : Term) (p : Payload) :
    eval I (.node .iff [a, b] p) = eval I (.node .iff [b, a] p) := eval_iff_symm I a b p

theorem canon_clause_set (I : Interp) (cs : List Clause) : holdsAll I (norm cs) ↔ holdsAll I cs :=
  holdsAll_norm I cs

/-! ### non-vacuity -/

-- the hypotheses about the simplifier are satisfiable
example (t : Term) (I : Interp) : SimpSound id t I := simpSound_id t I
example : SimpSym id := simpSym_id
example : SimpShape id := simpShape_id

section examples
def p : Term := Term.var "p" .bool
def q : Term := Term.var "q" .bool
def x : Term := Term.var "x" .int
def f : Sym := ⟨"f", [.int], .int⟩
/-- `p ∧ (q ∨ ¬p)` -/
def t0 : Term := .node .and [p, .node .or [q, .node .not [p] .none] .none] .none
/-- `f(f(x)) = f(x)` -/
def t1 : Term :=
  .node .equals [.node .function [.node .function [x] (.sym f)] (.sym f), .node .function [x] (.sym f)] .none

-- the inputs of the examples are well-formed and quantifier-free
example : t0.wf = true := by
  have hp : p.wf = true ∧ p.typeOf = some .bool := var_wf "p" .bool
  have hq : q.wf = true ∧ q.typeOf = some .bool := var_wf "q" .bool
  have hnp := node_wf (op := .not) (args := [p]) (p := .none) (τ := .bool) (by simpa using hp.1) rfl
    (by simp only [List.map_cons, List.map_nil, hp.2]; rfl)
  have hor := node_wf (op := .or) (args := [q, .node .not [p] .none]) (p := .none) (τ := .bool)
    (by intro a ha; simp at ha; rcases ha with rfl | rfl; exact hq.1; exact hnp.1) rfl
    (by simp only [List.map_cons, List.map_nil, hq.2, hnp.2]; rfl)
  exact (node_wf (op := .and) (args := [p, .node .or [q, .node .not [p] .none] .none]) (p := .none) (τ := .bool)
    (by intro a ha; simp at ha; rcases ha with rfl | rfl; exact hp.1; exact hor.1) rfl
    (by simp only [List.map_cons, List.map_nil, hp.2, hor.2]; rfl)).1

example : t1.wf = true := by
  have hx : x.wf = true ∧ x.typeOf = some .int := var_wf "x" .int
  have hfx := node_wf (op := .function) (args := [x]) (p := .sym f) (τ := .int) (by simpa using hx.1) rfl
    (by simp only [List.map_cons, List.map_nil, hx.2]; rfl)
  have hffx := node_wf (op := .function) (args := [.node .function [x] (.sym f)]) (p := .sym f) (τ := .int)
    (by simpa using hfx.1) rfl (by simp only [List.map_cons, List.map_nil, hfx.2]; rfl)
  exact (node_wf (op := .equals)
    (args := [.node .function [.node .function [x] (.sym f)] (.sym f), .node .function [x] (.sym f)])
    (p := .none) (τ := .bool)
    (by intro a ha; simp at ha; rcases ha with rfl | rfl; exact hffx.1; exact hfx.1) rfl
    (by simp only [List.map_cons, List.map_nil, hffx.2, hfx.2]; rfl)).1

example : t0.isQF = true ∧ t1.isQF = true := by
  simp [t0, t1, p, q, x, Term.isQF, Term.subterms, Term.var, Term.sym, Term.op, Op.isQuantifier]

-- both conversions answer on `t0` (for every environment) …
example (E : CNF.Env) : (CNF.convert E t0).isSome = true ∧ (PolCNF.convert E t0).isSome = true := by
  simp [CNF.convert, PolCNF.convert, PolCNF.boolQuant, t0, p, q, Term.isQF, Term.subterms, Term.var, Term.sym,
    Term.op, Op.isQuantifier]

-- … from two definitions with six definitional clauses (three under the root polarity),
example (E : CNF.Env) : (CNF.enc E t0).2.length = 6 ∧ (PolCNF.encP E t0 true).2.length = 3 := by
  simp [CNF.enc, PolCNF.encP, t0, p, q, Term.var, Term.sym, isTrueC, isFalseC]

-- a well-formed interpretation satisfies `t0` (the hypothesis `eval I t = .b true` of `*_complete`),
example : allTrue.WF ∧ eval allTrue t0 = .b true := by
  refine ⟨allTrue_wf, (tv_iff _ _).mp ?_⟩
  simp [t0, p, q, tv_and, tv_or, tv_not, Term.var, tv_sym, allTrue, Sym.var]

-- the side conditions of the `*_simp` theorems hold on `t0` (whatever the key function and interpretation):
-- the simplifier only sees symbols there
example (key : Term → Sym) (I : Interp) : Proofs.SimpSide key t0 I ∧ Proofs.ShapeSide key t0 := by
  have hsym : ∀ s : Sym, Simplifier.simp (Term.node .symbol [] (.sym s)) = Term.node .symbol [] (.sym s) :=
    Proofs.simp_sym
  have hs : ∀ x ∈ Proofs.simpArgs key t0, ∃ s, x = Term.sym s := by
    simp [hsym, Proofs.simpArgs, Proofs.negCalls, Proofs.negArg, CNF.enc, t0, p, q, Term.var, Term.sym, isTrueC, isFalseC,
      CNF.negLit, CNF.simpNot, Term.mkNot]
  constructor
  · intro x hx; exact Or.inl (hs x hx)
  · intro x hx _
    obtain ⟨s, rfl⟩ := hs x hx
    rw [Proofs.simp_sym]; exact Or.inl rfl

-- Ackermannization of `t1` sees three applications and emits the consistency constraint of the
-- two applications of `f`
example (E : Ackermann.Env) : (apps t1).length = 3 ∧ (Ackermann.implications E t1).length = 1 := by
  simp [Ackermann.implications, appsD, apps, t1, x, Term.var, Term.sym, dedup, pairs, sameFn, Term.payload, f]
end examples

end PySMT.C11
