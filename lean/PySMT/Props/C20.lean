import PySMT.Proofs.WalkerMore

/-!
# C20 — work linear in the number of distinct nodes, no recursion over the nesting depth

Every operation named by the property (type checking at construction, simplify, substitute, the formula analyses,
logic detection, nnf / prenex / aig, DAG printing) is a `DagWalker`; `PySMT/Impl/Walker.lean` models that class once,
over an arbitrary finite DAG (`children`, `rank`), an arbitrary callback that may raise, an arbitrary lawful memo.
`g`, `d` (nodes at which a walker overrides the push: quantifiers), `f0`, the initial state `s` and the node `n` are
universally quantified in every theorem below: no bound on size, sharing or depth.  `V` is any list containing the
nodes below `n` (for a request: all nodes of the DAG) and `cost g V` the number of edges leaving them.

Not proved here (observed by the correspondence run): CPython's recursion limit, the SMT-LIB parser's token stack,
`FNode.bv_width` (a `while` loop after the F26 repair).
-/

namespace PySMT.C20
open PySMT.Walker

variable {M N R E : Type} [DecidableEq N] [MemoLike M N R] [LawfulMemo M N R]

/-- `walk` returns exactly the recursive specification `spec n = f n [spec c | c ∈ children n]` (value or error);
    afterwards the walker is idle again: stack empty, memo correct and closed under children. -/
theorem walk_correct (g : Graph N) (d : N → Bool) (f0 : N → List R → Except E R) (inval shortcut : Bool)
    (fuel : Nat) (n : N) (s : WState M N) (hi : Idle g d f0 s) (V : List N) (hV : Covers g d n V)
    (hfuel : 2 * cost g V + 2 ≤ fuel) :
    (walk g d (fun _ => f0) inval shortcut fuel n s).1 = ofSpec (spec g d f0 n) ∧
    Idle g d f0 (walk g d (fun _ => f0) inval shortcut fuel n s).2 :=
  ⟨Walker.walk_correct g d f0 inval shortcut fuel n s hi V hV hfuel,
   walk_idle g d _ f0 (refines_pure f0) inval shortcut fuel n s hi⟩

/-- The callback is invoked exactly once on each distinct node below `n` that was not memoised before, and on no
    other node: `trace` grows by a duplicate-free list `new` whose members are exactly those nodes. -/
theorem calls_eq_distinct (g : Graph N) (d : N → Bool) (f0 : N → List R → Except E R) (inval shortcut : Bool)
    (fuel : Nat) (n : N) (s : WState M N) (hi : Idle g d f0 s) (V : List N) (hV : Covers g d n V)
    (hfuel : 2 * cost g V + 2 ≤ fuel) (r : R) (hok : spec g d f0 n = .ok r) :
    ∃ new, (walk g d (fun _ => f0) inval shortcut fuel n s).2.trace = new ++ s.trace ∧ new.Nodup ∧
      (∀ x, x ∈ new ↔ (Desc g d n x ∧ look s.memo x = none)) ∧
      (walk g d (fun _ => f0) inval shortcut fuel n s).2.calls = s.calls + new.length :=
  Walker.calls_eq_distinct g d f0 inval shortcut fuel n s hi V hV hfuel r hok

/-- Loop iterations and pushes of one walk are at most `2·edges + 2`, whether it returns or raises. -/
theorem steps_le_2E (g : Graph N) (d : N → Bool) (f0 : N → List R → Except E R) (inval shortcut : Bool)
    (fuel : Nat) (n : N) (s : WState M N) (hi : Idle g d f0 s) (V : List N) (hV : Covers g d n V)
    (hfuel : 2 * cost g V + 2 ≤ fuel) :
    (walk g d (fun _ => f0) inval shortcut fuel n s).2.iters ≤ s.iters + (2 * cost g V + 2) ∧
    (walk g d (fun _ => f0) inval shortcut fuel n s).2.pushes ≤ s.pushes + (2 * cost g V + 2) :=
  Walker.steps_le_2E g d f0 inval shortcut fuel n s hi V hV hfuel

/-- `walk` is the `fuel`-fold iteration of the loop body `step` on an explicit work stack (first conjunct: there is no
    other control flow), and at every moment of the loop that stack holds at most `2·edges + 2` entries: the
    machine's storage is linear in the DAG and nothing in it depends on `rank` (the nesting depth). -/
theorem no_recursion (g : Graph N) (d : N → Bool) (f0 : N → List R → Except E R) (inval shortcut : Bool)
    (fuel : Nat) (n : N) (s : WState M N) (hi : Idle g d f0 s) (V : List N) (hV : Covers g d n V)
    (hmiss : (if shortcut then look s.memo n else none) = none) :
    walk g d (fun _ => f0) inval shortcut fuel n s = finish inval n (iter g d (fun _ => f0) fuel (root n s)) ∧
    ∀ i, (iter g d (fun _ => f0) i (root n s)).state.stack.length ≤ 2 * cost g V + 2 :=
  ⟨walk_miss g d _ inval shortcut fuel n s hi.stack hmiss, stack_bound g d f0 n s hi V hV⟩

/-- Type checking at construction: when the children are memoised (they were type-checked when they were built) the
    walk of the new node is a single callback invocation. -/
theorem typecheck_const (g : Graph N) (d : N → Bool) (f0 : N → List R → Except E R) (inval shortcut : Bool)
    (fuel : Nat) (n : N) (s : WState M N) (hi : Idle g d f0 s) (V : List N) (hV : Covers g d n V)
    (hfuel : 2 * cost g V + 2 ≤ fuel) (r : R) (hok : spec g d f0 n = .ok r)
    (hkids : ∀ c ∈ kids g d n, (look s.memo c).isSome) (hn : look s.memo n = none) :
    (walk g d (fun _ => f0) inval shortcut fuel n s).2.trace = n :: s.trace :=
  Walker.typecheck_const g d f0 inval shortcut fuel n s hi V hV hfuel r hok hkids hn

/-! ### Non-vacuity: a diamond chain (tree size 2^4 − 1 = 15, 4 distinct nodes) -/

section example_
open PySMT.WalkerDriver

/-- node k+1 has the two children k, k -/
def dia : Graph Nat := mkGraph #[[], [0, 0], [1, 1], [2, 2]]
def f0 : Nat → List Nat → Except Nat Nat := fun n args => .ok (hcb n args)
def fresh : WState (AMemo Nat Nat) Nat := WState.init

example : Idle dia (fun _ => false) f0 fresh := idle_init _ _ _
example : Covers dia (fun _ => false) 3 [0, 1, 2, 3] := by
  intro x hx
  have : x ≤ 3 := hx.rank_le
  have : x = 0 ∨ x = 1 ∨ x = 2 ∨ x = 3 := by omega
  rcases this with rfl | rfl | rfl | rfl <;> simp
example : 2 * cost dia [0, 1, 2, 3] + 2 = 14 := by decide
-- 4 callbacks (not 15), 14 loop iterations, and the hash of the full tree as result
example : (walk dia (fun _ => false) (fun _ => f0) false true 14 3 fresh).2.trace = [3, 2, 1, 0] := by decide
example : (walk dia (fun _ => false) (fun _ => f0) false true 14 3 fresh).2.iters = 14 := by decide   -- the bound is attained
example : spec dia (fun _ => false) f0 3 = .ok (hcb 3 [hcb 2 [hcb 1 [hcb 0 [], hcb 0 []], hcb 1 [hcb 0 [], hcb 0 []]],
      hcb 2 [hcb 1 [hcb 0 [], hcb 0 []], hcb 1 [hcb 0 [], hcb 0 []]]]) := by
  simp [spec_eq, kids, dia, mkGraph, collect, f0]
-- the hypotheses of `typecheck_const` hold after the children were walked
example : (walk dia (fun _ => false) (fun _ => f0) false true 14 3
            (walk dia (fun _ => false) (fun _ => f0) false true 14 2 fresh).2).2.trace = [3, 2, 1, 0] := by decide

end example_

end PySMT.C20
