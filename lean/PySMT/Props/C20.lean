import PySMT.Proofs.WalkerMore
import PySMT.Proofs.WalkerInstSimp
import PySMT.Proofs.WalkerBuild
import PySMT.Proofs.TreeWalker

/-!
# C20 — work linear in the number of distinct nodes, no recursion over the nesting depth

Every operation named by the property (type checking at construction, simplify, substitute, the formula analyses,
logic detection, nnf / prenex / aig, DAG printing) is a `DagWalker`; `PySMT/Impl/Walker.lean` models that class once,
over an arbitrary finite DAG (`children`, `rank`), an arbitrary callback that may raise, an arbitrary lawful memo.
`g`, `d` (nodes at which a walker overrides the push: quantifiers), `f0`, the initial state `s` and the node `n` are
universally quantified in every theorem below: no bound on size, sharing or depth.  `V` is any list containing the
nodes below `n` (for a request: all nodes of the DAG) and `cost g V` the number of edges leaving them.

Instances stated below: the simplifier, the free-variables oracle, the tree-size measure (plain key space), the
size oracle on its real key space `(measure, formula)` (`Graph.tagged`), the polarity CNF-izer's key space with its
own child function (`Graph.tagged` + `Graph.withChildren`), type checking over a whole build sequence, and the
non-memoising `TreeWalker` of walkers/tree.py (visits = TREE size).  The other operations of the property
(substitution: `Props/C14.lean`; logic detection, nnf / prenex / aig, DAG printing) are covered by the generic
theorems as instances of `DagWalker` only, through the correspondence run.  Callbacks are functions of
`(node, results of the children)`: a callback that re-enters `walk` on the same walker is outside the theorems.

Not proved here (observed by the correspondence run): CPython's recursion limit, the SMT-LIB parser's token stack,
the size of the DAG printer's output, `FNode.bv_width` (a `while` loop after the F26 repair).
-/

namespace PySMT.C20
open PySMT.Walker

/-- diamond chain used in the examples: node k+1 has the two children k, k (tree size 15, 4 distinct nodes) -/
def dia_ : Graph Nat := PySMT.WalkerDriver.mkGraph #[[], [0, 0], [1, 1], [2, 2]]

variable {M N R E : Type} [DecidableEq N] [MemoLike M N R] [LawfulMemo M N R]

/-- `walk` returns exactly the recursive specification `spec n = f n [spec c | c ∈ children n]` (value or error);
    afterwards the walker is idle again: stack empty, memo correct and closed under children. -/
theorem walk_correct (g : Graph N) (d : N → Bool) (f0 : N → List R → Except E R) (inval shortcut : Bool)
    (fuel : Nat) (n : N) (s : WState M N) (hi : Idle g d f0 s) (V : List N) (hV : Covers g d n V)
    (hfuel : 2 * cost g V + 2 ≤ fuel) :
    (walk g d (fun _ => f0) inval shortcut fuel n s).1 = ofSpec (spec g d f0 n) ∧
    Idle g d f0 (walk g d (fun _ => f0) inval shortcut fuel n s).2 :=
  ⟨Walker.walk_correct g d f0 inval shortcut fuel n s hi V hV hfuel,
   walk_idle g d _ f0 (refines_pure f0) inval shortcut fuel n s hi⟩

/-- The callback is invoked exactly once on each distinct node below `n` that was not memoised before, and on no
    other node: `trace` grows by a duplicate-free list `new` whose members are exactly those nodes. -/
theorem calls_eq_distinct (g : Graph N) (d : N → Bool) (f0 : N → List R → Except E R) (inval shortcut : Bool)
    (fuel : Nat) (n : N) (s : WState M N) (hi : Idle g d f0 s) (V : List N) (hV : Covers g d n V)
    (hfuel : 2 * cost g V + 2 ≤ fuel) (r : R) (hok : spec g d f0 n = .ok r) :
    ∃ new, (walk g d (fun _ => f0) inval shortcut fuel n s).2.trace = new ++ s.trace ∧ new.Nodup ∧
      (∀ x, x ∈ new ↔ (Desc g d n x ∧ look s.memo x = none)) ∧
      (walk g d (fun _ => f0) inval shortcut fuel n s).2.calls = s.calls + new.length :=
  Walker.calls_eq_distinct g d f0 inval shortcut fuel n s hi V hV hfuel r hok

/-- Loop iterations and pushes of one walk are at most `2·edges + 2`, whether it returns or raises. -/
theorem steps_le_2E (g : Graph N) (d : N → Bool) (f0 : N → List R → Except E R) (inval shortcut : Bool)
    (fuel : Nat) (n : N) (s : WState M N) (hi : Idle g d f0 s) (V : List N) (hV : Covers g d n V)
    (hfuel : 2 * cost g V + 2 ≤ fuel) :
    (walk g d (fun _ => f0) inval shortcut fuel n s).2.iters ≤ s.iters + (2 * cost g V + 2) ∧
    (walk g d (fun _ => f0) inval shortcut fuel n s).2.pushes ≤ s.pushes + (2 * cost g V + 2) :=
  Walker.steps_le_2E g d f0 inval shortcut fuel n s hi V hV hfuel

/-- At every moment of the loop the explicit work stack holds at most `2·edges + 2` entries (second conjunct): the
    machine's storage is linear in the DAG and nothing in it depends on `rank` (the nesting depth).
    The first conjunct, `walk = finish ∘ iter step`, is DEFINITIONAL: it unfolds how the model was written (a `fuel`-fold
    iteration of the loop body, no other control flow) and says nothing about Python by itself; that the Python loop is
    this iteration is what the correspondence run checks (pushes, iterations and stack length compared exactly). -/
theorem no_recursion (g : Graph N) (d : N → Bool) (f0 : N → List R → Except E R) (inval shortcut : Bool)
    (fuel : Nat) (n : N) (s : WState M N) (hi : Idle g d f0 s) (V : List N) (hV : Covers g d n V)
    (hmiss : (if shortcut then look s.memo n else none) = none) :
    walk g d (fun _ => f0) inval shortcut fuel n s = finish inval n (iter g d (fun _ => f0) fuel (root n s)) ∧
    ∀ i, (iter g d (fun _ => f0) i (root n s)).state.stack.length ≤ 2 * cost g V + 2 :=
  ⟨walk_miss g d _ inval shortcut fuel n s hi.stack hmiss, stack_bound g d f0 n s hi V hV⟩

/-- Type checking at construction: when the children are memoised (they were type-checked when they were built) the
    walk of the new node is a single callback invocation. -/
theorem typecheck_const (g : Graph N) (d : N → Bool) (f0 : N → List R → Except E R) (inval shortcut : Bool)
    (fuel : Nat) (n : N) (s : WState M N) (hi : Idle g d f0 s) (V : List N) (hV : Covers g d n V)
    (hfuel : 2 * cost g V + 2 ≤ fuel) (r : R) (hok : spec g d f0 n = .ok r)
    (hkids : ∀ c ∈ kids g d n, (look s.memo c).isSome) (hn : look s.memo n = none) :
    (walk g d (fun _ => f0) inval shortcut fuel n s).2.trace = n :: s.trace :=
  Walker.typecheck_const g d f0 inval shortcut fuel n s hi V hV hfuel r hok hkids hn

/-! ### The recursive models of C01 / C12 are what the memoised iterative walk computes

    Instantiation of the generic walker on the graph of `Term`s (`termGraph`: nodes = terms, children = `args`,
    rank = `Term.size`, key = the term).  `FoldIdle d F s`: the walker `s` is idle and its memo holds values of `F`
    only, closed under arguments -- every state reachable by earlier walks of the same walker, and the fresh one. -/

/-- For any bottom-up function `F (.node op args p) = g (.node op args p) (args.map F)`: the walk with callbacks `g`
    returns `F t`, invokes the callback exactly once per distinct sub-term of `t` not memoised before, performs at most
    `dagBound t = 2·(edges of the DAG of t) + 2` loop iterations and pushes (`dagNodes t = t.subterms.eraseDups`: every
    distinct sub-term counted once -- linear in the DAG even where the tree `t.size` is exponential), and leaves a
    walker of the same kind. -/
theorem walk_eq_fold {M R E : Type} [MemoLike M Term R] [LawfulMemo M Term R]
    (g : Term → List R → R) (F : Term → R) (hF : ∀ t, F t = g t (t.args.map F))
    (inval shortcut : Bool) (fuel : Nat) (t : Term) (s : WState M Term) (hi : FoldIdle (fun _ => false) F s)
    (hfuel : dagBound t ≤ fuel) :
    let r := walk termGraph (fun _ => false) (fun _ => cbOf (E := E) g) inval shortcut fuel t s
    r.1 = .ok (F t) ∧
    (∃ new, r.2.trace = new ++ s.trace ∧ new.Nodup ∧
        (∀ x, x ∈ new ↔ (x ∈ t.subterms ∧ look s.memo x = none)) ∧ r.2.calls = s.calls + new.length) ∧
    (r.2.iters ≤ s.iters + dagBound t ∧ r.2.pushes ≤ s.pushes + dagBound t) ∧
    FoldIdle (fun _ => false) F r.2 :=
  Walker.walk_eq_fold g F hF inval shortcut fuel t s hi hfuel

/-- C01's model `simp (.node op args p) = rule_op p (args.map simp)` is computed by the `Simplifier` walk. -/
theorem simplify_walk_eq_simp {M E : Type} [MemoLike M Term Term] [LawfulMemo M Term Term]
    (inval shortcut : Bool) (fuel : Nat) (t : Term) (s : WState M Term)
    (hi : FoldIdle (fun _ => false) Simplifier.simp s) (hfuel : dagBound t ≤ fuel) :
    let r := walk termGraph (fun _ => false) (fun _ => cbOf (E := E) (simpCb Simplifier.ruleOf))
               inval shortcut fuel t s
    r.1 = .ok (Simplifier.simp t) ∧
    (∃ new, r.2.trace = new ++ s.trace ∧ new.Nodup ∧
        (∀ x, x ∈ new ↔ (x ∈ t.subterms ∧ look s.memo x = none)) ∧ r.2.calls = s.calls + new.length) ∧
    (r.2.iters ≤ s.iters + dagBound t ∧ r.2.pushes ≤ s.pushes + dagBound t) ∧
    FoldIdle (fun _ => false) Simplifier.simp r.2 :=
  Walker.simplify_walk_eq_simp inval shortcut fuel t s hi hfuel

/-- C12's `fvO` is computed by the `FreeVarsOracle` walk. -/
theorem freevars_walk_eq {M E : Type} [MemoLike M Term (List Sym)] [LawfulMemo M Term (List Sym)]
    (inval shortcut : Bool) (fuel : Nat) (t : Term) (s : WState M Term)
    (hi : FoldIdle (fun _ => false) Oracles.fvO s) (hfuel : dagBound t ≤ fuel) :
    let r := walk termGraph (fun _ => false)
      (fun _ => cbOf (E := E) (fun n rs => Oracles.fvNode n.op n.payload rs)) inval shortcut fuel t s
    r.1 = .ok (Oracles.fvO t) ∧
    (∃ new, r.2.trace = new ++ s.trace ∧ new.Nodup ∧
        (∀ x, x ∈ new ↔ (x ∈ t.subterms ∧ look s.memo x = none)) ∧ r.2.calls = s.calls + new.length) ∧
    (r.2.iters ≤ s.iters + dagBound t ∧ r.2.pushes ≤ s.pushes + dagBound t) ∧
    FoldIdle (fun _ => false) Oracles.fvO r.2 :=
  Walker.freevars_walk_eq inval shortcut fuel t s hi hfuel

/-- The tree-size measure (exponential in the number of distinct nodes on a diamond chain) is computed with one
    callback per distinct sub-term. -/
theorem size_tree_walk_eq {M E : Type} [MemoLike M Term Nat] [LawfulMemo M Term Nat]
    (inval shortcut : Bool) (fuel : Nat) (t : Term) (s : WState M Term)
    (hi : FoldIdle (fun _ => false) Oracles.treeO s) (hfuel : dagBound t ≤ fuel) :
    let r := walk termGraph (fun _ => false)
      (fun _ => cbOf (E := E) (fun (_ : Term) rs => 1 + rs.sum)) inval shortcut fuel t s
    r.1 = .ok (Oracles.treeO t) ∧
    (∃ new, r.2.trace = new ++ s.trace ∧ new.Nodup ∧
        (∀ x, x ∈ new ↔ (x ∈ t.subterms ∧ look s.memo x = none)) ∧ r.2.calls = s.calls + new.length) ∧
    (r.2.iters ≤ s.iters + dagBound t ∧ r.2.pushes ≤ s.pushes + dagBound t) ∧
    FoldIdle (fun _ => false) Oracles.treeO r.2 :=
  Walker.size_tree_walk_eq inval shortcut fuel t s hi hfuel

/-- Type checking at construction over a whole build sequence: from an idle manager, `create_node` on the contents
    `cs` in order (`Ready`: when a content is reached its children have been type-checked -- they were built earlier
    in the sequence or before it; `htot`: the type checker's callbacks return `None` rather than raise) invokes the
    type checker's callback exactly once on each distinct content not type-checked before, and on nothing else. -/
theorem build_sequence_calls {T : Type} [MemoLike M N (Option T)] [LawfulMemo M N (Option T)]
    (g : Graph N) (tc0 : N → List (Option T) → Except E (Option T))
    (htot : ∀ n args, ∃ r, tc0 n args = .ok r) (fuel : Nat) (V : List N) (hfuel : 2 * cost g V + 2 ≤ fuel)
    (cs : List N) (hV : ∀ c ∈ cs, Covers g (fun _ => false) c V)
    (s : Mgr M N) (hi : Idle g (fun _ => false) tc0 s.stc) (hr : Ready g tc0 fuel cs s) :
    ∃ new, (buildSeq g tc0 fuel cs s).stc.trace = new ++ s.stc.trace ∧ new.Nodup ∧
      (∀ x, x ∈ new ↔ (x ∈ cs ∧ look s.stc.memo x = none)) ∧
      (buildSeq g tc0 fuel cs s).stc.calls = s.stc.calls + new.length ∧
      Idle g (fun _ => false) tc0 (buildSeq g tc0 fuel cs s).stc :=
  Walker.build_sequence_calls g tc0 htot fuel V hfuel cs hV s hi hr

/-- `SizeOracle` on its real key space `(measure, formula)` (`Graph.tagged`): one callback per distinct not yet
    memoised key `(m, sub-term)`, at most `2·edges + 2` iterations and pushes. -/
theorem size_tagged_walk_linear {M E : Type} [MemoLike M (NatMeasure × Term) Nat] [LawfulMemo M (NatMeasure × Term) Nat]
    (f0 : NatMeasure × Term → List Nat → Except E Nat) (inval : Bool) (fuel : Nat) (k : NatMeasure × Term)
    (s : WState M (NatMeasure × Term)) (hi : Idle (termGraph.tagged NatMeasure) (fun _ => false) f0 s)
    (V : List (NatMeasure × Term)) (hV : Covers (termGraph.tagged NatMeasure) (fun _ => false) k V)
    (hfuel : 2 * cost (termGraph.tagged NatMeasure) V + 2 ≤ fuel) :
    (walk (termGraph.tagged NatMeasure) (fun _ => false) (fun _ => f0) inval false fuel k s).1
        = ofSpec (spec (termGraph.tagged NatMeasure) (fun _ => false) f0 k) ∧
    (walk (termGraph.tagged NatMeasure) (fun _ => false) (fun _ => f0) inval false fuel k s).2.iters
        ≤ s.iters + (2 * cost (termGraph.tagged NatMeasure) V + 2) ∧
    (walk (termGraph.tagged NatMeasure) (fun _ => false) (fun _ => f0) inval false fuel k s).2.pushes
        ≤ s.pushes + (2 * cost (termGraph.tagged NatMeasure) V + 2) :=
  ⟨Walker.walk_correct _ _ f0 inval false fuel k s hi V hV hfuel,
   Walker.steps_le_2E _ _ f0 inval false fuel k s hi V hV hfuel⟩

/-- `PolarityCNFizer`: keys `(polarity, formula)` and its own `_get_children` (`polGraph` = `Graph.tagged` +
    `Graph.withChildren`): the walk returns the recursive specification over that child function and is linear. -/
theorem polarity_walk_linear {M R E : Type} [MemoLike M (Bool × Term) R] [LawfulMemo M (Bool × Term) R]
    (f0 : Bool × Term → List R → Except E R) (inval : Bool) (fuel : Nat) (k : Bool × Term)
    (s : WState M (Bool × Term)) (hi : Idle polGraph (fun _ => false) f0 s)
    (V : List (Bool × Term)) (hV : Covers polGraph (fun _ => false) k V) (hfuel : 2 * cost polGraph V + 2 ≤ fuel) :
    (walk polGraph (fun _ => false) (fun _ => f0) inval false fuel k s).1 = ofSpec (spec polGraph (fun _ => false) f0 k) ∧
    (walk polGraph (fun _ => false) (fun _ => f0) inval false fuel k s).2.iters ≤ s.iters + (2 * cost polGraph V + 2) ∧
    (walk polGraph (fun _ => false) (fun _ => f0) inval false fuel k s).2.pushes ≤ s.pushes + (2 * cost polGraph V + 2) :=
  ⟨Walker.walk_correct _ _ f0 inval false fuel k s hi V hV hfuel,
   Walker.steps_le_2E _ _ f0 inval false fuel k s hi V hV hfuel⟩

/-! ### `TreeWalker` (walkers/tree.py:43-84): a stack of generators, no memo -/

/-- `TreeWalker.walk` terminates with an empty stack after invoking exactly `tsize root` walk functions -- the size
    of the TREE expansion (`gen n`: the walk function of `n` is a generator yielding its children): a sub-formula with
    k occurrences is walked k times, so HR serialisation and tree-style SMT-LIB printing are linear in the tree, NOT
    in the DAG -- with at most `2·tsize root` loop iterations. -/
theorem tree_walk_visits (g : Graph N) (gen : N → Bool) (root : N) (fuel : Nat)
    (hfuel : 2 * TreeWalker.tsize g gen root ≤ fuel) :
    (TreeWalker.twalk g gen fuel root).stack = [] ∧
    (TreeWalker.twalk g gen fuel root).visits.length = TreeWalker.tsize g gen root ∧
    (TreeWalker.twalk g gen fuel root).steps ≤ 2 * TreeWalker.tsize g gen root :=
  TreeWalker.tree_walk_visits g gen root fuel hfuel

/-- At every moment the explicit stack of generators holds at most `height root` frames (the nesting depth); the loop
    is the iteration `titer` of `tstep`: no call depth of the host grows with the nesting -- for walk functions that
    `yield` their children.  (The string operators of `HRPrinter` / `SmtPrinter` call `self.walk` re-entrantly instead:
    finding F46.) -/
theorem tree_walk_stack (g : Graph N) (gen : N → Bool) (root : N) (hg : gen root = true) (i : Nat) :
    (TreeWalker.titer g gen i ⟨[g.children root], [root], 0⟩).stack.length ≤ TreeWalker.height g gen root :=
  TreeWalker.tree_walk_stack g gen root hg i

-- non-vacuity: the fresh walker satisfies the hypotheses, for every term, with the budget `dagBound t`
example : FoldIdle (fun _ => false) Simplifier.simp (WState.init : WState (AMemo Term Term) Term) := foldIdle_init _ _
example (t : Term) :
    (walk termGraph (fun _ => false) (fun _ => cbOf (E := Unit) (simpCb Simplifier.ruleOf)) false true (dagBound t) t
        (WState.init : WState (AMemo Term Term) Term)).1 = .ok (Simplifier.simp t) :=
  (Walker.simplify_walk_eq_simp false true _ t _ (foldIdle_init _ _) (Nat.le_refl _)).1

-- non-vacuity of the new instances: fresh walkers / managers, an empty and a one-element build sequence
example : Idle polGraph (fun _ => false) (fun (_ : Bool × Term) (rs : List Nat) => (.ok rs.sum : Except Unit Nat))
    (WState.init : WState (AMemo (Bool × Term) Nat) (Bool × Term)) := idle_init _ _ _
example : TreeWalker.tsize dia_ (fun _ => true) 3 = 15 ∧ TreeWalker.height dia_ (fun _ => true) 3 = 4 := by
  simp [TreeWalker.tsize_eq, TreeWalker.height_eq, dia_, PySMT.WalkerDriver.mkGraph, TreeWalker.listMax]

/-! ### Non-vacuity: a diamond chain (tree size 2^4 − 1 = 15, 4 distinct nodes) -/

section example_
open PySMT.WalkerDriver

/-- node k+1 has the two children k, k -/
def dia : Graph Nat := mkGraph #[[], [0, 0], [1, 1], [2, 2]]
def f0 : Nat → List Nat → Except Nat Nat := fun n args => .ok (hcb n args)
def fresh : WState (AMemo Nat Nat) Nat := WState.init

example : Idle dia (fun _ => false) f0 fresh := idle_init _ _ _
example : Covers dia (fun _ => false) 3 [0, 1, 2, 3] := by
  intro x hx
  have : x ≤ 3 := hx.rank_le
  have : x = 0 ∨ x = 1 ∨ x = 2 ∨ x = 3 := by omega
  rcases this with rfl | rfl | rfl | rfl <;> simp
example : 2 * cost dia [0, 1, 2, 3] + 2 = 14 := by decide
-- 4 callbacks (not 15), 14 loop iterations, and the hash of the full tree as result
example : (walk dia (fun _ => false) (fun _ => f0) false true 14 3 fresh).2.trace = [3, 2, 1, 0] := by decide
example : (walk dia (fun _ => false) (fun _ => f0) false true 14 3 fresh).2.iters = 14 := by decide   -- the bound is attained
example : spec dia (fun _ => false) f0 3 = .ok (hcb 3 [hcb 2 [hcb 1 [hcb 0 [], hcb 0 []], hcb 1 [hcb 0 [], hcb 0 []]],
      hcb 2 [hcb 1 [hcb 0 [], hcb 0 []], hcb 1 [hcb 0 [], hcb 0 []]]]) := by
  simp [spec_eq, kids, dia, mkGraph, collect, f0]
-- the hypotheses of `typecheck_const` hold after the children were walked
example : (walk dia (fun _ => false) (fun _ => f0) false true 14 3
            (walk dia (fun _ => false) (fun _ => f0) false true 14 2 fresh).2).2.trace = [3, 2, 1, 0] := by decide

end example_

end PySMT.C20
