import PySMT.Proofs.WalkerMore
import PySMT.Proofs.WalkerInstSimp

/-!
# C20 — work linear in the number of distinct nodes, no recursion over the nesting depth

Every operation named by the property (type checking at construction, simplify, substitute, the formula analyses,
logic detection, nnf / prenex / aig, DAG printing) is a `DagWalker`; `PySMT/Impl/Walker.lean` models that class once,
over an arbitrary finite DAG (`children`, `rank`), an arbitrary callback that may raise, an arbitrary lawful memo.
`g`, `d` (nodes at which a walker overrides the push: quantifiers), `f0`, the initial state `s` and the node `n` are
universally quantified in every theorem below: no bound on size, sharing or depth.  `V` is any list containing the
nodes below `n` (for a request: all nodes of the DAG) and `cost g V` the number of edges leaving them.

Not proved here (observed by the correspondence run): CPython's recursion limit, the SMT-LIB parser's token stack,
`FNode.bv_width` (a `while` loop after the F26 repair).
-/

namespace PySMT.C20
open PySMT.Walker

variable {M N R E : Type} [DecidableEq N] [MemoLike M N R] [LawfulMemo M N R]

/-- `walk` returns exactly the recursive specification `spec n = f n [spec c | c ∈ children n]` (value or error);
    afterwards the walker is idle again: stack empty, memo correct and closed under children. -/
theorem walk_correct (g : Graph N) (d : N → Bool) (f0 : N → List R → Except E R) (inval shortcut : Bool)
    (fuel : Nat) (n : N) (s : WState M N) (hi : Idle g d f0 s) (V : List N) (hV : Covers g d n V)
    (hfuel : 2 * cost g V + 2 ≤ fuel) :
    (walk g d (fun _ => f0) inval shortcut fuel n s).1 = ofSpec (spec g d f0 n) ∧
    Idle g d f0 (walk g d (fun _ => f0) inval shortcut fuel n s).2 :=
  ⟨Walker.walk_correct g d f0 inval shortcut fuel n s hi V hV hfuel,
   walk_idle g d _ f0 (refines_pure f0) inval shortcut fuel n s hi⟩

/-- The callback is invoked exactly once on each distinct node below `n` that was not memoised before, and on no
    other node: `trace` grows by a duplicate-free list `new` whose members are exactly those nodes. -/
theorem calls_eq_distinct (g : Graph N) (d : N → Bool) (f0 : N → List R → Except E R) (inval shortcut : Bool)
    (fuel : Nat) (n : N) (s : WState M N) (hi : Idle g d f0 s) (V : List N) (hV : Covers g d n V)
    (hfuel : 2 * cost g V + 2 ≤ fuel) (r : R) (hok : spec g d f0 n = .ok r) :
    ∃ new, (walk g d (fun _ => f0) inval shortcut fuel n s).2.trace = new ++ s.trace ∧ new.Nodup ∧
      (∀ x, x ∈ new ↔ (Desc g d n x ∧ look s.memo x = none)) ∧
      (walk g d (fun _ => f0) inval shortcut fuel n s).2.calls = s.calls + new.length :=
  Walker.calls_eq_distinct g d f0 inval shortcut fuel n s hi V hV hfuel r hok

/-- Loop iterations and pushes of one walk are at most `2·edges + 2`, whether it returns or raises. -/
theorem steps_le_2E (g : Graph N) (d : N → Bool) (f0 : N → List R → Except E R) (inval shortcut : Bool)
    (fuel : Nat) (n : N) (s : WState M N) (hi : Idle g d f0 s) (V : List N) (hV : Covers g d n V)
    (hfuel : 2 * cost g V + 2 ≤ fuel) :
    (walk g d (fun _ => f0) inval shortcut fuel n s).2.iters ≤ s.iters + (2 * cost g V + 2) ∧
    (walk g d (fun _ => f0) inval shortcut fuel n s).2.pushes ≤ s.pushes + (2 * cost g V + 2) :=
  Walker.steps_le_2E g d f0 inval shortcut fuel n s hi V hV hfuel

/-- `walk` is the `fuel`-fold iteration of the loop body `step` on an explicit work stack (first conjunct: there is no
    other control flow), and at every moment of the loop that stack holds at most `2·edges + 2` entries: the
    machine's storage is linear in the DAG and nothing in it depends on `rank` (the nesting depth). -/
theorem no_recursion (g : Graph N) (d : N → Bool) (f0 : N → List R → Except E R) (inval shortcut : Bool)
    (fuel : Nat) (n : N) (s : WState M N) (hi : Idle g d f0 s) (V : List N) (hV : Covers g d n V)
    (hmiss : (if shortcut then look s.memo n else none) = none) :
    walk g d (fun _ => f0) inval shortcut fuel n s = finish inval n (iter g d (fun _ => f0) fuel (root n s)) ∧
    ∀ i, (iter g d (fun _ => f0) i (root n s)).state.stack.length ≤ 2 * cost g V + 2 :=
  ⟨walk_miss g d _ inval shortcut fuel n s hi.stack hmiss, stack_bound g d f0 n s hi V hV⟩

/-- Type checking at construction: when the children are memoised (they were type-checked when they were built) the
    walk of the new node is a single callback invocation. -/
theorem typecheck_const (g : Graph N) (d : N → Bool) (f0 : N → List R → Except E R) (inval shortcut : Bool)
    (fuel : Nat) (n : N) (s : WState M N) (hi : Idle g d f0 s) (V : List N) (hV : Covers g d n V)
    (hfuel : 2 * cost g V + 2 ≤ fuel) (r : R) (hok : spec g d f0 n = .ok r)
    (hkids : ∀ c ∈ kids g d n, (look s.memo c).isSome) (hn : look s.memo n = none) :
    (walk g d (fun _ => f0) inval shortcut fuel n s).2.trace = n :: s.trace :=
  Walker.typecheck_const g d f0 inval shortcut fuel n s hi V hV hfuel r hok hkids hn

/-! ### The recursive models of C01 / C12 are what the memoised iterative walk computes

    Instantiation of the generic walker on the graph of `Term`s (`termGraph`: nodes = terms, children = `args`,
    rank = `Term.size`, key = the term).  `FoldIdle d F s`: the walker `s` is idle and its memo holds values of `F`
    only, closed under arguments -- every state reachable by earlier walks of the same walker, and the fresh one. -/

/-- For any bottom-up function `F (.node op args p) = g (.node op args p) (args.map F)`: the walk with callbacks `g`
    returns `F t`, invokes the callback exactly once per distinct sub-term of `t` not memoised before, and leaves a
    walker of the same kind; `2·size t` loop iterations suffice. -/
theorem walk_eq_fold {M R E : Type} [MemoLike M Term R] [LawfulMemo M Term R]
    (g : Term → List R → R) (F : Term → R) (hF : ∀ t, F t = g t (t.args.map F))
    (inval shortcut : Bool) (fuel : Nat) (t : Term) (s : WState M Term) (hi : FoldIdle (fun _ => false) F s)
    (hfuel : 2 * t.size ≤ fuel) :
    let r := walk termGraph (fun _ => false) (fun _ => cbOf (E := E) g) inval shortcut fuel t s
    r.1 = .ok (F t) ∧
    (∃ new, r.2.trace = new ++ s.trace ∧ new.Nodup ∧
        (∀ x, x ∈ new ↔ (x ∈ t.subterms ∧ look s.memo x = none)) ∧ r.2.calls = s.calls + new.length) ∧
    FoldIdle (fun _ => false) F r.2 :=
  Walker.walk_eq_fold g F hF inval shortcut fuel t s hi hfuel

/-- C01's model `simp (.node op args p) = rule_op p (args.map simp)` is computed by the `Simplifier` walk. -/
theorem simplify_walk_eq_simp {M E : Type} [MemoLike M Term Term] [LawfulMemo M Term Term]
    (inval shortcut : Bool) (fuel : Nat) (t : Term) (s : WState M Term)
    (hi : FoldIdle (fun _ => false) Simplifier.simp s) (hfuel : 2 * t.size ≤ fuel) :
    let r := walk termGraph (fun _ => false) (fun _ => cbOf (E := E) (simpCb Simplifier.ruleOf))
               inval shortcut fuel t s
    r.1 = .ok (Simplifier.simp t) ∧
    (∃ new, r.2.trace = new ++ s.trace ∧ new.Nodup ∧
        (∀ x, x ∈ new ↔ (x ∈ t.subterms ∧ look s.memo x = none)) ∧ r.2.calls = s.calls + new.length) ∧
    FoldIdle (fun _ => false) Simplifier.simp r.2 :=
  Walker.simplify_walk_eq_simp inval shortcut fuel t s hi hfuel

/-- C12's `fvO` is computed by the `FreeVarsOracle` walk. -/
theorem freevars_walk_eq {M E : Type} [MemoLike M Term (List Sym)] [LawfulMemo M Term (List Sym)]
    (inval shortcut : Bool) (fuel : Nat) (t : Term) (s : WState M Term)
    (hi : FoldIdle (fun _ => false) Oracles.fvO s) (hfuel : 2 * t.size ≤ fuel) :
    let r := walk termGraph (fun _ => false)
      (fun _ => cbOf (E := E) (fun n rs => Oracles.fvNode n.op n.payload rs)) inval shortcut fuel t s
    r.1 = .ok (Oracles.fvO t) ∧
    (∃ new, r.2.trace = new ++ s.trace ∧ new.Nodup ∧
        (∀ x, x ∈ new ↔ (x ∈ t.subterms ∧ look s.memo x = none)) ∧ r.2.calls = s.calls + new.length) ∧
    FoldIdle (fun _ => false) Oracles.fvO r.2 :=
  Walker.freevars_walk_eq inval shortcut fuel t s hi hfuel

/-- The tree-size measure (exponential in the number of distinct nodes on a diamond chain) is computed with one
    callback per distinct sub-term. -/
theorem size_tree_walk_eq {M E : Type} [MemoLike M Term Nat] [LawfulMemo M Term Nat]
    (inval shortcut : Bool) (fuel : Nat) (t : Term) (s : WState M Term)
    (hi : FoldIdle (fun _ => false) Oracles.treeO s) (hfuel : 2 * t.size ≤ fuel) :
    let r := walk termGraph (fun _ => false)
      (fun _ => cbOf (E := E) (fun (_ : Term) rs => 1 + rs.sum)) inval shortcut fuel t s
    r.1 = .ok (Oracles.treeO t) ∧
    (∃ new, r.2.trace = new ++ s.trace ∧ new.Nodup ∧
        (∀ x, x ∈ new ↔ (x ∈ t.subterms ∧ look s.memo x = none)) ∧ r.2.calls = s.calls + new.length) ∧
    FoldIdle (fun _ => false) Oracles.treeO r.2 :=
  Walker.size_tree_walk_eq inval shortcut fuel t s hi hfuel

-- non-vacuity: the fresh walker satisfies the hypotheses, for every term, with the budget `2·size t`
example : FoldIdle (fun _ => false) Simplifier.simp (WState.init : WState (AMemo Term Term) Term) := foldIdle_init _ _
example (t : Term) :
    (walk termGraph (fun _ => false) (fun _ => cbOf (E := Unit) (simpCb Simplifier.ruleOf)) false true (2 * t.size) t
        (WState.init : WState (AMemo Term Term) Term)).1 = .ok (Simplifier.simp t) :=
  (Walker.simplify_walk_eq_simp false true _ t _ (foldIdle_init _ _) (Nat.le_refl _)).1

/-! ### Non-vacuity: a diamond chain (tree size 2^4 − 1 = 15, 4 distinct nodes) -/

section example_
open PySMT.WalkerDriver

/-- node k+1 has the two children k, k -/
def dia : Graph Nat := mkGraph #[[], [0, 0], [1, 1], [2, 2]]
def f0 : Nat → List Nat → Except Nat Nat := fun n args => .ok (hcb n args)
def fresh : WState (AMemo Nat Nat) Nat := WState.init

example : Idle dia (fun _ => false) f0 fresh := idle_init _ _ _
example : Covers dia (fun _ => false) 3 [0, 1, 2, 3] := by
  intro x hx
  have : x ≤ 3 := hx.rank_le
  have : x = 0 ∨ x = 1 ∨ x = 2 ∨ x = 3 := by omega
  rcases this with rfl | rfl | rfl | rfl <;> simp
example : 2 * cost dia [0, 1, 2, 3] + 2 = 14 := by decide
-- 4 callbacks (not 15), 14 loop iterations, and the hash of the full tree as result
example : (walk dia (fun _ => false) (fun _ => f0) false true 14 3 fresh).2.trace = [3, 2, 1, 0] := by decide
example : (walk dia (fun _ => false) (fun _ => f0) false true 14 3 fresh).2.iters = 14 := by decide   -- the bound is attained
example : spec dia (fun _ => false) f0 3 = .ok (hcb 3 [hcb 2 [hcb 1 [hcb 0 [], hcb 0 []], hcb 1 [hcb 0 [], hcb 0 []]],
      hcb 2 [hcb 1 [hcb 0 [], hcb 0 []], hcb 1 [hcb 0 [], hcb 0 []]]]) := by
  simp [spec_eq, kids, dia, mkGraph, collect, f0]
-- the hypotheses of `typecheck_const` hold after the children were walked
example : (walk dia (fun _ => false) (fun _ => f0) false true 14 3
            (walk dia (fun _ => false) (fun _ => f0) false true 14 2 fresh).2).2.trace = [3, 2, 1, 0] := by decide

end example_

end PySMT.C20
