import PySMT.Proofs.C07Ops
import PySMT.Proofs.C07Decls
import PySMT.Proofs.C07Example
import PySMT.Proofs.C07DagSound
import PySMT.Proofs.C07WF
/-!
# C07 — SMT-LIB export is well-formed and denotes the same thing: property theorems

Model: `Impl/Printer.lean` (`toSexp` = `SmtPrinter`, `toSexpDag` = `SmtDagPrinter`, `scriptOfFormula`, `scriptOfCmds`; printer
objects with `annotations = None` — annotations are not modelled); specification: `Spec/Sexp.lean` (SMT-LIB 2.6 lexicon) and
`Spec/SmtlibText.lean` (`readStd`, `runStd`: the standard's reading); hypotheses: `Impl/PrinterHyp.lean` (`Printable`,
`ScriptOK`, `cmdsOK`, `avGuard`, `noQuant`).

**What "the same value" means.** `readStd` elaborates text to the shared `Term`, and the value is `eval I` of that term:
the operator semantics (sdiv/srem signs, division by zero, rotation, strings, arrays) live in the single trusted file
`Core/Eval.lean`, used on both sides. These theorems establish spelling ↦ operator, argument and index order, literal
decoding, scoping, declarations; they do not compare `eval` with the theory files.

**Everything `Printable env scope t` excludes** (`Impl/PrinterHyp.lean: stdTy, nodeOK, nameFine, SortOK, binderOK`):
* the known findings: integer division (F10, `stdTy .div` only on Reals), `str.to.int`/`int.to.str` (F11), `pow` (F44), names
  containing `|` or `\` (F45), string constants outside printable ASCII or containing a backslash (F46);
* algebraic constants; instances of parametric sorts, sort names containing `{`, the names `Bool Int Real String` as
  declared sorts (`SortOK`: plain declared sorts of arity 0 only);
* **every Int constant when `env.realsOnly`** (`nodeOK .intConst = !env.realsOnly`: under the logics of
  `Std.realsOnlyLogics` — a list that also contains pySMT-specific names such as `QF_NRAT`, `QF_ALRA`, so it is not written
  purely from the standard — a numeral is read as a Real);
* symbol names that are reserved words or **any** of `Std.theorySymbols`, whatever the logic (so `bvadd` in QF_LIA and the
  index-only names `extract`, `repeat`, `const`, which the standard would let a user declare, are excluded too);
* `/` applied to two Real constants with a non-zero divisor (the reader folds it to the constant; `FormulaManager.Div`
  never builds it — needed for the syntactic identity `read_toSexp`, not for soundness);
* non-canonical nodes that only raw `create_node` builds: wrong arity or payload (`stdTy`), n-ary `and or + * str.++` with
  fewer than two arguments, bit-vector constants with `value ≥ 2^width` or width 0, array values with a repeated key term,
  binders without variables / with a repeated name / over function-typed variables; and nodes on which the model of the
  type checker `typeOfNode` disagrees with `stdTy`;
* names must resolve: a symbol node is the innermost binder variable of its name or the declared symbol of its name.
The DAG theorems additionally need `noQuant t` (see `printDag_chain_partial` for what is proved with quantifiers).
-/
namespace PySMT.C07
open PySMT PySMT.Printer PySMT.Std PySMT.Sexp

/-- Every operator spelling in the table regenerated from `printers.py` (both classes) is the standard's name of that
operator, except the explicit exclusions `knownNonStd` (F11 `str.to.int`/`int.to.str`, F44 `pow`); every spelling the
model looks up is present. -/
theorem printerOps_std :
    (∀ kv ∈ Gen.PrinterOps.tree, kv ∉ knownNonStd → entryStd kv = true) ∧
    (∀ kv ∈ Gen.PrinterOps.dag, kv ∉ knownNonStd → entryStd kv = true) ∧
    tableComplete Gen.PrinterOps.tree = true ∧ tableComplete Gen.PrinterOps.dag = true ∧
    SpellStd treeSpell ∧ SpellStd dagSpell :=
  ⟨printerOps_std_tree, printerOps_std_dag, printerOps_complete.1, printerOps_complete.2, treeSpell_std, dagSpell_std⟩

/-- Token-level round trip of the reader. -/
theorem sexp_tokens_rt (s : Sexp) : parseToks (toToks s) = .ok [s] := parseToks_toToks s

/-- Character-level round trip: the standard lexer + reader invert `render` on every S-expression whose tokens have a
spelling in the SMT-LIB 2.6 lexicon (full lexicon: numerals, decimals, `#b`/`#x`, keywords, reserved words, simple and
quoted symbols, string literals with `""`). -/
theorem render_read (s : Sexp) (h : Sexp.WF s = true) : Sexp.read (Sexp.render s) = .ok [s] := Sexp.render_read s h

/-- `utils.quote` spells the symbol: for a name of printable characters other than `|` and `\\` that is not a reserved
word, the standard lexer reads `quote(name)` as the one token that denotes the symbol `name`. -/
theorem quote_std (n : String) (hc : n.toList.all nameChar = true) (hr : isReserved n = false) :
    quoteAtom n = Sexp.sym n ∧ ∃ tok, Sexp.sym n = .atom tok ∧ symName? tok = some n :=
  ⟨quoteAtom_eq n hc hr, symName?_sym n hc⟩

/-- The standard's reading of the tree printer's output is the formula itself (array values as the store chains they
are printed as). This is the strong form the print→parse property (C09) builds on. -/
theorem read_toSexp (env : SEnv) (t : Term) (h : Printable env [] t = true) :
    readStd env [] (toSexp t) = .ok (unfoldAV t) := Printer.read_toSexp env t h

/-- Tree printing is sound: the printed text, read with the standard's semantics, has the formula's sort and, under
every interpretation, the formula's value.
`_partial` only in the hypotheses: `Printable` excludes parametric sort instances and the known findings F10 (integer `/`),
F11, F44 (`pow`), F45 (names with `|` `\\`), F46 (non-ASCII / `\\u` strings); `avGuard` is the natural guard on array
values (keys pairwise different constants of a non-array index sort, what `FormulaManager.Array` builds) under which the
order of the printed stores does not matter (`Proofs/SimpArrayVal.lean`). -/
theorem print_sound_partial (env : SEnv) (t : Term) (h : Printable env [] t = true) (hg : avGuard t = true) :
    ∃ t' τ, readStdTy env [] (toSexp t) = .ok (t', τ) ∧ t.typeOf = some τ ∧ ∀ I, eval I t' = eval I t :=
  Printer.print_sound_partial env t h hg

/-- The standard's reading of the DAG printer's output is the formula itself (array values as store chains in argument
order), for quantifier-free formulas: every `let` right-hand side is read, under the bindings so far, as the sub-formula it
was printed for (memoization invariant of the work-stack machine), no generated name captures a user symbol, the stack is
empty within the fuel and the key is the root. -/
theorem read_toSexpDag (env : SEnv) (t : Term) (h : Printable env [] t = true) (hq : noQuant t = true) :
    readStdTy env [] (toSexpDag t) = .ok (unfoldAVw false t, tyD t) :=
  readStd_toSexpDag env t (dagOK_of_printable' env t h hq)

/-- DAG printing is sound for quantifier-free formulas: sort and value of the formula under every interpretation.
`_partial`: formulas with quantifiers (whose bodies are printed by nested printers) are covered by the structure theorem
`printDag_chain_partial` and by K/S only; hypotheses as for `print_sound_partial`. -/
theorem printDag_sound_partial (env : SEnv) (t : Term) (h : Printable env [] t = true) (hq : noQuant t = true)
    (hg : avGuard t = true) :
    ∃ t' τ, readStdTy env [] (toSexpDag t) = .ok (t', τ) ∧ t.typeOf = some τ ∧ ∀ I, eval I t' = eval I t :=
  printDag_sound env t h hq hg

/-- The script of a formula is accepted by the strict interpreter (declared before use, declared once), its
declarations are exactly the formula's sorts and free symbols, its only assertion is the formula.
`_partial`: plain declared sorts only. -/
theorem decls_before_use_partial (logic : String) (t : Term) (h : ScriptOK logic t = true) :
    ∃ st, runStd (scriptOfFormula logic false t) = .ok st ∧ st.env = scriptEnv logic t ∧ st.live = [unfoldAV t] ∧
      (∀ s ∈ t.fv, s ∈ st.env.funs) := Printer.decls_before_use_partial logic t h

/-- … the same for the DAG form of the assertion (the default of `serialize`), quantifier-free formulas. -/
theorem decls_before_use_dag_partial (logic : String) (t : Term) (h : ScriptOK logic t = true) (hq : noQuant t = true) :
    ∃ st, runStd (scriptOfFormula logic true t) = .ok st ∧ st.env = scriptEnv logic t ∧ st.live = [unfoldAVw false t] ∧
      (∀ s ∈ t.fv, s ∈ st.env.funs) := Printer.decls_before_use_dag_partial logic t h hq

/-- Declarations in ANY order: `smtlibscript_from_formula` emits `declare-sort` / `declare-fun` in the iteration order of
Python sets; for every permutation `ds` of the sort declarations and `fs` of the free symbols the script is accepted, declares
exactly these (each once, before the assert) and its only live assertion is the formula. (`decls_before_use_partial` is the
instance `ds = sortDecls t`, `fs = t.fv.eraseDups`, the order K compares after sorting.) -/
theorem decls_any_order (logic : String) (t : Term) (h : ScriptOK logic t = true)
    (ds : List (String × Nat)) (fs : List Sym) (hds : ds.Perm (sortDecls t)) (hfs : fs.Perm t.fv.eraseDups) :
    ∃ st, runStd ([Sexp.list [.atom "set-logic", atomOfText logic]] ++ ds.map declareSort
        ++ fs.map declareFun ++ [.list [.atom "assert", toSexp t], .list [.atom "check-sat"]]) = .ok st ∧
      st.live = [unfoldAV t] ∧ st.env.funs.Perm t.fv.eraseDups ∧ st.env.sorts.Perm (sortDecls t) ∧
      (∀ s ∈ t.fv, s ∈ st.env.funs) := Printer.decls_any_order logic t h ds fs hds hfs

/-- … with the DAG form of the assertion, quantifier-free formulas. -/
theorem decls_any_order_dag_partial (logic : String) (t : Term) (h : ScriptOK logic t = true) (hq : noQuant t = true)
    (ds : List (String × Nat)) (fs : List Sym) (hds : ds.Perm (sortDecls t)) (hfs : fs.Perm t.fv.eraseDups) :
    ∃ st, runStd ([Sexp.list [.atom "set-logic", atomOfText logic]] ++ ds.map declareSort
        ++ fs.map declareFun ++ [.list [.atom "assert", toSexpDag t], .list [.atom "check-sat"]]) = .ok st ∧
      st.live = [unfoldAVw false t] ∧ st.env.funs.Perm t.fv.eraseDups ∧ st.env.sorts.Perm (sortDecls t) :=
  Printer.decls_any_order_dag logic t h hq ds fs hds hfs

/-- General scripts (`SmtLibScript.serialize` over a command list: set-logic, declare-sort, declare-fun, declare-const,
assert, push, pop, check-sat): accepted by the strict interpreter whenever every command is legal where it stands (`cmdsOK`:
names speakable and not taken, sorts declared, each asserted formula `Printable` in the environment built by the commands
before it — so every symbol it uses is declared and has not been popped —, `pop` within the pushed levels); the final state
is `cmdsRun` (asserted formulas not popped, array values as store chains). `_partial`: DAG form needs `noQuant` per assertion;
other commands (define-fun, get-value, …) are outside the fragment. -/
theorem cmds_accepted_partial (dag : Bool) (cmds : List Cmd) (h : cmdsOK dag StdState.init cmds = true) :
    runStd (scriptOfCmds dag cmds) = .ok (cmdsRun dag StdState.init cmds) := Printer.cmds_accepted dag cmds h

/-- Character level and term level joined: every token the tree printer writes for a `Printable` term has a spelling in the
SMT-LIB lexicon … -/
theorem wf_toSexp (env : SEnv) (t : Term) (h : Printable env [] t = true) : Sexp.WF (toSexp t) = true :=
  Printer.wf_toSexp env t h

/-- … hence the *text* `render (toSexp t)`, read by the standard lexer and reader and elaborated by the standard's reading,
is the term. `_partial`: the text is the specification's `render` of the model's S-expression (single spaces); pySMT's own
spacing (`( str.at a b)`, `(forall ((x T)(y T)) …)`) is compared with the model after lexing, by K, not character by
character. -/
theorem text_read_toSexp_partial (env : SEnv) (t : Term) (h : Printable env [] t = true) :
    (Sexp.readOne (Sexp.render (toSexp t))).bind (readStd env []) = .ok (unfoldAV t) :=
  Printer.text_read_toSexp env t h

/-- DAG printing of ANY term (in particular with quantifiers, the default `serialize(daggify=True)` path for them), what is
proved: (a) shape — `toSexpDag t` is a chain of single-binding `let`s; (b) names — every bound name is a generated `.def_k`
that is not the quoted name of a free symbol of `t`; (c) the generic unfolding — the standard reads such a chain binding by
binding. NOT proved here: that any right-hand side is readable or reads as its sub-formula, that the key denotes `t`, that
the fuel suffices — for formulas with quantifiers (bodies printed by nested printers) these are checked by K and S on every
generated formula only; for quantifier-free formulas they are `read_toSexpDag`. -/
theorem printDag_chain_partial (t : Term) :
    ∃ (binds : List (String × Sexp)) (key : Sexp),
      toSexpDag t = letWrap (binds.map (fun b => (Sexp.atom b.1, b.2))) key ∧
      (∀ b ∈ binds, ∃ k, b.1 = defName k ∧ b.1 ∉ t.fv.eraseDups.map (fun s => pyQuote s.name)) ∧
      ∀ (env : SEnv) (scope : List Binding),
        rd env scope (toSexpDag t) = match readBinds env scope binds.reverse with
          | .ok sc => rd env sc key
          | .error err => .error err := printDag_chain t

/-! ## non-vacuity: the hypotheses are satisfiable (`Term.typeOf`, `Printable`, … are compiled by well-founded
recursion, so the instances are unfolded by hand rather than `decide`d) -/

section
/-- the hypotheses of `decls_before_use_partial` (hence of `read_toSexp`, `print_sound_partial`) hold for
`t1 = (<= |x y| (- 5))` in `QF_LIA` (`Proofs/C07Example.lean`), likewise those of the DAG theorems -/
example : ScriptOK "QF_LIA" t1 = true ∧ Printable (scriptEnv "QF_LIA" t1) [] t1 = true ∧ avGuard t1 = true
    ∧ noQuant t1 = true :=
  ⟨scriptOK_t1, pr_t1 _ (by simp [scriptEnv, fv_t1, SEnv.lookupFun, x]) (by decide), avGuard_t1, noQuant_t1⟩
/-- further instances (`Proofs/C07Example.lean`): a bit-vector term `(bvult b (bvnot b))`; `(and .def_0 p)` — a user symbol
spelled like the DAG printer's first let name — with the hypotheses of the DAG theorems; the array value
`Array(Int, 0, {1: 2, 3: 4})` with `avGuard`; the quantified `(forall ((x Int)) (<= x x))` -/
example : Printable envBV [] tBV = true := pr_tBV
example : Printable envDef [] tDef = true ∧ noQuant tDef = true ∧ avGuard tDef = true := ⟨pr_tDef, nq_tDef, ag_tDef⟩
example : Printable {} [] tAV = true ∧ avGuard tAV = true := ⟨pr_tAV, ag_tAV⟩
example : Printable {} [] tQ = true := pr_tQ
/-- a command list with push/pop that `cmds_accepted_partial` speaks about -/
example : cmdsOK false StdState.init
    [.setLogic "QF_UF", .declareSort "U" 0, .declareFun ⟨"c", [], .custom "U"⟩, .push 1, .declareConst ⟨"d", [], .custom "U"⟩,
     .pop 1, .checkSat] = true := by decide +kernel
/-- the hypothesis of `render_read` -/
example : Sexp.WF (.list [.atom "<=", .atom "x y", .list [.atom "-", .atom "5"], .str "a\"b", .atom "|12|", .atom "#b01"]) = true := by
  decide +kernel
/-- the known findings are really excluded: `stdTy` refuses `str.to.int` and integer division -/
example : stdTy .strToInt .none [.str] = none ∧ stdTy .div .none [.int, .int] = none := by decide
end

end PySMT.C07
