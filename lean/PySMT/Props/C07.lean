import PySMT.Proofs.C07Ops
/-! # C07 — SMT-LIB export is well-formed and denotes the same thing: property theorems -/
namespace PySMT.C07
open PySMT PySMT.Printer PySMT.Std

/-- Every operator spelling in the table regenerated from `printers.py` (both classes) is the standard's name of that
operator, except the explicit exclusions `knownNonStd` (F11 `str.to.int`/`int.to.str`, `pow`). -/
theorem printerOps_std :
    (∀ kv ∈ Gen.PrinterOps.tree, kv ∉ knownNonStd → entryStd kv = true) ∧
    (∀ kv ∈ Gen.PrinterOps.dag, kv ∉ knownNonStd → entryStd kv = true) ∧
    tableComplete Gen.PrinterOps.tree = true ∧ tableComplete Gen.PrinterOps.dag = true :=
  ⟨printerOps_std_tree, printerOps_std_dag, printerOps_complete.1, printerOps_complete.2⟩

end PySMT.C07
