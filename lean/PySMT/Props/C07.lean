import PySMT.Proofs.C07Ops
import PySMT.Proofs.C07Decls
import PySMT.Proofs.C07Example
import PySMT.Proofs.C07DagSound
/-!
# C07 — SMT-LIB export is well-formed and denotes the same thing: property theorems

Model: `Impl/Printer.lean` (`toSexp` = `SmtPrinter`, `toSexpDag` = `SmtDagPrinter`, `scriptOfFormula`); specification:
`Spec/Sexp.lean` (SMT-LIB 2.6 lexicon) and `Spec/SmtlibText.lean` (`readStd`, `runStd`: the standard's reading);
hypotheses: `Impl/PrinterHyp.lean` (`Printable` = WT ∧ NamesOK ∧ Normal, `ScriptOK`, `avGuard`, `noQuant`).
-/
namespace PySMT.C07
open PySMT PySMT.Printer PySMT.Std PySMT.Sexp

/-- Every operator spelling in the table regenerated from `printers.py` (both classes) is the standard's name of that
operator, except the explicit exclusions `knownNonStd` (F11 `str.to.int`/`int.to.str`, F44 `pow`); every spelling the
model looks up is present. -/
theorem printerOps_std :
    (∀ kv ∈ Gen.PrinterOps.tree, kv ∉ knownNonStd → entryStd kv = true) ∧
    (∀ kv ∈ Gen.PrinterOps.dag, kv ∉ knownNonStd → entryStd kv = true) ∧
    tableComplete Gen.PrinterOps.tree = true ∧ tableComplete Gen.PrinterOps.dag = true ∧
    SpellStd treeSpell ∧ SpellStd dagSpell :=
  ⟨printerOps_std_tree, printerOps_std_dag, printerOps_complete.1, printerOps_complete.2, treeSpell_std, dagSpell_std⟩

/-- Token-level round trip of the reader. -/
theorem sexp_tokens_rt (s : Sexp) : parseToks (toToks s) = .ok [s] := parseToks_toToks s

/-- Character-level round trip: the standard lexer + reader invert `render` on every S-expression whose tokens have a
spelling in the SMT-LIB 2.6 lexicon (full lexicon: numerals, decimals, `#b`/`#x`, keywords, reserved words, simple and
quoted symbols, string literals with `""`). -/
theorem render_read (s : Sexp) (h : Sexp.WF s = true) : Sexp.read (Sexp.render s) = .ok [s] := Sexp.render_read s h

/-- `utils.quote` spells the symbol: for a name of printable characters other than `|` and `\\` that is not a reserved
word, the standard lexer reads `quote(name)` as the one token that denotes the symbol `name`. -/
theorem quote_std (n : String) (hc : n.toList.all nameChar = true) (hr : isReserved n = false) :
    quoteAtom n = Sexp.sym n ∧ ∃ tok, Sexp.sym n = .atom tok ∧ symName? tok = some n :=
  ⟨quoteAtom_eq n hc hr, symName?_sym n hc⟩

/-- The standard's reading of the tree printer's output is the formula itself (array values as the store chains they
are printed as). This is the strong form the print→parse property (C09) builds on. -/
theorem read_toSexp (env : SEnv) (t : Term) (h : Printable env [] t = true) :
    readStd env [] (toSexp t) = .ok (unfoldAV t) := Printer.read_toSexp env t h

/-- Tree printing is sound: the printed text, read with the standard's semantics, has the formula's sort and, under
every interpretation, the formula's value.
`_partial` only in the hypotheses: `Printable` excludes parametric sort instances and the known findings F10 (integer `/`),
F11, F44 (`pow`), F45 (names with `|` `\\`), F46 (non-ASCII / `\\u` strings); `avGuard` is the natural guard on array
values (keys pairwise different constants of a non-array index sort, what `FormulaManager.Array` builds) under which the
order of the printed stores does not matter (`Proofs/SimpArrayVal.lean`). -/
theorem print_sound_partial (env : SEnv) (t : Term) (h : Printable env [] t = true) (hg : avGuard t = true) :
    ∃ t' τ, readStdTy env [] (toSexp t) = .ok (t', τ) ∧ t.typeOf = some τ ∧ ∀ I, eval I t' = eval I t :=
  Printer.print_sound_partial env t h hg

/-- The standard's reading of the DAG printer's output is the formula itself (array values as store chains in argument
order), for quantifier-free formulas: every `let` right-hand side is read, under the bindings so far, as the sub-formula it
was printed for (memoization invariant of the work-stack machine), no generated name captures a user symbol, the stack is
empty within the fuel and the key is the root. -/
theorem read_toSexpDag (env : SEnv) (t : Term) (h : Printable env [] t = true) (hq : noQuant t = true) :
    readStdTy env [] (toSexpDag t) = .ok (unfoldAVw false t, tyD t) :=
  readStd_toSexpDag env t (dagOK_of_printable' env t h hq)

/-- DAG printing is sound for quantifier-free formulas: sort and value of the formula under every interpretation.
`_partial`: formulas with quantifiers (whose bodies are printed by nested printers) are covered by the structure theorem
`printDag_chain_partial` and by K/S only; hypotheses as for `print_sound_partial`. -/
theorem printDag_sound_partial (env : SEnv) (t : Term) (h : Printable env [] t = true) (hq : noQuant t = true)
    (hg : avGuard t = true) :
    ∃ t' τ, readStdTy env [] (toSexpDag t) = .ok (t', τ) ∧ t.typeOf = some τ ∧ ∀ I, eval I t' = eval I t :=
  printDag_sound env t h hq hg

/-- The script of a formula is accepted by the strict interpreter (declared before use, declared once), its
declarations are exactly the formula's sorts and free symbols, its only assertion is the formula.
`_partial`: plain declared sorts only. -/
theorem decls_before_use_partial (logic : String) (t : Term) (h : ScriptOK logic t = true) :
    ∃ st, runStd (scriptOfFormula logic false t) = .ok st ∧ st.env = scriptEnv logic t ∧ st.live = [unfoldAV t] ∧
      (∀ s ∈ t.fv, s ∈ st.env.funs) := Printer.decls_before_use_partial logic t h

/-- … the same for the DAG form of the assertion (the default of `serialize`), quantifier-free formulas. -/
theorem decls_before_use_dag_partial (logic : String) (t : Term) (h : ScriptOK logic t = true) (hq : noQuant t = true) :
    ∃ st, runStd (scriptOfFormula logic true t) = .ok st ∧ st.env = scriptEnv logic t ∧ st.live = [unfoldAVw false t] ∧
      (∀ s ∈ t.fv, s ∈ st.env.funs) := Printer.decls_before_use_dag_partial logic t h hq

/-- DAG printing with quantifiers, structure and let-freshness: `toSexpDag t` (any `t`) is a chain of single-binding `let`s
over generated names `.def_k`, none of which is the quoted name of a free symbol of `t`, and the standard reads it binding
by binding. `_partial`: for formulas with quantifiers the reading of each right-hand side is checked by K/S only. -/
theorem printDag_chain_partial (t : Term) :
    ∃ (binds : List (String × Sexp)) (key : Sexp),
      toSexpDag t = letWrap (binds.map (fun b => (Sexp.atom b.1, b.2))) key ∧
      (∀ b ∈ binds, ∃ k, b.1 = defName k ∧ b.1 ∉ t.fv.eraseDups.map (fun s => pyQuote s.name)) ∧
      ∀ (env : SEnv) (scope : List Binding),
        rd env scope (toSexpDag t) = match readBinds env scope binds.reverse with
          | .ok sc => rd env sc key
          | .error err => .error err := printDag_chain t

/-! ## non-vacuity: the hypotheses are satisfiable (`Term.typeOf`, `Printable`, … are compiled by well-founded
recursion, so the instances are unfolded by hand rather than `decide`d) -/

section
/-- the hypotheses of `decls_before_use_partial` (hence of `read_toSexp`, `print_sound_partial`) hold for
`t1 = (<= |x y| (- 5))` in `QF_LIA` (`Proofs/C07Example.lean`), likewise those of the DAG theorems -/
example : ScriptOK "QF_LIA" t1 = true ∧ Printable (scriptEnv "QF_LIA" t1) [] t1 = true ∧ avGuard t1 = true
    ∧ noQuant t1 = true :=
  ⟨scriptOK_t1, pr_t1 _ (by simp [scriptEnv, fv_t1, SEnv.lookupFun, x]) (by decide), avGuard_t1, noQuant_t1⟩
/-- the hypothesis of `render_read` -/
example : Sexp.WF (.list [.atom "<=", .atom "x y", .list [.atom "-", .atom "5"], .str "a\"b", .atom "|12|", .atom "#b01"]) = true := by
  decide +kernel
/-- the known findings are really excluded: `stdTy` refuses `str.to.int` and integer division -/
example : stdTy .strToInt .none [.str] = none ∧ stdTy .div .none [.int, .int] = none := by decide
end

end PySMT.C07
