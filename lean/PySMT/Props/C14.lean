import PySMT.Proofs.WalkerMore
import PySMT.Proofs.WalkerInstSubst
import PySMT.Proofs.TheoryHeapWalk
import PySMT.Proofs.ManagerTables

/-!
# C14 — results do not depend on the environment's history

The long-lived objects of an `Environment` through which one call can influence a later one are the memoising
walkers (type checker, simplifier, the oracles, the substituter) and the constant caches of the formula manager.
The theorems below say, for the generic walker model of `PySMT/Impl/Walker.lean` (any DAG, any functional callback,
any memo reachable by earlier calls, any node) and for the model of the `Int()` cache after the F07 repair:
the outcome of a call is a function of the call alone.

"Up to the order of commutative arguments and the names of fresh symbols" is not needed at this level: the model's
results are equal on the nose.  (In pySMT the simplifier iterates over Python sets of nodes, whose order depends
on node ids and therefore on the history; the correspondence run compares modulo that order.)

Further down: the heap model of `TheoryOracle` (mutable `Theory` objects behind the memo: `theory_memo_ok`,
`theory_no_alias`, `theory_never_mutated`, `get_theory_indep`, `get_logic_indep`), the one-shot substituter used
with different maps in a row (`substitute_maps_indep_partial`), the `Int` / `Real` / `String` constant caches, and the
symbol table -- the place where the property is FALSE BY DESIGN: `symbol_history_iff` says exactly when `Symbol(n, τ)`
depends on the history (an earlier call bound `n` to another type).

Not covered: callbacks are pure functions of `(node, results of the children)` -- the real ones also read other
services of the environment (`walk_times` calls `get_free_variables`) and create nodes; a combined model of all the
objects of an environment is not built (`history_indep_partial`); the heap model of `TheoryOracle` is a direct
memoised recursion, not proved to be what `Walker.walk` computes with a state-passing callback (the value level is:
`theoryOf` is a bottom-up function).  A client that mutates a `Theory` it got from `get_theory` is outside the model;
the code now hands out a copy (fix f034130).
-/

namespace PySMT.C14
open PySMT.Walker

variable {M N R E : Type} [DecidableEq N] [MemoLike M N R] [LawfulMemo M N R]

/-- The outcome of a walk does not depend on the memo it starts from: any two states reachable by earlier calls
    (idle, memo correct and closed under children) give the same result. -/
theorem walk_memo_indep (g : Graph N) (d : N → Bool) (f0 : N → List R → Except E R) (inval shortcut : Bool)
    (fuel : Nat) (n : N) (s1 s2 : WState M N) (h1 : Idle g d f0 s1) (h2 : Idle g d f0 s2) (V : List N)
    (hV : Covers g d n V) (hfuel : 2 * cost g V + 2 ≤ fuel) :
    (walk g d (fun _ => f0) inval shortcut fuel n s1).1 = (walk g d (fun _ => f0) inval shortcut fuel n s2).1 :=
  Walker.walk_memo_indep g d f0 inval shortcut fuel n s1 s2 h1 h2 V hV hfuel

/-- The result of a call made after an arbitrary history of calls on the same walker equals the result of the same
    call on a freshly constructed walker.
    `_partial`: the property speaks about a whole `Environment`; this is proved for each memoising walker object
    separately (any sequence of walks on it) and, below, for the `Int` cache.  A combined model of all objects of an
    environment (formula table, type manager, parser and printer objects, `TheoryOracle`'s mutable results) is not
    built; their independence is checked by the differential run against a fresh twin environment only. -/
theorem history_indep_partial (g : Graph N) (d : N → Bool) (f0 : N → List R → Except E R) (inval shortcut : Bool)
    (fuel : Nat) (V : List N) (hfuel : 2 * cost g V + 2 ≤ fuel) (hist : List N) (q : N)
    (hV : ∀ x ∈ q :: hist, Covers g d x V) :
    (walk g d (fun _ => f0) inval shortcut fuel q
        (walks g d (fun _ => f0) inval shortcut fuel hist (WState.init : WState M N)).2).1
      = (walk g d (fun _ => f0) inval shortcut fuel q (WState.init : WState M N)).1 :=
  Walker.history_indep g d f0 inval shortcut fuel V hfuel hist q hV

/-- Repeating a call returns the same outcome, and for a walker that keeps its memo and keys it by the formula the
    repetition does no work at all: it hands back the memoised object (state unchanged). -/
theorem repeat_same (g : Graph N) (d : N → Bool) (f0 : N → List R → Except E R) (inval shortcut : Bool)
    (fuel : Nat) (n : N) (s : WState M N) (hi : Idle g d f0 s) (V : List N) (hV : Covers g d n V)
    (hfuel : 2 * cost g V + 2 ≤ fuel) :
    let r1 := walk g d (fun _ => f0) inval shortcut fuel n s
    let r2 := walk g d (fun _ => f0) inval shortcut fuel n r1.2
    r2.1 = r1.1 ∧ (inval = false → shortcut = true → (∃ r, r1.1 = .ok r) → r2.2 = r1.2) :=
  Walker.repeat_same g d f0 inval shortcut fuel n s hi V hV hfuel

/-- `SizeOracle` (keys `(measure, formula)`, `set_walking_measure` switching the callback): the result for measure
    `t` is the specification of measure `t` alone, whatever was memoised for this or another measure before. -/
theorem size_measure_indep {T : Type} [DecidableEq T] {M : Type} [MemoLike M (T × N) R] [LawfulMemo M (T × N) R]
    (g : Graph N) (d : N → Bool) (f : T × N → List R → Except E R) (inval : Bool) (fuel : Nat) (t : T) (n : N)
    (s : WState M (T × N)) (hi : Idle (g.tagged T) (fun p => d p.2) f s) (V : List (T × N))
    (hV : Covers (g.tagged T) (fun p => d p.2) (t, n) V) (hfuel : 2 * cost (g.tagged T) V + 2 ≤ fuel) :
    (walk (g.tagged T) (fun p => d p.2) (fun _ => f) inval false fuel (t, n) s).1
      = ofSpec (spec g d (fun n args => f (t, n) args) n) :=
  Walker.size_measure_indep g d f inval fuel t n s hi V hV hfuel

/-- `FormulaManager.Int` after the F07 repair: node or type error, the result does not depend on the constants
    built before (the cache stays consistent). -/
theorem const_cache_indep (v : PyNum) (c : ConstCache) (hc : CacheOK c) :
    (mkInt v c).1 = (mkInt v []).1 ∧ CacheOK (mkInt v c).2 :=
  Walker.const_cache_indep v c hc

/-! ### On terms: whatever the walker memoised before, the walk returns the recursive model's value

    (`termGraph`, `FoldIdle`: see `Props/C20.lean`; `Impl.Simplifier` cannot be imported together with `Impl.Subst`
    -- both transitively define `PySMT.Build.bvWidth` --, the statement for `simp` is `C20.simplify_walk_eq_simp`.) -/

/-- For any bottom-up function `F` with callbacks `g`: from every idle walker whose memo holds `F` values (any
    history of walks), the result is `F t` -- a function of `t` alone. -/
theorem fold_walk_history_indep {M R E : Type} [MemoLike M Term R] [LawfulMemo M Term R]
    (g : Term → List R → R) (F : Term → R) (hF : ∀ t, F t = g t (t.args.map F))
    (inval shortcut : Bool) (fuel : Nat) (t : Term) (s : WState M Term) (hi : FoldIdle (fun _ => false) F s)
    (hfuel : dagBound t ≤ fuel) :
    (walk termGraph (fun _ => false) (fun _ => cbOf (E := E) g) inval shortcut fuel t s).1 = .ok (F t) ∧
    FoldIdle (fun _ => false) F (walk termGraph (fun _ => false) (fun _ => cbOf (E := E) g) inval shortcut fuel t s).2 :=
  let h := Walker.walk_eq_fold g F hF inval shortcut fuel t s hi hfuel
  ⟨h.1, h.2.2.2⟩

/-- `FreeVarsOracle`: the result is `fvO t` after any history. -/
theorem freevars_walk_eq {M E : Type} [MemoLike M Term (List Sym)] [LawfulMemo M Term (List Sym)]
    (inval shortcut : Bool) (fuel : Nat) (t : Term) (s : WState M Term)
    (hi : FoldIdle (fun _ => false) Oracles.fvO s) (hfuel : dagBound t ≤ fuel) :
    (walk termGraph (fun _ => false)
      (fun _ => cbOf (E := E) (fun n rs => Oracles.fvNode n.op n.payload rs)) inval shortcut fuel t s).1
      = .ok (Oracles.fvO t) :=
  (Walker.freevars_walk_eq inval shortcut fuel t s hi hfuel).1

/-- `SizeOracle` with its real key space `(measure, formula)` and one memo shared by all measures: the walk for
    measure `m` returns `natSize m t` (tree nodes / leaves / depth) whatever was memoised for any measure before. -/
theorem size_walk_eq_tagged {M E : Type} [MemoLike M (NatMeasure × Term) Nat] [LawfulMemo M (NatMeasure × Term) Nat]
    (inval : Bool) (fuel : Nat) (m : NatMeasure) (t : Term) (s : WState M (NatMeasure × Term))
    (hi : Idle (termGraph.tagged NatMeasure) (fun _ => false)
            (fun (k : NatMeasure × Term) rs => (.ok (natSizeNode k.1 k.2 rs) : Except E Nat)) s)
    (V : List (NatMeasure × Term)) (hV : Covers (termGraph.tagged NatMeasure) (fun _ => false) (m, t) V)
    (hfuel : 2 * cost (termGraph.tagged NatMeasure) V + 2 ≤ fuel) :
    (walk (termGraph.tagged NatMeasure) (fun _ => false)
      (fun _ (k : NatMeasure × Term) rs => (.ok (natSizeNode k.1 k.2 rs) : Except E Nat)) inval false fuel (m, t) s).1
      = .ok (natSize m t) :=
  Walker.size_walk_eq_tagged inval fuel m t s hi V hV hfuel

/-- `Substituter` (one-shot memo, push override at quantifiers): the walk with map `σ` returns C05's recursive
    `substG ms h σ t`, so substituting with `σ₁` and then with `σ₂` gives `substG … σ₂`.
    `_partial`: the nested sub-substituter that the code starts at a quantifier is taken to compute its own recursive
    model (`substCb` at a quantified node is `substG` of that node); see `Proofs/WalkerInstSubst.lean`. -/
theorem substitute_walk_eq_partial {M E : Type} [MemoLike M Term Term] [LawfulMemo M Term Term]
    (ms : Bool) (h : Subst.FnHandler) (σ : Subst.TMap) (inval shortcut : Bool) (fuel : Nat) (t : Term)
    (s : WState M Term) (hi : FoldIdle (fun n => n.op.isQuantifier) (Subst.substG ms h σ) s)
    (hfuel : dagBound t ≤ fuel) :
    let r := walk termGraph (fun n => n.op.isQuantifier) (fun _ => cbOf (E := E) (substCb ms h σ))
               inval shortcut fuel t s
    r.1 = .ok (Subst.substG ms h σ t) ∧ (r.2.iters ≤ s.iters + dagBound t ∧ r.2.pushes ≤ s.pushes + dagBound t) ∧
    FoldIdle (fun n => n.op.isQuantifier) (Subst.substG ms h σ) r.2 :=
  Walker.substitute_walk_eq_partial ms h σ inval shortcut fuel t s hi hfuel

example (σ : Subst.TMap) : FoldIdle (fun n => n.op.isQuantifier) (Subst.substG false Subst.noInterp σ)
    (WState.init : WState (AMemo Term Term) Term) := foldIdle_init _ _

/-! ### Change of callback on one walker object; the manager's tables -/

/-- After a call on a one-shot walker (`invalidate_memoization = True`: the substituter) that was `Idle` for the
    callbacks `f0`, the walker is `Idle` for EVERY other callback `f1` -- whatever the call's own callbacks `f` were
    and whatever its outcome. -/
theorem walk_idle_any_callback (g : Graph N) (d : N → Bool) (f : List N → N → List R → Except E R)
    (f0 f1 : N → List R → Except E R) (shortcut : Bool) (fuel : Nat) (n : N) (s : WState M N)
    (hi : Idle g d f0 s) (hmiss : (if shortcut then look s.memo n else none) = none) :
    Idle g d f1 (walk g d f true shortcut fuel n s).2 :=
  Walker.walk_idle_any_callback g d f f0 f1 shortcut fuel n s hi hmiss

/-- Calls with changing callbacks on a one-shot walker: each returns the specification of its own callback. -/
theorem walks_changing_callbacks (g : Graph N) (d : N → Bool) (shortcut : Bool) (fuel : Nat) (V : List N)
    (hfuel : 2 * cost g V + 2 ≤ fuel) (qs : List ((N → List R → Except E R) × N))
    (hV : ∀ q ∈ qs, Covers g d q.2 V) (s : WState M N) (hb : Blank s) :
    (walksF g d true shortcut fuel (qs.map (fun q => ((fun _ => q.1 : List N → N → List R → Except E R), q.2))) s).1
      = qs.map (fun q => ofSpec (spec g d q.1 q.2)) :=
  (Walker.walksF_spec g d shortcut fuel V hfuel qs hV s hb).1

/-- The environment's substituter used with maps σ₁, σ₂, … in a row: the i-th call returns `substG … σᵢ tᵢ`.
    `_partial` as `substitute_walk_eq_partial` (the nested sub-substituter at quantifiers is the callback). -/
theorem substitute_maps_indep_partial {M E : Type} [MemoLike M Term Term] [LawfulMemo M Term Term]
    (ms : Bool) (h : Subst.FnHandler) (shortcut : Bool) (fuel : Nat) (qs : List (Subst.TMap × Term))
    (hfuel : ∀ q ∈ qs, dagBound q.2 ≤ fuel) (s : WState M Term) (hb : Blank s) :
    (walksF termGraph (fun n => n.op.isQuantifier) true shortcut fuel
        (qs.map (fun q => ((fun _ => cbOf (E := E) (substCb ms h q.1)), q.2))) s).1
      = qs.map (fun q => WOut.ok (Subst.substG ms h q.1 q.2)) :=
  (Walker.substitute_maps_indep_partial ms h shortcut fuel qs hfuel s hb).1

/-- `Real()` and `String()` after the F07 repair: as `const_cache_indep` for `Int()`. -/
theorem real_cache_indep (v : ManagerTables.PyRealArg) (c : List (Rat × Rat)) (hc : ManagerTables.CacheOK c) :
    (ManagerTables.mkReal v c).1 = (ManagerTables.mkReal v []).1 ∧ ManagerTables.CacheOK (ManagerTables.mkReal v c).2 :=
  ManagerTables.mkConst_indep _ v c hc

theorem string_cache_indep (v : ManagerTables.PyStrArg) (c : List (String × String)) (hc : ManagerTables.CacheOK c) :
    (ManagerTables.mkString v c).1 = (ManagerTables.mkString v []).1 ∧
    ManagerTables.CacheOK (ManagerTables.mkString v c).2 :=
  ManagerTables.mkConst_indep _ v c hc

/-- **Where C14 is false by design.**  `Symbol(n, τ)` after a history `h` of symbol requests returns the symbol when `n`
    was never requested or was first requested with type `τ`, and raises `PysmtTypeError` when it was first requested
    with another type; in a fresh manager it always returns the symbol.  Hence: the call is independent of the
    history if and only if no earlier call bound the name to another type. -/
theorem symbol_history_iff {T : Type} [DecidableEq T] (h : List (String × T)) (n : String) (τ : T) :
    (ManagerTables.getOrCreate n τ (ManagerTables.runSyms h [])).1
        = (ManagerTables.getOrCreate n τ ([] : ManagerTables.SymTab T)).1 ↔
      (ManagerTables.firstType h n = none ∨ ManagerTables.firstType h n = some τ) :=
  ManagerTables.symbol_history_iff h n τ

-- non-vacuity: a blank walker; both sides of `symbol_history_iff` occur
example : Blank (WState.init : WState (AMemo Term Term) Term) := blank_init
example : (ManagerTables.getOrCreate "w" 1 (ManagerTables.runSyms [("w", 0)] ([] : ManagerTables.SymTab Nat))).1 = .error () := rfl
example : (ManagerTables.getOrCreate "w" 0 (ManagerTables.runSyms [("w", 0), ("v", 1)] ([] : ManagerTables.SymTab Nat))).1
    = .ok ("w", 0) := rfl
example : (ManagerTables.mkReal (.bool true) (ManagerTables.mkReal (.int 1) []).2).1 = .error () := rfl

/-! ### `TheoryOracle`: mutable `Theory` objects behind a long-lived memo (heap model `Impl/TheoryHeap.lean`)

    The memo maps nodes to *addresses*; every `walk_*` rule is written with the objects it creates (`copy`, `combine`,
    `set_*`, `Theory()`: new objects), the attribute assignments it makes in place (`walk_function`,
    `walk_bv_tonatural`, `walk_array_value`, `walk_constant`) and the object it returns.  `run hist St.init` is the
    state after an arbitrary history of `get_theory` calls on a new oracle.  The specification is c13's recursive
    `TheoryOracle.theoryOf`. -/

/-- every memoised node points to an allocated object that holds `theoryOf` of that node -/
theorem theory_memo_ok (hist : List Term) : TheoryHeap.MemoOK (TheoryHeap.run hist TheoryHeap.St.init) :=
  TheoryHeap.theory_memo_ok hist

/-- no two memoised nodes share an object (`Shaped`: every quantifier binds at least one variable, as every
    quantifier that the formula manager builds) -/
theorem theory_no_alias (hist : List Term) (hsh : ∀ t ∈ hist, TheoryHeap.Shaped t) :
    TheoryHeap.NoAlias (TheoryHeap.run hist TheoryHeap.St.init) :=
  TheoryHeap.theory_no_alias hist hsh

/-- an object stored in the memo is never written afterwards, whatever is walked later -/
theorem theory_never_mutated (s : TheoryHeap.St) (hs : TheoryHeap.MemoOK s) (later : List Term) (t : Term) (a : Nat)
    (hm : (t, a) ∈ s.memo) : (TheoryHeap.run later s).heap.cells a = s.heap.cells a :=
  TheoryHeap.theory_never_mutated s hs later t a hm

/-- `get_theory` / `get_logic` of a formula do not depend on the earlier oracle calls -/
theorem get_theory_indep (hist : List Term) (t : Term) :
    (TheoryHeap.getTheory t (TheoryHeap.run hist TheoryHeap.St.init)).1 = (TheoryHeap.getTheory t TheoryHeap.St.init).1 := by
  rw [(TheoryHeap.get_theory_indep hist t).1, (TheoryHeap.get_theory_indep hist t).2]

theorem get_logic_indep (hist : List Term) (t : Term) :
    (TheoryHeap.getLogicH t (TheoryHeap.run hist TheoryHeap.St.init)).1
      = (TheoryHeap.getLogicH t TheoryHeap.St.init).1 := by
  rw [TheoryHeap.get_logic_indep hist t, ← TheoryHeap.get_logic_indep [] t]; rfl

-- non-vacuity: `p(x, b)` then `x < y` -- the history of the seeded aliasing change; every constructible term is `Shaped`
example : TheoryHeap.Shaped (Term.node .lt [Term.var "x" .int, Term.var "y" .int] .none) := by
  intro x hx
  simp [Term.subterms, Term.var, Term.sym] at hx
  rcases hx with rfl | rfl | rfl <;> rfl

/-! ### Non-vacuity, and the pre-repair behaviour -/

section example_
open PySMT.WalkerDriver

def dag : Graph Nat := mkGraph #[[], [], [0, 1], [2, 2], [3, 0]]
def f0 : Nat → List Nat → Except Nat Nat := fun n args => .ok (hcb n args)
def fresh : WState (AMemo Nat Nat) Nat := WState.init

example : Idle dag (fun _ => false) f0 fresh := idle_init _ _ _
-- a history really changes the state (3 nodes memoised) and not the result
example : (walks dag (fun _ => false) (fun _ => f0) false true 18 [2, 0] fresh).2.memo.length = 3 := by decide
example : (walk dag (fun _ => false) (fun _ => f0) false true 18 4
             (walks dag (fun _ => false) (fun _ => f0) false true 18 [2, 0] fresh).2).1
        = (walk dag (fun _ => false) (fun _ => f0) false true 18 4 fresh).1 := by decide
example : CacheOK (mkInt (.int 1) []).2 := (Walker.const_cache_indep _ _ cacheOK_nil).2
-- F07 before the repair: `Int(1.0)` raises in a fresh manager, returns the node `1` after `Int(1)`
example : (mkIntOld (.float 1) []).1 = .error () ∧ (mkIntOld (.float 1) (mkIntOld (.int 1) []).2).1 = .ok 1 :=
  const_cache_dep_old
-- after the repair it raises in both
example : (mkInt (.float 1) (mkInt (.int 1) []).2).1 = .error () := rfl

end example_

end PySMT.C14
