import PySMT.Proofs.C10NNF
import PySMT.Proofs.C10AIG
import PySMT.Proofs.C10Fv
import PySMT.Proofs.C10Partition
import PySMT.Proofs.C10SelfSub
import PySMT.Proofs.C10TimesShape
import PySMT.Proofs.C10PrenexTotal
import PySMT.Proofs.C10Propagate
import PySMT.Proofs.SimpMain
/-!
# C10 — normal forms and Boolean quantifier elimination: property theorems (obligations)

Models: `PySMT/Impl/Rewritings/*.lean` (one file per procedure of `pysmt/rewritings.py` /
`pysmt/solvers/qelim.py`). Reference semantics: `eval` (`Core/Eval.lean`).

What is a theorem about what: every statement is about the hand-written models; their agreement with the
Python code is tested on every run (harness K), not proved.

Hypotheses (all decidable). They hold of the formulas a `FormulaManager` builds **except** that
`Term.wf` makes every `pow` and algebraic-constant node ill-formed (they have no semantics in
`Core/Eval.lean`): no theorem below speaks about a formula containing `Pow`.
* `t.wf` : well-typed with the constructors' arities, no `pow` / algebraic constant (`Impl/WF.lean`);
* `t.typeOf = some .bool` : a formula (the procedures that only make sense on formulas);
* `I.WF` : every symbol / function value inhabits its sort, every quantification domain is
  non-empty and well-sorted ("every interpretation");
* `BoolExact I` : both truth values are in the Boolean quantification domain ("Boolean
  quantifiers are evaluated exactly") — needed by the two QE procedures only;
* `boolQuants t` : every binder binds Boolean variables (the fragment of the QE procedures;
  otherwise `ShannonQuantifierEliminator` raises; Python's self-substitution has no such check, its
  behaviour on other binders is outside the theorems);
* `normal t`, `ConstKeys t` (propagate only, inherited from the substitution lemma of C05): the
  constructors' normal form, and array values whose keys are constant nodes.
-/
namespace PySMT.C10
open PySMT.Rewritings

/-! ## negation normal form -/

/-- `nnf(t)` has the value of `t` under every interpretation -/
theorem nnf_equiv (t : Term) (hwf : t.wf = true) (hty : t.typeOf = some .bool) (I : Interp) (hI : I.WF) :
    eval I (nnf t) = eval I t := Rewritings.nnf_equiv t hwf hty I hI

/-- negations only on atoms; only `and` / `or` / binders above the literals -/
theorem nnf_shape (t : Term) (hwf : t.wf = true) : isNNF (nnf t) = true := Rewritings.nnf_shape t hwf

/-- the result is again a well-formed formula -/
theorem nnf_wf (t : Term) (hwf : t.wf = true) (hty : t.typeOf = some .bool) :
    (nnf t).wf = true ∧ (nnf t).typeOf = some .bool := Rewritings.nnf_wf t hwf hty

/-- interface fact: `nnf` introduces no free symbol -/
theorem nnf_fv (t : Term) (hwf : t.wf = true) : ∀ s ∈ (nnf t).fv, s ∈ t.fv := Rewritings.nnf_fv_main t hwf

/-! ## and-inverter form -/

theorem aig_equiv (t : Term) (hwf : t.wf = true) (hty : t.typeOf = some .bool) (I : Interp) (hI : I.WF) :
    eval I (aig t) = eval I t := Rewritings.aig_equiv t hwf hty I hI

/-- only `and` and `not` above the atoms (binders are kept) -/
theorem aig_shape (t : Term) (hwf : t.wf = true) (hty : t.typeOf = some .bool) : isAIG (aig t) = true :=
  Rewritings.aig_shape t ⟨hwf, hty⟩

theorem aig_wf (t : Term) (hwf : t.wf = true) (hty : t.typeOf = some .bool) :
    (aig t).wf = true ∧ (aig t).typeOf = some .bool := Rewritings.aig_wf t hwf hty

/-- interface fact: `aig` introduces no free symbol -/
theorem aig_fv (t : Term) (hwf : t.wf = true) (hty : t.typeOf = some .bool) : ∀ s ∈ (aig t).fv, s ∈ t.fv :=
  Rewritings.aig_fv_main t ⟨hwf, hty⟩

/-! ## top-level partitions -/

/-- `phi <-> And(conjunctive_partition(phi))` -/
theorem partition_equiv (t : Term) (hwf : t.wf = true) (hty : t.typeOf = some .bool) (I : Interp) (hI : I.WF) :
    eval I (mkAnd (conjPartition t)) = eval I t := conj_partition_equiv t hwf hty I hI

/-- `phi <-> Or(disjunctive_partition(phi))` -/
theorem partition_equiv_dual (t : Term) (hwf : t.wf = true) (hty : t.typeOf = some .bool) (I : Interp)
    (hI : I.WF) : eval I (mkOr (disjPartition t)) = eval I t := disj_partition_equiv t hwf hty I hI

/-- no element of the conjunctive partition is an `And`, none is yielded twice -/
theorem partition_shape (t : Term) (hwf : t.wf = true) (hty : t.typeOf = some .bool) :
    (∀ x ∈ conjPartition t, isAnd x = false) ∧ (conjPartition t).Nodup :=
  ⟨conj_partition_no_and t hwf hty, dedup_nodup _⟩

theorem partition_shape_dual (t : Term) (hwf : t.wf = true) (hty : t.typeOf = some .bool) :
    (∀ x ∈ disjPartition t, isOr x = false) ∧ (disjPartition t).Nodup :=
  ⟨disj_partition_no_or t hwf hty, dedup_nodup _⟩

/-! ## Boolean quantifier elimination -/

/-- Shannon expansion returns a formula (term) with the same value …

Model boundary (`shannon_*`, `selfSub_*`): the theorems are about the model's own substitution `substT`, which
rebuilds nodes as they are (only `not`/`and`/`or`/binders go through the smart constructors).  The code rebuilds an
array VALUE through `FormulaManager.Array`, which drops the entries equal to the new default
(`Array(p)[3 := False]` with `p := False`); agreement of the model with the code on inputs where an eliminated
variable occurs inside an array-value node is not covered (K leaves these inputs out; the semantic check S and the
statements below, which are about the model, are unaffected). -/
theorem shannon_equiv (t : Term) (hwf : t.wf = true) (hbq : boolQuants t = true) (I : Interp) (hI : I.WF)
    (hx : BoolExact I) : eval I (shannon t) = eval I t := (shannon_spec t hwf hbq).2.2 I hI hx

/-- … without any quantifier, well-formed, of the same sort -/
theorem shannon_qf (t : Term) (hwf : t.wf = true) (hbq : boolQuants t = true) :
    (shannon t).isQF = true ∧ (shannon t).wf = true ∧ (shannon t).typeOf = t.typeOf :=
  ⟨(shannon_spec t hwf hbq).2.1, (shannon_spec t hwf hbq).1⟩

theorem selfSub_equiv (t : Term) (hwf : t.wf = true) (hbq : boolQuants t = true) (I : Interp) (hI : I.WF)
    (hx : BoolExact I) : eval I (selfSub t) = eval I t := (selfSub_spec t hwf hbq).2.2 I hI hx

theorem selfSub_qf (t : Term) (hwf : t.wf = true) (hbq : boolQuants t = true) :
    (selfSub t).isQF = true ∧ (selfSub t).wf = true ∧ (selfSub t).typeOf = t.typeOf :=
  ⟨(selfSub_spec t hwf hbq).2.1, (selfSub_spec t hwf hbq).1⟩

/-! ## distribution of products over sums -/

/-- `TimesDistributor(env).walk(t)` has the value of `t` (any term, any sort) … -/
theorem times_equiv (t : Term) (hwf : t.wf = true) (I : Interp) (hI : I.WF) :
    eval I (timesDistr t) = eval I t := Rewritings.times_equiv t hwf I hI

/-- … and is well-formed of the same sort -/
theorem times_wf (t : Term) (hwf : t.wf = true) :
    (timesDistr t).wf = true ∧ (timesDistr t).typeOf = t.typeOf := (times_spec t hwf).1

/-- the advertised normal form: no product and no sum has a sum among its arguments, no subtraction is left -/
theorem times_shape (t : Term) (hwf : t.wf = true) : timesNormal (timesDistr t) = true :=
  Rewritings.times_shape t hwf

/-! ## prenex normal form -/

/-- the result (when the walk returns one) is a quantifier prefix over a quantifier-free matrix,
for every input whose quantifiers occur in Boolean positions only — with or without renaming -/
theorem prenex_shape (fresh : Nat → String) (t r : Term) (hq : quantInBoolPos t = true)
    (h : prenex fresh t = some r) : isPrenex r = true := Rewritings.prenex_shape fresh t r hq h

/-- **`prenex_equiv`**: for every formula whose quantifiers occur in Boolean positions
(`quantInBoolPos`) and whose binders bind plain symbols (`plainBinders`), and every supply `fresh` of
pairwise different names (`Inj`) none of which is the name of a symbol occurring — free, bound or
applied — in the formula (`Avoids`; the correspondence run checks this of the real `FormulaManager`), the
prenex normal form has the value of the input under every interpretation.  This covers the
alpha-renaming of clashing bound variables and binders that list a variable twice. -/
theorem prenex_equiv (fresh : Nat → String) (hinj : Inj fresh) (t r : Term) (hwf : t.wf = true)
    (hty : t.typeOf = some .bool) (hq : quantInBoolPos t = true) (hpl : plainBinders t = true)
    (hav : Avoids fresh t) (h : prenex fresh t = some r) (I : Interp) (hI : I.WF) : eval I r = eval I t :=
  prenex_equiv_main hinj t r hwf hty hq hpl hav h I hI

/-- **`prenex_total`**: on every well-formed formula the walk returns a result (so `prenex_equiv`,
`prenex_shape`, `prenex_wf` are not vacuous for any class of formulas) -/
theorem prenex_total (fresh : Nat → String) (t : Term) (hwf : t.wf = true) (hty : t.typeOf = some .bool) :
    ∃ r, prenex fresh t = some r := prenex_total_main t hwf hty

/-- **`prenex_wf`**: the result is a well-formed formula (same hypotheses as `prenex_equiv`) -/
theorem prenex_wf (fresh : Nat → String) (hinj : Inj fresh) (t r : Term) (hwf : t.wf = true)
    (hty : t.typeOf = some .bool) (hq : quantInBoolPos t = true) (hpl : plainBinders t = true)
    (hav : Avoids fresh t) (h : prenex fresh t = some r) : r.wf = true ∧ r.typeOf = some .bool :=
  prenex_wf_main hinj t r hwf hty hq hpl hav h

/-! ## top-level propagation -/

/-- the full statement for `propagate_toplevel(f, do_simplify=False)` (every formula, binders
included). It is **false** for the real code and for the model alike when the representative of a class
is bound by a binder of the formula (`y = x ∧ ∀x. x ≤ y` becomes `… ∀x. x ≤ x …`: known finding F51),
so it is not a theorem; the search reports F51 as a known finding. -/
def propagate_equiv_full_statement : Prop :=
  ∀ (rank : Term → Int) (t r : Term), t.wf = true → t.typeOf = some .bool →
    propagate rank t = some r → ∀ I : Interp, I.WF → eval I r = eval I t

/-- **`propagate_total`**: on every well-formed formula `propagate_toplevel` returns (constants of one
sort can always be ranked), for every ranking of the symbols -/
theorem propagate_total (rank : Term → Int) (t : Term) (hwf : t.wf = true) (hty : t.typeOf = some .bool) :
    ∃ r, propagate rank t = some r := propagate_total_main rank t hwf hty

/-- **`propagate_wf`**: the result is a well-formed formula -/
theorem propagate_wf (rank : Term → Int) (t r : Term) (hwf : t.wf = true) (hty : t.typeOf = some .bool)
    (hn : Build.normal t = true) (h : propagate rank t = some r) : r.wf = true ∧ r.typeOf = some .bool :=
  propagate_wf_main rank t r hwf hty hn h

/-- `_partial` (the full statement above is false): proved whenever no symbol of a *representative* — a
value of the substitution `sigma = movedOf rank t` — is bound anywhere in the formula (`repsNotBound`).
This is what the capture of F51 needs; a bound *key* (`x = y ∧ ∀y. y ≤ z` with `x` leading) or a constant
representative (`x = 1 ∧ ∀x. x ≤ y`) is harmless and allowed.  The guard is sufficient, not necessary (a
bound representative whose key does not occur below that binder is harmless too).  The substitution is the
`MGSubstituter` model of C05 (rebuilding through every manager constructor: `ToReal(1)` folds to `1.0`,
`r / 2.0` becomes `r * 1/2`), whence the hypotheses `normal t` and `ConstKeys t` of its substitution lemma.
Every ranking `rank` (= the node ids the disjoint set compares); the early `False` on two different
constants in one class is included. -/
theorem propagate_equiv_partial (rank : Term → Int) (t r : Term) (hwf : t.wf = true)
    (hty : t.typeOf = some .bool) (hn : Build.normal t = true) (hck : Subst.ConstKeys t = true)
    (hsafe : repsNotBound rank t = true) (h : propagate rank t = some r)
    (I : Interp) (hI : I.WF) : eval I r = eval I t :=
  propagate_equiv_main rank t r hwf hty hn hck hsafe h I hI

/-- the default `do_simplify=True`: `propagate_toplevel` followed by the simplifier model of C01.
`_partial`: in addition to the hypotheses of `propagate_equiv_partial`, the intermediate result must lie in
the fragment `Simplifier.inFrag` of C01's soundness theorem, and no division by zero may be evaluated in it
under `I` (C01's proviso). -/
theorem propagate_simp_equiv_partial (rank : Term → Int) (t r0 r : Term) (hwf : t.wf = true)
    (hty : t.typeOf = some .bool) (hn : Build.normal t = true) (hck : Subst.ConstKeys t = true)
    (hsafe : repsNotBound rank t = true) (h0 : propagate rank t = some r0) (h : propagateSimp rank t = some r)
    (hfr : Simplifier.inFrag r0 = true) (I : Interp) (hI : I.WF) (hd : div0 I r0 = false) :
    eval I r = eval I t := by
  have hr : r = Simplifier.simp r0 := by
    unfold propagateSimp at h
    rw [h0] at h
    exact (Option.some.inj h).symm
  obtain ⟨hw0, ht0⟩ := propagate_wf_main rank t r0 hwf hty hn h0
  rw [hr, ((Simplifier.simp_spec r0 hw0 hfr .bool ht0).2.1 I hI hd).1]
  exact propagate_equiv_main rank t r0 hwf hty hn hck hsafe h0 I hI

/-- every member of the conjunctive partition is implied by the formula (and dually) -/
theorem partition_members (t : Term) (hwf : t.wf = true) (hty : t.typeOf = some .bool) (I : Interp) (hI : I.WF) :
    (truth I t = true → ∀ x ∈ conjPartition t, truth I x = true) ∧
    (∀ x ∈ disjPartition t, truth I x = true → truth I t = true) := by
  constructor
  · intro ht x hx
    have := (conjLeaves_spec t ⟨hwf, hty⟩).2 I hI
    rw [ht, List.all_eq_true] at this
    exact this x ((mem_dedup x _).mp hx)
  · intro x hx htx
    have := (disjLeaves_spec t ⟨hwf, hty⟩).2 I hI
    rw [← this, List.any_eq_true]
    exact ⟨x, (mem_dedup x _).mp hx, htx⟩

/-! ## non-vacuity: the hypotheses are satisfiable by non-trivial formulas and interpretations -/
section Examples

private def p : Sym := Sym.var "p" .bool
private def q : Sym := Sym.var "q" .bool
private def b : Sym := Sym.var "b" .bool
private def x : Sym := Sym.var "x" .int
/-- `(∀ b. b ∨ p) ∧ ¬ite(p, q, x ≤ 1)` -/
private def t0 : Term :=
  .mkAnd [.mkForall [b] (.mkOr [.sym b, .sym p]),
          .mkNot (.mkIte (.sym p) (.sym q) (.node .le [.sym x, .int 1] .none))]

local macro "term_eval" : tactic => `(tactic| (
  simp only [Term.wf, Term.typeOf, boolQuants, plainBinders, quantInBoolPos,
    Term.isQF, Term.subterms, Op.isQuantifier, Term.op,
    Term.mkForall, Term.mkAnd, Term.mkOr, Term.mkNot, Term.mkIte, Term.sym, Term.int, Sym.var, List.map, List.all,
    List.flatten, List.append, t0, p, q, b, x] <;>
  decide))

example : t0.wf = true ∧ t0.typeOf = some .bool := ⟨by term_eval, by term_eval⟩
example : boolQuants t0 = true ∧ plainBinders t0 = true ∧ quantInBoolPos t0 = true :=
  ⟨by term_eval, by term_eval, by term_eval⟩

/-- an interpretation that is well-formed and has an exact Boolean domain -/
example : ∃ I : Interp, I.WF ∧ BoolExact I :=
  ⟨{ sym := fun s => s.ret.defaultVal, fn := fun f _ => f.ret.defaultVal,
     dom := fun t => if t = .bool then [.b true, .b false] else [t.defaultVal],
     div0r := fun _ => 0, div0i := fun _ => 0 },
   by
    have hdef : ∀ t : Ty, t.defaultVal.hasSort t = true := by
      intro t
      induction t with
      | bool | int | real | str => rfl
      | bv w => simp [Ty.defaultVal, Val.hasSort, Nat.two_pow_pos]
      | array i e _ ihe => simp [Ty.defaultVal, Val.hasSort, ihe]
      | custom n => simp [Ty.defaultVal, Val.hasSort]
    refine ⟨⟨fun s => hdef _, fun f _ => hdef _, fun t => by simp only; split <;> simp, fun t v hv => ?_⟩, ?_⟩
    · simp only at hv
      split at hv
      · next h => subst h; simp at hv; rcases hv with rfl | rfl <;> rfl
      · simp at hv; subst hv; exact hdef t
    · simp [BoolExact]⟩

/-- the repaired F18 behaviour on the model: the negation is pushed into the branches of the `ite` -/
example : nnf (.mkNot (.mkIte (.sym p) (.sym q) (.sym b))) =
    .node .and [.node .or [.node .not [.sym p] .none, .node .not [.sym q] .none] .none,
                .node .or [.sym p, .node .not [.sym b] .none] .none] .none := by
  simp [nnf, nnfP, mkAnd, mkOr, Term.mkNot, Term.mkIte, Term.sym]

/-- `∃b. ¬b` by self-substitution is `¬¬⊤`, i.e. `⊤` after the constructor's double-negation rule -/
example : selfSub (.mkExists [b] (.mkNot (.sym b))) = Term.tt := by
  simp [selfSub, selfSubVars, selfSubStep, substT.eq_def, lookupT, bodyMap, rebuild, mkNot, Term.mkExists, Term.mkNot,
    Term.sym, Term.tt, b, Sym.var]

/-- `(∀ b. b ∨ p) ∧ b` : the bound `b` clashes with the free `b` and is renamed to the first fresh name -/
private def t1 : Term := .mkAnd [.mkForall [b] (.mkOr [.sym b, .sym p]), .sym b]

private def freshEx (n : Nat) : String := String.ofList ('%' :: List.replicate n 'f')

example : prenex freshEx t1 =
    some (.mkForall [Sym.var (freshEx 0) .bool] (.mkAnd [.mkOr [.sym (Sym.var (freshEx 0) .bool), .sym p], .sym b])) := by
  simp [prenex, prenexW, prenexL, prenexNode, allSome, conjDisj, mergeArgs, mergeBlocks, renFrom, prenexQuant,
    dedupSyms, boundOf, mkOr, mkAnd, mkForall, wrapBlocks, substT.eq_def, lookupT, bodyMap, rebuild, Term.fv, t1,
    Term.mkAnd, Term.mkForall, Term.mkOr, Term.sym, p, b, Sym.var]

example : Inj freshEx := by
  intro i j h
  have := congrArg String.length h
  simpa [freshEx] using this

example : Avoids freshEx t1 := by
  intro s hs k
  simp [allSyms, t1, Term.mkAnd, Term.mkForall, Term.mkOr, Term.sym, p, b, Sym.var] at hs
  rcases hs with rfl | rfl | rfl | rfl <;>
    (intro h; have := congrArg String.toList h; simp [freshEx] at this)

private def y : Sym := Sym.var "y" .int

/-- `x = 1 ∧ x ≤ y` : the definition is propagated and kept -/
private def t2 : Term := .mkAnd [.mkEq (.sym x) (.int 1), .node .le [.sym x, .sym y] .none]

example : propagate (fun _ => 0) t2 =
    some (.node .and [.node .and [.mkEq (.int 1) (.int 1), .node .le [.int 1, .sym y] .none] .none,
                      .mkEq (.sym x) (.int 1)] .none) := by
  simp [propagate, buildLeader, conjPartition, conjLeaves, dedup, isDefinition, isSymbol, isConstant, Term.op,
    Op.isConstant, dsAdd, Leader.ensure, Leader.get, lookupT, compareRank, Subst.substG.eq_def, Subst.bodyMap,
    Subst.build, Subst.noInterp, Subst.lookup, Build.rebuild, Build.mkAndN, Build.isBvSameWidthOp, Op.isQuantifier, mkAnd, t2, Term.mkAnd, Term.mkEq, Term.sym, Term.int, x, y, Sym.var]

/-- the guard is exact about *representatives*: with `rank` constantly 0 the first member met leads.
`x = 1 ∧ ∀x. x ≤ y` (constant representative) is allowed, and so is a bound key;
`x = y ∧ ∀x. x ≤ y` with `x` leading (finding F51: the representative `x` is bound) is not -/
example : repsNotBound (fun _ => 0) (.mkAnd [.mkEq (.sym x) (.int 1), .mkForall [x] (.node .le [.sym x, .sym y] .none)]) = true ∧
    repsNotBound (fun _ => 0) (.mkAnd [.mkEq (.sym x) (.sym y), .mkForall [x] (.node .le [.sym x, .sym y] .none)]) = false := by
  constructor <;>
  simp [repsNotBound, movedOf, buildLeader, boundVars, conjPartition, conjLeaves, dedup, isDefinition, isSymbol,
    isConstant, Term.op, Op.isConstant, dsAdd, Leader.ensure, Leader.get, lookupT, compareRank, Term.fv, Term.mkAnd,
    Term.mkEq, Term.mkForall, Term.sym, Term.int, x, y, Sym.var]

example : Build.normal t2 = true ∧ Subst.ConstKeys t2 = true ∧ repsNotBound (fun _ => 0) t2 = true := by
  refine ⟨?_, ?_, ?_⟩
  · simp [Build.normal, Build.normalNode, Build.isBvSameWidthOp, t2, Term.mkAnd, Term.mkEq, Term.sym, Term.int, Term.op]
  · simp [Subst.ConstKeys, Build.pairsOf, t2, Term.mkAnd, Term.mkEq, Term.sym, Term.int]
  · simp [repsNotBound, movedOf, buildLeader, boundVars, conjPartition, conjLeaves, dedup, isDefinition, isSymbol,
      isConstant, Term.op, Op.isConstant, dsAdd, Leader.ensure, Leader.get, lookupT, compareRank, Term.fv, t2,
      Term.mkAnd, Term.mkEq, Term.sym, Term.int, x, y, Sym.var]

/-- `(x + 1) * y` is distributed -/
example : timesDistr (.node .times [.node .plus [.sym x, .int 1] .none, .sym y] .none) =
    .node .plus [.node .times [.sym x, .sym y] .none, .node .times [.int 1, .sym y] .none] .none := by
  simp [timesDistr, walkTimes, walkPlus, summands, cartesian, mkPlus, mkTimes, isPlus, rebuild, Term.sym, Term.int]

end Examples

end PySMT.C10
