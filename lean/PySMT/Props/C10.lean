import PySMT.Impl.Rewritings.NNF
/-! C10 property theorems (under construction). -/
namespace PySMT.C10
open PySMT.Rewritings

theorem nnf_atom_partial (s : Sym) : nnf (Term.sym s) = Term.sym s := by
  simp [nnf, nnfP, Term.sym]

end PySMT.C10
