import PySMT.Proofs.C10NNF
import PySMT.Proofs.C10AIG
import PySMT.Proofs.C10Partition
import PySMT.Proofs.C10SelfSub
import PySMT.Proofs.C10Times
/-!
# C10 — normal forms and Boolean quantifier elimination: property theorems (obligations)

Models: `PySMT/Impl/Rewritings/*.lean` (one file per procedure of `pysmt/rewritings.py` /
`pysmt/solvers/qelim.py`). Reference semantics: `eval` (`Core/Eval.lean`).

Hypotheses (all decidable, satisfied by every formula a `FormulaManager` builds):
* `t.wf` : well-typed with the constructors' arities (`Impl/WF.lean`);
* `t.typeOf = some .bool` : a formula (the procedures that only make sense on formulas);
* `I.WF` : every symbol / function value inhabits its sort, every quantification domain is
  non-empty and well-sorted ("every interpretation");
* `BoolExact I` : both truth values are in the Boolean quantification domain ("Boolean
  quantifiers are evaluated exactly") — needed by the two QE procedures only;
* `boolQuants t` : every binder binds Boolean variables (the fragment of the QE procedures;
  otherwise `ShannonQuantifierEliminator` raises).
-/
namespace PySMT.C10
open PySMT.Rewritings

/-! ## negation normal form -/

/-- `nnf(t)` has the value of `t` under every interpretation -/
theorem nnf_equiv (t : Term) (hwf : t.wf = true) (hty : t.typeOf = some .bool) (I : Interp) (hI : I.WF) :
    eval I (nnf t) = eval I t := Rewritings.nnf_equiv t hwf hty I hI

/-- negations only on atoms; only `and` / `or` / binders above the literals -/
theorem nnf_shape (t : Term) (hwf : t.wf = true) : isNNF (nnf t) = true := Rewritings.nnf_shape t hwf

/-- the result is again a well-formed formula -/
theorem nnf_wf (t : Term) (hwf : t.wf = true) (hty : t.typeOf = some .bool) :
    (nnf t).wf = true ∧ (nnf t).typeOf = some .bool := Rewritings.nnf_wf t hwf hty

/-! ## and-inverter form -/

theorem aig_equiv (t : Term) (hwf : t.wf = true) (hty : t.typeOf = some .bool) (I : Interp) (hI : I.WF) :
    eval I (aig t) = eval I t := Rewritings.aig_equiv t hwf hty I hI

/-- only `and` and `not` above the atoms (binders are kept) -/
theorem aig_shape (t : Term) (hwf : t.wf = true) (hty : t.typeOf = some .bool) : isAIG (aig t) = true :=
  Rewritings.aig_shape t ⟨hwf, hty⟩

theorem aig_wf (t : Term) (hwf : t.wf = true) (hty : t.typeOf = some .bool) :
    (aig t).wf = true ∧ (aig t).typeOf = some .bool := Rewritings.aig_wf t hwf hty

/-! ## top-level partitions -/

/-- `phi <-> And(conjunctive_partition(phi))` -/
theorem partition_equiv (t : Term) (hwf : t.wf = true) (hty : t.typeOf = some .bool) (I : Interp) (hI : I.WF) :
    eval I (mkAnd (conjPartition t)) = eval I t := conj_partition_equiv t hwf hty I hI

/-- `phi <-> Or(disjunctive_partition(phi))` -/
theorem partition_equiv_dual (t : Term) (hwf : t.wf = true) (hty : t.typeOf = some .bool) (I : Interp)
    (hI : I.WF) : eval I (mkOr (disjPartition t)) = eval I t := disj_partition_equiv t hwf hty I hI

/-- no element of the conjunctive partition is an `And`, none is yielded twice -/
theorem partition_shape (t : Term) (hwf : t.wf = true) (hty : t.typeOf = some .bool) :
    (∀ x ∈ conjPartition t, isAnd x = false) ∧ (conjPartition t).Nodup :=
  ⟨conj_partition_no_and t hwf hty, dedup_nodup _⟩

theorem partition_shape_dual (t : Term) (hwf : t.wf = true) (hty : t.typeOf = some .bool) :
    (∀ x ∈ disjPartition t, isOr x = false) ∧ (disjPartition t).Nodup :=
  ⟨disj_partition_no_or t hwf hty, dedup_nodup _⟩

/-! ## Boolean quantifier elimination -/

/-- Shannon expansion returns a formula (term) with the same value … -/
theorem shannon_equiv (t : Term) (hwf : t.wf = true) (hbq : boolQuants t = true) (I : Interp) (hI : I.WF)
    (hx : BoolExact I) : eval I (shannon t) = eval I t := (shannon_spec t hwf hbq).2.2 I hI hx

/-- … without any quantifier, well-formed, of the same sort -/
theorem shannon_qf (t : Term) (hwf : t.wf = true) (hbq : boolQuants t = true) :
    (shannon t).isQF = true ∧ (shannon t).wf = true ∧ (shannon t).typeOf = t.typeOf :=
  ⟨(shannon_spec t hwf hbq).2.1, (shannon_spec t hwf hbq).1⟩

theorem selfSub_equiv (t : Term) (hwf : t.wf = true) (hbq : boolQuants t = true) (I : Interp) (hI : I.WF)
    (hx : BoolExact I) : eval I (selfSub t) = eval I t := (selfSub_spec t hwf hbq).2.2 I hI hx

theorem selfSub_qf (t : Term) (hwf : t.wf = true) (hbq : boolQuants t = true) :
    (selfSub t).isQF = true ∧ (selfSub t).wf = true ∧ (selfSub t).typeOf = t.typeOf :=
  ⟨(selfSub_spec t hwf hbq).2.1, (selfSub_spec t hwf hbq).1⟩

/-! ## distribution of products over sums -/

/-- `TimesDistributor(env).walk(t)` has the value of `t` (any term, any sort) … -/
theorem times_equiv (t : Term) (hwf : t.wf = true) (I : Interp) (hI : I.WF) :
    eval I (timesDistr t) = eval I t := Rewritings.times_equiv t hwf I hI

/-- … and is well-formed of the same sort -/
theorem times_wf (t : Term) (hwf : t.wf = true) :
    (timesDistr t).wf = true ∧ (timesDistr t).typeOf = t.typeOf := (times_spec t hwf).1

end PySMT.C10
