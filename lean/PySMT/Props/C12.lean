import PySMT.Proofs.C12Indep
/-!
# C12 — formula analyses are exact

"The reported set of free symbols, set of atoms, quantifier-freeness, set of sorts and the size
measures of a formula equal what their definitions give on the formula's structure. In particular
the value of a formula depends only on the symbols reported free, and the truth value of a
quantifier-free formula is a function of the truth values of the atoms reported."

**Models** (`Impl/Oracles.lean`): `PySMT.Oracles.{fvO, atomsO, isQFO, typesO, typesCustomO, sizeO}` — the
per-node functions of `pysmt/oracles.py`, class tests from the tables regenerated out of
`pysmt/operators.py`.

**Specification** (trusted reading; `Core/` and `Spec/Analyses.lean`, which does not import the
models): `Term.fv`, `Term.subterms`, `Term.isQF`, `Term.size`, `eval`; `Term.symOccurs`,
`Term.fnOccurs`, `Term.symOk`, `Analyses.{isSkel, atomsDef, skelEval, SkelReach, Ty.targs,
Ty.subsorts, Ty.isDeclared, nodeSorts, sortsWritten, Good, HasPath, IsCard}`. Two statements use a
definition from `Proofs/`: `Oracles.Occurs` (= `symOccurs ∨ fnOccurs`) and `Oracles.Reach` (only in
`size_bool_dag_any_term`, which says so).

**Quantifier of the theorems**: all terms with `Term.wt = true` (every sub-term is accepted by the
model of `SimpleTypeChecker`) — including quantifiers that shadow free symbols, function
applications, Boolean terms inside theory terms; sharing is invisible to a tree (C04 licenses reading
object identity as structural equality), so the DAG measures count distinct sub-terms.
**Boundary**: `wt` covers every formula pySMT can build *except* a bare function-typed symbol used
as a term (`Symbol("f", FunctionType(INT,[INT]))` itself: `Core/TypeOf` gives it no sort, so
`wt = false`; the real `get_types(f)` returns `[Int, Int -> Int]`, `get_free_variables` `{f}`).
Nothing is proved about such terms; the harness checks the real oracles on them against the
structural definitions (S only).

Which statements are *independent characterisations* and which merely *restate the same recursion*
is said in each docstring.
-/
namespace PySMT.C12
open PySMT.Oracles PySMT.Analyses

/-! ## free symbols -/

/-- FreeVarsOracle = `Term.fv` (Core), as a list and hence as a set. Restates the same case split
(symbol / application / binder / constant / other): the content is that the class tables
(`QUANTIFIERS`, `CONSTANTS`, the complement `DEPENDENCIES_SIMPLE_ARGS`) select the right rule for each
of the 66 node types; the independent characterisations are `fv_qf_occurrences` and the semantic
`value_depends_on_reported_fv`. -/
theorem fv_eq_def (t : Term) (hwt : t.wt = true) : fvO t = t.fv := fvO_eq_fv t hwt

/-- independent (occurrence-based) characterisation on quantifier-free terms: the reported symbols
are exactly the symbols that occur, as a leaf or as the name of an application -/
theorem fv_qf_occurrences (t : Term) (hwt : t.wt = true) (hqf : isQFO t = true) (s : Sym) :
    s ∈ fvO t ↔ (t.symOccurs s ∨ t.fnOccurs s) := by
  rw [fvO_eq_fv t hwt]
  exact ⟨fv_occurs t hwt s, occurs_fv_qf t hwt (by rw [← isQFO_eq_isQF]; exact hqf) s⟩

/-- with binders: every reported symbol occurs (the converse fails exactly for bound occurrences) -/
theorem fv_occurs (t : Term) (hwt : t.wt = true) (s : Sym) (hs : s ∈ fvO t) :
    t.symOccurs s ∨ t.fnOccurs s := by
  rw [fvO_eq_fv t hwt] at hs
  exact Oracles.fv_occurs t hwt s hs

/-- the value of a formula depends only on its free symbols … -/
theorem coincidence (t : Term) (I J : Interp) (hok : t.symOk = true)
    (h : ∀ s ∈ t.fv, I.sym s = J.sym s ∧ I.fn s = J.fn s)
    (hdom : I.dom = J.dom) (hr : I.div0r = J.div0r) (hi : I.div0i = J.div0i) :
    eval I t = eval J t := PySMT.coincidence t I J hok h hdom hr hi

/-- … hence only on the symbols *reported* free (semantic, independent of any syntactic definition) -/
theorem value_depends_on_reported_fv (t : Term) (I J : Interp) (hwt : t.wt = true) (hok : t.symOk = true)
    (h : ∀ s ∈ fvO t, I.sym s = J.sym s ∧ I.fn s = J.fn s)
    (hdom : I.dom = J.dom) (hr : I.div0r = J.div0r) (hi : I.div0i = J.div0i) :
    eval I t = eval J t :=
  PySMT.coincidence t I J hok (by rw [← fvO_eq_fv t hwt]; exact h) hdom hr hi

/-! ## atoms -/

/-- AtomsOracle on a Boolean term = the maximal sub-terms below the Boolean skeleton (`atomsDef` is
typed — "Boolean `ite`" — where the oracle is class-driven with `None` propagation: not the same
recursion) -/
theorem atoms_eq_def (t : Term) (hwt : t.wt = true) (hb : t.typeOf = some .bool) :
    atomsO t = .atoms (atomsDef t) := by
  rw [atomsO_spec t hwt .bool hb]; simp

/-- … and `None` ("theory term") on a term of any other sort; it never raises on a well-typed term -/
theorem atoms_theory_term (t : Term) (hwt : t.wt = true) (τ : Ty) (hτ : t.typeOf = some τ) (hne : τ ≠ .bool) :
    atomsO t = .theory := by
  rw [atomsO_spec t hwt τ hτ]; simp [hne]

/-- the atoms are the non-skeleton nodes reached through the Boolean skeleton -/
theorem atoms_are_skeleton_leaves (t s : Term) : s ∈ atomsDef t ↔ SkelReach t s ∧ isSkel s = false :=
  mem_atomsDef_iff t s

/-- two interpretations that give every reported atom of a quantifier-free Boolean formula the same
value give the formula the same value; nothing else about the interpretations matters (not even
the domains or the division-by-zero functions: all theory content is inside the atoms) -/
theorem atoms_determine (t : Term) (hwt : t.wt = true) (hb : t.typeOf = some .bool) (hqf : isQFO t = true)
    (I J : Interp) (l : List Term) (hl : atomsO t = .atoms l) (h : ∀ a ∈ l, eval I a = eval J a) :
    eval I t = eval J t := by
  rw [atoms_eq_def t hwt hb] at hl
  cases hl
  exact atomsDef_determine I J t (by rw [← isQFO_eq_isQF]; exact hqf) h

/-- the same with truth values only -/
theorem atoms_determine_truth (t : Term) (hwt : t.wt = true) (hb : t.typeOf = some .bool) (hqf : isQFO t = true)
    (I J : Interp) (l : List Term) (hl : atomsO t = .atoms l)
    (h : ∀ a ∈ l, (eval I a).isTrue = (eval J a).isTrue) :
    (eval I t).isTrue = (eval J t).isTrue := by
  rw [atoms_eq_def t hwt hb] at hl
  cases hl
  exact atomsDef_determine_truth I J t (by rw [← isQFO_eq_isQF]; exact hqf) h

/-- the function: the Boolean skeleton (`skelEval`) applied to the truth values of the atoms -/
theorem atoms_truth_function (t : Term) (hqf : isQFO t = true) (I : Interp) :
    (eval I t).isTrue = skelEval (fun a => (eval I a).isTrue) t :=
  Oracles.atoms_truth_function I t (by rw [← isQFO_eq_isQF]; exact hqf)

/-! ## quantifier-freeness -/

theorem qf_iff (t : Term) : isQFO t = true ↔ ∀ s ∈ t.subterms, s.op.isQuantifier = false := isQFO_iff t

/-! ## sorts -/

/-- `get_types` = the sorts written in the formula (of symbols, bound variables, function signatures,
constants, array values) closed under sub-sorts. `nodeSorts` lists, per node type, which sorts are
"written" at a node — the same table as the walk's per-node rule; the content of the theorem is the
bottom-up combination (nothing is lost in arguments: fixed defects F43, F46) and the expansion. What
the result is *for* is stated independently in `types_declare_free_symbols`, `types_declare_bound`,
`types_closed`. -/
theorem types_eq_def (t : Term) (hwt : t.wt = true) (τ : Ty) :
    τ ∈ typesO t ↔ ∃ σ ∈ sortsWritten t, τ ∈ Ty.subsorts σ := mem_typesO t hwt τ

/-- declaration completeness: the sort of every free symbol, and every parameter sort of every free
function symbol, is reported (what `smtlibscript_from_formula` / `SmtLibSolver` rely on) -/
theorem types_declare_free_symbols (t : Term) (hwt : t.wt = true) (s : Sym) (hs : s ∈ t.fv) :
    s.ret ∈ typesO t ∧ ∀ p ∈ s.params, p ∈ typesO t := typesO_declares_fv t hwt s hs

/-- … and the sorts of the bound variables of every quantifier in the formula -/
theorem types_declare_bound (t : Term) (hwt : t.wt = true) (op : Op) (hq : op.isQuantifier = true)
    (args : List Term) (vs : List Sym) (h : Term.node op args (.qvars vs) ∈ t.subterms) :
    ∀ v ∈ vs, v.ret ∈ typesO t := typesO_declares_bound t hwt op hq args vs h

/-- closure under argument sorts -/
theorem types_closed (t : Term) : ∀ τ ∈ typesO t, ∀ σ ∈ Ty.targs τ, σ ∈ typesO t := typesO_closed t

/-- … without duplicates … -/
theorem types_nodup (t : Term) : (typesO t).Nodup := good_nodup (typesO_good t)

/-- … every sort after its argument sorts (`expand_types`: "simpler types first") -/
theorem types_order (t : Term) (k : Nat) (hk : k < (typesO t).length) :
    ∀ y ∈ Ty.targs (typesO t)[k], y ∈ (typesO t).take k := good_order (typesO_good t) k hk

/-- `custom_only=True` returns the declared sorts among `get_types`, in the same order … -/
theorem types_custom_only_filter (t : Term) : typesCustomO t = (typesO t).filter Ty.isDeclared :=
  typesCustomO_eq t

/-- … i.e. every declared sort occurring in a sort written in the formula, also one reachable only
through an array sort or a function signature -/
theorem types_custom_only_spec (t : Term) (hwt : t.wt = true) (τ : Ty) :
    τ ∈ typesCustomO t ↔ Ty.isDeclared τ = true ∧ ∃ σ ∈ sortsWritten t, τ ∈ Ty.subsorts σ :=
  mem_typesCustomO t hwt τ

/-- `expand_types` on any list: closure under sub-sorts, in `Good` order -/
theorem expand_types_spec (ts : List Ty) :
    (∀ x, x ∈ expandTypes ts ↔ ∃ σ ∈ ts, x ∈ Ty.subsorts σ) ∧ Good (expandTypes ts) :=
  ⟨mem_expandTypes ts, expandTypes_good ts⟩

/-! ## size measures -/

/-- MEASURE_TREE_NODES = length of the pre-order list of sub-term occurrences -/
theorem size_tree_eq_def (t : Term) : sizeO .treeNodes t = t.subterms.length := treeO_eq_length_subterms t

/-- (the same number as Core's `Term.size`; this one restates the recursion) -/
theorem size_tree_eq_size (t : Term) : sizeO .treeNodes t = t.size := treeO_eq_size t

/-- MEASURE_DAG_NODES = number of distinct sub-terms -/
theorem size_dag_eq_def (t : Term) : IsCard (fun s => s ∈ t.subterms) (sizeO .dagNodes t) :=
  isCard_eraseDups _ _ (fun s => by rw [dagO_eq_subterms])

/-- MEASURE_LEAVES = number of sub-term occurrences without arguments -/
theorem size_leaves_eq_def (t : Term) :
    sizeO .leaves t = (t.subterms.filter (fun s => s.args.isEmpty)).length := leavesO_eq t

/-- MEASURE_DEPTH = number of nodes on a longest descending chain -/
theorem size_depth_eq_def (t : Term) :
    HasPath t (sizeO .depth t) ∧ ∀ n, HasPath t n → n ≤ sizeO .depth t :=
  ⟨depthO_hasPath t, depthO_max t⟩

/-- MEASURE_SYMBOLS = number of distinct sub-terms that are symbol nodes -/
theorem size_symbols_eq_def (t : Term) :
    IsCard (fun s => s ∈ t.subterms ∧ s.op = .symbol) (sizeO .symbols t) :=
  isCard_eraseDups _ _ (fun s => by rw [symbolsO_eq, List.mem_filter]; simp)

/-- MEASURE_BOOL_DAG of a Boolean formula = number of distinct nodes reached through the Boolean
skeleton (`SkelReach`, `Spec/Analyses.lean`: no reference to the model's stop predicate) … -/
theorem size_bool_dag_eq_def (t : Term) (hwt : t.wt = true) (hb : t.typeOf = some .bool) :
    IsCard (SkelReach t) (sizeO .boolDag t) :=
  isCard_eraseDups _ _ (mem_boolDagO_iff_skelReach t hwt hb)

/-- … whose leaves are the atoms: the walk stops exactly at the reported atoms that are not Boolean
symbols (which have no arguments anyway) — the tie between the measure and the AtomsOracle (fixed
defect F45) -/
theorem size_bool_dag_stops_at_atoms (t : Term) (hwt : t.wt = true) (hb : t.typeOf = some .bool) (s : Term)
    (hs : SkelReach t s) :
    boolDagStop s.op s.typeOf = true ↔ (s ∈ atomsDef t ∧ s.op ≠ .symbol) :=
  boolDagStop_iff_atom t hwt hb s hs

/-- for an arbitrary term (also a theory term as root): the nodes reached without passing below a
node at which the model's own stop predicate `boolDagStop` holds. `Oracles.Reach` is defined in
`Proofs/C12Basic.lean` *through that predicate*: this statement only says that the set-valued walk
computes the reachability closure of its own rule. -/
theorem size_bool_dag_any_term (t : Term) : IsCard (Reach t) (sizeO .boolDag t) :=
  isCard_eraseDups _ _ (mem_boolDagO t)

/-! ## the regenerated operator tables are the ones `Core/Term.lean` was written against -/

theorem operators_order : Gen.Operators.opOrder = Op.all := Gen.Operators.opOrder_eq_all

/-! ## non-vacuity: the hypotheses are satisfiable, the analyses are not constant -/

section Examples
def x : Sym := ⟨"x", [], .int⟩
def pB : Sym := ⟨"p", [], .bool⟩
def qB : Sym := ⟨"q", [], .bool⟩
def fI : Sym := ⟨"f", [.int], .int⟩
def aU : Sym := ⟨"a", [], .array .int (.custom "U")⟩
def rU : Sym := ⟨"r", [.custom "V"], .bool⟩
def cV : Sym := ⟨"c", [], .custom "V"⟩
/-- `(∀x. f(x) < 1) ∧ (x ≤ 0)`: `x` bound in the first conjunct, free in its sibling -/
def ex1 : Term :=
  .mkAnd [.mkForall [x] (.node .lt [.app fI [.sym x], .int 1] .none), .node .le [.sym x, .int 0] .none]
/-- `p ∧ ite(q, p, ite(p,1,0) ≤ 0)`: quantifier-free, a Boolean term inside a theory term -/
def ex2 : Term :=
  .mkAnd [.sym pB, .mkIte (.sym qB) (.sym pB) (.node .le [.mkIte (.sym pB) (.int 1) (.int 0), .int 0] .none)]
/-- `(a = a) ∧ r(c)`: declared sorts `U` (only inside an array sort) and `V` (only in a signature and a symbol) -/
def ex3 : Term := .mkAnd [.mkEq (.sym aU) (.sym aU), .app rU [.sym cV]]

/-- unfold the recursive definitions on the concrete example, then compute -/
local macro "compute" : tactic => `(tactic|
  (simp only [ex1, ex2, ex3, Term.mkAnd, Term.mkForall, Term.mkIte, Term.mkEq, Term.app, Term.sym, Term.int,
     wt_node, typeOf_node,
     symOk_node, fvO_node, isQFO_node, atomsO_node, typesCustomO, typesO, typesWalk_node, sizeO, treeO_node, dagO_node,
     leavesO_node, depthO_node, symbolsO_node, boolDagO_node, List.map_cons, List.map_nil]
   decide))

example : ex1.wt = true ∧ ex1.symOk = true ∧ ex1.typeOf = some .bool := by compute
example : fvO ex1 = [fI, x] := by compute
example : isQFO ex1 = false ∧ isQFO ex2 = true := by compute
example : ex2.wt = true ∧ ex2.typeOf = some .bool := by compute
example : atomsO ex2 = .atoms [.sym pB, .sym qB, .sym pB,
    .node .le [.mkIte (.sym pB) (.int 1) (.int 0), .int 0] .none] := by compute
example : atomsO (.int 1) = .theory := by compute
example : typesO ex1 = [.int] ∧ typesO ex2 = [.bool, .int] := by compute
example : ex3.wt = true ∧ typesO ex3 = [.int, .custom "U", .array .int (.custom "U"), .bool, .custom "V"] ∧
    typesCustomO ex3 = [.custom "U", .custom "V"] := by compute
example : (List.map (fun m => sizeO m ex2) [.treeNodes, .leaves, .depth]) = [11, 7, 5] := by compute
/-- hypothesis of `types_declare_bound`: `ex1` contains a quantifier node binding `x` -/
example : Term.node .forall_ [.node .lt [.app fI [.sym x], .int 1] .none] (.qvars [x]) ∈ ex1.subterms := by
  simp only [ex1, Term.mkAnd, Term.mkForall, subterms_node, List.map_cons, List.map_nil]
  simp
/-- hypothesis of `size_bool_dag_stops_at_atoms`: the atom `ite(p,1,0) ≤ 0` of `ex2` is reached through
the skeleton (`and`, Boolean `ite`) and is not a symbol -/
example : SkelReach ex2 (.node .le [.mkIte (.sym pB) (.int 1) (.int 0), .int 0] .none) := by
  refine .step (by rfl) (List.mem_cons_of_mem _ List.mem_cons_self) ?_
  refine .step ?_ (List.mem_cons_of_mem _ (List.mem_cons_of_mem _ List.mem_cons_self)) (.refl _)
  show ((Term.mkIte (.sym qB) (.sym pB) _).typeOf == some .bool) = true
  simp only [Term.mkIte, Term.sym, Term.int, typeOf_node, List.map_cons, List.map_nil]
  decide
/-- the boundary: a bare function symbol is not a term of the model -/
example : (Term.sym fI).wt = false := by
  simp only [Term.sym, wt_node, List.map_nil]
  decide
end Examples

end PySMT.C12
