import PySMT.Proofs.C12Atoms
import PySMT.Proofs.C12Types
/-!
# C12 — formula analyses are exact

"The reported set of free symbols, set of atoms, quantifier-freeness, set of sorts and the size
measures of a formula equal what their definitions give on the formula's structure. In particular
the value of a formula depends only on the symbols reported free, and the truth value of a
quantifier-free formula is a function of the truth values of the atoms reported."

Models: `PySMT.Oracles.{fvO, atomsO, isQFO, typesO, sizeO}` (`Impl/Oracles.lean`, the per-node
functions of `pysmt/oracles.py` with the class tables regenerated from `pysmt/operators.py`).
Definitions on the structure: `Term.fv`, `Term.subterms`, `Term.isQF`, `Term.size` (Core);
`atomsDef`, `skelEval`, `sortsWritten`, `Ty.subsorts`, `Good`, `HasPath`, `Reach`, `IsCard` (Proofs/C12*).

Quantifier of the theorems: all well-typed terms (`Term.wt`: what `create_node` enforces, hence every
formula that exists) — including quantifiers that shadow free symbols, function symbols, Boolean
terms inside theory terms; sharing is invisible to a tree (C04 licenses reading object identity as
structural equality), so the DAG measures count distinct sub-terms.
-/
namespace PySMT.C12
open PySMT.Oracles

/-! ## free symbols -/

/-- FreeVarsOracle = the definition (`Term.fv`: bound variables removed under their binder only,
function names included), as a list and hence as a set -/
theorem fv_eq_def (t : Term) (hwt : t.wt = true) : fvO t = t.fv := fvO_eq_fv t hwt

/-- the value of a formula depends only on its free symbols … -/
theorem coincidence (t : Term) (I J : Interp) (hok : t.symOk = true)
    (h : ∀ s ∈ t.fv, I.sym s = J.sym s ∧ I.fn s = J.fn s)
    (hdom : I.dom = J.dom) (hr : I.div0r = J.div0r) (hi : I.div0i = J.div0i) :
    eval I t = eval J t := PySMT.coincidence t I J hok h hdom hr hi

/-- … hence only on the symbols *reported* free -/
theorem value_depends_on_reported_fv (t : Term) (I J : Interp) (hwt : t.wt = true) (hok : t.symOk = true)
    (h : ∀ s ∈ fvO t, I.sym s = J.sym s ∧ I.fn s = J.fn s)
    (hdom : I.dom = J.dom) (hr : I.div0r = J.div0r) (hi : I.div0i = J.div0i) :
    eval I t = eval J t :=
  PySMT.coincidence t I J hok (by rw [← fvO_eq_fv t hwt]; exact h) hdom hr hi

/-! ## atoms -/

/-- AtomsOracle on a Boolean term = the maximal sub-terms below the Boolean skeleton -/
theorem atoms_eq_def (t : Term) (hwt : t.wt = true) (hb : t.typeOf = some .bool) :
    atomsO t = .atoms (atomsDef t) := by
  rw [atomsO_spec t hwt .bool hb]; simp

/-- … and `None` ("theory term") on a term of any other sort; it never raises on a formula that exists -/
theorem atoms_theory_term (t : Term) (hwt : t.wt = true) (τ : Ty) (hτ : t.typeOf = some τ) (hne : τ ≠ .bool) :
    atomsO t = .theory := by
  rw [atomsO_spec t hwt τ hτ]; simp [hne]

/-- two interpretations that give every reported atom of a quantifier-free Boolean formula the same
value give the formula the same value; nothing else about the interpretations matters (not even
the domains or the division-by-zero functions: all theory content is inside the atoms) -/
theorem atoms_determine (t : Term) (hwt : t.wt = true) (hb : t.typeOf = some .bool) (hqf : isQFO t = true)
    (I J : Interp) (l : List Term) (hl : atomsO t = .atoms l) (h : ∀ a ∈ l, eval I a = eval J a) :
    eval I t = eval J t := by
  rw [atoms_eq_def t hwt hb] at hl
  cases hl
  exact atomsDef_determine I J t (by rw [← isQFO_eq_isQF]; exact hqf) h

/-- the same with truth values only -/
theorem atoms_determine_truth (t : Term) (hwt : t.wt = true) (hb : t.typeOf = some .bool) (hqf : isQFO t = true)
    (I J : Interp) (l : List Term) (hl : atomsO t = .atoms l)
    (h : ∀ a ∈ l, (eval I a).isTrue = (eval J a).isTrue) :
    (eval I t).isTrue = (eval J t).isTrue := by
  rw [atoms_eq_def t hwt hb] at hl
  cases hl
  exact atomsDef_determine_truth I J t (by rw [← isQFO_eq_isQF]; exact hqf) h

/-- the function: the Boolean skeleton (`skelEval`) applied to the truth values of the atoms -/
theorem atoms_truth_function (t : Term) (hqf : isQFO t = true) (I : Interp) :
    (eval I t).isTrue = skelEval (fun a => (eval I a).isTrue) t :=
  Oracles.atoms_truth_function I t (by rw [← isQFO_eq_isQF]; exact hqf)

/-! ## quantifier-freeness -/

theorem qf_iff (t : Term) : isQFO t = true ↔ ∀ s ∈ t.subterms, s.op.isQuantifier = false := isQFO_iff t

/-! ## sorts -/

/-- `get_types` = the sorts written in the formula (of symbols, bound variables, function signatures,
constants, array values) closed under sub-sorts … -/
theorem types_eq_def (t : Term) (hwt : t.wt = true) (τ : Ty) :
    τ ∈ typesO t ↔ ∃ σ ∈ sortsWritten t, τ ∈ Ty.subsorts σ := mem_typesO t hwt τ

/-- … without duplicates … -/
theorem types_nodup (t : Term) : (typesO t).Nodup := good_nodup (typesO_good t)

/-- … every sort after its argument sorts (`expand_types`: "simpler types first") -/
theorem types_order (t : Term) (k : Nat) (hk : k < (typesO t).length) :
    ∀ y ∈ Ty.targs (typesO t)[k], y ∈ (typesO t).take k := good_order (typesO_good t) k hk

/-- `expand_types` on any list: closure under sub-sorts, in `Good` order -/
theorem expand_types_spec (ts : List Ty) :
    (∀ x, x ∈ expandTypes ts ↔ ∃ σ ∈ ts, x ∈ Ty.subsorts σ) ∧ Good (expandTypes ts) :=
  ⟨mem_expandTypes ts, expandTypes_good ts⟩

/-! ## size measures -/

/-- MEASURE_TREE_NODES = number of nodes of the tree -/
theorem size_tree_eq_def (t : Term) : sizeO .treeNodes t = t.size := treeO_eq_size t

/-- MEASURE_DAG_NODES = number of distinct sub-terms -/
theorem size_dag_eq_def (t : Term) : IsCard (fun s => s ∈ t.subterms) (sizeO .dagNodes t) :=
  isCard_eraseDups _ _ (fun s => by rw [dagO_eq_subterms])

/-- MEASURE_LEAVES = number of sub-term occurrences without arguments -/
theorem size_leaves_eq_def (t : Term) :
    sizeO .leaves t = (t.subterms.filter (fun s => s.args.isEmpty)).length := leavesO_eq t

/-- MEASURE_DEPTH = number of nodes on a longest descending chain -/
theorem size_depth_eq_def (t : Term) :
    HasPath t (sizeO .depth t) ∧ ∀ n, HasPath t n → n ≤ sizeO .depth t :=
  ⟨depthO_hasPath t, depthO_max t⟩

/-- MEASURE_SYMBOLS = number of distinct sub-terms that are symbol nodes -/
theorem size_symbols_eq_def (t : Term) :
    IsCard (fun s => s ∈ t.subterms ∧ s.op = .symbol) (sizeO .symbols t) :=
  isCard_eraseDups _ _ (fun s => by rw [symbolsO_eq, List.mem_filter]; simp)

/-- MEASURE_BOOL_DAG = number of distinct sub-terms reached without entering a theory atom
(`boolDagStop`: relation, Boolean application, Boolean array read) -/
theorem size_bool_dag_eq_def (t : Term) : IsCard (Reach t) (sizeO .boolDag t) :=
  isCard_eraseDups _ _ (mem_boolDagO t)

/-! ## the regenerated operator tables are the ones `Core/Term.lean` was written against -/

theorem operators_order : Gen.Operators.opOrder = Op.all := Gen.Operators.opOrder_eq_all

/-! ## non-vacuity: the hypotheses are satisfiable, the analyses are not constant -/

section Examples
def x : Sym := ⟨"x", [], .int⟩
def pB : Sym := ⟨"p", [], .bool⟩
def qB : Sym := ⟨"q", [], .bool⟩
def fI : Sym := ⟨"f", [.int], .int⟩
/-- `(∀x. f(x) < 1) ∧ (x ≤ 0)`: `x` bound in the first conjunct, free in its sibling -/
def ex1 : Term :=
  .mkAnd [.mkForall [x] (.node .lt [.app fI [.sym x], .int 1] .none), .node .le [.sym x, .int 0] .none]
/-- `p ∧ ite(q, p, ite(p,1,0) ≤ 0)`: quantifier-free, a Boolean term inside a theory term -/
def ex2 : Term :=
  .mkAnd [.sym pB, .mkIte (.sym qB) (.sym pB) (.node .le [.mkIte (.sym pB) (.int 1) (.int 0), .int 0] .none)]

/-- unfold the recursive definitions on the concrete example, then compute -/
local macro "compute" : tactic => `(tactic|
  (simp only [ex1, ex2, Term.mkAnd, Term.mkForall, Term.mkIte, Term.app, Term.sym, Term.int, wt_node, typeOf_node,
     symOk_node, fvO_node, isQFO_node, atomsO_node, typesO, typesWalk_node, sizeO, treeO_node, dagO_node,
     leavesO_node, depthO_node, symbolsO_node, boolDagO_node, List.map_cons, List.map_nil]
   decide))

example : ex1.wt = true ∧ ex1.symOk = true ∧ ex1.typeOf = some .bool := by compute
example : fvO ex1 = [fI, x] := by compute
example : isQFO ex1 = false ∧ isQFO ex2 = true := by compute
example : ex2.wt = true ∧ ex2.typeOf = some .bool := by compute
example : atomsO ex2 = .atoms [.sym pB, .sym qB, .sym pB,
    .node .le [.mkIte (.sym pB) (.int 1) (.int 0), .int 0] .none] := by compute
example : atomsO (.int 1) = .theory := by compute
example : typesO ex1 = [.int] ∧ typesO ex2 = [.bool, .int] := by compute
example : (List.map (fun m => sizeO m ex2) [.treeNodes, .leaves, .depth]) = [11, 7, 5] := by compute
end Examples

end PySMT.C12
