import PySMT.Proofs.C04Ident
import PySMT.Proofs.C04Pub
/-!
# C04 — hash-consing: one object per structure, faithful accessors, faithful copies

Model: `PySMT/Impl/Manager.lean`.  `Reachable s` = `s` is the state of a manager after *any*
finite history of programs over the primitives (`create_node`, `Int`, `Real`, `String`,
`get_or_create_symbol`, `_fresh_guess`, `TypeManager.normalize`), successful or failing.
All theorems below are for every reachable state: no bound on the history.

What the model does NOT contain (so no theorem below speaks about it):
* the type checker itself: `create_node` re-checks the node on BOTH paths (formula.py:99,105),
  raises `PysmtTypeError` for a rejected node and leaves it in the table.  The model has this
  control flow with the verdict as a parameter of the manager (`Mgr.tc : Content → Bool`,
  never changed by any program); every theorem below holds for EVERY verdict function, and
  statements that need a call to return either assume it returned or assume the verdict for
  the contents involved.  Which contents the real checker rejects is C03's subject; K issues
  ill-sorted one-node calls and compares the raised error, the node left in the table, the
  consumed id and the repeated failure on the "found" path.
* object identity across managers: node ids are per-manager name spaces, so "the copy shares
  no formula object with the source" holds by this modelling choice and is *not* a theorem.
  It is an observation of K/S on the real objects (`normalize/shared-node`,
  `normalize/foreign-node`, `normalize/type-not-interned`, `own-formula-not-identity`):
  every node of a copy is checked with `is` against all nodes of the other environments.
* content equality is Lean structural equality; Python uses `==`/`hash` of the
  `(node_type, args, payload)` tuple with `FNode.__eq__` = identity.  Values of different
  Python types that compare equal are modelled where a constructor lets them through
  (`Real`: `PyNum.pyEq`); everywhere else the constructors reject them before the table is
  consulted (`Int`, `BV` value *and width* — F62 repaired —, `BVRol/BVRor/BVZExt/BVSExt`
  steps, `BVExtract` bounds, shift amounts: K issues `True`/`1.0`/`2.0` spellings for all).
-/
namespace PySMT.Props.C04
open PySMT.Manager

/-- one id ⇒ one content (no two structures share an object) -/
theorem table_inj {s : Mgr} (h : Reachable s) {c₁ c₂ : Content} {i : Nid}
    (h₁ : (c₁, i) ∈ s.formulae) (h₂ : (c₂, i) ∈ s.formulae) : c₁ = c₂ :=
  h.inv.tinj _ _ _ h₁ h₂

/-- one content ⇒ one id (no structure has two objects) -/
theorem table_fun {s : Mgr} (h : Reachable s) {c : Content} {i₁ i₂ : Nid}
    (h₁ : (c, i₁) ∈ s.formulae) (h₂ : (c, i₂) ∈ s.formulae) : i₁ = i₂ :=
  h.inv.tfun _ _ _ h₁ h₂

/-- In a reachable state two nodes are the same object exactly when their unfolded trees
    (operator, parameters, children, recursively) are equal — whatever route created them. -/
theorem id_eq_iff_struct_eq {s : Mgr} (h : Reachable s) {i j : Nid}
    (i0 : 0 < i) (i1 : i < s.nextId) (j0 : 0 < j) (j1 : j < s.nextId) :
    i = j ↔ s.struct i = s.struct j :=
  (struct_eq_iff h.inv i0 i1 j0 j1).symm

/-- Two construction histories: build tree `t₁` bottom-up, run an arbitrary program `p`
    (any unrelated constructions, also failing ones), build `t₂`.  Whenever both builds return
    a node — whatever the type checker of the manager accepts or rejects on the way — the ids
    are equal iff the trees are equal. -/
theorem create_same_iff_struct {α : Type} {s₀ : Mgr} (h₀ : Reachable s₀) (t₁ t₂ : Term)
    (w₁ : t₁.WF) (w₂ : t₂.WF) (p : Prog α) {i₁ i₂ : Nid} {s₁ s₃ : Mgr}
    (hr₁ : (buildT t₁).run s₀ = (.ok i₁, s₁)) (hr₂ : (buildT t₂).run (p.run s₁).2 = (.ok i₂, s₃)) :
    i₁ = i₂ ↔ t₁ = t₂ :=
  build_same_iff h₀ t₁ t₂ w₁ w₂ p hr₁ hr₂

/-- … and both builds do return when the type checker accepts what it is asked (`AcceptsAll`:
    the well-sorted reading; every manager of the K histories is of this kind). -/
theorem create_succeeds_when_accepted {α : Type} {s₀ : Mgr} (h₀ : Reachable s₀) (ha : AcceptsAll s₀)
    (t₁ t₂ : Term) (w₁ : t₁.WF) (w₂ : t₂.WF) (p : Prog α) :
    ∃ i₁ s₁ i₂ s₃, (buildT t₁).run s₀ = (.ok i₁, s₁) ∧ (buildT t₂).run (p.run s₁).2 = (.ok i₂, s₃) :=
  build_succeeds h₀ ha t₁ t₂ w₁ w₂ p

/-- `Term.WF` is what every existing node satisfies; re-creating the tree of an existing node
    returns that node whenever it returns (no duplicate can be made). -/
theorem recreate_existing {s : Mgr} (h : Reachable s) {i : Nid} (i0 : 0 < i) (i1 : i < s.nextId) :
    (s.struct i).WF ∧ ∀ j s', (buildT (s.struct i)).run s = (.ok j, s') → j = i :=
  ⟨struct_WF h.inv (i + 1) i (by omega) i0 i1, fun _ _ hr => rebuild_raw_id h.inv i0 i1 hr⟩

/-- Every spelling of a Real constant (`int`, `float`, `Fraction`, pair) that denotes `q`
    returns the same node, in any order, with anything in between (`htc`: the type checker
    accepts the Real constant `q`, as `walk_identity_real` does for every value). -/
theorem const_spelling {α : Type} {s : Mgr} (h : Reachable s) {v₁ v₂ : PyNum} {q : Rat}
    (h₁ : v₁.realValue = .ok q) (h₂ : v₂.realValue = .ok q) (htc : s.tc (realC q) = true) (p : Prog α) :
    ∃ i s₁ s₃, (mkReal v₁).run s = (.ok i, s₁) ∧ (mkReal v₂).run (p.run s₁).2 = (.ok i, s₃) :=
  real_spelling h.inv h₁ h₂ htc p

/-- `BV("#b…")`, `BV("01…")` and `SBV(n, w)` are the same calls as `BV(int, width)`. -/
theorem const_spelling_bv (cs : List Char) {n : Nat} (h : parseBin cs = some n) :
    mkBV (.str (String.ofList ('#' :: 'b' :: cs))) none = mkBV (.int n) (some cs.length) ∧
    mkBV (.str (String.ofList cs)) none = mkBV (.int n) (some cs.length) :=
  ⟨mkBV_str_hash cs h, mkBV_str_plain cs h⟩

theorem const_spelling_sbv {n : Int} {w : Nat} (hw : w ≠ 0) (h1 : -(2 ^ (w - 1) : Int) ≤ n)
    (h2 : n ≤ (2 ^ (w - 1) : Int) - 1) :
    mkSBV (.int n) (some w) = mkBV (.int (if n < 0 then (2 ^ w : Int) + n else n)) (some w) := by
  split
  next hneg => exact mkSBV_neg hw h1 hneg
  next hpos => exact mkSBV_nonneg hw (by omega) h2

/-- `bv_signed_value()` of the constant that `SBV(n, w)` builds is `n` again — in particular
    for the most negative value `n = -2^(w-1)` and for `w = 1`. -/
theorem sbv_signed_value_faithful {n : Int} {w : Nat} (hw : w ≠ 0) (h1 : -(2 ^ (w - 1) : Int) ≤ n)
    (h2 : n ≤ (2 ^ (w - 1) : Int) - 1) :
    bvSignedValue (if n < 0 then (2 ^ w : Int) + n else n).toNat w = n :=
  sbv_signed hw h1 h2

/-- `Int(v)` / `Real(v)` with an illegal argument (`bool`, `float` for `Int`, `str`…) are
    rejected in every state: the outcome does not depend on the history (F07 repaired). -/
theorem const_validation_history_independent (s : Mgr) :
    (∀ v, (∀ n, v ≠ .int n) → (mkInt v).run s = (.error .typeError, s)) ∧
    (∀ v e, v.realValue = .error e → (mkReal v).run s = (.error e, s)) :=
  ⟨fun _ h => mkInt_rejects s h, fun _ _ h => mkReal_rejects s h⟩

/-- NOTE: in the model `node_type()/args()/_content.payload` *are* the reverse table look-up,
    so this theorem is `table_inj` plus stability, not an independent fact; the accessors that
    decode the payload have their own statements below (`symbol_accessors_faithful`,
    `bv_width_faithful`, `array_accessors_faithful`, `sbv_signed_value_faithful`,
    `array_get_correct`).
    The accessors of the node returned by `create_node` report exactly the operator, children
    and payload it was given, and keep doing so after any further program. -/
theorem accessors_faithful {α : Type} {s s' : Mgr} (h : Reachable s) {c : Content} {i : Nid}
    (hc : (create c).run s = (.ok i, s')) (p : Prog α) :
    s'.content? i = some c ∧ (p.run s').2.content? i = some c := by
  have h1 := create_content h.inv hc
  have hp := Prog.run_spec p s' h1.2.1
  exact ⟨h1.1, content_stable hp.1 hp.2 (content?_mem h1.1)⟩

/-- … and the whole tree below a node never changes either. -/
theorem structure_stable {α : Type} {s : Mgr} (h : Reachable s) {i : Nid} (i0 : 0 < i) (i1 : i < s.nextId)
    (p : Prog α) : (p.run s).2.struct i = s.struct i := by
  have hp := Prog.run_spec p s h.inv
  exact struct_stable h.inv hp.1 hp.2 (i + 1) i (by omega) i0 i1

/-- `Array` stores exactly the non-default assignments, strictly sorted by address. -/
theorem array_sorted {s s' : Mgr} (h : Reachable s) {addr : Nid → Nat} {it : Ty} {d i : Nid}
    {assign : List (Nid × Nid)} (hd : DistinctAddr addr assign)
    (hrun : (mkArray addr it d assign).run s = (.ok i, s')) :
    s'.content? i = some ⟨NT.ARRAY_VALUE, d :: flattenPairs (arrayAssignments addr d assign), .ty it⟩ ∧
    SortedBy addr (arrayAssignments addr d assign) ∧
    (∀ kv, kv ∈ arrayAssignments addr d assign ↔ kv ∈ assign ∧ kv.2 ≠ d) :=
  ⟨mkArray_content h.inv hrun, arrayAssignments_sorted hd, fun _ => mem_arrayAssignments⟩

/-- `array_value_get` (binary search by address) = lookup in the assignments, else default. -/
theorem array_get_correct {s s' : Mgr} (h : Reachable s) {addr : Nid → Nat}
    (hinj : ∀ a b, addr a = addr b → a = b) {it : Ty} {d i : Nid} {assign : List (Nid × Nid)}
    (hd : DistinctAddr addr assign) (hrun : (mkArray addr it d assign).run s = (.ok i, s'))
    (idx : Nid) (hc : s'.isConstant idx = true) :
    arrayValueGet addr s' i idx = .ok ((lookupKey (arrayAssignments addr d assign) idx).getD d) :=
  PySMT.Manager.array_get_correct h.inv hinj hd hrun idx hc

/-! ### payload-decoding accessors -/

/-- `Symbol(n, t)`: `symbol_name()` = `n`, `symbol_type()` = `t`, and `bv_width()` = `w` for
    `t = BV w`. -/
theorem symbol_accessors_faithful {s s' : Mgr} (h : Reachable s) {n : String} {t : Ty} {i : Nid}
    (hr : (mkSymbol n t).run s = (.ok i, s')) :
    s'.symbolName i = some n ∧ s'.symbolType i = some t ∧ (∀ w, t = .bv w → s'.bvWidth i = some w) :=
  symbol_accessors h.inv hr

/-- `bv_width()` of a bit-vector constant is the width it was built with; of `BVNot(x)` /
    `BVNeg(x)` the width of `x` at construction (the computed payload is the child's width). -/
theorem bv_width_faithful {s s' : Mgr} (h : Reachable s) :
    (∀ {v w : Nat} {i : Nid}, (create ⟨NT.BV_CONSTANT, [], .bv v w⟩).run s = (.ok i, s') → s'.bvWidth i = some w) ∧
    (∀ {nt : Nat} {x i : Nid}, nt ∈ bvUnNTs → (mkBVUn nt x).run s = (.ok i, s') → s'.bvWidth i = s.bvWidth x) :=
  ⟨fun hr => (bvConst_accessors h.inv hr).1, fun hnt hr => bvUn_width h.inv hnt hr⟩

/-- `Array(it, d, assign)`: `array_value_assigned_values_map()` holds exactly the given
    assignments with a non-default value, `array_value_default()` = `d`,
    `array_value_index_type()` = `it`. -/
theorem array_accessors_faithful {s s' : Mgr} (h : Reachable s) {addr : Nid → Nat} {it : Ty} {d i : Nid}
    {assign : List (Nid × Nid)} (hr : (mkArray addr it d assign).run s = (.ok i, s')) :
    (∃ m, s'.assignedValues i = some m ∧ ∀ kv, kv ∈ m ↔ kv ∈ assign ∧ kv.2 ≠ d) ∧
    s'.arrayDefault i = some d ∧ s'.indexType i = some it :=
  array_accessors h.inv hr

/-! ### documented constructor normalisations: two different calls, one node -/

/-- the rewriting constructors are, as programs, the constructors they rewrite to -/
theorem normalisation_program_equalities (a b : Nid) (nt : Nat) :
    mkGE a b = mkLE b a ∧ mkGT a b = mkLT b a ∧
    mkBVUGT a b = mkBVULT b a ∧ mkBVUGE a b = mkBVULE b a ∧
    mkBVSGT a b = mkBVSLT b a ∧ mkBVSGE a b = mkBVSLE b a ∧
    mkAnd [a] = pure a ∧ mkOr [a] = pure a ∧ mkPlus [a] = pure a ∧ mkTimes [a] = pure a ∧
    mkAnd [] = pure trueId ∧ mkOr [] = pure falseId ∧
    mkQuant nt [] b = pure b ∧ mkFunction a [] = pure a ∧
    mkXor a b = (mkIff a b).bind mkNot ∧ mkNotEquals a b = (mkEquals a b).bind mkNot :=
  ⟨rfl, rfl, rfl, rfl, rfl, rfl, rfl, rfl, rfl, rfl, rfl, rfl, rfl, rfl, rfl, rfl⟩

/-- `GE(a,b)` / `GT(a,b)` now and `LE(b,a)` / `LT(b,a)` at any later point of the history
    return the same node. -/
theorem ge_is_le_swapped {α : Type} {s s1 s3 : Mgr} (h : Reachable s) {a b i j : Nid} (p : Prog α) :
    ((mkGE a b).run s = (.ok i, s1) → (mkLE b a).run (p.run s1).2 = (.ok j, s3) → i = j) ∧
    ((mkGT a b).run s = (.ok i, s1) → (mkLT b a).run (p.run s1).2 = (.ok j, s3) → i = j) :=
  ⟨ge_le_same_node h.inv p, gt_lt_same_node h.inv p⟩

/-- `Not(Not(x)) = x`: `Not` applied (at any later point) to the node `Not(x)` returns `x`
    and creates nothing; and `Not` of *any* `NOT` node returns its child. -/
theorem not_not_is_identity {α : Type} {s s1 : Mgr} (h : Reachable s) {x n : Nid} (p : Prog α)
    (hx : ∃ c, s.content? x = some c ∧ c.nodeType ≠ NT.NOT) (h1 : (mkNot x).run s = (.ok n, s1)) :
    (mkNot n).run (p.run s1).2 = (.ok x, (p.run s1).2) :=
  not_not_same_node h.inv p hx h1

/-- `Div(x, c)` by a non-zero Real constant *is* (same run in every state) `Times(x, Real(1/c))`,
    and the two calls at different points of a history return the same node; `Div(x, 0)` stays
    a `DIV` node. -/
theorem div_by_constant_is_times {α : Type} {s s1 s3 : Mgr} (h : Reachable s) {x r i j : Nid} {q : Rat}
    (p : Prog α) (hr : (realC q, r) ∈ s.formulae) (hq : q ≠ 0) :
    (mkDiv x r).run s = ((mkReal (.frac (1 / q))).bind fun inv => mkTimes [x, inv]).run s ∧
    ((mkDiv x r).run s = (.ok i, s1) →
      ((mkReal (.frac (1 / q))).bind fun inv => mkTimes [x, inv]).run (p.run s1).2 = (.ok j, s3) → i = j) :=
  ⟨mkDiv_real_const h.inv hr hq, div_times_same_node h.inv p hr hq⟩

/-- `ToReal(Int(n))` is `Real(n)` (same run, same node at any later point); `ToReal` of a
    Real-typed term is the term. -/
theorem toReal_normalisations {α : Type} {s s1 s3 : Mgr} (h : Reachable s) {f i j : Nid} {n : Int} (p : Prog α)
    (hf : (intC n, f) ∈ s.formulae) :
    (mkToReal f).run s = (mkReal (.int n)).run s ∧
    ((mkToReal f).run s = (.ok i, s1) → (mkReal (.int n)).run (p.run s1).2 = (.ok j, s3) → i = j) ∧
    (∀ g, s.typeOf g = some .real → (mkToReal g).run s = (.ok g, s)) :=
  ⟨mkToReal_int_const h.inv hf, toReal_const_same_node h.inv p hf, fun _ hg => mkToReal_real hg⟩

/-- `EqualsOrIff` is `Iff` on Boolean terms (same node as a later `Iff`) and `Equals` otherwise. -/
theorem equalsOrIff_normalisation {α : Type} {s s1 s3 : Mgr} (h : Reachable s) {l r i j : Nid} (p : Prog α) :
    (s.typeOf l = some .bool → (mkEqualsOrIff l r).run s = (mkIff l r).run s) ∧
    (∀ t, s.typeOf l = some t → t ≠ .bool → (mkEqualsOrIff l r).run s = (mkEquals l r).run s) ∧
    (s.typeOf l = some .bool → (mkEqualsOrIff l r).run s = (.ok i, s1) →
      (mkIff l r).run (p.run s1).2 = (.ok j, s3) → i = j) :=
  ⟨mkEqualsOrIff_bool, fun _ ht hne => mkEqualsOrIff_nonbool ht hne,
   fun hb h1 h2 => equalsOrIff_iff_same_node h.inv p hb h1 h2⟩

/-! ### everything the public constructors build is normal -/

/-- Public-constructor invariant.  `PubReach addr s`: `s` is reached from a fresh manager by
    calls of the public constructors only — `IsPubAt`: every constructor of the model
    (`Symbol`, `FreshSymbol`, the constants incl. every Python spelling of `BV`/`SBV` widths,
    `And/Or/Plus/Times`, `StrConcat`, `Not`, `Xor`, `NotEquals`, `EqualsOrIff`, `Function`, all
    plain one-node constructors, `ToReal`, `Div`, `Pow`, `Min/Max/MinBV/MaxBV`,
    `AtMostOne/ExactlyOne/AllDifferent`, every bit-vector constructor incl. `BVSMod`,
    `BVRepeat`, n-ary `BVConcat`, `_Algebraic`, `TRUE/FALSE`, rejected calls), `ForAll/Exists`
    over symbols, and `Array` over a dict (`addr` = `id()`, distinct index objects).
    Then `s` is reachable, and the hypothesis `AllNormal` of `rebuild_id` /
    `normalize_copy_partial` holds for *every* node (`true`), and for copies into another
    manager (`false`) whenever the sub-DAG contains no array value: for everything a user can
    build with the constructors the two theorems are unconditional.
    Limit: a manager that also *received* `normalize` copies (normalize as a step of its own
    history) is not `PubReach`; for such a manager `AllNormal` must still be supplied. -/
theorem pub_allNormal {addr : Nid → Nat} {s : Mgr} (h : PubReach addr s) (i : Nid) :
    Reachable s ∧ AllNormal s addr true i ∧
    ((∀ c k, (c, k) ∈ s.formulae → InDag s i k → c.nodeType ≠ NT.ARRAY_VALUE) → AllNormal s addr false i) :=
  ⟨h.spec.1, fun c k hc _ => h.spec.2 c k hc,
   fun hna c k hc hd => (h.spec.2 c k hc).to_false (hna c k hc hd)⟩

/-! ### `normalize` — several environments, persistent memos, arbitrary interleavings

`WReach w`: `w` is a family of managers (one per environment) with the memo of each
manager's `FormulaContextualizer`, reached by *any* interleaving of programs run in any
manager and `normalize` calls from any manager `k` into any manager `t` (also `k = t`).  The
memo of `t` persists over the whole history and is keyed by (source manager, node).
`AllNormal src addr same i`: every node of `src` up to `i` has a content the public
constructors produce (`Normal`: all 66 node types with the side conditions the constructors
establish — `Not` not over `Not`, `And/Or/Plus/Times/StrConcat` with ≥ 2 children, width
payloads equal to the `bv_width` of the child, `ToReal` over a non-constant Int term, `Div`
not by a non-zero Real constant, `Pow` with constant exponent and non-constant base,
quantifiers over ≥ 1 symbol, function applications of the declared arity; array values —
sorted by address, no default-valued assignment — only for `same = true`). -/

/-- `IdentityDagWalker` / `normalize` of a manager's *own* formula, at any point of any
    interleaving (after any number of foreign formulas went through the same normalizer):
    no node is created and, if it returns (it fails only when `TypeManager.normalize` or
    `Symbol` reject a sort/name clash), it returns the node it was given. -/
theorem rebuild_id {w : World} (h : WReach w) (t : Nat) (addr : Nid → Nat) {i : Nid} (i0 : 0 < i)
    (i1 : i < (w.mgrs t).nextId) (hn : AllNormal (w.mgrs t) addr true i) :
    ((w.normalize t t addr i).2.mgrs t).nextId = (w.mgrs t).nextId ∧
    ∀ j, (w.normalize t t addr i).1 = .ok j → j = i := by
  have hn' : AllNormal (w.mgrs t) addr (decide (t = t)) i := by simpa using hn
  have hw := h.winv
  obtain ⟨hw', he, hnew, hcp⟩ := winv_normalize hw t t addr i0 i1 hn'
  exact ⟨same_manager_no_new (hw.inv t) (hw'.inv t) he hnew,
    fun j hj => (same_manager_identity (hw.inv t) (hw'.inv t) he hnew (hcp j hj)).2⟩

/-- `normalize` from manager `k` into manager `t` at any point of any interleaving of sources
    and targets: the world stays reachable; if the call returns `j`, then `j` is a node of
    `t` (`0 < j < nextId`, and so is everything below it: `dag_owned`) whose tree equals the
    tree of the source node; every node created on the way is a copy of a node of `k`; no
    other manager changes.  Ids of different managers are different name spaces: nothing is
    shared by construction.
    PARTIAL: for `k ≠ t` formulas containing an array value are excluded (`same = false`
    admits no `ARRAY_VALUE`): the copy lists the assignments in the *target's* address order,
    so the trees are equal only up to a permutation of the assignments (finding F60; K and S
    compare that case modulo the order). -/
theorem normalize_copy_partial {w : World} (h : WReach w) (t k : Nat) (addr : Nid → Nat) {i : Nid}
    (i0 : 0 < i) (i1 : i < (w.mgrs k).nextId) (hn : AllNormal (w.mgrs k) addr (decide (k = t)) i) :
    WReach (w.normalize t k addr i).2 ∧
    (∀ j, (w.normalize t k addr i).1 = .ok j →
      0 < j ∧ j < ((w.normalize t k addr i).2.mgrs t).nextId ∧
      ((w.normalize t k addr i).2.mgrs t).struct j = (w.mgrs k).struct i) ∧
    (∀ b, (w.mgrs t).nextId ≤ b → b < ((w.normalize t k addr i).2.mgrs t).nextId →
      ∃ a, 0 < a ∧ a < (w.mgrs k).nextId ∧ ((w.normalize t k addr i).2.mgrs t).struct b = (w.mgrs k).struct a) ∧
    (∀ t', t' ≠ t → (w.normalize t k addr i).2.mgrs t' = w.mgrs t') := by
  obtain ⟨_, _, hnew, hcp⟩ := winv_normalize h.winv t k addr i0 i1 hn
  refine ⟨WReach.norm t k addr i i0 i1 hn h, fun j hj => ⟨(hcp j hj).pos, (hcp j hj).lt, (hcp j hj).eq⟩, hnew, ?_⟩
  intro t' ht'
  simp [World.normalize, upd, ht']

/-- every manager of a reachable world is a reachable manager: all theorems above apply -/
theorem world_managers_reachable {w : World} (h : WReach w) (k : Nat) : Reachable (w.mgrs k) :=
  h.reachable k

/-- every node below a node of a manager is a node of that manager -/
theorem dag_owned {s : Mgr} (h : Reachable s) {c : Content} {i : Nid} (hc : (c, i) ∈ s.formulae) :
    ∀ k ∈ c.ids, 0 < k ∧ k < s.nextId ∧ ∃ ck, (ck, k) ∈ s.formulae := by
  intro k hk
  have h1 := h.inv.closed c i hc k hk
  have h2 := (h.inv.range c i hc).2
  exact ⟨h1.1, by omega, h.inv.full k h1.1 (by omega)⟩

/-! ## non-vacuity -/

deriving instance DecidableEq for Except

/- The `example`s below evaluate closed terms (concrete managers); `decide +kernel` is plain
   kernel evaluation of the model here, not a proof technique for a general statement. -/

/-- the hypotheses of `const_spelling` are satisfiable: `1`, `1.0`, `Fraction(1)`, `(2,2)` -/
example : (PyNum.int 1).realValue = .ok 1 ∧ (PyNum.float 1).realValue = .ok 1 ∧
    (PyNum.frac 1).realValue = .ok 1 ∧ (PyNum.pair 2 2).realValue = .ok 1 := by decide +kernel

/-- Python's `==` makes `True`, `1`, `1.0`, `Fraction(1)` one dictionary key … -/
example : (PyNum.bool true).pyEq (.int 1) = true ∧ (PyNum.float 1).pyEq (.int 1) = true ∧
    (PyNum.frac 1).pyEq (.bool true) = true ∧ (PyNum.pair 1 2).pyEq (.pair 1 2) = true ∧
    (PyNum.pair 2 4).pyEq (.pair 1 2) = false := by decide +kernel

/-- … which is F07: with the cache consulted before validation, `Int(True)` is rejected in a
    fresh manager but returns the node of `1` once `Int(1)` exists. -/
example : (intConstLegacy (.bool true) Mgr.init).1 = .error .typeError ∧
    (intConstLegacy (.bool true) (intConst (.int 1) Mgr.init).2).1 = .ok 3 := by decide +kernel

/-- the repaired order rejects it in both states -/
example : (intConst (.bool true) Mgr.init).1 = .error .typeError ∧
    (intConst (.bool true) (intConst (.int 1) Mgr.init).2).1 = .error .typeError := by decide +kernel

/-- a reachable state with a shared sub-formula: `x`, `y`, `And(x,y)`, again `And(x,y)` -/
example : ((do let x ← mkSymbol "x" .bool; let y ← mkSymbol "y" .bool
               let a ← mkAnd [x, y]; let b ← mkAnd [x, y]; let c ← mkAnd [y, x]
               pure (a, b, c)).run Mgr.init).1 = .ok (5, 5, 6) := by decide +kernel

/-- `AllNormal` holds of that state (so the hypotheses of the two partial theorems are
    satisfiable on a non-trivial DAG) -/
example (addr : Nid → Nat) (same : Bool) : AllNormal ((mkAnd [1, 2]).run Mgr.init).2 addr same 3 := by
  intro c k hc _
  have : c = trueC ∨ c = falseC ∨ c = ⟨NT.AND, [1, 2], .none⟩ := by
    simp [mkAnd, mkNary, create, Prog.run, Prim.exec, createNode, createNodeU, Mgr.init, Mgr.initWith, Content.ids,
      Payload.ids, Mgr.validId, assoc, trueC, falseC] at hc
    rcases hc with ⟨rfl, _⟩ | ⟨rfl, _⟩ | ⟨rfl, _⟩ <;> simp [trueC, falseC]
  rcases this with rfl | rfl | rfl
  · exact .base (.bool true)
  · exact .base (.bool false)
  · exact .base (.nary (Or.inl rfl) 1 2 [])

/-- … and on a bit-vector DAG (`x : BV8`, `BVNot(x)`): the width side condition is met -/
example (addr : Nid → Nat) (same : Bool) :
    AllNormal ((do let x ← mkSymbol "x" (.bv 8); mkBVUn NT.BV_NOT x).run Mgr.init).2 addr same 4 := by
  have hs : ((do let x ← mkSymbol "x" (.bv 8); mkBVUn NT.BV_NOT x).run Mgr.init).2.formulae =
      [(⟨NT.BV_NOT, [3], .nums [8]⟩, 4), (symC "x" (.bv 8), 3), (falseC, 2), (trueC, 1)] := by decide +kernel
  have hw : ((do let x ← mkSymbol "x" (.bv 8); mkBVUn NT.BV_NOT x).run Mgr.init).2.bvWidth 3 = some 8 := by
    decide +kernel
  intro c k hc _
  rw [hs] at hc
  simp only [List.mem_cons, Prod.mk.injEq, List.not_mem_nil, or_false] at hc
  rcases hc with ⟨rfl, _⟩ | ⟨rfl, _⟩ | ⟨rfl, _⟩ | ⟨rfl, _⟩
  · exact .bvUn (by simp [bvUnNTs]) 3 hw
  · exact .base (.symbol "x" (.bv 8))
  · exact .base (.bool false)
  · exact .base (.bool true)

/-- Two sources whose nodes carry the *same* id (3: `x` in manager 0, `y` in manager 1) go
    through the persistent memo of manager 2 one after the other: the copies are different
    nodes (a memo keyed by the node id alone would return `x` for `y`), and both calls repeated
    hit the memo. -/
example :
    let w0 := (World.init.runProg 0 (mkSymbol "x" .bool)).2
    let w1 := (w0.runProg 1 (mkSymbol "y" .int)).2
    let r2 := w1.normalize 2 0 id 3
    let r3 := r2.2.normalize 2 1 id 3
    let r4 := r3.2.normalize 2 0 id 3
    let r5 := r4.2.normalize 2 2 id 4
    (r2.1, r3.1, r4.1, r5.1) = (.ok 3, .ok 4, .ok 3, .ok 4) ∧
    (r5.2.mgrs 2).content? 4 = some (symC "y" .int) := by decide +kernel

/-- `SBV(-8, 4)` and `BV(1, 1)`: the most negative value of a width is negative -/
example : bvSignedValue 8 4 = -8 ∧ bvSignedValue 1 1 = -1 ∧ bvSignedValue 7 4 = 7 ∧ bvSignedValue 0 1 = 0 ∧
    bvBinStr 8 4 = ['1', '0', '0', '0'] := by decide +kernel

/-- `PubReach` is inhabited by a non-trivial history: `x : BV8`, `BVNot(x)`, `Not(Not(b))` -/
example (addr : Nid → Nat) :
    PubReach addr ((mkBVUn NT.BV_NOT 3).run ((mkSymbol "x" (.bv 8)).run Mgr.init).2).2 :=
  .step _ (.pub (.bvUn (by simp [bvUnNTs]) 3)) (.step _ (.pub (.symbol "x" (.bv 8))) (.init _))

/-- the fresh manager of the K histories accepts everything it is asked -/
example : AcceptsAll Mgr.init := fun _ => rfl

/-- a type checker that rejects `AND` nodes: `And(TRUE, FALSE)` raises, the node stays in the
    table and keeps its id (3), asking again finds it and raises again -/
example :
    let s := Mgr.initWith (fun c => c.nodeType != NT.AND)
    let r1 := (mkAnd [1, 2]).run s
    let r2 := (mkAnd [1, 2]).run r1.2
    r1.1 = .error .typeError ∧ r1.2.nextId = 4 ∧ r1.2.content? 3 = some ⟨NT.AND, [1, 2], .none⟩ ∧
    r2.1 = .error .typeError ∧ r2.2.nextId = 4 := by decide +kernel

/-- sorted assignments exist: two distinct keys in either address order -/
example : SortedBy (fun i => 10 - i) (arrayAssignments (fun i => 10 - i) 9 [(3, 7), (4, 8), (5, 9)]) ∧
    arrayAssignments (fun i => 10 - i) 9 [(3, 7), (4, 8), (5, 9)] = [(4, 8), (3, 7)] := by
  constructor
  · exact arrayAssignments_sorted (by simp [DistinctAddr])
  · decide +kernel

end PySMT.Props.C04
