import PySMT.Impl.Manager
namespace PySMT.Props.C04
open PySMT.Manager
theorem init_next : Mgr.init.nextId = 3 := rfl
end PySMT.Props.C04
