import PySMT.Proofs.WalkerMore
import PySMT.Proofs.WalkerFaults
import PySMT.Proofs.WalkerInstSubst
import PySMT.Proofs.C15ParserSession

/-!
# C15 — a failing call leaves no trace

Model: `PySMT/Impl/Walker.lean` mirrors `DagWalker` *after the F22 repair* (`walk` restores the work stack and
clears a one-shot memo in a `finally:` block).  The callback `f` of the theorems may do anything as long as it
returns the function `f0`'s value whenever it returns (`Refines f f0`): it may raise on its own (ill-typed
substitution deep in a DAG, unsupported operator), and it may raise at the k-th invocation (its first argument is
the trace of the earlier invocations) -- injected faults at every point of the traversal.  Graph, callbacks, initial state, node,
budget of the failing call: all universally quantified.

The SMT-LIB parser objects (`get_script`, `get_command_generator`: cache, journal, `_reset`, `rollback`) are the second
part of this file (after `end PySMT.C15`, model `Impl/ParserSession.lean`). Not covered by theorems (covered by the
correspondence run only): scripts and solver objects.

Side effects of callbacks are outside the walker model: nodes created by a failed call stay in the formula manager
and `_next_free_id` / `_fresh_guess` have advanced (ids decide the argument order of the simplifier's set-based rules,
fresh names shift): after a failing call results are equal up to the order of commutative arguments and the names of
fresh symbols, not "exactly" (findings F43, F47; the correspondence run compares modulo both).
-/

namespace PySMT.C15
open PySMT.Walker

variable {M N R E : Type} [DecidableEq N] [MemoLike M N R] [LawfulMemo M N R]

/-- Whatever happens inside a call (value, exception from a callback, `KeyError`, exhausted budget) the walker is
    left idle: empty work stack, and a memo all of whose entries are correct and closed under children (empty for a
    one-shot walker). -/
theorem walk_fail_restores (g : Graph N) (d : N → Bool) (f : List N → N → List R → Except E R)
    (f0 : N → List R → Except E R) (hf : Refines f f0) (inval shortcut : Bool) (fuel : Nat) (n : N)
    (s : WState M N) (hi : Idle g d f0 s) :
    (walk g d f inval shortcut fuel n s).2.stack = [] ∧
    Closed g d f0 (walk g d f inval shortcut fuel n s).2.memo ∧
    (inval = true → (if shortcut then look s.memo n else none) = none →
      (walk g d f inval shortcut fuel n s).2.memo = MemoLike.empty) := by
  have h := walk_post g d f f0 hf inval shortcut fuel n s hi.closed hi.stack
  refine ⟨h.1, h.2, ?_⟩
  intro hinv hmiss
  subst hinv
  rw [walk_miss g d f true shortcut fuel n s hi.stack hmiss, finish_state]
  rfl

/-- A value that a call returns is the specified one, even while faults are injected elsewhere. -/
theorem walk_ok_sound (g : Graph N) (d : N → Bool) (f : List N → N → List R → Except E R)
    (f0 : N → List R → Except E R) (hf : Refines f f0) (inval shortcut : Bool) (fuel : Nat) (n : N)
    (s : WState M N) (hi : Idle g d f0 s) (r : R)
    (hr : (walk g d f inval shortcut fuel n s).1 = .ok r) : spec g d f0 n = .ok r :=
  Walker.walk_ok_sound g d f f0 hf inval shortcut fuel n s hi.closed hi.stack r hr

/-- After a failing call every later sequence of calls on the same walker returns exactly what it would have
    returned had the failing call never been made. -/
theorem probe_after_failure_eq (g : Graph N) (d : N → Bool) (f0 : N → List R → Except E R)
    (fbad : List N → N → List R → Except E R) (hbad : Refines fbad f0) (inval shortcut : Bool)
    (fuelBad fuel : Nat) (b : N) (V : List N) (hfuel : 2 * cost g V + 2 ≤ fuel) (qs : List N)
    (hV : ∀ q ∈ qs, Covers g d q V) (s : WState M N) (hi : Idle g d f0 s) :
    (walks g d (fun _ => f0) inval shortcut fuel qs (walk g d fbad inval shortcut fuelBad b s).2).1
      = (walks g d (fun _ => f0) inval shortcut fuel qs s).1 :=
  Walker.probe_after_failure_eq g d f0 fbad hbad inval shortcut fuelBad fuel b V hfuel qs hV s hi

/-- **Crash points outside the callbacks.**  `_get_children` and `_get_key` can raise too (`DagWalker._get_key`:
    `NotImplementedError` for keyword arguments without an override; the assertions of `PolarityCNFizer._get_children`
    / `NNFizer._get_children`): after `(True, formula)` was pushed, after some of the children were pushed, or right
    before the callback (`Faults`, `walkF`, `faultAt` in `Impl/Walker.lean`; `walkF … Faults.none = walk`).  Whatever
    raised and wherever, the walker is left idle with a correct memo, blank for a one-shot walker. -/
theorem walk_fail_restores_anywhere (g : Graph N) (d : N → Bool) (f : List N → N → List R → Except E R)
    (f0 : N → List R → Except E R) (hf : Refines f f0) (flt : Faults N E) (inval shortcut : Bool) (fuel : Nat)
    (n : N) (s : WState M N) (hi : Idle g d f0 s) :
    Idle g d f0 (walkF g d f flt inval shortcut fuel n s).2 ∧
    (inval = true → (if shortcut then look s.memo n else none) = none →
      Blank (walkF g d f flt inval shortcut fuel n s).2) :=
  Walker.walkF_post g d f f0 hf flt inval shortcut fuel n s hi

theorem probe_after_failure_anywhere (g : Graph N) (d : N → Bool) (f0 : N → List R → Except E R)
    (fbad : List N → N → List R → Except E R) (hbad : Refines fbad f0) (flt : Faults N E) (inval shortcut : Bool)
    (fuelBad fuel : Nat) (b : N) (V : List N) (hfuel : 2 * cost g V + 2 ≤ fuel) (qs : List N)
    (hV : ∀ q ∈ qs, Covers g d q V) (s : WState M N) (hi : Idle g d f0 s) :
    (walks g d (fun _ => f0) inval shortcut fuel qs (walkF g d fbad flt inval shortcut fuelBad b s).2).1
      = (walks g d (fun _ => f0) inval shortcut fuel qs s).1 :=
  Walker.probe_after_failure_anywhere g d f0 fbad hbad flt inval shortcut fuelBad fuel b V hfuel qs hV s hi

/-- **The failing call and the probes have different callbacks** (one-shot walkers: `env.substituter`).  After a call
    with ARBITRARY callbacks `fbad` (no `Refines` needed: nothing of it survives), every later sequence of calls, each
    with its own callbacks, returns exactly what it returns on a newly made walker. -/
theorem probe_after_failure_any_callback (g : Graph N) (d : N → Bool) (fbad : List N → N → List R → Except E R)
    (shortcut : Bool) (fuelBad fuel : Nat) (b : N) (V : List N) (hfuel : 2 * cost g V + 2 ≤ fuel)
    (qs : List ((N → List R → Except E R) × N)) (hV : ∀ q ∈ qs, Covers g d q.2 V) (s : WState M N) (hb : Blank s) :
    (walksF g d true shortcut fuel (qs.map (fun q => ((fun _ => q.1 : List N → N → List R → Except E R), q.2)))
        (walk g d fbad true shortcut fuelBad b s).2).1
      = (walksF g d true shortcut fuel (qs.map (fun q => ((fun _ => q.1 : List N → N → List R → Except E R), q.2)))
        (WState.init : WState M N)).1 :=
  Walker.probe_after_failure_any_callback g d fbad shortcut fuelBad fuel b V hfuel qs hV s hb

/-- The scenario of the property text: an ill-typed (or otherwise failing) `substitute` on the environment's
    substituter, then substitutions with other maps: they return `substG … σᵢ tᵢ`, as on a new substituter.
    `_partial`: as `C14.substitute_walk_eq_partial` (the nested sub-substituter at a quantifier is the callback). -/
theorem probe_after_failed_substitute_partial {M E : Type} [MemoLike M Term Term] [LawfulMemo M Term Term]
    (ms : Bool) (h : Subst.FnHandler) (fbad : List Term → Term → List Term → Except E Term) (shortcut : Bool)
    (fuelBad fuel : Nat) (b : Term) (qs : List (Subst.TMap × Term)) (hfuel : ∀ q ∈ qs, dagBound q.2 ≤ fuel)
    (s : WState M Term) (hb : Blank s) :
    (walksF termGraph (fun n => n.op.isQuantifier) true shortcut fuel
        (qs.map (fun q => ((fun _ => cbOf (E := E) (substCb ms h q.1)), q.2)))
        (walk termGraph (fun n => n.op.isQuantifier) fbad true shortcut fuelBad b s).2).1
      = qs.map (fun q => WOut.ok (Subst.substG ms h q.1 q.2)) :=
  Walker.probe_after_failed_substitute_partial ms h fbad shortcut fuelBad fuel b qs hfuel s hb

/-- `FormulaManager.create_node` inserts the new content into `formulae` *before* type checking it.  When the type
    check fails the entry stays (`x = c`), but it is unobservable: every later `create_node q` returns what it returns
    without the failing call, and `create_node c` itself -- the only way to reach the stale entry -- fails again with
    the same error. -/
theorem create_fail_invisible {T : Type} [MemoLike M N (Option T)] [LawfulMemo M N (Option T)]
    (g : Graph N) (tc0 : N → List (Option T) → Except E (Option T)) (fuel : Nat)
    (V : List N) (hfuel : 2 * cost g V + 2 ≤ fuel) (c : N) (hVc : Covers g (fun _ => false) c V)
    (s : Mgr M N) (hi : Idle g (fun _ => false) tc0 s.stc)
    (e : CreateErr E) (hfail : (createNode g (fun _ => tc0) fuel c s).1 = .error e) :
    let s' := (createNode g (fun _ => tc0) fuel c s).2
    (∀ x, x ∈ s'.table ↔ (x ∈ s.table ∨ x = c)) ∧ Idle g (fun _ => false) tc0 s'.stc ∧
    (createNode g (fun _ => tc0) fuel c s').1 = .error e ∧
    ∀ q, Covers g (fun _ => false) q V →
      (createNode g (fun _ => tc0) fuel q s').1 = (createNode g (fun _ => tc0) fuel q s).1 :=
  Walker.create_fail_invisible g tc0 fuel V hfuel c hVc s hi e hfail

/-! ### Non-vacuity -/

section example_
open PySMT.WalkerDriver

def dag : Graph Nat := mkGraph #[[], [], [0, 1], [2, 2], [3, 0]]
def f0 : Nat → List Nat → Except Nat Nat := fun n args => .ok (hcb n args)
def fresh : WState (AMemo Nat Nat) Nat := WState.init

-- fault injection is an instance of `Refines`
example (k : Option Nat) (l : List Nat) : Refines (cb k l) f0 := cb_refines k l
-- an exception injected at the 2nd callback while walking node 4 escapes ...
example : (walk dag (fun _ => false) (cb (some 1) []) false true 18 4 fresh).1 = .raise (.cb 1) := by decide
-- ... the two pending entries it left on the stack are dropped, the one result computed before stays memoised
example : (walk dag (fun _ => false) (cb (some 1) []) false true 18 4 fresh).2.stack = [] := by decide
example : (walk dag (fun _ => false) (cb (some 1) []) false true 18 4 fresh).2.memo = [(0, hcb 0 [])] := by decide
-- what the unrepaired code left behind (the loop's state at the moment of the exception)
example : (iter dag (fun _ => false) (cb (some 1) []) 18 (root 4 fresh)).state.stack
    = [(true, 2), (false, 2), (true, 3), (true, 4)] := by decide
-- a crash point outside the callbacks: `_get_children(2)` raises while node 4 is walked; the walker is idle again
example : (walkF dag (fun _ => false) (cb none []) ⟨fun x => if x = 2 then some 2 else none, fun _ => none⟩
            false true 18 4 fresh).1 = .raise (.cb 2) := by decide
example : (walkF dag (fun _ => false) (cb none []) ⟨fun x => if x = 2 then some 2 else none, fun _ => none⟩
            false true 18 4 fresh).2.stack = [] := by decide
example : Blank fresh := blank_init
-- a type checker for which node 3 is ill-typed: `create_node 3` fails, node 3 stays in the table
def tc : Nat → List (Option Unit) → Except Nat (Option Unit) :=
  fun n args => .ok (if n = 3 ∨ args.contains none then none else some ())
def mgr0 : Mgr (AMemo Nat (Option Unit)) Nat := ⟨[], WState.init⟩
example : (createNode dag (fun _ => tc) 18 3 mgr0).1 = .error .illTyped := rfl
example : (createNode dag (fun _ => tc) 18 3 mgr0).2.table = [3] := by decide

end example_

end PySMT.C15

/-!
# C15, second part — SMT-LIB parser objects (`SmtLibParser.get_script`, `get_command_generator`)

Model: `PySMT/Impl/ParserSession.lean` — the *mutable* side of `pysmt/smtlib/parser/parser.py` on top of the functional
model `Impl/Parser.lean` (C08): the state `St` of a parser object and of its environment
(`keys` = the binding stacks of `SmtLibExecutionCache`, `bound`/`unbound` = its journal, `annots`, `intArith` = `self.logic`,
`mgr` = the environment's formula manager: symbol table, fresh-name counter, sorts), `get_expression` executed with
`bind`/`unbind` *in place* (`rdValS`; an exception returns the state as it is at that moment), `get_command`
= `checkpoint` / handler / `rollback` (`cmdS`), `get_command_generator` (`getCommands`), `_reset`, `get_script`
(`getScript`), `SmtLibParser(env)` (`newParser σ`). `lc` switches the literal cache of `atom` on (the code) or off (what
`Impl/Parser.lean` models); every theorem below holds for both, `session_is_model_nolc` for `lc = false`.

* `session_is_model_nolc`, `command_is_model_nolc` — the session model computes the C08 model (`Parser.cmd`, `Parser.script`,
  which the differential run of C08 compares with the real `get_script`): same commands or same exception, same environment
  afterwards. So the theorems are about the model that is tied to the code, not about a second, free-standing one.
* `command_fail_rollback` — whatever the command and wherever it fails (any nesting depth of `let`/quantifier/`define-fun`
  binders, any number of re-bindings of one name, literals cached on the way): after `get_command`'s `rollback`, which looks
  at the journal only, the binding stacks are *equal* to the stacks before the command, the logic is unchanged, the journal is
  empty, and `rollback` never pops an empty stack. `command_fail_after_prefix`: the same for a command that fails after any
  prefix of successfully read commands. `command_fail_later_commands`: every later sequence of commands on the same parser object
  returns what it returns from the state before the failing command *given the formula manager (and annotation store) the
  failing command left*; `command_fail_later_commands_pure`: exactly what it returns without the failing command when that
  command created no symbol and stored no annotation.
* `parser_fail_reset` — after a failing `get_script` (at any command, for any reason; in fact after anything), `get_script s₂`
  returns what it returns on a NEW parser object of the same environment: `_reset` replaces every component of the parser's
  state (`keys`, journal, `annots`, logic), and the only thing `get_script` reads besides is the environment's formula manager.
  "Same environment" = same `MgrSt` (symbols, fresh counter, declared sorts), which is shared by all parser objects of the
  environment and persists. `parser_script_function_of_manager`: the outcome of `get_script` is a function of that state.
* NOT a theorem, and false on the code (finding F43 and its symbol-table variant): "… returns what it would have returned had
  the failing script never been read". `parser_fail_reset_unrestricted_false` is the decided witness: the failing
  `(assert (forall ((w Int)) zz))` leaves `w : Int` in the formula manager, after which `(declare-fun w () Real)` is a type
  error; `failing_define_fun_advances_fresh_counter` is F43 itself. `parser_fail_reset_same_manager` is the restricted version:
  when the failing script left the manager as it found it, the twin equality holds.
* Input of the model: `List Sexp`.  Malformed input BELOW the S-expression level -- unbalanced parentheses, end of file
  inside a command, tokenizer errors, a failing `consume_closing` -- is not a crash point of the session model (the real
  handlers consume tokens directly); those failures are covered by the correspondence run only (`garbage:*` command
  shapes of `harness/props/c15.py`).
* not restored by `rollback`, in the model as in the code (checked by running the real parser): `annots` (the annotations a
  failing command stored stay in `cache.annotations`; no call returns them — `get_script` hands out the store only after
  `_reset` and a complete successful reading) and `mgr` (above).
-/
namespace PySMT.C15
open PySMT PySMT.Parser PySMT.ParserSession

/-- **The session model computes the C08 parser model** (no literal cache): one command … -/
theorem command_is_model_nolc (st : St) (c : Sexp) :
    cmd st.env c = (match cmdS false st c with
      | (.ok k, st') => .ok (st'.env, k)
      | (.error e, _) => .error e) := by
  rw [cmdS_ref]; rcases cmdS false st c with ⟨_ | _, _⟩ <;> rfl

/-- … and `get_script`, from any state of the parser object. -/
theorem session_is_model_nolc (st : St) (cs : List Sexp) :
    script { PEnv.init with mgr := st.mgr } cs = (getScript false st cs).1.map (·.1) :=
  getScript_ref st cs

/-- **A failing command is rolled back.** -/
theorem command_fail_rollback (lc : Bool) (st : St) (c : Sexp) (e : Err) (st' : St) (h : cmdS lc st c = (.error e, st')) :
    st'.keys = st.keys ∧ st'.intArith = st.intArith ∧
      (if isCommand c then st'.bound = [] ∧ st'.unbound = [] else st' = st) :=
  cmdS_fail_restores lc st c e st' h

/-- what `rollback` removes: the exception left the old stacks with the pending bindings on top (the state of the code
before commit 30febd7) … -/
theorem command_fail_pending (lc : Bool) (st : St) (c : Sexp) (e : Err) (st' : St)
    (h : cmdNoRollbackS lc st c = (.error e, st')) : ∃ P, st'.keys = P ++ st.keys :=
  cmdNoRollbackS_pending lc st c e st' h

/-- … and it pops no empty stack (`keys[name].pop()` cannot raise inside `rollback`). -/
theorem rollback_no_underflow (lc : Bool) (st : St) (nm : String) (args : List Sexp) (e : Err)
    (h : (cmdNamedS lc st.checkpoint nm args).1 = .error e) (n : String) :
    pendingCount (cmdNamedS lc st.checkpoint nm args).2 n ≤ cnt n (cmdNamedS lc st.checkpoint nm args).2.keys :=
  cmdS_rollback_no_underflow lc st nm args e h n

/-- **… after any prefix of successfully read commands** the generator stops at the failing command with the binding
stacks and the logic the prefix left. -/
theorem command_fail_after_prefix (lc : Bool) (st0 : St) (pre : List Sexp) (c : Sexp) (rest : List Sexp)
    (hpre : (getCommands lc st0 pre).1.err = none) (e : Err) (st' : St)
    (hfail : cmdS lc (getCommands lc st0 pre).2 c = (.error e, st')) :
    (getCommands lc st0 (pre ++ c :: rest)).1.err = some e ∧ (getCommands lc st0 (pre ++ c :: rest)).2 = st' ∧
      st'.keys = (getCommands lc st0 pre).2.keys ∧ st'.intArith = (getCommands lc st0 pre).2.intArith :=
  fail_after_prefix lc st0 pre c rest hpre e st' hfail

/-- **Later commands read the same meanings**, given the formula manager and annotation store the failing command left. -/
theorem command_fail_later_commands (lc : Bool) (st : St) (c : Sexp) (e : Err) (st' : St)
    (h : cmdS lc st c = (.error e, st')) (cs : List Sexp) :
    (getCommands lc st' cs).1 = (getCommands lc { st with mgr := st'.mgr, annots := st'.annots } cs).1 :=
  command_fail_probe_eq lc st c e st' h cs

theorem command_fail_later_commands_pure (lc : Bool) (st : St) (c : Sexp) (e : Err) (st' : St)
    (h : cmdS lc st c = (.error e, st')) (hm : st'.mgr = st.mgr) (ha : st'.annots = st.annots) (cs : List Sexp) :
    (getCommands lc st' cs).1 = (getCommands lc st cs).1 :=
  command_fail_probe_eq_pure lc st c e st' h hm ha cs

/-- **After a failing `get_script`, `get_script` behaves as on a new parser object of the same environment**
(outcome and state afterwards).  The hypothesis `_hfail` is not used: the statement holds after anything, and it is
DEFINITIONAL in the model -- `getScript` starts with `St.reset`, whose body is that of `newParser`; its content is that
`parser.py` calls `self._reset()` first in `get_script` (checked against the source and by the correspondence run). -/
theorem parser_fail_reset (lc : Bool) (st0 : St) (s₁ : List Sexp) (e : Err) (st₁ : St)
    (_hfail : getScript lc st0 s₁ = (.error e, st₁)) (s₂ : List Sexp) :
    getScript lc st₁ s₂ = getScript lc (newParser st₁.mgr) s₂ :=
  getScript_new lc st₁ s₂

/-- the outcome of `get_script` is a function of the state of the environment's formula manager -/
theorem parser_script_function_of_manager (lc : Bool) (st : St) (cs : List Sexp) :
    (getScript lc st cs).1 = scriptOn lc st.mgr cs :=
  getScript_scriptOn lc st cs

/-- the restricted twin statement: a failing script that left the formula manager as it found it is invisible -/
theorem parser_fail_reset_same_manager (lc : Bool) (st0 : St) (s₁ : List Sexp) (e : Err) (st₁ : St)
    (_hfail : getScript lc st0 s₁ = (.error e, st₁)) (hm : st₁.mgr = st0.mgr) (s₂ : List Sexp) :
    getScript lc st₁ s₂ = getScript lc (newParser st0.mgr) s₂ := by
  rw [getScript_new, hm]

/-- **The unrestricted twin statement is false** (F43, symbol-table variant): see the header. -/
theorem parser_fail_reset_unrestricted_false :
    Ex.isOk (getScript true (newParser {}) [Ex.badQ]).1 = false ∧
    Ex.errOf (getScript true (getScript true (newParser {}) [Ex.badQ]).2 [Ex.declW]).1 = some .type ∧
    Ex.isOk (getScript true (newParser {}) [Ex.declW]).1 = true :=
  ex_history_dependence

/-- F43 in the model: the failing `(define-fun g ((z Int)) Int (zz))` has created `__z0` and advanced the counter -/
theorem failing_define_fun_advances_fresh_counter :
    Ex.isOk (getScript true (newParser {}) [Ex.badD]).1 = false ∧
    (getScript true (newParser {}) [Ex.badD]).2.mgr.fresh = 1 ∧
    (getScript true (newParser {}) [Ex.badD]).2.mgr.symbols.map (·.1) = ["__z0"] :=
  ex_fresh_counter

/-! ### Non-vacuity: `(declare-fun y () Int)`, then the failing
`(assert (let ((y 1)) (let ((y 2)) (let ((x y)) zz))))`, then the probe `(get-value (y))` -/

-- the command fails under three open binders, two of which re-bind the declared `y`; the literals are cached on the way
example : (cmdS true Ex.st1 Ex.bad).1.toBool = false ∧
    (cmdNoRollbackS true Ex.st1 Ex.bad).2.keys.map (·.1) = ["x", "y", "2", "y", "1", "y", "true", "false"] ∧
    (cmdNoRollbackS true Ex.st1 Ex.bad).2.bound = ["x", "y", "2", "y", "1"] := ex_bad_fails
-- after the rollback the stacks are those before the command
example : (cmdS true Ex.st1 Ex.bad).2.keys.map (·.1) = ["y", "true", "false"] := ex_bad_restored.2
-- the probe reads the declared symbol, as without the failing command; without `rollback` (F42) it read the numeral 2
example : Ex.probeTerm (getCommands true (cmdS true Ex.st1 Ex.bad).2 [Ex.probe]) = some (Term.var "y" .int) ∧
    Ex.probeTerm (getCommands true Ex.st1 [Ex.probe]) = some (Term.var "y" .int) ∧
    Ex.probeTerm (getCommands true (cmdNoRollbackS true Ex.st1 Ex.bad).2 [Ex.probe]) = some (Term.int 2) := ex_probe
-- the hypothesis of `parser_fail_reset` is satisfiable: the same failing text as a script
example : ∃ e st₁, getScript true (newParser {}) [Ex.declY, Ex.bad] = (.error e, st₁) :=
  ⟨_, _, rfl⟩
-- … and so is the one of `command_fail_after_prefix`
example : (getCommands true (newParser {}) [Ex.declY]).1.err = none := by decide +kernel

end PySMT.C15
