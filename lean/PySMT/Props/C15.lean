import PySMT.Proofs.WalkerMore

/-!
# C15 — a failing call leaves no trace

Model: `PySMT/Impl/Walker.lean` mirrors `DagWalker` *after the F22 repair* (`walk` restores the work stack and
clears a one-shot memo in a `finally:` block).  The callback `f` of the theorems may do anything as long as it
returns the function `f0`'s value whenever it returns (`Refines f f0`): it may raise on its own (ill-typed
substitution deep in a DAG, unsupported operator), and it may raise at the k-th invocation (its first argument is
the trace of the earlier invocations) -- injected faults at every point of the traversal.  Graph, callbacks, initial state, node,
budget of the failing call: all universally quantified.

Not covered by these theorems (covered by the correspondence run only): the SMT-LIB parser's caches, scripts and
solver objects.
-/

namespace PySMT.C15
open PySMT.Walker

variable {M N R E : Type} [DecidableEq N] [MemoLike M N R] [LawfulMemo M N R]

/-- Whatever happens inside a call (value, exception from a callback, `KeyError`, exhausted budget) the walker is
    left idle: empty work stack, and a memo all of whose entries are correct and closed under children (empty for a
    one-shot walker). -/
theorem walk_fail_restores (g : Graph N) (d : N → Bool) (f : List N → N → List R → Except E R)
    (f0 : N → List R → Except E R) (hf : Refines f f0) (inval shortcut : Bool) (fuel : Nat) (n : N)
    (s : WState M N) (hi : Idle g d f0 s) :
    (walk g d f inval shortcut fuel n s).2.stack = [] ∧
    Closed g d f0 (walk g d f inval shortcut fuel n s).2.memo ∧
    (inval = true → (if shortcut then look s.memo n else none) = none →
      (walk g d f inval shortcut fuel n s).2.memo = MemoLike.empty) := by
  have h := walk_post g d f f0 hf inval shortcut fuel n s hi.closed hi.stack
  refine ⟨h.1, h.2, ?_⟩
  intro hinv hmiss
  subst hinv
  rw [walk_miss g d f true shortcut fuel n s hi.stack hmiss, finish_state]
  rfl

/-- A value that a call returns is the specified one, even while faults are injected elsewhere. -/
theorem walk_ok_sound (g : Graph N) (d : N → Bool) (f : List N → N → List R → Except E R)
    (f0 : N → List R → Except E R) (hf : Refines f f0) (inval shortcut : Bool) (fuel : Nat) (n : N)
    (s : WState M N) (hi : Idle g d f0 s) (r : R)
    (hr : (walk g d f inval shortcut fuel n s).1 = .ok r) : spec g d f0 n = .ok r :=
  Walker.walk_ok_sound g d f f0 hf inval shortcut fuel n s hi.closed hi.stack r hr

/-- After a failing call every later sequence of calls on the same walker returns exactly what it would have
    returned had the failing call never been made. -/
theorem probe_after_failure_eq (g : Graph N) (d : N → Bool) (f0 : N → List R → Except E R)
    (fbad : List N → N → List R → Except E R) (hbad : Refines fbad f0) (inval shortcut : Bool)
    (fuelBad fuel : Nat) (b : N) (V : List N) (hfuel : 2 * cost g V + 2 ≤ fuel) (qs : List N)
    (hV : ∀ q ∈ qs, Covers g d q V) (s : WState M N) (hi : Idle g d f0 s) :
    (walks g d (fun _ => f0) inval shortcut fuel qs (walk g d fbad inval shortcut fuelBad b s).2).1
      = (walks g d (fun _ => f0) inval shortcut fuel qs s).1 :=
  Walker.probe_after_failure_eq g d f0 fbad hbad inval shortcut fuelBad fuel b V hfuel qs hV s hi

/-- `FormulaManager.create_node` inserts the new content into `formulae` *before* type checking it.  When the type
    check fails the entry stays (`x = c`), but it is unobservable: every later `create_node q` returns what it returns
    without the failing call, and `create_node c` itself -- the only way to reach the stale entry -- fails again with
    the same error. -/
theorem create_fail_invisible {T : Type} [MemoLike M N (Option T)] [LawfulMemo M N (Option T)]
    (g : Graph N) (tc0 : N → List (Option T) → Except E (Option T)) (fuel : Nat)
    (V : List N) (hfuel : 2 * cost g V + 2 ≤ fuel) (c : N) (hVc : Covers g (fun _ => false) c V)
    (s : Mgr M N) (hi : Idle g (fun _ => false) tc0 s.stc)
    (e : CreateErr E) (hfail : (createNode g (fun _ => tc0) fuel c s).1 = .error e) :
    let s' := (createNode g (fun _ => tc0) fuel c s).2
    (∀ x, x ∈ s'.table ↔ (x ∈ s.table ∨ x = c)) ∧ Idle g (fun _ => false) tc0 s'.stc ∧
    (createNode g (fun _ => tc0) fuel c s').1 = .error e ∧
    ∀ q, Covers g (fun _ => false) q V →
      (createNode g (fun _ => tc0) fuel q s').1 = (createNode g (fun _ => tc0) fuel q s).1 :=
  Walker.create_fail_invisible g tc0 fuel V hfuel c hVc s hi e hfail

/-! ### Non-vacuity -/

section example_
open PySMT.WalkerDriver

def dag : Graph Nat := mkGraph #[[], [], [0, 1], [2, 2], [3, 0]]
def f0 : Nat → List Nat → Except Nat Nat := fun n args => .ok (hcb n args)
def fresh : WState (AMemo Nat Nat) Nat := WState.init

-- fault injection is an instance of `Refines`
example (k : Option Nat) (l : List Nat) : Refines (cb k l) f0 := cb_refines k l
-- an exception injected at the 2nd callback while walking node 4 escapes ...
example : (walk dag (fun _ => false) (cb (some 1) []) false true 18 4 fresh).1 = .raise (.cb 1) := by decide
-- ... the two pending entries it left on the stack are dropped, the one result computed before stays memoised
example : (walk dag (fun _ => false) (cb (some 1) []) false true 18 4 fresh).2.stack = [] := by decide
example : (walk dag (fun _ => false) (cb (some 1) []) false true 18 4 fresh).2.memo = [(0, hcb 0 [])] := by decide
-- what the unrepaired code left behind (the loop's state at the moment of the exception)
example : (iter dag (fun _ => false) (cb (some 1) []) 18 (root 4 fresh)).state.stack
    = [(true, 2), (false, 2), (true, 3), (true, 4)] := by decide
-- a type checker for which node 3 is ill-typed: `create_node 3` fails, node 3 stays in the table
def tc : Nat → List (Option Unit) → Except Nat (Option Unit) :=
  fun n args => .ok (if n = 3 ∨ args.contains none then none else some ())
def mgr0 : Mgr (AMemo Nat (Option Unit)) Nat := ⟨[], WState.init⟩
example : (createNode dag (fun _ => tc) 18 3 mgr0).1 = .error .illTyped := rfl
example : (createNode dag (fun _ => tc) 18 3 mgr0).2.table = [3] := by decide

end example_

end PySMT.C15
