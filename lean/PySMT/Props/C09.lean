import PySMT.Proofs.C09Lit
import PySMT.Proofs.C08Table
/-!
# C09 — print → parse round trips: the property theorems

Models: the printers `Impl/Printer.lean` (`toSexp`, `toSexpDag`; C07) and the parser `Impl/Parser.lean` (`readTerm`; C08), both
over `Spec/Sexp.lean`. On every run the *composition* `readTerm (declarations of t) (toSexp t)` / `(toSexpDag t)` is compared,
literally, with what `SmtLibParser` makes of `to_smtlib(f)` for ≈ 1 600 generated formulas of every sort (K, driver request
`rt`), and the implementation itself is checked against the statement of the property (S): identity of the object for both
printers, equivalent command lists for re-serialised scripts, same type/meaning/serialisation-up-to-grouping for the
human-readable format.

Proved here (token level):
* `parse_print_id_literals_partial` — **for every value**, an integer (`5`, `(- 5)`), Boolean or string constant is printed
  to a token sequence that the parser model reads back as the very same constant. `_partial`: the statement of the property
  for compound terms (`ParsePrintId` below), for the DAG printer, for scripts and for the human-readable format is **not**
  proved; these are covered by K and S only.
* `printed_tokens_std` — every operator token of the parser table is the constructor the standard prescribes (shared with
  C08): the spellings the printers emit (C07: `printerOps_std`) are read back with the constructor they were printed from.
-/
namespace PySMT.Props.C09
open PySMT PySMT.Parser PySMT.Printer

/-- the full statement for the tree printer (not proved; `unfold` = constant-array literals become store chains) -/
def ParsePrintId (envOf : Term → PEnv) (unfold : Term → Term) (namesOK : Term → Prop) : Prop :=
  ∀ t : Term, t.wt = true → namesOK t → readTerm (envOf t) (toSexp t) = .ok (unfold t)

/-- **Constants round-trip** (token level), for every integer, Boolean and string value, in every environment in which
no symbol is spelled like a numeral and `true`/`false` keep their meaning. -/
theorem parse_print_id_literals_partial (Γ : PEnv) (hnum : NumeralsFree Γ) (hlogic : Γ.intArith.getD true = true)
    (htrue : lookup "true" Γ.binds = some (.term Term.tt)) (hfalse : lookup "false" Γ.binds = some (.term Term.ff)) :
    (∀ n : Int, readTerm Γ (toSexp (Term.int n)) = .ok (Term.int n)) ∧
    (∀ b : Bool, readTerm Γ (toSexp (Term.bool b)) = .ok (Term.bool b)) ∧
    (∀ s : String, readTerm Γ (toSexp (Term.str s)) = .ok (Term.str s)) :=
  ⟨int_roundtrip Γ hnum hlogic,
   fun b => bool_roundtrip Γ b (by cases b <;> simpa [Term.bool, Term.tt, Term.ff] using ‹_›),
   str_roundtrip Γ⟩

/-- the tokens the parser dispatches on denote the standard's constructors (shared with C08) -/
theorem printed_tokens_std :
    Gen.ParserOps.table.all (fun e => Table.knownNonStd.contains e.1 || Table.expectedOf e.1 == some e.2) = true :=
  Table.table_std

/-! ## non-vacuity: the initial environment of the parser satisfies the hypotheses -/

example : lookup "true" PEnv.init.binds = some (.term Term.tt) ∧ lookup "false" PEnv.init.binds = some (.term Term.ff)
    ∧ PEnv.init.intArith.getD true = true := by
  refine ⟨by simp [PEnv.init, lookup], by simp [PEnv.init, lookup], rfl⟩

example : NumeralsFree PEnv.init := by
  intro k
  have ht : pyFraction? "true" = none := by decide
  have hf : pyFraction? "false" = none := by decide
  have h1 : natStr k ≠ "true" := by
    intro h; have := pyFraction_natStr k; rw [h, ht] at this; cases this
  have h2 : natStr k ≠ "false" := by
    intro h; have := pyFraction_natStr k; rw [h, hf] at this; cases this
  simp [PEnv.init, lookup, Ne.symm h1, Ne.symm h2]

end PySMT.Props.C09
