import PySMT.Proofs.C09Lit
import PySMT.Proofs.C08Table
import PySMT.Proofs.C09Round
import PySMT.Proofs.C09DagRound
import PySMT.Proofs.C09ScriptRound
import PySMT.Proofs.C07Example
import PySMT.Proofs.C09Extra
import PySMT.Proofs.C09Logic
import PySMT.Proofs.C09ScriptMgr
import PySMT.Proofs.C09Cmds2
/-!
# C09 — print → parse round trips: the property theorems

Models: the printers `Impl/Printer.lean` (`toSexp`, `toSexpDag`, `scriptOfFormula`, `scriptOfCmds`; C07) and the parser
`Impl/Parser.lean` (`readTerm`, `cmd`, `script`; C08), both over `Spec/Sexp.lean`. On every run the *composition*
`readTerm (declarations of t) (toSexp t)` / `(toSexpDag t)` is compared, literally, with what `SmtLibParser` makes of
`to_smtlib(f)` for ≈ 1 600 generated formulas of every sort (K, driver request `rt`), and the implementation itself is
checked against the statement of the property (S): identity of the object for both printers, equivalent command lists for
re-serialised scripts, same type/meaning/serialisation-up-to-grouping for the human-readable format (Props/C09HR.lean).

## What these theorems are about, and what they are not about

* **S-expressions, not text**: the printer model produces an S-expression, the parser model consumes it. pySMT's
  `Tokenizer` is not modelled; that the rendered text is split into these tokens is tested (K), with ONE exception that
  is now a hypothesis of every theorem: a symbol named `(` or `)` is printed as `|(|` and pySMT's tokenizer hands the
  parser a parenthesis (known finding P03). `Agree.pnameOK` — part of `envOK`, `Corr.names`, `parseOK`, `nameOK1` —
  refuses these two names (`p03_excluded`); before this guard the theorems were true of the model and false of the code
  inside their own hypotheses.
* **Same evaluator on both sides**: wherever "same meaning" is stated (`unfoldAV_meaning`, `parse_print_id_meaning`),
  it is `Core/Eval.lean` on both sides; the round-trip theorems themselves state EQUALITY OF TERMS and do not depend on it.
* **Sentence 1 of the property** ("a formula printed and parsed back in the same environment is the very same object"):
  `parse_print_id_*`, `parse_printDag_id_partial`, `parse_print_id_same_object`; "same environment" = any parser
  environment that corresponds to the declarations (`Corr`) and whose formula manager holds only `ρ`-symbols — for
  the script theorems now ANY such manager (`script_print_parse_mgr_partial`), not only the empty one.
* **Sentence 2** ("a parsed script made of serialisable commands re-serialises to … an equivalent command list"):
  `script_cmds_roundtrip_partial` is print → parse of a command LIST over set-logic, declare-sort, declare-fun,
  declare-const, assert, push, pop, check-sat — applied to the command list a first parse returned, it is the second
  sentence for these eight kinds. NOT covered by a theorem (K/S only): `define-fun` (the round trip up to fresh
  parameter names; `Corr.nodefs` forbids definitions), `define-sort`, `set-info`/`set-option`, `get-value`,
  `check-sat-assuming`, OMT commands, `:named`.
* **Array values** come back as the store chain they are printed as (`unfoldAV t`): `unfoldAV_meaning` restates C07's
  `eval_unfoldAVw` (same value under every interpretation, for array values with constant, pairwise different keys:
  `avGuard`), `unfoldAV_id`: without an assigned array value `unfoldAV t = t`, so the conclusion IS "the very same object".

## What is proved

* `parse_print_id_partial` — **tree printer**: for every formula `t` with C07's `Printable env [] t` (well-typed with
  canonical payloads, speakable unambiguous names, plain declared sorts, none of F10/F11/F44/F45/F46) and
  - `mgrNormal t`: `t` is in the formula manager's normal form (no `Not(Not x)`, no `ToReal` of a constant, no `Div` by a
    non-zero constant: what `FormulaManager` returns),
  - `parseOK env ρ t`: every bound variable has a name the parser cannot take for a literal (F16b), a parenthesis (P03) or
    a declared sort, and is the manager's symbol `ρ` of that name (one name, one sort),

  in every parser environment `Γ` with `Agree.Corr env [] Γ` (Proofs/C08Agree0.lean: every declared constant/function/
  sort of `env` is bound accordingly, `true`/`false` keep their meaning, no bound name is spelled like a literal, **no
  `define-fun`**, a declared function with parameters is not named like a parser token, the numeral flag agrees with the
  logic) whose formula manager knows only symbols of `ρ`: `readTerm Γ (toSexp t) = ok (unfoldAV t)`.
  Operator families covered: Boolean connectives, `ite`, `=`, arithmetic and comparisons, `to_real`, `/` and the
  constants (negative and rational ones), all bit-vector operators incl. `extract`, `zero_extend`, `sign_extend`,
  `rotate_left`, `rotate_right`, `concat`, `bvcomp`, `bv2nat`, the string operators, `select`/`store`/constant
  arrays/array values, applications of declared functions, `forall`/`exists`. `_partial`: the exclusions of `Printable`.
* `parse_print_id_penv_partial`, `parse_print_id_state_partial` — in the concrete environment `penvOf env` (its formula
  manager is EMPTY: an artificial state; the `_mgr` script theorems below are the realistic ones); the manager stays within `ρ`.
* `parse_printDag_id_partial` — **DAG printer**, QUANTIFIER-FREE formulas only (`noQuant`; pySMT's default printer on a
  quantified formula is covered by K/S only), additional hypothesis `defFree env` (no declared sort is named `.def_k`):
  the reading of `toSexpDag t` is `unfoldAVw false t` (array values as store chains in ARGUMENT order; the tree printer
  sorts the keys by `str`).
* `parse_print_id_same_object`, `parse_printDag_id_same_object`, `parse_print_id_meaning` — the §4.3 corollaries.
* `script_print_parse_partial`, `script_printDag_parse_partial` — **the script of a formula**
  (`smtlibscript_from_formula(f).serialize(daggify=False|True)`, model `scriptOfFormula`) from the parser's initial state:
  exactly the command list `Agree.scriptCommands`. The declarations are listed in the order `t.fv.eraseDups` (first
  occurrence); the CODE takes them from a frozenset (an arbitrary order): the K comparison sorts declarations, the theorem
  is about the model's order.
  `script_print_parse_mgr_partial`, `script_printDag_parse_mgr_partial` — the same from ANY formula manager `σ0` that
  knows only `ρ`-symbols and declares the sorts of `t` with the same arity (`SortsCompat`) — e.g. the manager that built
  `t` (`Agree.script_print_parse_same_env`); the hypotheses cannot be dropped (`Agree.mkSymbol_clash`,
  `Agree.cmd_declareSort_clash`).
* **Logics.** `logicOK logic` (the parser's numeral flag for the logic agrees with the standard's reading of numerals) is
  FALSE for QF_BV, QF_UF, QF_AX, QF_ABV, QF_AUFBV, BV, BOOL (`logicOK_false_examples`) — the logics
  `smtlibscript_from_formula` computes for pure bit-vector/UF/array formulas. `script_print_parse_numfree_partial`,
  `script_printDag_parse_numfree_partial` replace it by `logicOK logic || numeralFree t` (no integer constant in `t`);
  `qf_bv_instance`: the emitted QF_BV script of `(bvult v (bvadd v (_ bv1 8)))` round-trips.
* `script_cmds_roundtrip_partial`, `script_cmds_roundtrip_mgr_partial` — **command lists** (see "Sentence 2" above), both
  printers; hypotheses: C07's `cmdsOK` (every command legal where it stands, declarations before use) and the decidable
  `Agree.pcmdsOK` (names `nameOK1`; a function is not named like a sort declared earlier in the script, popped or not,
  and vice versa: P01; one name — one symbol/arity, so re-declaring a popped name must repeat the declaration; `logicOK`;
  assertions `parseOK`, `mgrNormal`, for the DAG printer quantifier-free). Includes push/pop with re-declaration.
* `parse_print_id_literals_partial` — Int/Bool/String constants in integer logics, under the weaker hypotheses of the
  first round (kept). `printed_tokens_std` — the table check shared with C08 (names of handlers, see Props/C08.lean).

Non-vacuity beyond `t1`: `Agree.Wit.hyps_tQ` (nested quantifiers with shadowing), `hyps_tA` (array value with two
assignments, tree and DAG order differ), `hyps_tB` (extract, rotate), `hyps_tR` (negative rational and integer constants),
`Agree.BVEx.hyps_tBV` (QF_BV), `Agree.ExU` (declared sort, non-empty manager), `Agree.CmdsEx` (13 commands with push/pop).

Still K/S only: the commands listed under "Sentence 2", the human-readable text level, DAG with quantifiers, the
tokenizer.
-/
namespace PySMT.Props.C09
open PySMT PySMT.Parser PySMT.Printer PySMT.Parser.Agree

/-- **print → parse is the identity** (tree printer). -/
theorem parse_print_id_partial (env : Std.SEnv) (ρ : List (String × Sym)) (Γ : PEnv) (hc : Corr env [] Γ)
    (hm : MgrLe Γ.mgr ρ) (t : Term) (hP : Printable env [] t = true) (hQ : parseOK env ρ t = true)
    (hN : mgrNormal t = true) : readTerm Γ (toSexp t) = .ok (unfoldAV t) :=
  Agree.parse_print_id env ρ Γ hc hm t hP hQ hN

/-- … in the environment the declarations of `env` build. -/
theorem parse_print_id_penv_partial (env : Std.SEnv) (henv : envOK env = true) (ρ : List (String × Sym)) (t : Term)
    (hP : Printable env [] t = true) (hQ : parseOK env ρ t = true) (hN : mgrNormal t = true) :
    readTerm (penvOf env) (toSexp t) = .ok (unfoldAV t) :=
  Agree.parse_print_id_penv env henv ρ t hP hQ hN

/-- … and the formula manager stays within `ρ`. -/
theorem parse_print_id_state_partial (env : Std.SEnv) (ρ : List (String × Sym)) (Γ : PEnv) (hc : Corr env [] Γ)
    (hm : MgrLe Γ.mgr ρ) (t : Term) (hP : Printable env [] t = true) (hQ : parseOK env ρ t = true)
    (hN : mgrNormal t = true) : ∃ σ', readTermSt Γ (toSexp t) = .ok (unfoldAV t, σ') ∧ MgrLe σ' ρ :=
  Agree.parse_print_id_st env ρ Γ hc hm t hP hQ hN

/-- **print → parse is the identity** (DAG printer, quantifier-free formulas). -/
theorem parse_printDag_id_partial (env : Std.SEnv) (ρ : List (String × Sym)) (Γ : PEnv) (hc : Corr env [] Γ)
    (hm : MgrLe Γ.mgr ρ) (hdf : defFree env) (t : Term) (hP : Printable env [] t = true) (hq : noQuant t = true)
    (hQ : parseOK env ρ t = true) (hN : mgrNormal t = true) :
    readTerm Γ (toSexpDag t) = .ok (unfoldAVw false t) :=
  Agree.parse_printDag_id env ρ Γ hc hm hdf t hP hq hQ hN

/-- **print → parse of the script of a formula** (tree form): the exact command list. -/
theorem script_print_parse_partial (logic : String) (ρ : List (String × Sym)) (t : Term)
    (hs : ScriptOK logic t = true) (hl : logicOK logic = true) (henv : envOK (scriptEnv logic t) = true)
    (hρ : ∀ s ∈ t.fv.eraseDups, ρ.lookup s.name = some s)
    (hQ : parseOK (scriptEnv logic t) ρ t = true) (hN : mgrNormal t = true) :
    script PEnv.init (scriptOfFormula logic false t) = .ok (scriptCommands logic t) :=
  Agree.script_print_parse_exact logic ρ t hs hl henv hρ hQ hN

/-- **print → parse of the script of a formula** (DAG form, pySMT's default; quantifier-free formulas). -/
theorem script_printDag_parse_partial (logic : String) (ρ : List (String × Sym)) (t : Term)
    (hs : ScriptOK logic t = true) (hl : logicOK logic = true) (henv : envOK (scriptEnv logic t) = true)
    (hρ : ∀ s ∈ t.fv.eraseDups, ρ.lookup s.name = some s) (hdf : defFree (scriptEnv logic t))
    (hq : noQuant t = true) (hQ : parseOK (scriptEnv logic t) ρ t = true) (hN : mgrNormal t = true) :
    script PEnv.init (scriptOfFormula logic true t)
      = .ok ([Command.setLogic ((logicEntry logic).map (·.1))]
          ++ (sortDecls t).map (fun d => Command.declareSort d.1 d.2)
          ++ t.fv.eraseDups.map (Command.declare "declare-fun")
          ++ [Command.assert (unfoldAVw false t), Command.plain "check-sat" []]) :=
  Agree.script_print_parse_dag logic ρ t hs hl henv hρ hdf hq hQ hN

/-! ## any formula manager (the "same environment") -/

/-- **script of a formula, tree form, from any formula manager** `σ0` that knows only `ρ`-symbols and compatible sorts. -/
theorem script_print_parse_mgr_partial (logic : String) (ρ : List (String × Sym)) (t : Term) (σ0 : MgrSt)
    (hσ : MgrLe σ0 ρ) (hsorts : SortsCompat σ0 t)
    (hs : ScriptOK logic t = true) (hl : logicOK logic = true) (henv : envOK (scriptEnv logic t) = true)
    (hρ : ∀ s ∈ t.fv.eraseDups, ρ.lookup s.name = some s)
    (hQ : parseOK (scriptEnv logic t) ρ t = true) (hN : mgrNormal t = true) :
    script { PEnv.init with mgr := σ0 } (scriptOfFormula logic false t) = .ok (scriptCommands logic t) :=
  Agree.script_print_parse_mgr logic ρ t σ0 hσ hsorts hs hl henv hρ hQ hN

/-- **… DAG form** (quantifier-free formulas). -/
theorem script_printDag_parse_mgr_partial (logic : String) (ρ : List (String × Sym)) (t : Term) (σ0 : MgrSt)
    (hσ : MgrLe σ0 ρ) (hsorts : SortsCompat σ0 t)
    (hs : ScriptOK logic t = true) (hl : logicOK logic = true) (henv : envOK (scriptEnv logic t) = true)
    (hρ : ∀ s ∈ t.fv.eraseDups, ρ.lookup s.name = some s) (hdf : defFree (scriptEnv logic t))
    (hq : noQuant t = true) (hQ : parseOK (scriptEnv logic t) ρ t = true) (hN : mgrNormal t = true) :
    script { PEnv.init with mgr := σ0 } (scriptOfFormula logic true t)
      = .ok ([Command.setLogic ((logicEntry logic).map (·.1))]
          ++ (sortDecls t).map (fun d => Command.declareSort d.1 d.2)
          ++ t.fv.eraseDups.map (Command.declare "declare-fun")
          ++ [Command.assert (unfoldAVw false t), Command.plain "check-sat" []]) :=
  Agree.script_print_parse_dag_mgr logic ρ t σ0 hσ hsorts hs hl henv hρ hdf hq hQ hN

/-- the hypotheses on the manager are satisfiable by a manager with another symbol, a fresh counter and a sort -/
example : MgrLe Agree.σEx Agree.ρEx ∧ SortsCompat Agree.σEx C07.t1 ∧
    (∀ s ∈ C07.t1.fv.eraseDups, Agree.ρEx.lookup s.name = some s) ∧
    parseOK (scriptEnv "QF_LIA" C07.t1) Agree.ρEx C07.t1 = true := Agree.example_mgr_hyps

/-! ## logics without arithmetic -/

/-- `logicOK` fails for exactly the logics pySMT computes for pure bit-vector / UF / array formulas -/
theorem logicOK_false_examples :
    logicOK "QF_BV" = false ∧ logicOK "QF_UF" = false ∧ logicOK "QF_AUFBV" = false ∧ logicOK "BV" = false ∧
    logicOK "QF_AX" = false ∧ logicOK "QF_ABV" = false :=
  Agree.logicOK_false_examples

/-- **script of a formula, any logic, numeral-free formulas** (`numeralFree t`: no integer constant occurs in `t`). -/
theorem script_print_parse_numfree_partial (logic : String) (ρ : List (String × Sym)) (t : Term)
    (hs : ScriptOK logic t = true) (hl : (logicOK logic || numeralFree t) = true)
    (henv : envOK (scriptEnv logic t) = true) (hρ : ∀ s ∈ t.fv.eraseDups, ρ.lookup s.name = some s)
    (hQ : parseOK (scriptEnv logic t) ρ t = true) (hN : mgrNormal t = true) :
    script PEnv.init (scriptOfFormula logic false t) = .ok (scriptCommands logic t) :=
  Agree.script_print_parse_numfree logic ρ t hs hl henv hρ hQ hN

/-- **… DAG form.** -/
theorem script_printDag_parse_numfree_partial (logic : String) (ρ : List (String × Sym)) (t : Term)
    (hs : ScriptOK logic t = true) (hl : (logicOK logic || numeralFree t) = true)
    (henv : envOK (scriptEnv logic t) = true) (hρ : ∀ s ∈ t.fv.eraseDups, ρ.lookup s.name = some s)
    (hdf : defFree (scriptEnv logic t)) (hq : noQuant t = true)
    (hQ : parseOK (scriptEnv logic t) ρ t = true) (hN : mgrNormal t = true) :
    script PEnv.init (scriptOfFormula logic true t)
      = .ok ([Command.setLogic ((logicEntry logic).map (·.1))]
          ++ (sortDecls t).map (fun d => Command.declareSort d.1 d.2)
          ++ t.fv.eraseDups.map (Command.declare "declare-fun")
          ++ [Command.assert (unfoldAVw false t), Command.plain "check-sat" []]) :=
  Agree.script_print_parse_dag_numfree logic ρ t hs hl henv hρ hdf hq hQ hN

/-- **A QF_BV instance**: the script pySMT emits for `(bvult v (bvadd v (_ bv1 8)))`, `v : BV 8`, is read back as
`set-logic QF_BV`, `declare-fun v`, the assertion of the very same formula, `check-sat` — although `logicOK "QF_BV"` is false. -/
theorem qf_bv_instance :
    logicOK "QF_BV" = false ∧
    script PEnv.init (scriptOfFormula "QF_BV" false Agree.BVEx.tBV)
      = .ok [Command.setLogic (some "QF_BV"), Command.declare "declare-fun" Agree.BVEx.v,
             Command.assert (unfoldAV Agree.BVEx.tBV), Command.plain "check-sat" []] := by
  obtain ⟨hs, hlo, hl, henv, hρ, _, _, hQ, hN⟩ := Agree.BVEx.hyps_tBV
  exact ⟨hlo, by
    rw [← Agree.BVEx.scriptCommands_tBV]
    exact Agree.script_print_parse_numfree "QF_BV" [("v", Agree.BVEx.v)] Agree.BVEx.tBV hs hl henv hρ hQ hN⟩

/-! ## command lists (§4.2) -/

/-- **Print → parse of a command list.** A list of set-logic / declare-sort / declare-fun / declare-const / assert /
push / pop / check-sat commands, serialised by `SmtLibScript.serialize(daggify)` (model `scriptOfCmds dag`), is read by
the parser model from its initial state as the same command list (`toCommand`: an asserted formula comes back with array
values as store chains). `_partial`: the other serialisable commands (`define-fun`, `define-sort`, `set-info`,
`get-value`, `check-sat-assuming`, OMT) are not in `Printer.Cmd`. -/
theorem script_cmds_roundtrip_partial (dag : Bool) (cmds : List Printer.Cmd) (ρ : List (String × Sym))
    (h : cmdsOK dag Std.StdState.init cmds = true) (h2 : pcmdsOK dag ρ cmds = true) :
    script PEnv.init (scriptOfCmds dag cmds) = .ok (cmds.map (toCommand dag)) :=
  Agree.script_cmds_roundtrip dag cmds ρ h h2

/-- **… from any formula manager** holding `ρ`-symbols and sorts of the `κ`-arities. -/
theorem script_cmds_roundtrip_mgr_partial (dag : Bool) (cmds : List Printer.Cmd) (ρ : List (String × Sym))
    (κ : List (String × Nat)) (σ₀ : MgrSt) (hσ : MgrLe σ₀ ρ) (hκ : ∀ e ∈ σ₀.sorts, κ.lookup e.1 = some e.2)
    (h : cmdsOK dag Std.StdState.init cmds = true) (h2 : pcmdsFrom dag ρ κ Std.StdState.init [] [] cmds = true) :
    script { PEnv.init with mgr := σ₀ } (scriptOfCmds dag cmds) = .ok (cmds.map (toCommand dag)) :=
  Agree.script_cmds_roundtrip_mgr dag cmds ρ κ σ₀ hσ hκ h h2

/-- … and afterwards the parser's environment corresponds to the standard's final environment -/
theorem script_cmds_final_corr (dag : Bool) (cmds : List Printer.Cmd) (ρ : List (String × Sym))
    (h : cmdsOK dag Std.StdState.init cmds = true) (h2 : pcmdsOK dag ρ cmds = true) :
    Std.runStd (scriptOfCmds dag cmds) = .ok (cmdsRun dag Std.StdState.init cmds) ∧
    ∃ Γ', envAfter PEnv.init (scriptOfCmds dag cmds) = .ok Γ' ∧ Corr (cmdsRun dag Std.StdState.init cmds).env [] Γ' :=
  Agree.script_cmds_final_corr dag cmds ρ h h2

/-! ## array values (§4.3) -/

/-- the store chain an array value is printed as has the value of the array value (restates C07's `eval_unfoldAVw`) -/
theorem unfoldAV_meaning (t : Term) (h : avGuard t = true) : ∀ I, eval I (unfoldAV t) = eval I t :=
  Agree.unfoldAV_meaning t h

/-- without an array value that has assignments nothing is unfolded -/
theorem unfoldAV_id (t : Term) (h : noAssignedAV t = true) : unfoldAV t = t :=
  Agree.unfoldAV_id t h

/-- **the very same object** -/
theorem parse_print_id_same_object (env : Std.SEnv) (ρ : List (String × Sym)) (Γ : PEnv) (hc : Corr env [] Γ)
    (hm : MgrLe Γ.mgr ρ) (t : Term) (hP : Printable env [] t = true) (hQ : parseOK env ρ t = true)
    (hN : mgrNormal t = true) (hA : noAssignedAV t = true) : readTerm Γ (toSexp t) = .ok t :=
  Agree.parse_print_id_same_object env ρ Γ hc hm t hP hQ hN hA

/-- … DAG printer -/
theorem parse_printDag_id_same_object (env : Std.SEnv) (ρ : List (String × Sym)) (Γ : PEnv) (hc : Corr env [] Γ)
    (hm : MgrLe Γ.mgr ρ) (hdf : defFree env) (t : Term) (hP : Printable env [] t = true) (hq : noQuant t = true)
    (hQ : parseOK env ρ t = true) (hN : mgrNormal t = true) (hA : noAssignedAV t = true) :
    readTerm Γ (toSexpDag t) = .ok t :=
  Agree.parse_printDag_id_same_object env ρ Γ hc hm hdf t hP hq hQ hN hA

/-- **an equivalent formula** when array values with assignments occur -/
theorem parse_print_id_meaning (env : Std.SEnv) (ρ : List (String × Sym)) (Γ : PEnv) (hc : Corr env [] Γ)
    (hm : MgrLe Γ.mgr ρ) (t : Term) (hP : Printable env [] t = true) (hQ : parseOK env ρ t = true)
    (hN : mgrNormal t = true) (hG : avGuard t = true) :
    ∃ t', readTerm Γ (toSexp t) = .ok t' ∧ ∀ I, eval I t' = eval I t :=
  Agree.parse_print_id_meaning env ρ Γ hc hm t hP hQ hN hG

/-- P03 is excluded by the hypotheses: a symbol named `(` or `)` is not `pnameOK`, an environment declaring it is not `envOK` -/
theorem p03_excluded : pnameOK "(" = false ∧ pnameOK ")" = false ∧ pnameOK "(x" = true ∧
    envOK { funs := [Sym.var "(" .bool] } = false := by decide

/-- the parser environment built from the declarations of `env` corresponds to `env` -/
theorem penv_corresponds (env : Std.SEnv) (h : envOK env = true) (ρ : List (String × Sym)) :
    Corr env [] (penvOf env) ∧ MgrLe (penvOf env).mgr ρ :=
  ⟨corr_penvOf env h, mgrLe_penvOf env ρ⟩

/-- **Constants round-trip** (token level), for every integer, Boolean and string value, in every environment in which
no symbol is spelled like a numeral and `true`/`false` keep their meaning. -/
theorem parse_print_id_literals_partial (Γ : PEnv) (hnum : NumeralsFree Γ) (hlogic : Γ.intArith.getD true = true)
    (htrue : lookup "true" Γ.binds = some (.term Term.tt)) (hfalse : lookup "false" Γ.binds = some (.term Term.ff)) :
    (∀ n : Int, readTerm Γ (toSexp (Term.int n)) = .ok (Term.int n)) ∧
    (∀ b : Bool, readTerm Γ (toSexp (Term.bool b)) = .ok (Term.bool b)) ∧
    (∀ s : String, readTerm Γ (toSexp (Term.str s)) = .ok (Term.str s)) :=
  ⟨int_roundtrip Γ hnum hlogic,
   fun b => bool_roundtrip Γ b (by cases b <;> simpa [Term.bool, Term.tt, Term.ff] using ‹_›),
   str_roundtrip Γ⟩

/-- the tokens the parser dispatches on denote the standard's constructors (shared with C08) -/
theorem printed_tokens_std :
    Gen.ParserOps.table.all (fun e => Table.knownNonStd.contains e.1 || Table.expectedOf e.1 == some e.2) = true :=
  Table.table_std

/-! ## non-vacuity -/

/-- the environment with the one declared constant `|x y| : Int` of C07's example, logic `QF_LIA` -/
def envEx : Std.SEnv := { logic := "QF_LIA", funs := [C07.x] }

/-- all hypotheses of the round-trip theorems hold for `t1 = (<= |x y| (- 5))` (C07's example) in `envEx` -/
example : envOK envEx = true ∧ Printable envEx [] C07.t1 = true ∧ parseOK envEx [] C07.t1 = true ∧
    mgrNormal C07.t1 = true ∧ noQuant C07.t1 = true :=
  ⟨by decide, C07.pr_t1 envEx (by decide) (by decide),
   by simp [C07.t1, Term.sym, Term.int, parseOK, parseNodeOK],
   by simp [C07.t1, Term.sym, Term.int, mgrNormal, rootNorm], C07.noQuant_t1⟩

/-- … hence the conclusion is about a real round trip: `(<= |x y| (- 5))` is read back as `t1` itself -/
example : readTerm (penvOf envEx) (toSexp C07.t1) = .ok (unfoldAV C07.t1) :=
  parse_print_id_penv_partial envEx (by decide) [] C07.t1 (C07.pr_t1 envEx (by decide) (by decide))
    (by simp [C07.t1, Term.sym, Term.int, parseOK, parseNodeOK])
    (by simp [C07.t1, Term.sym, Term.int, mgrNormal, rootNorm])

/-- the hypotheses of the script theorems hold for `t1`, logic `QF_LIA`, `ρ = [|x y|]` -/
example :
    ScriptOK "QF_LIA" C07.t1 = true ∧ logicOK "QF_LIA" = true ∧ envOK (scriptEnv "QF_LIA" C07.t1) = true ∧
    (∀ s ∈ C07.t1.fv.eraseDups, [("x y", C07.x)].lookup s.name = some s) ∧ defFree (scriptEnv "QF_LIA" C07.t1) ∧
    noQuant C07.t1 = true ∧ parseOK (scriptEnv "QF_LIA" C07.t1) [("x y", C07.x)] C07.t1 = true ∧
    mgrNormal C07.t1 = true := Agree.example_script_hyps

/-- `defFree` holds when no sort is declared -/
example : defFree envEx := fun k => ⟨rfl, rfl⟩

/-- the exclusions are real: a term that is not in the manager's normal form is not `mgrNormal` -/
example : mgrNormal (.node .not [.node .not [Term.tt] .none] .none) = false := by
  simp [mgrNormal, rootNorm, notNorm, Term.tt]

/-- … and a bound variable spelled like a numeral is not `parseOK` (F16b) -/
example : parseOK envEx [] (.node .forall_ [Term.tt] (.qvars [Sym.var "12" .int])) = false := by
  simp [parseOK, parseNodeOK, Term.tt, bindNameOK, pnameOK, Sym.var]

example : lookup "true" PEnv.init.binds = some (.term Term.tt) ∧ lookup "false" PEnv.init.binds = some (.term Term.ff)
    ∧ PEnv.init.intArith.getD true = true := by
  refine ⟨by simp [PEnv.init, lookup], by simp [PEnv.init, lookup], rfl⟩

example : NumeralsFree PEnv.init := by
  intro k
  have ht : pyFraction? "true" = none := by decide
  have hf : pyFraction? "false" = none := by decide
  have h1 : natStr k ≠ "true" := by
    intro h; have := pyFraction_natStr k; rw [h, ht] at this; cases this
  have h2 : natStr k ≠ "false" := by
    intro h; have := pyFraction_natStr k; rw [h, hf] at this; cases this
  simp [PEnv.init, lookup, Ne.symm h1, Ne.symm h2]

/-! ### witnesses beyond `t1` (Proofs/C09Extra.lean, C09Logic.lean, C09Cmds2.lean) -/

/-- nested quantifiers with shadowing: `forall x. (x <= y) ∨ exists x. x = y` -/
example : readTerm (penvOf Agree.Wit.envW) (toSexp Agree.Wit.tQ) = .ok Agree.Wit.tQ := by
  obtain ⟨henv, hP, hQ, hN, hA⟩ := Agree.Wit.hyps_tQ
  exact Agree.parse_print_id_penv_same_object Agree.Wit.envW henv Agree.Wit.ρW Agree.Wit.tQ hP hQ hN hA

/-- an array value with two assignments: not `noAssignedAV`, but `avGuard` -/
example : noAssignedAV Agree.Wit.tA = false ∧ avGuard Agree.Wit.tA = true :=
  ⟨Agree.Wit.noAV_tA, Agree.Wit.hyps_tA.2.2.2.2.2.2⟩

/-- a command list with push/pop and re-declaration satisfies both hypotheses of `script_cmds_roundtrip_partial` -/
example (dag : Bool) : cmdsOK dag Std.StdState.init Agree.CmdsEx.cmds = true ∧
    pcmdsOK dag Agree.CmdsEx.ρ Agree.CmdsEx.cmds = true :=
  ⟨Agree.CmdsEx.cmdsOK_ex dag, Agree.CmdsEx.pcmdsOK_ex dag⟩

end PySMT.Props.C09
