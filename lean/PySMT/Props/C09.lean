import PySMT.Proofs.C09Lit
import PySMT.Proofs.C08Table
import PySMT.Proofs.C09Round
import PySMT.Proofs.C09DagRound
import PySMT.Proofs.C09ScriptRound
import PySMT.Proofs.C07Example
/-!
# C09 — print → parse round trips: the property theorems

Models: the printers `Impl/Printer.lean` (`toSexp`, `toSexpDag`; C07) and the parser `Impl/Parser.lean` (`readTerm`; C08), both
over `Spec/Sexp.lean`. On every run the *composition* `readTerm (declarations of t) (toSexp t)` / `(toSexpDag t)` is compared,
literally, with what `SmtLibParser` makes of `to_smtlib(f)` for ≈ 1 600 generated formulas of every sort (K, driver request
`rt`), and the implementation itself is checked against the statement of the property (S): identity of the object for both
printers, equivalent command lists for re-serialised scripts, same type/meaning/serialisation-up-to-grouping for the
human-readable format.

## What is proved

* `parse_print_id_partial` — **tree printer, compound terms**: for every formula `t` that satisfies C07's `Printable env [] t`
  (well-typed with canonical payloads, speakable unambiguous names, plain declared sorts, none of F10/F11/F44/F45/F46) and
  - `mgrNormal t`: `t` is in the formula manager's normal form (no `Not(Not x)`, no `ToReal` of an integer constant, no
    `Div` by a non-zero constant: what `FormulaManager` returns — the property speaks about formulas of the manager),
  - `parseOK env ρ t`: every bound variable has a name the parser cannot take for a literal (F16b) or a declared sort, and
    is the manager's symbol `ρ` of that name (one name, one sort),

  in every parser environment `Γ` that corresponds to `env` (`Agree.Corr env [] Γ`, stated explicitly in
  `Proofs/C08Agree0.lean`: every declared constant/function/sort of `env` is bound accordingly, `true`/`false` keep their
  meaning, no bound name is spelled like a literal, no `define-fun`, the logic flag agrees; `Agree.penvOf env` is such an
  environment whenever `Agree.envOK env`, theorem `penv_corresponds`) and whose formula manager knows only symbols of `ρ`:
  `readTerm Γ (toSexp t) = ok (unfoldAV t)` — the very same formula, array values as the store chains they are printed as.
  Operator families covered: Boolean connectives, `ite`, `=`, arithmetic and comparisons, `to_real`, `/` and the constants
  (negative and rational ones, printed as `(- c)`, `(/ n d)`), all bit-vector operators incl. `extract`, `zero_extend`,
  `sign_extend`, `rotate_left`, `rotate_right`, `concat`, `bvcomp`, `bv2nat`, the string operators, `select`/`store`/constant arrays/array values,
  applications of declared functions, `forall`/`exists`.
  `_partial` only because the exclusions of `Printable` (F10 integer division, F11 `str.to.int`/`int.to.str`, F44 `pow`,
  F45, F46, parametric sorts) are inherited: every operator family the printer can print for a `Printable` formula is
  covered.
* `parse_print_id_penv_partial` — the same in the concrete environment `penvOf env`.
* `parse_print_id_state_partial` — … and the formula manager is left within `ρ` (no fresh symbol for a bound variable).
* `parse_printDag_id_partial` — **DAG printer**, quantifier-free formulas (C07's `read_toSexpDag` covers those): the
  parser's reading of `toSexpDag t` is `unfoldAVw false t` (array values as store chains in argument order). Additional
  hypothesis `defFree env` (no declared sort is named `.def_k`). `_partial`: formulas with quantifiers (nested printers)
  are covered by K/S only.
* `script_print_parse_partial`, `script_printDag_parse_partial` — **the script of a formula**
  (`smtlibscript_from_formula(f).serialize(daggify=False|True)`, model `scriptOfFormula`): run from the parser's initial
  state, the whole script `(set-logic L) (declare-sort …)* (declare-fun …)* (assert …) (check-sat)` is accepted by the
  parser model (`Parser.script`) and yields exactly the command list `Agree.scriptCommands`: the declarations of the
  formula's sorts and free symbols, the assertion of the very same formula, `check-sat`. Hypotheses: C07's `ScriptOK logic
  t` (the hypotheses of `decls_before_use`), `logicOK logic` (the parser's arithmetic flag for the logic agrees with the
  standard's reading of numerals), `envOK (scriptEnv logic t)`, `ρ` contains the free symbols, `parseOK`, `mgrNormal`; for
  the DAG form also `noQuant t` and `defFree`. `_partial`: scripts of one formula only (no `define-fun`, `push`/`pop`,
  several assertions, OMT commands) — general re-serialised scripts are covered by K/S only.
* `parse_print_id_literals_partial` — Int/Bool/String constants, under the weaker hypotheses of the first round (kept).
* `printed_tokens_std` — every operator token of the parser table is the constructor the standard prescribes.

Still K/S only: general re-serialised scripts (arbitrary command lists), the human-readable format, DAG with quantifiers.
-/
namespace PySMT.Props.C09
open PySMT PySMT.Parser PySMT.Printer PySMT.Parser.Agree

/-- **print → parse is the identity** (tree printer). -/
theorem parse_print_id_partial (env : Std.SEnv) (ρ : List (String × Sym)) (Γ : PEnv) (hc : Corr env [] Γ)
    (hm : MgrLe Γ.mgr ρ) (t : Term) (hP : Printable env [] t = true) (hQ : parseOK env ρ t = true)
    (hN : mgrNormal t = true) : readTerm Γ (toSexp t) = .ok (unfoldAV t) :=
  Agree.parse_print_id env ρ Γ hc hm t hP hQ hN

/-- … in the environment the declarations of `env` build. -/
theorem parse_print_id_penv_partial (env : Std.SEnv) (henv : envOK env = true) (ρ : List (String × Sym)) (t : Term)
    (hP : Printable env [] t = true) (hQ : parseOK env ρ t = true) (hN : mgrNormal t = true) :
    readTerm (penvOf env) (toSexp t) = .ok (unfoldAV t) :=
  Agree.parse_print_id_penv env henv ρ t hP hQ hN

/-- … and the formula manager stays within `ρ`. -/
theorem parse_print_id_state_partial (env : Std.SEnv) (ρ : List (String × Sym)) (Γ : PEnv) (hc : Corr env [] Γ)
    (hm : MgrLe Γ.mgr ρ) (t : Term) (hP : Printable env [] t = true) (hQ : parseOK env ρ t = true)
    (hN : mgrNormal t = true) : ∃ σ', readTermSt Γ (toSexp t) = .ok (unfoldAV t, σ') ∧ MgrLe σ' ρ :=
  Agree.parse_print_id_st env ρ Γ hc hm t hP hQ hN

/-- **print → parse is the identity** (DAG printer, quantifier-free formulas). -/
theorem parse_printDag_id_partial (env : Std.SEnv) (ρ : List (String × Sym)) (Γ : PEnv) (hc : Corr env [] Γ)
    (hm : MgrLe Γ.mgr ρ) (hdf : defFree env) (t : Term) (hP : Printable env [] t = true) (hq : noQuant t = true)
    (hQ : parseOK env ρ t = true) (hN : mgrNormal t = true) :
    readTerm Γ (toSexpDag t) = .ok (unfoldAVw false t) :=
  Agree.parse_printDag_id env ρ Γ hc hm hdf t hP hq hQ hN

/-- **print → parse of the script of a formula** (tree form): the exact command list. -/
theorem script_print_parse_partial (logic : String) (ρ : List (String × Sym)) (t : Term)
    (hs : ScriptOK logic t = true) (hl : logicOK logic = true) (henv : envOK (scriptEnv logic t) = true)
    (hρ : ∀ s ∈ t.fv.eraseDups, ρ.lookup s.name = some s)
    (hQ : parseOK (scriptEnv logic t) ρ t = true) (hN : mgrNormal t = true) :
    script PEnv.init (scriptOfFormula logic false t) = .ok (scriptCommands logic t) :=
  Agree.script_print_parse_exact logic ρ t hs hl henv hρ hQ hN

/-- **print → parse of the script of a formula** (DAG form, pySMT's default; quantifier-free formulas). -/
theorem script_printDag_parse_partial (logic : String) (ρ : List (String × Sym)) (t : Term)
    (hs : ScriptOK logic t = true) (hl : logicOK logic = true) (henv : envOK (scriptEnv logic t) = true)
    (hρ : ∀ s ∈ t.fv.eraseDups, ρ.lookup s.name = some s) (hdf : defFree (scriptEnv logic t))
    (hq : noQuant t = true) (hQ : parseOK (scriptEnv logic t) ρ t = true) (hN : mgrNormal t = true) :
    script PEnv.init (scriptOfFormula logic true t)
      = .ok ([Command.setLogic ((logicEntry logic).map (·.1))]
          ++ (sortDecls t).map (fun d => Command.declareSort d.1 d.2)
          ++ t.fv.eraseDups.map (Command.declare "declare-fun")
          ++ [Command.assert (unfoldAVw false t), Command.plain "check-sat" []]) :=
  Agree.script_print_parse_dag logic ρ t hs hl henv hρ hdf hq hQ hN

/-- the parser environment built from the declarations of `env` corresponds to `env` -/
theorem penv_corresponds (env : Std.SEnv) (h : envOK env = true) (ρ : List (String × Sym)) :
    Corr env [] (penvOf env) ∧ MgrLe (penvOf env).mgr ρ :=
  ⟨corr_penvOf env h, mgrLe_penvOf env ρ⟩

/-- **Constants round-trip** (token level), for every integer, Boolean and string value, in every environment in which
no symbol is spelled like a numeral and `true`/`false` keep their meaning. -/
theorem parse_print_id_literals_partial (Γ : PEnv) (hnum : NumeralsFree Γ) (hlogic : Γ.intArith.getD true = true)
    (htrue : lookup "true" Γ.binds = some (.term Term.tt)) (hfalse : lookup "false" Γ.binds = some (.term Term.ff)) :
    (∀ n : Int, readTerm Γ (toSexp (Term.int n)) = .ok (Term.int n)) ∧
    (∀ b : Bool, readTerm Γ (toSexp (Term.bool b)) = .ok (Term.bool b)) ∧
    (∀ s : String, readTerm Γ (toSexp (Term.str s)) = .ok (Term.str s)) :=
  ⟨int_roundtrip Γ hnum hlogic,
   fun b => bool_roundtrip Γ b (by cases b <;> simpa [Term.bool, Term.tt, Term.ff] using ‹_›),
   str_roundtrip Γ⟩

/-- the tokens the parser dispatches on denote the standard's constructors (shared with C08) -/
theorem printed_tokens_std :
    Gen.ParserOps.table.all (fun e => Table.knownNonStd.contains e.1 || Table.expectedOf e.1 == some e.2) = true :=
  Table.table_std

/-! ## non-vacuity -/

/-- the environment with the one declared constant `|x y| : Int` of C07's example, logic `QF_LIA` -/
def envEx : Std.SEnv := { logic := "QF_LIA", funs := [C07.x] }

/-- all hypotheses of the round-trip theorems hold for `t1 = (<= |x y| (- 5))` (C07's example) in `envEx` -/
example : envOK envEx = true ∧ Printable envEx [] C07.t1 = true ∧ parseOK envEx [] C07.t1 = true ∧
    mgrNormal C07.t1 = true ∧ noQuant C07.t1 = true :=
  ⟨by decide, C07.pr_t1 envEx (by decide) (by decide),
   by simp [C07.t1, Term.sym, Term.int, parseOK, parseNodeOK],
   by simp [C07.t1, Term.sym, Term.int, mgrNormal, rootNorm], C07.noQuant_t1⟩

/-- … hence the conclusion is about a real round trip: `(<= |x y| (- 5))` is read back as `t1` itself -/
example : readTerm (penvOf envEx) (toSexp C07.t1) = .ok (unfoldAV C07.t1) :=
  parse_print_id_penv_partial envEx (by decide) [] C07.t1 (C07.pr_t1 envEx (by decide) (by decide))
    (by simp [C07.t1, Term.sym, Term.int, parseOK, parseNodeOK])
    (by simp [C07.t1, Term.sym, Term.int, mgrNormal, rootNorm])

/-- the hypotheses of the script theorems hold for `t1`, logic `QF_LIA`, `ρ = [|x y|]` -/
example :
    ScriptOK "QF_LIA" C07.t1 = true ∧ logicOK "QF_LIA" = true ∧ envOK (scriptEnv "QF_LIA" C07.t1) = true ∧
    (∀ s ∈ C07.t1.fv.eraseDups, [("x y", C07.x)].lookup s.name = some s) ∧ defFree (scriptEnv "QF_LIA" C07.t1) ∧
    noQuant C07.t1 = true ∧ parseOK (scriptEnv "QF_LIA" C07.t1) [("x y", C07.x)] C07.t1 = true ∧
    mgrNormal C07.t1 = true := Agree.example_script_hyps

/-- `defFree` holds when no sort is declared -/
example : defFree envEx := fun k => ⟨rfl, rfl⟩

/-- the exclusions are real: a term that is not in the manager's normal form is not `mgrNormal` -/
example : mgrNormal (.node .not [.node .not [Term.tt] .none] .none) = false := by
  simp [mgrNormal, rootNorm, notNorm, Term.tt]

/-- … and a bound variable spelled like a numeral is not `parseOK` (F16b) -/
example : parseOK envEx [] (.node .forall_ [Term.tt] (.qvars [Sym.var "12" .int])) = false := by
  simp [parseOK, parseNodeOK, Term.tt, bindNameOK, pnameOK, Sym.var]

example : lookup "true" PEnv.init.binds = some (.term Term.tt) ∧ lookup "false" PEnv.init.binds = some (.term Term.ff)
    ∧ PEnv.init.intArith.getD true = true := by
  refine ⟨by simp [PEnv.init, lookup], by simp [PEnv.init, lookup], rfl⟩

example : NumeralsFree PEnv.init := by
  intro k
  have ht : pyFraction? "true" = none := by decide
  have hf : pyFraction? "false" = none := by decide
  have h1 : natStr k ≠ "true" := by
    intro h; have := pyFraction_natStr k; rw [h, ht] at this; cases this
  have h2 : natStr k ≠ "false" := by
    intro h; have := pyFraction_natStr k; rw [h, hf] at this; cases this
  simp [PEnv.init, lookup, Ne.symm h1, Ne.symm h2]

end PySMT.Props.C09
