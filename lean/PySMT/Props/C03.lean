import PySMT.Proofs.C03Create
import PySMT.Proofs.C03Raw
import PySMT.Proofs.C03Mk
import PySMT.Proofs.C03Bridge
/-!
# C03 — every formula that exists is well-typed; ill-typed applications are rejected

`Term.typeOf` / `Term.wt` (Core/TypeOf.lean) model `SimpleTypeChecker`; `Spec.HasType` is the
SMT-LIB sorting discipline (Spec/HasType.lean); `CreateNode` models `create_node`.

* `typeOf_unique`, `hasType_iff_sortOf` : full strength.
* `typeOf_sound_partial` : the full statement `typeOf_sound_full_statement` is **false** —
  `SimpleTypeChecker` checks sorts but neither the arity of the operator nor the shape of the
  payload (it trusts `FormulaManager`'s constructors for both), types `Pow` on any two equal
  sorts and ignores the list of bound variables (finding F06). The theorem is proved under
  the explicit decidable exclusion `Term.noF06` (Impl/CreateNode.lean: `nodeOk` =
  `arityOk ∧ payloadOk ∧ sortsOk` at every node); below there is one `decide`d witness per
  component showing that the exclusion cannot be dropped.
* `typeOf_complete_partial` : the full statement `typeOf_complete_full_statement` is **false**
  in one place — pySMT only allows rotations by `step ≤ width`, SMT-LIB by any numeral.
  Proved under `Term.rotInRange`, with a witness.
  Repaired in /repo since the first run (so K compares against the repaired code): negative
  rotation steps (125ed50), `Equals`/`Ite` over function symbols (20dcbd6, 2aec32b), bound
  "variables" that are not plain symbols (f0cd2ee), `BV()` of non-positive width (6d78f18).
  Only the bound-variable check is visible in `Term`: `typeOfNode` (Core, unchanged) still
  ignores the variable list, i.e. the model is more permissive than the repaired code on
  quantifiers over function symbols — terms the wire format cannot carry; `payloadOk`
  excludes them. Still open (known findings): `Pow` on non-numeric sorts, arity and payload
  shape through a direct `create_node`.
* `constructors_well_typed_partial` : the property's first sentence for the public constructors
  of `Impl/Mk.lean` (`C03.Built`, 90 rules) — `wt`, outside F06, well-sorted with the reported
  type; `create_preserves_good` is the generic step; `pow_step_partial` the symbolic `Pow`.
* `built_wf`, `built_normal`, `built_constKeys` : the bridge — the structural hypotheses of
  C01/C02/C05/C10's semantic theorems hold of everything the constructors build
  (`Props/Bridge.lean` instantiates the clients' headline theorems).
* `typeOfNode_is_checker_on_arity`, `typeOf_is_checker_on_arity` : the model boundary as a
  theorem — `typeOfNode` is the real checker's rule (`CreateNode.pyNode`) on every node of the
  operator's arity; off the arity they differ and grid A compares with `pyNode` exactly.
* `created_all_wt`, `createNode_accepts_partial` are **definitional on the model** (see their
  docstrings): their content is the correspondence with formula.py:95-106, tested by K.
* `created_all_wt` : invariant over all histories of `create_node` calls;
  `created_all_hasType_partial`, `createNode_rejects_illsorted_partial` : the two sentences
  of the property for the model of `create_node` (outside F06).
-/
namespace PySMT
namespace C03
open Spec CreateNode

/-- the checker accepts only well-sorted terms — **false** as it stands (F06), see the witnesses -/
def typeOf_sound_full_statement : Prop :=
  ∀ (t : Term) (τ : Ty), t.wt = true → t.typeOf = some τ → HasType t τ

/-- every well-sorted term is accepted with its sort — **false** for rotations by more than the width -/
def typeOf_complete_full_statement : Prop :=
  ∀ (t : Term) (τ : Ty), HasType t τ → t.typeOf = some τ ∧ t.wt = true

/-- Outside the holes of F06 the checker is sound: an accepted term is well-sorted and the
type reported is the sort the rules determine. -/
theorem typeOf_sound_partial (t : Term) (τ : Ty) (hex : t.noF06 = true) (hwt : t.wt = true)
    (h : t.typeOf = some τ) : HasType t τ :=
  hasType_of_sortOf t τ (sound_sortOf t τ hex hwt h)

/-- Every well-sorted term (rotations by at most the width) is accepted, every sub-term
is, and the type reported is its sort. -/
theorem typeOf_complete_partial (t : Term) (τ : Ty) (hrot : t.rotInRange = true) (h : HasType t τ) :
    t.typeOf = some τ ∧ t.wt = true :=
  complete_sortOf t τ hrot (sortOf_of_hasType h)

/-- A term has at most one sort. -/
theorem typeOf_unique (t : Term) (τ τ' : Ty) (h : HasType t τ) (h' : HasType t τ') : τ = τ' :=
  hasType_unique h h'

/-- `HasType` is decided by the computable `Term.sortOf` (the driver's `hastype`). -/
theorem hasType_iff_sortOf (t : Term) (τ : Ty) : HasType t τ ↔ t.sortOf = some τ :=
  Spec.hasType_iff_sortOf t τ

/-- On accepted terms outside F06 the checker and the sorting discipline agree on the sort. -/
theorem typeOf_eq_sortOf_partial (t : Term) (hex : t.noF06 = true) (hrot : t.rotInRange = true) :
    (t.wt = true ∧ t.typeOf = t.sortOf) ∨ (t.sortOf = none ∧ (t.wt = false ∨ t.typeOf = none)) := by
  cases hs : t.sortOf with
  | some τ =>
    have := complete_sortOf t τ hrot hs
    exact .inl ⟨this.2, this.1⟩
  | none =>
    refine .inr ⟨rfl, ?_⟩
    cases hw : t.wt with
    | false => exact .inl rfl
    | true =>
      cases ht : t.typeOf with
      | none => exact .inr rfl
      | some τ => rw [sound_sortOf t τ hex hw ht] at hs; cases hs

/-- Every formula returned by any sequence of `create_node` calls is well-typed.
**Definitional on the model**: `CreateNode.createNode` returns `some t` exactly when
`t.typeOf.isSome`, and arguments are earlier results, so this restates the model; its content
is the correspondence of that model with formula.py:95-106 (both paths of `create_node` run the
type check before returning), which is tested by K (grid A, histories, the repeat dimension),
not proved. -/
theorem created_all_wt (calls : List Call) : ∀ t ∈ (run calls).returned, t.wt = true :=
  CreateNode.created_all_wt calls

/-- … and, outside F06, well-sorted with the reported type. -/
theorem created_all_hasType_partial (calls : List Call) (t : Term) (ht : t ∈ (run calls).returned)
    (hex : t.noF06 = true) : ∃ τ, t.typeOf = some τ ∧ HasType t τ := by
  have hw := CreateNode.created_all_wt calls t ht
  obtain ⟨τ, hτ⟩ := Option.isSome_iff_exists.1 (wt_typeOf_isSome t hw)
  exact ⟨τ, hτ, typeOf_sound_partial t τ hex hw hτ⟩

/-- An ill-sorted application (of well-typed arguments, outside F06) returns no formula. -/
theorem createNode_rejects_illsorted_partial (s : Mgr) (op : Op) (args : List Term) (p : Payload)
    (hargs : ∀ a ∈ args, a.wt = true) (hex : (Term.node op args p).noF06 = true)
    (hill : ¬ ∃ τ, HasType (.node op args p) τ) : (createNode s op args p).2 = none := by
  cases h : (createNode s op args p).2 with
  | none => rfl
  | some t =>
    exfalso
    have hw := createNode_wt hargs h
    obtain ⟨rfl, hs⟩ := createNode_some h
    obtain ⟨τ, hτ⟩ := Option.isSome_iff_exists.1 hs
    exact hill ⟨τ, typeOf_sound_partial _ τ hex hw hτ⟩

/-- A well-sorted application of accepted arguments is accepted and returned as is.
(One unfolding of `createNode` after `typeOf_complete_partial`: the content is that theorem.) -/
theorem createNode_accepts_partial (s : Mgr) (op : Op) (args : List Term) (p : Payload) (τ : Ty)
    (hrot : (Term.node op args p).rotInRange = true) (h : HasType (.node op args p) τ) :
    (createNode s op args p).2 = some (.node op args p) := by
  have := (typeOf_complete_partial _ τ hrot h).1
  simp [createNode, this]

/-! ## the public constructors (`Impl/Mk.lean`) -/

/-- **First sentence of the property, for constructors.** Every term obtained from constants and
plain symbols by calls of the public constructors modelled in `Impl/Mk.lean` (`C03.Built`: one
rule per constructor — the rules are the list of constructors covered) is accepted by the checker
at every node, lies outside the holes of F06, and is well-sorted with the reported type.
`_partial`: (1) `Built` carries side conditions `Mk` does not enforce itself — quantifier binders
are plain symbols (the repaired code enforces it, f0cd2ee; `Mk`/`typeOfNode` ignore the binder
list), `Function(f, [])` names a constant, the assignments of `Array` are a dictionary (pairwise
distinct keys: Python passes a `dict`, `Mk` a list) with constant keys; (2) `Pow` is covered only
where it folds two constants — a symbolic `Pow` creates a `pow` node (no semantics, outside `wf`):
single-step statement `pow_step_partial` below, on a numeric base (F06e); (3) not covered: `BV`
given as a string (`Mk.BVStr`), the infix layer (`Mk.Infix`). -/
theorem constructors_well_typed_partial (t : Term) (h : Built t) :
    t.wt = true ∧ t.noF06 = true ∧ ∃ τ, t.typeOf = some τ ∧ HasType t τ := by
  obtain ⟨hw, hn, _⟩ := built_good h
  obtain ⟨τ, hτ⟩ := Option.isSome_iff_exists.1 (wt_typeOf_isSome t hw)
  exact ⟨hw, hn, τ, hτ, typeOf_sound_partial t τ hn hw hτ⟩

/-- a symbolic `Pow` on a numeric base over constructor-built arguments is accepted and outside F06 -/
theorem pow_step_partial (b e t : Term) (h : Mk.Pow b e = .ok t) (hb : Built b) (he : Built e)
    (hnum : b.typeOf = some .int ∨ b.typeOf = some .real) : t.wt = true ∧ t.noF06 = true :=
  Pow_step_partial h (built_good hb) (built_good he) hnum

/-- **The bridge to C01/C02/C05/C10.** What the constructors build is well-formed
(`Impl/WF.lean: Term.wf`), in the manager's normal form (`Impl/SubstBuild.lean: Build.normal`) and has
constant array-value keys (`Proofs/C05Sem.lean: Subst.ConstKeys`) — the three structural hypotheses
the semantic theorems of the other properties assume. `Props/Bridge.lean` instantiates one
headline theorem of each client on `Built` terms. -/
theorem built_wf (t : Term) (h : Built t) : t.wf = true := C03.wf_of_built h
theorem built_normal (t : Term) (h : Built t) : Build.normal t = true := C03.normal_of_built h
theorem built_constKeys (t : Term) (h : Built t) : Subst.ConstKeys t = true := C03.constKeys_of_built h

/-- The generic step: a node `Mk.create` (= `create_node`) returns over `Good` arguments
(`wt`, outside F06, of the constructors' shape `allE`) is `Good` as soon as the node itself is
outside the holes (`nodeOk`: arity, payload shape, `Pow` sorts) and of that shape (`nodeE`). -/
theorem create_preserves_good (op : Op) (args : List Term) (p : Payload) (t : Term)
    (h : Mk.create op args p = .ok t) (hargs : ∀ a ∈ args, Good a)
    (hok : ∀ σs : List Ty, σs.length = args.length → args.map Term.typeOf = σs.map some → nodeOk op p σs = true)
    (hE : nodeE op p args = true) : Good t :=
  create_good h hargs hok hE

/-- **Model boundary as a theorem.** `CreateNode.pyNode` transcribes `SimpleTypeChecker` on raw
nodes of *any* number of arguments (extra arguments ignored, `IndexError` on none, dangling array
key, binder list). On a node that has the arity of its operator — every node a constructor
builds — whose children type-check, with a binder list of plain symbols and no payload elements
beyond the ones the rule reads, `typeOfNode` (Core) is exactly that rule. Off the arity the two
differ (`le []`, extra arguments of concat/extract/rotate/ite/select/store/pow, dangling key);
grid A compares the real checker with `pyNode` on every raw call, exactly. Not expressible: a
`symbol` node of function type (Python types it with the function type). -/
theorem typeOfNode_is_checker_on_arity (op : Op) (p : Payload) (ts : List (Option Ty))
    (har : arityOk op ts.length = true) (hq : rawPayloadOk op p = true) (hs : ∀ t ∈ ts, t.isSome = true) :
    pyNode op p ts = typeOfNode op p ts :=
  pyNode_eq_typeOfNode op p ts har hq hs

/-- … and for whole terms: where every node has its operator's arity, `wt`/`typeOf` is the real
checker (`wtRaw`/`typeOfRaw`), in both directions. -/
theorem typeOf_is_checker_on_arity (t : Term) (ha : t.arityOkAll = true) :
    (t.wt = true ↔ t.wtRaw = true) ∧ (t.wt = true → t.typeOfRaw = t.typeOf) :=
  ⟨⟨fun h => (raw_of_wt t ha h).1, fun h => (wt_of_raw t ha h).1⟩, fun h => (raw_of_wt t ha h).2⟩

/-! ## witnesses: the exclusions cannot be dropped -/
section witnesses
private def x8 : Term := .var "x" (.bv 8)
private def y8 : Term := .var "y" (.bv 8)
private def pB : Term := .var "p" .bool
private def qB : Term := .var "q" .bool
private def xI : Term := .var "x" .int
private def tOk : Term := .mkIte pB (.node .plus [xI, .int 1] .none) xI

/-- evaluate the (well-founded, hence irreducible) recursive functions on a concrete term by
unfolding, then decide the remaining closed first-order expression -/
local macro "term_eval" : tactic => `(tactic| (
  simp only [Spec.hasType_iff_sortOf, Term.wt, Term.typeOf, Term.sortOf, Term.noF06, Term.rotInRange,
    Term.mkForall, Term.mkIte, Term.var, Term.sym, Term.int, Term.tt, Term.ff, Sym.var, List.map, List.filterMap,
    createNode, run, step, lookupArgs, Hist.init, Mgr.init, Hist.returned, List.foldl, List.getElem?_cons_zero,
    List.getElem?_cons_succ, List.nil_append, List.cons_append, x8, y8, pB, qB, xI, tOk]
  decide))

/-- arity: `Not(p, q)` as a raw node is accepted with type Bool -/
example : let t := Term.node .not [pB, qB] .none
    t.wt = true ∧ t.typeOf = some .bool ∧ ¬ HasType t .bool := by term_eval
/-- arity: `Plus()` "has type" Real -/
example : let t := Term.node .plus [] .none
    t.wt = true ∧ t.typeOf = some .real ∧ ¬ HasType t .real := by term_eval
/-- payload: the checker never looks at the cached width of `bvcomp` -/
example : let t := Term.node .bvComp [x8, y8] .none
    t.wt = true ∧ t.typeOf = some (.bv 1) ∧ ¬ HasType t (.bv 1) := by term_eval
/-- payload: zero-extension by 7 with cached target width 10 on a `BV8` -/
example : let t := Term.node .bvZext [x8] (.ints [10, 7])
    t.wt = true ∧ t.typeOf = some (.bv 10) ∧ ¬ HasType t (.bv 10) := by term_eval
/-- payload: `extract` with `lo = 1 > hi = 0` and cached width 0 -/
example : let t := Term.node .bvExtract [x8] (.ints [0, 1, 0])
    t.wt = true ∧ t.typeOf = some (.bv 0) ∧ ¬ HasType t (.bv 0) := by term_eval
/-- payload: quantifier over a function symbol (the bound "variables" are ignored) -/
example : let t := Term.mkForall [⟨"f", [.int], .int⟩] pB
    t.wt = true ∧ t.typeOf = some .bool ∧ ¬ HasType t .bool := by term_eval
/-- sorts: `Pow(p, q) : Real` on Booleans -/
example : let t := Term.node .pow [pB, qB] .none
    t.wt = true ∧ t.typeOf = some .real ∧ ¬ HasType t .real := by term_eval

example : ¬ typeOf_sound_full_statement := by
  intro h
  have := h (Term.node .pow [pB, qB] .none) .real (by term_eval) (by term_eval)
  revert this
  term_eval

/-- completeness: `((_ rotate_left 9) x)` on a `BV8` is well-sorted, pySMT rejects it -/
example : let t := Term.node .bvRol [x8] (.ints [8, 9])
    HasType t (.bv 8) ∧ t.typeOf = none := by term_eval

example : ¬ typeOf_complete_full_statement := by
  intro h
  have := (h (Term.node .bvRol [x8] (.ints [8, 9])) (.bv 8) (by term_eval)).1
  revert this
  term_eval

/-! ## non-vacuity: the hypotheses are satisfiable, on both sides -/
example : tOk.noF06 = true ∧ tOk.rotInRange = true ∧ tOk.wt = true ∧ tOk.typeOf = some .int ∧ HasType tOk .int := by
  term_eval
/-- an accepted rotation, an extract and an extension that satisfy both hypotheses -/
example : let t := Term.node .bvZext [.node .bvExtract [.node .bvRol [x8] (.ints [8, 8])] (.ints [4, 2, 5])] (.ints [6, 2])
    t.noF06 = true ∧ t.rotInRange = true ∧ t.wt = true ∧ HasType t (.bv 6) := by term_eval
/-- an ill-sorted application that is rejected: `x + p` -/
example : (createNode Mgr.init .plus [xI, pB] .none).2 = none := by term_eval
/-- … but stays in the table (inserted before the check) -/
example : (createNode Mgr.init .plus [xI, pB] .none).1.formulae.contains (.node .plus [xI, pB] .none) = true := by
  term_eval
/-- a history: `x`, `1`, `x + 1` (returned), `Not(x + 1)` (raises), `And(4th, x)` (cannot be made) -/
example : (run [⟨.symbol, [], .sym (Sym.var "x" .int)⟩, ⟨.intConst, [], .i 1⟩, ⟨.plus, [0, 1], .none⟩,
    ⟨.not, [2], .none⟩, ⟨.and, [3, 0], .none⟩]).returned = [xI, .int 1, .node .plus [xI, .int 1] .none] := by
  have e1 : typeOfNode .symbol (.sym (Sym.var "x" .int)) [] = some .int := by decide
  have e2 : typeOfNode .intConst (.i 1) [] = some .int := by decide
  have e3 : typeOfNode .plus .none [some .int, some .int] = some .int := by decide
  have e4 : typeOfNode .not .none [some .int] = none := by decide
  simp [run, step, lookupArgs, Hist.init, Mgr.init, Hist.returned, createNode, Term.typeOf, e1, e2, e3, e4, xI,
    Term.var, Term.sym, Term.int]
/-- `Built` is inhabited by a compound term: `Not(p)`, `x < 1` -/
example : Built (Term.node .not [pB] .none) := by
  refine Built.Not (f := pB) (Built.symbol _ rfl) ?_
  simp [Mk.Not, Mk.create, pB, Term.var, Term.sym, Sym.var, Term.typeOf]
  decide
example : Built (Term.node .lt [xI, .int 1] .none) := by
  refine Built.LT (l := xI) (r := .int 1) (Built.symbol _ rfl) (Built.intC 1) ?_
  simp [Mk.LT, Mk.create, xI, Term.var, Term.sym, Sym.var, Term.int, Term.typeOf]
  decide
/-- off the arity the real rule and `typeOfNode` differ (so `arityOk` cannot be dropped):
`le []` raises in Python, `ite` with a fourth argument is accepted -/
example : pyNode .le .none [] = none ∧ typeOfNode .le .none [] = some .bool := by decide
example : pyNode .ite .none [some .bool, some .int, some .int, some .real] = some .int ∧
    typeOfNode .ite .none [some .bool, some .int, some .int, some .real] = none := by decide
end witnesses

end C03
end PySMT
