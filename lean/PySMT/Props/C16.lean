import PySMT.Proofs.C16Main
/-!
# C16 — Scripts and incremental solvers track exactly the live assertions

Property theorems only (proofs in `PySMT/Proofs/C16*.lean`).  All of them quantify over ALL command sequences
that are legal in SMT-LIB: no bound on the length, on the arguments of push/pop, on the number of identifiers.
`Spec` = `PySMT/Spec/AssertStack.lean`, models = `PySMT/Impl/Script.lean`, `PySMT/Impl/SolverTrack.lean`,
decorator table = `PySMT/Gen/PendingPop.lean` (regenerated from /repo on every run).

What the statements do NOT say (see also tools/manifest_texts/C16.json):
* formulas are opaque ids: the script theorems speak about the LIST handed to `mgr.And` (the harness checks, by object
  identity, that the real result is `mgr.And` of exactly that list; `And([]) = TRUE`, `And([x]) = x` is C06's matter),
  and only about the `return_optimizations=True` shape (the other one is its first component);
* solver side: the native solver is an ideal SMT-LIB stack; `options.incremental = True` (the non-incremental branch
  of `Solver.is_sat`, solver.py:105-114, makes the solver single-use and is not modelled); classes overriding `is_sat`
  are outside (`usesBaseIsSat`; there is none in the tree); for classes without an `assertions` list
  (`tracking = false`) the statements are about what the native check runs on;
* `oneshot_restores_partial` excludes, for wrappers whose assumption path is not protected (finding F44:
  MathSAT5Solver, YicesSolver, BddSolver, PicosatSolver), the histories in which asserting an assumption raises.
-/

namespace PySMT.Props.C16
open PySMT.AssertStack PySMT.SolverTrack PySMT.Proofs.C16
open PySMT.Gen.PendingPop (classes)

/-- `get_last_formula` on a legal script: no exception, and the reported conjunction is exactly the list of live
    assertions (in order, with multiplicity). -/
theorem script_refines_stack (cmds : List Cmd) (h : Legal cmds) :
    ∃ s, run cmds = some s ∧ (Script.lastFormula cmds).map Prod.fst = .ok (live s) := by
  unfold Legal at h
  cases hs : run cmds with
  | none => simp [hs] at h
  | some s => exact ⟨s, rfl, by rw [lastFormula_refines cmds s hs]; rfl⟩

/-- … and the reported goals are exactly the live goals: objectives in order, one MaxSMT goal per identifier, placed
    at its first live soft clause and holding exactly the live soft clauses of that identifier. -/
theorem goals_refine (cmds : List Cmd) (h : Legal cmds) :
    ∃ s, run cmds = some s ∧ (Script.lastFormula cmds).map Prod.snd = .ok (liveGoals s) := by
  unfold Legal at h
  cases hs : run cmds with
  | none => simp [hs] at h
  | some s => exact ⟨s, rfl, by rw [lastFormula_refines cmds s hs]; rfl⟩

/-- Exactness: the replay loop returns a result exactly on the scripts that are legal in SMT-LIB … -/
theorem script_exact (cmds : List Cmd) : (∃ r, Script.lastFormula cmds = .ok r) ↔ Legal cmds := by
  unfold Legal
  cases hs : run cmds with
  | none => simp [lastFormula_illegal cmds hs]
  | some s => simp [lastFormula_refines cmds s hs]

/-- … and on an illegal one it raises `IndexError`, whatever follows the illegal `pop`: an illegal script is never
    silently accepted. -/
theorem script_illegal (cmds : List Cmd) (h : ¬ Legal cmds) : Script.lastFormula cmds = .error .indexError := by
  unfold Legal at h
  cases hs : run cmds with
  | none => exact lastFormula_illegal cmds hs
  | some s => simp [hs] at h

/-- `get_strict_formula` accepts a script iff it has no push / pop / reset-assertions and exactly one check-sat, and
    then returns the conjunction of its assert commands … -/
theorem strict_ok (cmds : List Cmd) (fs : List Nat) :
    Script.strictFormula cmds = .ok fs ↔
      (cmds.any Script.isStackCmd = false ∧ (cmds.filter Script.isCheck).length = 1) ∧
        fs = Script.assertsOfCmds cmds :=
  strictFormula_ok_iff cmds fs

/-- … which are exactly the live assertions of the (then necessarily legal) script. -/
theorem strict_live (cmds : List Cmd) (fs : List Nat) (h : Script.strictFormula cmds = .ok fs) :
    ∃ s, run cmds = some s ∧ fs = live s :=
  strictFormula_live cmds fs h

/-- `IncrementalTrackingSolver` bookkeeping + `pending_pop` protocol, for ANY placement of `@clear_pending_pop`
    that covers the entry points: after every step of every legal sequence of calls (assert, push n, pop n,
    reset, solve, is_sat / is_valid / is_unsat / solve([f]), reading `assertions`) nothing raised, the `assertions`
    property returns exactly the live assertions, and a `solve()` would run on exactly the live assertions. -/
theorem track_refines_stack (cfg : Config) (hc : Covers cfg = true) : TrackRefines cfg :=
  trackRefines_of_covers hc

/-- The placement condition is sufficient for the one-shot queries to be invisible to every later observation —
    also for queries that end with an exception (unknown result of the check, failing assertion of the formula). -/
theorem placement_sufficient (cfg : Config) (hc : Covers cfg = true) : OneshotRestores cfg :=
  oneshotRestores_of_covers hc

/-- Every concrete solver class of the tree that uses `Solver.is_sat` satisfies the placement condition (decided over
    the table regenerated from the source: removing a decorator in /repo breaks this theorem). -/
theorem placement_table : ∀ c ∈ classes, isConcrete classes c = true → usesBaseIsSat classes c = true →
    Covers (configOf classes c) = true ∧ extrasCovered classes c = true :=
  placement_table_holds

/-- The glue route `SmtLibScript.evaluate(solver)` / `InterpreterSMT`: a legal script without optimisation commands,
    executed command by command (`interp`: assert → add_assertion, push n → push(n), pop n → pop(n), reset-assertions →
    reset_assertions(), check-sat → solve()) on a solver whose placement covers the entry points, raises nothing, and
    afterwards the solver's `assertions` list and the formula `get_last_formula` reports for the same script are the same
    list: the live assertions.  (Holds for every prefix too: prefixes of legal plain scripts are legal and plain.) -/
theorem evaluate_agrees (cfg : Config) (hc : Covers cfg = true) (cmds : List Cmd) (hp : cmds.all Plain = true)
    (s : Stack) (hs : run cmds = some s) :
    ∃ st, SolverTrack.run cfg (interp cmds) = .ok st ∧
      (cfg.tracking = true → observe cfg st = .ok (live s) ∧ (Script.lastFormula cmds).map Prod.fst = .ok (live s)) ∧
      (cfg.native = true ∨ cfg.tracking = true → wouldCheck cfg st = .ok (live s)) :=
  Proofs.C16.evaluate_agrees hc cmds hp s hs

/-- Every component of the placement condition except the decorator on `pop` is also NECESSARY: a placement that
    implements `push`, has something to observe (native stack or assertion list) and misses the decorator on
    add_assertion, push, solve, reset_assertions (with a native stack) or `assertions` (with a list) violates
    `TrackRefines` on one of seven fixed histories (`Proofs.C16.witnesses`).  The decorator on `pop` is not needed for
    these statements: an undecorated `pop n` followed by the pending pop removes the same levels. -/
theorem placement_necessary (cfg : Config) (hp : cfg.pushSupported = true)
    (ho : cfg.native = true ∨ cfg.tracking = true) (hc : Covers { cfg with dPop := true } = false) :
    ¬ TrackRefines cfg := by
  obtain ⟨a, b, p, d, e, f, g, h, i, j, k⟩ := cfg
  simp only at hp ho hc
  subst hp
  exact not_trackRefines_of_refuted (refuted_of_not_covers a b d e f g h j k (by
    cases ho with
    | inl h1 => simp [h1]
    | inr h1 => simp [h1]) hc p)

/-- For every concrete solver class of the tree: one-shot queries — `is_sat`, `is_valid`, `is_unsat`, `solve([f])`
    with `f` passed natively or asserted in a temporary level, answering or raising — leave the assertions as they
    found them, and the class refines the assertion stack.
    PARTIAL: `OneshotRestores` / `TrackRefines` exclude (`Admits`) the histories in which asserting an assumption
    raises when the class does not protect its `pending_pop` assignment (`assumeGuarded = false`); for those
    histories the statement is false (`assume_path_leaks`, finding F44).  Full statement: `OneshotRestoresFull`. -/
theorem oneshot_restores_partial : ∀ c ∈ classes, isConcrete classes c = true → usesBaseIsSat classes c = true →
    OneshotRestores (configOf classes c) ∧ TrackRefines (configOf classes c) :=
  fun c hc h1 h2 =>
    ⟨oneshotRestores_of_covers (placement_table_holds c hc h1 h2).1,
     trackRefines_of_covers (placement_table_holds c hc h1 h2).1⟩

/-- … without the exclusion for the classes whose assumption path is protected (Z3Solver since the repair) and for
    those that have no such path (the table says which). -/
theorem oneshot_restores_guarded : ∀ c ∈ classes, isConcrete classes c = true → usesBaseIsSat classes c = true →
    (configOf classes c).assumeGuarded = true → OneshotRestoresFull (configOf classes c) :=
  fun c hc h1 h2 hg => full_of_guarded hg (oneshotRestores_of_covers (placement_table_holds c hc h1 h2).1)

/-- The exclusion is needed: with every decorator in place but the assumption path unprotected (MathSAT5Solver; Z3Solver
    before the repair) `push; assert 2; solve([f])` raising while it asserts `f`; `pop` leaves `2` asserted. -/
theorem assume_path_leaks : ¬ OneshotRestoresFull unguardedTracking :=
  not_full_unguarded

/-! ## Non-vacuity: the hypotheses are satisfiable, the statements say something -/

-- a legal script with multi-level push/pop, soft clauses coming and going, objectives
example : Legal [.assert 1, .soft 0 10 1, .push 2, .assert 2, .soft 0 11 2, .soft 1 12 1, .objective 5, .pop 1,
    .soft 1 13 1, .push 1, .assert 4, .pop 2, .assert 5] := by decide
example : Script.lastFormula [.assert 1, .soft 0 10 1, .push 2, .assert 2, .soft 0 11 2, .soft 1 12 1, .objective 5,
    .pop 1, .soft 1 13 1, .push 1, .assert 4, .pop 2, .assert 5] = .ok ([1, 5], [.maxsmt [(10, 1)]]) := rfl
example : Script.lastFormula [.push 1, .soft 1 12 1, .objective 5, .soft 1 13 2, .assert 3] =
    .ok ([3], [.maxsmt [(12, 1), (13, 2)], .obj 5]) := rfl
-- illegal scripts exist and are excluded (the model then reports Python's IndexError)
example : ¬ Legal [.push 1, .pop 2] := by decide
example : Script.lastFormula [.push 1, .pop 2] = .error .indexError := rfl
-- strict formula: accepted and refused scripts
example : Script.strictFormula [.assert 1, .check, .assert 2] = .ok [1, 2] := rfl
example : Script.strictFormula [.assert 1, .reset, .assert 2, .check] = .error .valueError := rfl
example : Script.strictFormula [.assert 1, .check, .check] = .error .valueError := rfl

/-- the placement of Z3Solver / MathSAT5Solver / BoolectorSolver -/
def allDecorated : Config := ⟨true, true, true, true, true, true, true, true, true, true, true⟩
/-- the placement CVC5Solver / CVC4Solver had before the repair (finding F27) -/
def noneDecorated : Config := ⟨false, false, false, false, false, false, false, true, true, false, false⟩

example : Covers allDecorated = true := by decide
example : LegalOps [.assert 2, .oneshot .isValid 4, .push 2, .assert 6, .oneshot .isSat 8, .pop 1, .read, .solve] := by
  decide
-- the pending pop really is pending after a one-shot query, and is undone by the next call
example : (SolverTrack.run allDecorated [.assert 2, .oneshot .isSat 4]).map (fun st => (st.tracked, st.pending)) =
    .ok ([2, 4], true) := rfl
example : (SolverTrack.run allDecorated [.assert 2, .oneshot .isSat 4, .solve]).map (fun st => (st.tracked, st.checks)) =
    .ok ([2], [[2], [2, 4]]) := rfl
-- the glue route: a plain legal script and the calls it makes
example : interp [.assert 1, .other, .push 2, .assert 3, .check, .pop 2, .reset] =
    [.assert 1, .push 2, .assert 3, .solve, .pop 2, .reset] := rfl
example : [Cmd.assert 1, .other, .push 2, .assert 3, .check, .pop 2].all Plain = true ∧
    Legal [.assert 1, .other, .push 2, .assert 3, .check, .pop 2] := by decide
-- a query that raises (unknown result / formula that cannot be asserted) also leaves a pending pop behind …
example : (SolverTrack.run allDecorated [.assert 2, .oneshotFails .isSat .solve 4]).map
    (fun st => (st.native, st.tracked, st.pending)) = .ok ([[4], [2]], [2, 4], true) := rfl
example : (SolverTrack.run allDecorated [.assert 2, .oneshotFails .isValid .add 4]).map
    (fun st => (st.native, st.tracked, st.pending)) = .ok ([[], [2]], [2], true) := rfl
-- … which the next call removes
example : (SolverTrack.run allDecorated [.assert 2, .oneshotFails .isSat .solve 4, .solveFails, .read]).map
    (fun st => (st.native, st.tracked, st.checks)) = .ok ([[2]], [2], [[2], [2, 4]]) := rfl
example : LegalOps [.assert 2, .oneshotFails .isSat .solve 4, .push 1, .oneshotFails .isUnsat .add 6, .pop 1] := by decide
example : (Op.oneshotFails .isSat .solve 4).isOneshot = true := rfl
-- solve([f]) through a temporary level: pending afterwards, removed by the next call; protected when asserting raises
example : (SolverTrack.run allDecorated [.assert 2, .assumingPush 6]).map
    (fun st => (st.native, st.tracked, st.pending, st.checks)) = .ok ([[6], [2]], [2, 6], true, [[2, 6]]) := rfl
example : (SolverTrack.run allDecorated [.push 1, .assert 2, .assumingPushFails 6, .pop 1, .read]).map
    (fun st => (st.native, st.tracked)) = .ok ([[]], []) := rfl
example : Admits unguardedTracking [.assert 2, .assumingPush 6, .oneshotFails .isSat .add 4] := by decide
example : ¬ Admits unguardedTracking [.assumingPushFails 6] := by decide
-- hypotheses of `placement_necessary` are satisfiable by placements that miss exactly one decorator
example : Covers { (⟨false, true, true, true, true, true, true, true, true, true, true⟩ : Config) with dPop := true } = false := by
  decide
example : Covers ⟨true, true, false, true, true, true, true, true, true, true, true⟩ = false := by decide
-- the placement condition is needed: with no decorator the one-shot formula stays asserted (F27) …
example : Covers noneDecorated = false := by decide
example : (SolverTrack.run noneDecorated [.assert 2, .oneshot .isSat 4, .solve]).map (fun st => st.checks) =
    .ok [[2, 4], [2, 4]] := rfl
-- … and leaving out a single one (here `reset_assertions`) makes a later call fail in the native solver
example : SolverTrack.run ⟨true, true, true, false, true, true, true, true, true, false, false⟩
    [.oneshot .isSat 4, .reset, .assert 2] = .error .nativeError := rfl
-- the table contains the classes the theorems talk about
example : (classes.filter fun c => isConcrete classes c && usesBaseIsSat classes c).length ≥ 10 :=
  table_has_classes

end PySMT.Props.C16
