import PySMT.Proofs.C16Main
/-!
# C16 — Scripts and incremental solvers track exactly the live assertions

Property theorems only (proofs in `PySMT/Proofs/C16*.lean`).  All of them quantify over ALL command sequences
that are legal in SMT-LIB: no bound on the length, on the arguments of push/pop, on the number of identifiers.
`Spec` = `PySMT/Spec/AssertStack.lean`, models = `PySMT/Impl/Script.lean`, `PySMT/Impl/SolverTrack.lean`,
decorator table = `PySMT/Gen/PendingPop.lean` (regenerated from /repo on every run).
-/

namespace PySMT.Props.C16
open PySMT.AssertStack PySMT.SolverTrack PySMT.Proofs.C16
open PySMT.Gen.PendingPop (classes)

/-- `get_last_formula` on a legal script: no exception, and the reported conjunction is exactly the list of live
    assertions (in order, with multiplicity). -/
theorem script_refines_stack (cmds : List Cmd) (h : Legal cmds) :
    ∃ s, run cmds = some s ∧ (Script.lastFormula cmds).map Prod.fst = .ok (live s) := by
  unfold Legal at h
  cases hs : run cmds with
  | none => simp [hs] at h
  | some s => exact ⟨s, rfl, by rw [lastFormula_refines cmds s hs]; rfl⟩

/-- … and the reported goals are exactly the live goals: objectives in order, one MaxSMT goal per identifier, placed
    at its first live soft clause and holding exactly the live soft clauses of that identifier. -/
theorem goals_refine (cmds : List Cmd) (h : Legal cmds) :
    ∃ s, run cmds = some s ∧ (Script.lastFormula cmds).map Prod.snd = .ok (liveGoals s) := by
  unfold Legal at h
  cases hs : run cmds with
  | none => simp [hs] at h
  | some s => exact ⟨s, rfl, by rw [lastFormula_refines cmds s hs]; rfl⟩

/-- `get_strict_formula` accepts a script iff it has no push / pop / reset-assertions and exactly one check-sat, and
    then returns the conjunction of its assert commands … -/
theorem strict_ok (cmds : List Cmd) (fs : List Nat) :
    Script.strictFormula cmds = .ok fs ↔
      (cmds.any Script.isStackCmd = false ∧ (cmds.filter Script.isCheck).length = 1) ∧
        fs = Script.assertsOfCmds cmds :=
  strictFormula_ok_iff cmds fs

/-- … which are exactly the live assertions of the (then necessarily legal) script. -/
theorem strict_live (cmds : List Cmd) (fs : List Nat) (h : Script.strictFormula cmds = .ok fs) :
    ∃ s, run cmds = some s ∧ fs = live s :=
  strictFormula_live cmds fs h

/-- `IncrementalTrackingSolver` bookkeeping + `pending_pop` protocol, for ANY placement of `@clear_pending_pop`
    that covers the entry points: after every step of every legal sequence of calls (assert, push n, pop n,
    reset, solve, is_sat / is_valid / is_unsat / solve([f]), reading `assertions`) nothing raised, the `assertions`
    property returns exactly the live assertions, and a `solve()` would run on exactly the live assertions. -/
theorem track_refines_stack (cfg : Config) (hc : Covers cfg = true) : TrackRefines cfg :=
  trackRefines_of_covers hc

/-- The placement condition is sufficient for the one-shot queries to be invisible to every later observation —
    also for queries that end with an exception (unknown result of the check, failing assertion of the formula). -/
theorem placement_sufficient (cfg : Config) (hc : Covers cfg = true) : OneshotRestores cfg :=
  oneshotRestores_of_covers hc

/-- Every concrete solver class of the tree that uses `Solver.is_sat` satisfies the placement condition (decided over
    the table regenerated from the source: removing a decorator in /repo breaks this theorem). -/
theorem placement_table : ∀ c ∈ classes, isConcrete classes c = true → usesBaseIsSat classes c = true →
    Covers (configOf classes c) = true ∧ extrasCovered classes c = true :=
  placement_table_holds

/-- Hence, for every concrete solver class of the tree: one-shot queries, whether they answer or raise, leave the
    assertions as they found them. -/
theorem oneshot_restores : ∀ c ∈ classes, isConcrete classes c = true → usesBaseIsSat classes c = true →
    OneshotRestores (configOf classes c) ∧ TrackRefines (configOf classes c) :=
  fun c hc h1 h2 =>
    ⟨oneshotRestores_of_covers (placement_table_holds c hc h1 h2).1,
     trackRefines_of_covers (placement_table_holds c hc h1 h2).1⟩

/-! ## Non-vacuity: the hypotheses are satisfiable, the statements say something -/

-- a legal script with multi-level push/pop, soft clauses coming and going, objectives
example : Legal [.assert 1, .soft 0 10 1, .push 2, .assert 2, .soft 0 11 2, .soft 1 12 1, .objective 5, .pop 1,
    .soft 1 13 1, .push 1, .assert 4, .pop 2, .assert 5] := by decide
example : Script.lastFormula [.assert 1, .soft 0 10 1, .push 2, .assert 2, .soft 0 11 2, .soft 1 12 1, .objective 5,
    .pop 1, .soft 1 13 1, .push 1, .assert 4, .pop 2, .assert 5] = .ok ([1, 5], [.maxsmt [(10, 1)]]) := rfl
example : Script.lastFormula [.push 1, .soft 1 12 1, .objective 5, .soft 1 13 2, .assert 3] =
    .ok ([3], [.maxsmt [(12, 1), (13, 2)], .obj 5]) := rfl
-- illegal scripts exist and are excluded (the model then reports Python's IndexError)
example : ¬ Legal [.push 1, .pop 2] := by decide
example : Script.lastFormula [.push 1, .pop 2] = .error .indexError := rfl
-- strict formula: accepted and refused scripts
example : Script.strictFormula [.assert 1, .check, .assert 2] = .ok [1, 2] := rfl
example : Script.strictFormula [.assert 1, .reset, .assert 2, .check] = .error .valueError := rfl
example : Script.strictFormula [.assert 1, .check, .check] = .error .valueError := rfl

/-- the placement of Z3Solver / MathSAT5Solver / BoolectorSolver -/
def allDecorated : Config := ⟨true, true, true, true, true, true, true, true, true⟩
/-- the placement CVC5Solver / CVC4Solver had before the repair (finding F27) -/
def noneDecorated : Config := ⟨false, false, false, false, false, false, false, true, true⟩

example : Covers allDecorated = true := by decide
example : LegalOps [.assert 2, .oneshot .isValid 4, .push 2, .assert 6, .oneshot .isSat 8, .pop 1, .read, .solve] := by
  decide
-- the pending pop really is pending after a one-shot query, and is undone by the next call
example : (SolverTrack.run allDecorated [.assert 2, .oneshot .isSat 4]).map (fun st => (st.tracked, st.pending)) =
    .ok ([2, 4], true) := rfl
example : (SolverTrack.run allDecorated [.assert 2, .oneshot .isSat 4, .solve]).map (fun st => (st.tracked, st.checks)) =
    .ok ([2], [[2], [2, 4]]) := rfl
-- a query that raises (unknown result / formula that cannot be asserted) also leaves a pending pop behind …
example : (SolverTrack.run allDecorated [.assert 2, .oneshotFails .isSat .solve 4]).map
    (fun st => (st.native, st.tracked, st.pending)) = .ok ([[4], [2]], [2, 4], true) := rfl
example : (SolverTrack.run allDecorated [.assert 2, .oneshotFails .isValid .add 4]).map
    (fun st => (st.native, st.tracked, st.pending)) = .ok ([[], [2]], [2], true) := rfl
-- … which the next call removes
example : (SolverTrack.run allDecorated [.assert 2, .oneshotFails .isSat .solve 4, .solveFails, .read]).map
    (fun st => (st.native, st.tracked, st.checks)) = .ok ([[2]], [2], [[2], [2, 4]]) := rfl
example : LegalOps [.assert 2, .oneshotFails .isSat .solve 4, .push 1, .oneshotFails .isUnsat .add 6, .pop 1] := by decide
example : (Op.oneshotFails .isSat .solve 4).isOneshot = true := rfl
-- the placement condition is needed: with no decorator the one-shot formula stays asserted (F27) …
example : Covers noneDecorated = false := by decide
example : (SolverTrack.run noneDecorated [.assert 2, .oneshot .isSat 4, .solve]).map (fun st => st.checks) =
    .ok [[2, 4], [2, 4]] := rfl
-- … and leaving out a single one (here `reset_assertions`) makes a later call fail in the native solver
example : SolverTrack.run ⟨true, true, true, false, true, true, true, true, true⟩
    [.oneshot .isSat 4, .reset, .assert 2] = .error .nativeError := rfl
-- the table contains the classes the theorems talk about
example : (classes.filter fun c => isConcrete classes c && usesBaseIsSat classes c).length ≥ 10 :=
  table_has_classes

end PySMT.Props.C16
