import PySMT.Impl.Script
namespace PySMT.Props.C16
theorem stub_partial : True := trivial
end PySMT.Props.C16
